(* C07: proofs about the composition Model/Pipeline.v.  Every statement about a component is IMPORTED:
     C09_accounting (parser), no_panic_lemma of C15 (transforms), C13_transform_cases (parseTime),
     C14_transform (redactEmail), local_goc_spec / local_goc_total of C06 (orchestrator),
     C09_to_valid_utf8_valid + C09_utf8_valid_iff (label rule), serialize_fixed_total (C10's encode_buf_spec),
     C08_never_full / C08_connection_single_line (framing).
   What is proved here is the glue: field locators, that the field array keeps its length through every
   transform, the state invariant of the orchestrator's pipeline table, and the fold over records. *)
From SV Require Import Model.Common.
From SV Require Model.Utf8 Model.Parser Model.ParseTime Model.Redact Model.Template Model.Extractor Model.Transforms
               Model.Routing Model.Serializer Model.PipelineSerializer Model.Packer Model.Framing.
From SV Require Import Model.Pipeline.
From SV Require Spec.Utf8Spec Spec.SyslogSpec Spec.SerializerSpec Spec.FramingSpec.
From SV Require Proofs.ParserProofs Proofs.TransformsProofs Proofs.RoutingProofs Proofs.TagTemplateProofs
               Proofs.SerializerProofs Proofs.PipelineSerializerProofs.
From SV Require Props.C08 Props.C09 Props.C13 Props.C14.
From Coq Require Import Lia ZifyBool ZifyN ZifyNat.
Ltac Zify.zify_post_hook ::= Z.div_mod_to_equations.

Module Ps := SV.Model.Parser.
Module T := SV.Model.Transforms.
Module R := SV.Model.Routing.
Module S := SV.Model.Serializer.
Module K := SV.Model.Packer.
Module F := SV.Model.Framing.
Module TP := SV.Proofs.TransformsProofs.
Module RP := SV.Proofs.RoutingProofs.
Module SS := SV.Spec.SerializerSpec.

(* ================================================================================================ *)
(* field locators                                                                                   *)

Lemma set_nth_length : forall (fs : list bytes) loc v, length (T.set_nth fs loc v) = length fs.
Proof. induction fs as [|x fs IH]; intros [|loc] v; cbn; try reflexivity. rewrite IH. reflexivity. Qed.

Lemma set_checked_ok : forall fs loc v, (loc < length fs)%nat ->
  exists fs', set_checked fs loc v = Ok fs' /\ length fs' = length fs.
Proof.
  intros fs loc v H. unfold set_checked. replace (loc <? length fs)%nat with true by lia.
  eexists. split; [reflexivity|apply set_nth_length].
Qed.

Lemma get_checked_ok : forall fs loc, (loc < length fs)%nat -> exists v, get_checked fs loc = Ok v.
Proof.
  intros fs loc H. unfold get_checked. destruct (nth_error fs loc) eqn:E; [eauto|].
  apply nth_error_None in E. lia.
Qed.

Definition locs_ok (nf : nat) (l : field_locs) : Prop :=
  (l_facility l < nf /\ l_level l < nf /\ l_time l < nf /\ l_host l < nf /\ l_app l < nf /\ l_pid l < nf /\
   l_source l < nf /\ l_extradata l < nf /\ l_log l < nf)%nat.

Lemma place_ok : forall nf l r, locs_ok nf l -> exists fs, place nf l r = Ok fs /\ length fs = nf.
Proof.
  intros nf l r (H1 & H2 & H3 & H4 & H5 & H6 & H7 & H8 & H9). unfold place.
  destruct (set_checked_ok (repeat [] nf) (l_facility l) (Ps.f_facility r)) as (f1 & E1 & L1); [rewrite repeat_length; lia|].
  rewrite repeat_length in L1. rewrite E1. cbn [pbind].
  destruct (set_checked_ok f1 (l_level l) (Ps.f_level r)) as (f2 & E2 & L2); [lia|]. rewrite E2. cbn [pbind].
  destruct (set_checked_ok f2 (l_time l) (Ps.f_time r)) as (f3 & E3 & L3); [lia|]. rewrite E3. cbn [pbind].
  destruct (set_checked_ok f3 (l_host l) (Ps.f_host r)) as (f4 & E4 & L4); [lia|]. rewrite E4. cbn [pbind].
  destruct (set_checked_ok f4 (l_app l) (Ps.f_app r)) as (f5 & E5 & L5); [lia|]. rewrite E5. cbn [pbind].
  destruct (set_checked_ok f5 (l_pid l) (Ps.f_pid r)) as (f6 & E6 & L6); [lia|]. rewrite E6. cbn [pbind].
  destruct (set_checked_ok f6 (l_source l) (Ps.f_source r)) as (f7 & E7 & L7); [lia|]. rewrite E7. cbn [pbind].
  destruct (set_checked_ok f7 (l_extradata l) (Ps.f_extradata r)) as (f8 & E8 & L8); [lia|]. rewrite E8. cbn [pbind].
  destruct (set_checked_ok f8 (l_log l) (Ps.f_log r)) as (f9 & E9 & L9); [lia|]. exists f9. split; [exact E9|lia].
Qed.

Lemma extract_keys_ok : forall locs fs, Forall (fun l => (l < length fs)%nat) locs ->
  exists ks, extract_keys locs fs = Ok ks /\ length ks = length locs.
Proof.
  induction locs as [|l locs IH]; intros fs H; [exists []; split; reflexivity|].
  inversion H as [|? ? Hl Hr]; subst. cbn [extract_keys].
  destruct (get_checked_ok fs l Hl) as [v Ev]. rewrite Ev. cbn [pbind].
  destruct (IH fs Hr) as (ks & Ek & Lk). rewrite Ek. cbn [pbind]. exists (v :: ks). split; [reflexivity|cbn; lia].
Qed.

(* ================================================================================================ *)
(* the field array keeps its length through every C15 transform                                      *)

Section Nfields.
Variable O : T.oracles.

Notation nf r := (length (T.r_fields r)).

Lemma nf_set : forall r loc v, nf (T.set_field r loc v) = nf r.
Proof. intros. cbn. apply set_nth_length. Qed.

Lemma addfields_nf : forall pairs r r', T.run_addfields pairs r = Ok r' -> nf r' = nf r.
Proof.
  intros pairs r r' H. destruct (TP.addfields_no_panic pairs r) as (r2 & E & Hn). rewrite E in H. inversion H; subst.
  exact Hn.
Qed.

Lemma delfields_nf : forall locs r, nf (T.run_delfields locs r) = nf r.
Proof. induction locs as [|l locs IH]; intros r; [reflexivity|]. cbn [T.run_delfields]. rewrite IH. apply nf_set. Qed.

Lemma mapvalue_nf : forall loc m d r, nf (T.run_mapvalue loc m d r) = nf r.
Proof. intros. unfold T.run_mapvalue. destruct (Template.get_field (T.r_fields r) loc); [reflexivity|apply nf_set]. Qed.

Lemma extractsp_nf : forall ex src dst r r', T.run_extractsp ex src dst r = Ok r' -> nf r' = nf r.
Proof.
  intros ex src dst r r' H. unfold T.run_extractsp in H.
  destruct (Template.get_field (T.r_fields r) src); [inversion H; reflexivity|].
  destruct (Extractor.extract ex (n :: b)) as [[e rem]| |]; cbn in H; try discriminate.
  match type of H with (if ?c then _ else _) = _ => destruct c end; inversion H; subst; [reflexivity|].
  rewrite !nf_set. reflexivity.
Qed.

Lemma truncate_nf : forall loc maxlen suffix r r', T.run_truncate loc maxlen suffix r = Ok r' -> nf r' = nf r.
Proof.
  intros loc maxlen suffix r r' H. unfold T.run_truncate in H.
  destruct (Z.of_nat (length (Template.get_field (T.r_fields r) loc)) >? maxlen + Z.of_nat (length suffix))%Z;
    [|inversion H; reflexivity].
  destruct (maxlen <? 0)%Z; [discriminate|].
  destruct (TfUtf8.clean_utf8 _) as [tr| |]; cbn in H; try discriminate.
  inversion H; subst. apply nf_set.
Qed.

Lemma unescape_nf : forall loc r r', T.run_unescape loc r = Ok r' -> nf r' = nf r.
Proof.
  intros loc r r' H. unfold T.run_unescape in H. destruct (T.r_unesc r); [inversion H; reflexivity|].
  cbn [T.r_fields] in H. destruct (Template.get_field (T.r_fields r) loc); [inversion H; reflexivity|].
  match type of H with match ?c with _ => _ end = _ => destruct c end; [|inversion H; reflexivity].
  match type of H with match ?c with _ => _ end = _ => destruct c end; inversion H; subst. rewrite nf_set. reflexivity.
Qed.

Lemma replace_nf : forall loc pat repl r, nf (T.run_replace O loc pat repl r) = nf r.
Proof. intros. unfold T.run_replace. destruct (Template.get_field (T.r_fields r) loc); [reflexivity|apply nf_set]. Qed.

Lemma extractre_loop_nf : forall locs idx value r r', T.run_extractre_loop locs idx value r = Ok r' -> nf r' = nf r.
Proof.
  induction locs as [|l locs IH]; intros idx value r r' H; cbn [T.run_extractre_loop] in H; [inversion H; reflexivity|].
  destruct l as [loc|]; [|eapply IH; eassumption].
  destruct idx as [|[a b] idx]; [discriminate|].
  destruct ((a <? 0) || (b <? 0))%Z; [eapply IH; eassumption|].
  destruct (Template.go_slice value a b) as [v| |]; cbn in H; try discriminate.
  rewrite (IH _ _ _ _ H). apply nf_set.
Qed.

Lemma extractre_nf : forall loc pat locs r r', T.run_extractre O loc pat locs r = Ok r' -> nf r' = nf r.
Proof.
  intros loc pat locs r r' H. unfold T.run_extractre in H.
  destruct (T.o_re_find O pat _); [eapply extractre_loop_nf; eassumption|inversion H; reflexivity].
Qed.

Lemma lift_ok : forall t cs o t' cs' r' b, T.lift t cs o = Ok (t', cs', r', b) -> o = Ok r'.
Proof. intros t cs [r| |] t' cs' r' b H; cbn in H; inversion H; reflexivity. Qed.

Lemma run_tf_nf_all :
  (forall t cs r t' cs' r' b, T.run_tf O t cs r = Ok (t', cs', r', b) -> nf r' = nf r) /\
  (forall ts cs r ts' cs' r' b, T.run_tfs O ts cs r = Ok (ts', cs', r', b) -> nf r' = nf r) /\
  (forall ks cs r ks' cs' r' b, T.run_cases O ks cs r = Ok (ks', cs', r', b) -> nf r' = nf r).
Proof.
  apply TP.tf_mutind.
  - intros pairs cs r t' cs' r' b H. cbn [T.run_tf] in H. apply lift_ok in H. eapply addfields_nf; eassumption.
  - intros locs cs r t' cs' r' b H. cbn [T.run_tf] in H. inversion H; subst. apply delfields_nf.
  - intros loc m d cs r t' cs' r' b H. cbn [T.run_tf] in H. inversion H; subst. apply mapvalue_nf.
  - intros m th IH cs r t' cs' r' b H. rewrite TP.if_spec_lemma in H. destruct (T.matches O m (T.r_fields r)).
    + destruct (T.run_tfs O th cs r) as [[[[th2 cs2] r2] b2]| |] eqn:E; try discriminate. inversion H; subst.
      eapply IH; eassumption.
    + inversion H; reflexivity.
  - intros ks IH cs r t' cs' r' b H. rewrite TP.run_tf_switch in H.
    destruct (T.run_cases O ks cs r) as [[[[ks2 cs2] r2] b2]| |] eqn:E; try discriminate. inversion H; subst.
    eapply IH; eassumption.
  - intros bl IH cs r t' cs' r' b H. rewrite TP.block_spec_lemma in H.
    destruct (T.run_tfs O bl cs r) as [[[[b2 cs2] r2] p2]| |] eqn:E; try discriminate. inversion H; subst.
    eapply IH; eassumption.
  - intros m rate label matched dropped cs r t' cs' r' b H. rewrite TP.run_tf_drop in H.
    destruct (T.matches O m (T.r_fields r)).
    + destruct (T.run_drop_matched m rate label matched dropped cs (T.r_rawlen r)) as [[t2 cs2] b2].
      inversion H; reflexivity.
    + inversion H; reflexivity.
  - intros ex src dst cs r t' cs' r' b H. cbn [T.run_tf] in H. apply lift_ok in H. eapply extractsp_nf; eassumption.
  - intros loc maxlen suffix cs r t' cs' r' b H. cbn [T.run_tf] in H. apply lift_ok in H. eapply truncate_nf; eassumption.
  - intros loc cs r t' cs' r' b H. cbn [T.run_tf] in H. apply lift_ok in H. eapply unescape_nf; eassumption.
  - intros loc pat repl cs r t' cs' r' b H. cbn [T.run_tf] in H. inversion H; subst. apply replace_nf.
  - intros loc pat locs cs r t' cs' r' b H. cbn [T.run_tf] in H. apply lift_ok in H. eapply extractre_nf; eassumption.
  - intros cs r ts' cs' r' b H. cbn in H. inversion H; reflexivity.
  - intros t IHt ts IHts cs r ts' cs' r' b H. rewrite TP.run_tfs_cons in H.
    destruct (T.run_tf O t cs r) as [[[[t2 cs2] r2] b2]| |] eqn:E; try discriminate.
    destruct b2.
    + destruct (T.run_tfs O ts cs2 r2) as [[[[ts3 cs3] r3] b3]| |] eqn:E2; try discriminate. inversion H; subst.
      rewrite (IHts _ _ _ _ _ _ E2). eapply IHt; eassumption.
    + inversion H; subst. eapply IHt; eassumption.
  - intros cs r ks' cs' r' b H. cbn in H. inversion H; reflexivity.
  - intros m th IHth ks IHks cs r ks' cs' r' b H. rewrite TP.run_cases_cons in H.
    destruct (T.matches O m (T.r_fields r)).
    + destruct (T.run_tfs O th cs r) as [[[[th2 cs2] r2] b2]| |] eqn:E; try discriminate. inversion H; subst.
      eapply IHth; eassumption.
    + destruct (T.run_cases O ks cs r) as [[[[ks2 cs2] r2] b2]| |] eqn:E; try discriminate. inversion H; subst.
      eapply IHks; eassumption.
Qed.

End Nfields.

(* ================================================================================================ *)
(* programs with parseTime / redactEmail nodes: well-formed programs never panic                    *)

Scheme xtf_ind' := Induction for xtf Sort Prop
  with xtfs_ind' := Induction for xtfs Sort Prop
  with xcases_ind' := Induction for xcases Sort Prop.
Combined Scheme xtf_mutind from xtf_ind', xtfs_ind', xcases_ind'.

Section XRun.
Variable O : T.oracles.
Variable local_off : Z.
Variable nfl : nat.           (* len(record.Fields) *)

(* a C15 leaf is well-formed in C15's sense (extractor shapes, maxLen >= 0, sane regexp oracle); the two new
   transforms need their key locator inside the field array *)
Fixpoint wf_xtf (t : xtf) : Prop :=
  match t with
  | XBase b => TP.wf_tf O b
  | XIf _ th => wf_xtfs th
  | XSwitch ks => wf_xcases ks
  | XBlock b => wf_xtfs b
  | XParseTime loc _ => (loc < nfl)%nat
  | XRedact loc _ => (loc < nfl)%nat
  end
with wf_xtfs (ts : xtfs) : Prop :=
  match ts with XNil => True | XCons t ts' => wf_xtf t /\ wf_xtfs ts' end
with wf_xcases (ks : xcases) : Prop :=
  match ks with XKNil => True | XKCons _ th ks' => wf_xtfs th /\ wf_xcases ks' end.

Notation pnf p := (length (T.r_fields (fst p))).

Lemma parse_time_ok : forall loc label cs (p : prec), (loc < nfl)%nat -> pnf p = nfl ->
  exists cs' p', run_parse_time local_off loc label cs p = Ok (cs', p') /\ pnf p' = nfl.
Proof.
  intros loc label cs [r ts] Hl Hn. cbn [fst] in Hn. unfold run_parse_time.
  destruct (get_checked_ok (T.r_fields r) loc ltac:(lia)) as [v Ev]. rewrite Ev. cbn [pbind].
  pose proof (C13.C13_transform_cases local_off v) as H13.
  destruct (ParseTime.transform_parse_time local_off v); try contradiction; do 2 eexists; (split; [reflexivity|exact Hn]).
Qed.

Lemma redact_ok : forall loc label cs (p : prec), (loc < nfl)%nat -> pnf p = nfl ->
  exists cs' p', run_redact loc label cs p = Ok (cs', p') /\ pnf p' = nfl.
Proof.
  intros loc label cs [r ts] Hl Hn. cbn [fst] in Hn. unfold run_redact.
  destruct (get_checked_ok (T.r_fields r) loc ltac:(lia)) as [v Ev]. rewrite Ev. cbn [pbind].
  destruct (C14.C14_transform v) as (tr & Etr & _). rewrite Etr. cbn [pbind].
  destruct (Redact.tr_counted tr); do 2 eexists; (split; [reflexivity|]); cbn [fst]; [rewrite nf_set|]; exact Hn.
Qed.

Lemma run_xtf_if : forall m th cs p, run_xtf O local_off (XIf m th) cs p =
  if T.matches O m (T.r_fields (fst p)) then
    '(th', cs', p', pass) <~ run_xtfs O local_off th cs p ;; Ok (XIf m th', cs', p', pass)
  else Ok (XIf m th, cs, p, true).
Proof. reflexivity. Qed.
Lemma run_xtf_switch : forall ks cs p, run_xtf O local_off (XSwitch ks) cs p =
  '(ks', cs', p', pass) <~ run_xcases O local_off ks cs p ;; Ok (XSwitch ks', cs', p', pass).
Proof. reflexivity. Qed.
Lemma run_xtf_block : forall b cs p, run_xtf O local_off (XBlock b) cs p =
  '(b', cs', p', pass) <~ run_xtfs O local_off b cs p ;; Ok (XBlock b', cs', p', pass).
Proof. reflexivity. Qed.
Lemma run_xtfs_cons : forall t ts cs p, run_xtfs O local_off (XCons t ts) cs p =
  '(t', cs', p', pass) <~ run_xtf O local_off t cs p ;;
  if pass then '(ts'', cs'', p'', pass') <~ run_xtfs O local_off ts cs' p' ;; Ok (XCons t' ts'', cs'', p'', pass')
  else Ok (XCons t' ts, cs', p', false).
Proof. reflexivity. Qed.
Lemma run_xcases_cons : forall m th ks cs p, run_xcases O local_off (XKCons m th ks) cs p =
  if T.matches O m (T.r_fields (fst p)) then
    '(th', cs', p', pass) <~ run_xtfs O local_off th cs p ;; Ok (XKCons m th' ks, cs', p', pass)
  else '(ks'', cs', p', pass) <~ run_xcases O local_off ks cs p ;; Ok (XKCons m th ks'', cs', p', pass).
Proof. reflexivity. Qed.

Lemma run_x_ok :
  (forall t, wf_xtf t -> forall cs p, pnf p = nfl ->
     exists t' cs' p' b, run_xtf O local_off t cs p = Ok (t', cs', p', b) /\ wf_xtf t' /\ pnf p' = nfl) /\
  (forall ts, wf_xtfs ts -> forall cs p, pnf p = nfl ->
     exists ts' cs' p' b, run_xtfs O local_off ts cs p = Ok (ts', cs', p', b) /\ wf_xtfs ts' /\ pnf p' = nfl) /\
  (forall ks, wf_xcases ks -> forall cs p, pnf p = nfl ->
     exists ks' cs' p' b, run_xcases O local_off ks cs p = Ok (ks', cs', p', b) /\ wf_xcases ks' /\ pnf p' = nfl).
Proof.
  apply xtf_mutind.
  - (* a C15 transform: C15's no-panic theorem and the length lemma above *)
    intros b Hw cs [r ts] Hn. cbn [fst] in Hn. cbn [run_xtf fst snd].
    destruct (proj1 (TP.no_panic_lemma O) b Hw cs r) as (b' & cs' & r' & pass & E & Hw').
    rewrite E. cbn [pbind]. do 4 eexists. split; [reflexivity|]. split; [exact Hw'|]. cbn [fst].
    rewrite (proj1 (run_tf_nf_all O) _ _ _ _ _ _ _ E). exact Hn.
  - intros m th IH Hw cs p Hn. rewrite run_xtf_if. destruct (T.matches O m (T.r_fields (fst p))).
    + destruct (IH Hw cs p Hn) as (th' & cs' & p' & b & E & Hw' & Hn'). rewrite E. cbn [pbind].
      do 4 eexists. split; [reflexivity|]. split; assumption.
    + do 4 eexists. split; [reflexivity|]. split; assumption.
  - intros ks IH Hw cs p Hn. rewrite run_xtf_switch.
    destruct (IH Hw cs p Hn) as (ks' & cs' & p' & b & E & Hw' & Hn'). rewrite E. cbn [pbind].
    do 4 eexists. split; [reflexivity|]. split; assumption.
  - intros bl IH Hw cs p Hn. rewrite run_xtf_block.
    destruct (IH Hw cs p Hn) as (b' & cs' & p' & b & E & Hw' & Hn'). rewrite E. cbn [pbind].
    do 4 eexists. split; [reflexivity|]. split; assumption.
  - intros loc label Hw cs p Hn. cbn [run_xtf].
    destruct (parse_time_ok loc label cs p Hw Hn) as (cs' & p' & E & Hn'). rewrite E. cbn [pbind].
    do 4 eexists. split; [reflexivity|]. split; assumption.
  - intros loc label Hw cs p Hn. cbn [run_xtf].
    destruct (redact_ok loc label cs p Hw Hn) as (cs' & p' & E & Hn'). rewrite E. cbn [pbind].
    do 4 eexists. split; [reflexivity|]. split; assumption.
  - intros _ cs p Hn. do 4 eexists. split; [reflexivity|]. split; [exact I|exact Hn].
  - intros t IHt ts IHts [Ht Hts] cs p Hn. rewrite run_xtfs_cons.
    destruct (IHt Ht cs p Hn) as (t' & cs' & p' & b & E & Hw' & Hn'). rewrite E. cbn [pbind]. destruct b.
    + destruct (IHts Hts cs' p' Hn') as (ts' & cs'' & p'' & b' & E' & Hw'' & Hn''). rewrite E'. cbn [pbind].
      do 4 eexists. split; [reflexivity|]. split; [split; assumption|assumption].
    + do 4 eexists. split; [reflexivity|]. split; [split; assumption|assumption].
  - intros _ cs p Hn. do 4 eexists. split; [reflexivity|]. split; [exact I|exact Hn].
  - intros m th IHth ks IHks [Hth Hks] cs p Hn. rewrite run_xcases_cons. destruct (T.matches O m (T.r_fields (fst p))).
    + destruct (IHth Hth cs p Hn) as (th' & cs' & p' & b & E & Hw' & Hn'). rewrite E. cbn [pbind].
      do 4 eexists. split; [reflexivity|]. split; [split; assumption|assumption].
    + destruct (IHks Hks cs p Hn) as (ks' & cs' & p' & b & E & Hw' & Hn'). rewrite E. cbn [pbind].
      do 4 eexists. split; [reflexivity|]. split; [split; assumption|assumption].
Qed.

End XRun.

(* ================================================================================================ *)
(* the label rule: sanitised values are always accepted by the registry                              *)

Lemma label_ok_sanitised : forall v, label_ok (Utf8.to_valid_utf8 v) = true.
Proof.
  intros v. unfold label_ok. apply (proj2 (C09.C09_utf8_valid_iff _)). apply C09.C09_to_valid_utf8_valid.
Qed.

Lemma labels_ok_fixed : forall vs, forallb label_ok (metric_label_values true vs) = true.
Proof.
  intros vs. unfold metric_label_values. apply forallb_forall. intros x Hx. apply in_map_iff in Hx.
  destruct Hx as (v & <- & _). apply label_ok_sanitised.
Qed.

(* ================================================================================================ *)
(* the per-record pipeline is total                                                                 *)

Section Total.
Variable O : T.oracles.

(* The loader-level side conditions (what run.ParseConfigFile / VerifyConfig establish, see C16):
   level mapping of 8 names; every locator (parser fields, orchestration keys, metric keys, keys of parseTime /
   redactEmail) inside the field array; the schema fits the field array; the tag template only names
   orchestration keys; both transform programs well-formed in C15's sense; every output's serialization section
   accepted by fluentdforward VerifyConfig; and the two repairs in place. *)
(* an output the loader accepts: fluentdforward VerifyConfig; datadog needs nothing for the serializer *)
Definition out_ok (cfg : config) (o : out_cfg) : Prop :=
  match oc_kind o with
  | OFluentd sc => S.verify_config (c_schema cfg) sc = true
  | ODatadog _ => True
  end.

Record config_ok (cfg : config) : Prop := {
  ok_parser : ParserProofs.cfg_ok (c_parser cfg);
  ok_locs : locs_ok (c_nfields cfg) (c_locs cfg);
  ok_schema : (length (c_schema cfg) <= c_nfields cfg)%nat;
  ok_extract : wf_xtfs O (c_nfields cfg) (c_extract cfg);
  ok_transforms : wf_xtfs O (c_nfields cfg) (c_transforms cfg);
  ok_okeys : Forall (fun l => (l < c_nfields cfg)%nat) (c_okeys cfg);
  ok_mkeys : Forall (fun l => (l < c_nfields cfg)%nat) (c_mkeys cfg);
  ok_tag : Forall (TagTemplateProofs.part_wf (length (c_okeys cfg))) (c_tag cfg);
  ok_outputs : Forall (out_ok cfg) (c_outputs cfg);
  ok_fix_labels : c_fix_labels cfg = true;
  ok_fix_ser : c_fix_ser cfg = true
}.

Definition ser_ok (cfg : config) (o : out_cfg) (s : ser_inst) : Prop :=
  match oc_kind o, s with
  | OFluentd sc, SFluentd ser => S.new_serializer (c_schema cfg) sc (c_buflen cfg) = Ok ser
  | ODatadog _, SDatadog masks _ => length masks = length (c_schema cfg)
  | _, _ => False
  end.

Definition sers_ok (cfg : config) (sers : list ser_inst) : Prop := Forall2 (ser_ok cfg) (c_outputs cfg) sers.

Definition pinst_ok (cfg : config) (pi : pinst) : Prop :=
  wf_xtfs O (c_nfields cfg) (pi_tfs pi) /\ sers_ok cfg (pi_sers pi) /\
  length (pi_packs pi) = length (c_outputs cfg) /\ pinst_metrics_ok pi = true.

(* the shared part: C06's invariant of the orchestrator's maps + one constructed pipeline per routing entry *)
Definition ginv (cfg : config) (g : gstate) : Prop :=
  RP.map_ok (R.g_pipes (g_route g)) (R.g_map (g_route g)) /\
  RP.pipes_ok (c_tag cfg) (R.g_pipes (g_route g)) /\ RP.complete (g_route g) /\
  length (g_pipes g) = length (R.g_pipes (g_route g)) /\
  Forall (pinst_ok cfg) (g_pipes g).

(* the part of one connection *)
Definition cinv (cfg : config) (g : gstate) (c : cstate) : Prop :=
  RP.map_ok (R.g_pipes (g_route g)) (cs_local c) /\ wf_xtfs O (c_nfields cfg) (cs_extract c).

Lemma ginv_init : forall cfg, ginv cfg g_init.
Proof.
  intros cfg. unfold ginv, g_init. cbn [g_route g_pipes R.g_init R.g_pipes R.g_map].
  split; [intros mk j []|]. split; [intros [|j] q Hj; discriminate|].
  split; [intros [|j] q Hj; discriminate|]. split; [reflexivity|constructor].
Qed.

(* a NEW connection can be opened on any reachable agent state *)
Lemma cinv_new_conn : forall cfg g, config_ok cfg -> cinv cfg g (new_conn cfg).
Proof. intros cfg g H. split; [apply RP.map_ok_nil|exact (ok_extract cfg H)]. Qed.

Lemma new_serializers_ok : forall cfg tag outs,
  Forall (out_ok cfg) outs ->
  exists sers, new_serializers cfg tag outs = Ok sers /\ Forall2 (ser_ok cfg) outs sers.
Proof.
  induction outs as [|o outs IH]; intros H; [exists []; split; [reflexivity|constructor]|].
  inversion H as [|? ? Ho Hr]; subst. cbn [new_serializers]. destruct (IH Hr) as (sers & E & F).
  unfold out_ok in Ho. destruct (oc_kind o) as [sc|hidden] eqn:Ek.
  - destruct (SerializerProofs.new_serializer_ok (c_schema cfg) sc (c_buflen cfg) Ho) as [s Es]. rewrite Es.
    rewrite E. cbn [pbind]. exists (SFluentd s :: sers). split; [reflexivity|]. constructor; [|exact F].
    unfold ser_ok. rewrite Ek. exact Es.
  - rewrite E. cbn [pbind]. eexists. split; [reflexivity|]. constructor; [|exact F].
    unfold ser_ok. rewrite Ek. apply map_length.
Qed.

Lemma new_pinst_ok : forall cfg p, config_ok cfg -> exists pi, new_pinst cfg p = Ok pi /\ pinst_ok cfg pi.
Proof.
  intros cfg p H. unfold new_pinst. destruct (new_serializers_ok cfg (R.p_tag p) (c_outputs cfg) (ok_outputs cfg H)) as (sers & E & F).
  rewrite E. cbn [pbind]. eexists. split; [reflexivity|]. unfold pinst_ok. cbn.
  split; [exact (ok_transforms cfg H)|]. split; [exact F|]. split; [apply map_length|].
  unfold pinst_metrics_ok. cbn. rewrite (ok_fix_labels cfg H). rewrite labels_ok_fixed. reflexivity.
Qed.

Lemma new_pinsts_ok : forall cfg ps, config_ok cfg ->
  exists pis, new_pinsts cfg ps = Ok pis /\ Forall (pinst_ok cfg) pis /\ length pis = length ps.
Proof.
  induction ps as [|p ps IH]; intros H; [exists []; repeat split; constructor|].
  cbn [new_pinsts]. destruct (new_pinst_ok cfg p H) as (pi & E & Hpi). rewrite E. cbn [pbind].
  destruct (IH H) as (pis & E' & F & L). rewrite E'. cbn [pbind]. exists (pi :: pis).
  split; [reflexivity|]. split; [constructor; assumption|cbn; lia].
Qed.

Lemma skipn_app_exact : forall (A : Type) (l ext : list A) n, n = length l -> skipn n (l ++ ext) = ext.
Proof. intros A l ext n ->. rewrite skipn_app. rewrite skipn_all. rewrite Nat.sub_diag. reflexivity. Qed.

Lemma get_or_create_ok : forall cfg g c okeys,
  config_ok cfg -> ginv cfg g -> cinv cfg g c -> length okeys = length (c_okeys cfg) ->
  exists g1 c1 idx, get_or_create cfg g c okeys = Ok (g1, c1, idx) /\
    ginv cfg g1 /\ cinv cfg g1 c1 /\ (idx < length (g_pipes g1))%nat /\
    cs_input c1 = cs_input c /\ cs_extract c1 = cs_extract c /\ cs_ecnt c1 = cs_ecnt c /\
    (exists ext, g_pipes g1 = g_pipes g ++ ext) /\
    (exists rext, R.g_pipes (g_route g1) = R.g_pipes (g_route g) ++ rext).
Proof.
  intros cfg g c okeys H (Gm & Gp & Gc & Gl & Gf) (Cm & Cx) Hk. unfold get_or_create.
  destruct (TagTemplateProofs.local_goc_total _ _ (g_route g) (cs_local c) okeys (ok_tag cfg H) Hk) as [[[rg lm] i] E].
  rewrite E.
  destruct (RP.local_goc_spec _ _ _ _ _ _ _ Gm Cm Gp Gc E) as ([ext Hext] & Gm' & Cm' & Gp' & Gc' & (p & Hnth & _)).
  rewrite Hext. rewrite (skipn_app_exact _ _ ext _ Gl).
  destruct (new_pinsts_ok cfg ext H) as (news & En & Fn & Ln). rewrite En. cbn [pbind].
  do 3 eexists. split; [reflexivity|]. cbn [g_route g_pipes cs_local cs_input cs_extract cs_ecnt].
  split; [|split; [|split; [|repeat split]]].
  - unfold ginv. cbn [g_route g_pipes].
    split; [exact Gm'|]. split; [exact Gp'|]. split; [exact Gc'|]. split.
    + rewrite Hext. rewrite !app_length. lia.
    + apply Forall_app. split; assumption.
  - split; cbn [g_route cs_local cs_extract]; assumption.
  - rewrite app_length, Gl, Ln, <- app_length. rewrite <- Hext. apply nth_error_Some. congruence.
  - exists news. reflexivity.
  - exists ext. exact Hext.
Qed.

Lemma select_metric_ok : forall cfg pi mkeys, config_ok cfg -> pinst_ok cfg pi ->
  exists pi1, select_metric_key_set cfg pi mkeys = Ok pi1 /\ pinst_ok cfg pi1 /\
    pi_tfs pi1 = pi_tfs pi /\ pi_sers pi1 = pi_sers pi /\ pi_packs pi1 = pi_packs pi /\ pi_tag pi1 = pi_tag pi.
Proof.
  intros cfg pi mkeys H (Hw & Hs & Hp & Hm). unfold select_metric_key_set.
  destruct (R.metric_select (pi_msets pi) mkeys) as [m' i].
  destruct (i <? length (R.m_sets (pi_msets pi)))%nat.
  - exists pi. repeat split; assumption.
  - rewrite (ok_fix_labels cfg H).
    assert (Hwl : (if xtfs_registers (c_transforms cfg) then with_label_values (metric_label_values true mkeys) else Ok tt) = Ok tt).
    { destruct (xtfs_registers (c_transforms cfg)); [|reflexivity]. unfold with_label_values. rewrite labels_ok_fixed. reflexivity. }
    rewrite Hwl. cbn [pbind]. eexists. split; [reflexivity|]. split; [|repeat split].
    unfold pinst_ok. cbn [pi_tfs pi_sers pi_packs]. split; [exact Hw|]. split; [exact Hs|]. split; [exact Hp|].
    unfold pinst_metrics_ok in *. cbn [pi_labels pi_mlabels]. apply andb_true_iff in Hm. destruct Hm as [Hm1 Hm2].
    rewrite Hm1. rewrite forallb_app, Hm2. cbn [forallb andb]. rewrite labels_ok_fixed. reflexivity.
Qed.

(* what the stream of an output must be: for fluentd the complete event of C10's specification *)
Definition stream_ok (cfg : config) (rec : S.record) (o : out_cfg) (stream : bytes) : Prop :=
  match oc_kind o with
  | OFluentd sc => stream = SS.encode_spec (c_schema cfg) sc rec
  | ODatadog _ => True
  end.

Lemma dd_fields_ok : forall names masks fields i,
  length masks = length names -> (i + length names <= length fields)%nat ->
  exists m, dd_fields i names masks fields = Ok m.
Proof.
  induction names as [|n names IH]; intros masks fields i Hm Hl; [exists []; reflexivity|].
  destruct masks as [|m masks]; [discriminate|]. cbn [dd_fields]. cbn [length] in *.
  destruct (IH masks fields (S i) ltac:(lia) ltac:(lia)) as [r Er].
  destruct m; [exists r; exact Er|].
  destruct (get_checked_ok fields i ltac:(lia)) as [v Ev]. rewrite Ev. cbn [pbind]. rewrite Er. cbn [pbind].
  eexists. reflexivity.
Qed.

Lemma run_outputs_ok : forall cfg tag clk (rec : S.record) outs sers packs,
  c_fix_ser cfg = true ->
  (length (c_schema cfg) <= length (S.r_fields rec))%nat ->
  Forall (out_ok cfg) outs ->
  Forall2 (ser_ok cfg) outs sers ->
  length packs = length outs ->
  exists packs' streams chunks,
    run_outputs cfg tag clk outs sers packs rec = Ok (packs', streams, chunks) /\
    Forall2 (stream_ok cfg rec) outs streams /\ length packs' = length outs.
Proof.
  intros cfg tag clk rec outs. induction outs as [|o outs IH]; intros sers packs Hfix Hl Hv Hs Hp.
  - exists [], [], []. split; [reflexivity|]. split; [constructor|reflexivity].
  - inversion Hv as [|? ? Vo Vr]; subst. inversion Hs as [|? s ? sers' So Sr]; subst.
    destruct packs as [|p packs]; [discriminate|]. cbn [run_outputs].
    assert (Hser : exists stream, serialize_with cfg s rec = Ok stream /\ stream_ok cfg rec o stream).
    { unfold ser_ok in So. unfold out_ok in Vo. unfold stream_ok.
      destruct (oc_kind o) as [sc|hidden]; destruct s as [ser|masks tags]; try contradiction.
      - eexists. split; [|reflexivity]. cbn [serialize_with]. rewrite Hfix.
        apply (PipelineSerializerProofs.serialize_fixed_total (c_schema cfg) sc rec (c_buflen cfg) ser
                 (SerializerProofs.verified_chain _ _ Vo) Hl So).
      - cbn [serialize_with]. unfold dd_serialize.
        destruct (dd_fields_ok (c_schema cfg) masks (S.r_fields rec) 0 So ltac:(lia)) as [m Em].
        rewrite Em. cbn [pbind]. eexists. split; [reflexivity|exact I]. }
    destruct Hser as (stream & Es & Hso). rewrite Es. cbn [pbind].
    destruct (K.write_stream bytes stream_len (with_tag (oc_pack o) tag) clk p stream) as [p' ch].
    destruct (IH sers' packs Hfix Hl Vr Sr ltac:(cbn in Hp; lia)) as (packs' & streams & chunks & E & F & L).
    rewrite E. cbn [pbind]. exists (p' :: packs'), (stream :: streams), (ch :: chunks).
    split; [reflexivity|]. split; [constructor; assumption|cbn; lia].
Qed.

Lemma set_pinst_length : forall l i x, length (set_pinst l i x) = length l.
Proof. induction l as [|y l IH]; intros [|i] x; cbn; try reflexivity. rewrite IH. reflexivity. Qed.

Lemma set_pinst_Forall : forall (P : pinst -> Prop) l i x, Forall P l -> P x -> Forall P (set_pinst l i x).
Proof.
  induction l as [|y l IH]; intros [|i] x Hl Hx; cbn; try assumption; inversion Hl; subst; constructor; auto.
Qed.

(* what a passed record looks like: one stream per output, for a fluentd output the complete, non-empty event *)
Definition streams_complete (cfg : config) (rec : S.record) (streams : list bytes) : Prop :=
  Forall2 (stream_ok cfg rec) (c_outputs cfg) streams.

Lemma worker_step_ok : forall cfg pi idx clk (p : prec),
  config_ok cfg -> pinst_ok cfg pi -> length (T.r_fields (fst p)) = c_nfields cfg ->
  exists pi' res, worker_step O cfg pi idx clk p = Ok (pi', res) /\ pinst_ok cfg pi' /\
    (res = RDropTransform idx \/
     exists rec streams chunks, res = RPassed idx streams chunks /\ streams_complete cfg rec streams).
Proof.
  intros cfg pi idx clk p H Hpi Hn. unfold worker_step.
  destruct (extract_keys_ok (c_mkeys cfg) (T.r_fields (fst p))) as (mkeys & Em & _).
  { rewrite Hn. exact (ok_mkeys cfg H). }
  rewrite Em. cbn [pbind].
  destruct (select_metric_ok cfg pi mkeys H Hpi) as (pi1 & E1 & (Hw1 & Hs1 & Hp1 & Hm1) & Et & Es & Ek & Eg).
  rewrite E1. cbn [pbind].
  destruct (proj1 (proj2 (run_x_ok O (c_local_off cfg) (c_nfields cfg))) (pi_tfs pi1) Hw1 (pi_custom pi1) p Hn)
    as (tfs' & cnt' & p2 & pass & Ex & Hw2 & Hn2).
  rewrite Ex. cbn [pbind]. destruct pass.
  - destruct (run_outputs_ok cfg (pi_tag pi1) clk (to_srecord p2) (c_outputs cfg) (pi_sers pi1) (pi_packs pi1)
                (ok_fix_ser cfg H)) as (packs' & streams & chunks & Eo & Fo & Lo).
    { cbn. rewrite Hn2. exact (ok_schema cfg H). }
    { exact (ok_outputs cfg H). }
    { exact Hs1. }
    { exact Hp1. }
    rewrite Eo. cbn [pbind]. do 2 eexists. split; [reflexivity|]. split.
    + unfold pinst_ok. cbn. repeat split; assumption.
    + right. exists (to_srecord p2), streams, chunks. split; [reflexivity|exact Fo].
  - do 2 eexists. split; [reflexivity|]. split.
    + unfold pinst_ok. cbn. repeat split; assumption.
    + left. reflexivity.
Qed.

(* ---------- the theorem for one record ---------- *)

Definition result_shape (cfg : config) (res : rec_result) : Prop :=
  match res with
  | RPassed _ streams _ => exists rec, streams_complete cfg rec streams
  | _ => True
  end.

Lemma process_parsed_total : forall cfg g c now clk r,
  config_ok cfg -> ginv cfg g -> cinv cfg g c ->
  exists g' c' res,
    process_parsed O cfg g c now clk r = Ok (g', c', res) /\
    ginv cfg g' /\ cinv cfg g' c' /\ result_shape cfg res /\ res <> RDropParse /\
    cs_input c' = match res with RDropExtract => pass_to_drop (cs_input c) (Ps.raw_length r) | _ => cs_input c end.
Proof.
  intros cfg g c now clk r H Hg Hc. unfold process_parsed.
  destruct (place_ok (c_nfields cfg) (c_locs cfg) r (ok_locs cfg H)) as (fields & Ef & Lf). rewrite Ef. cbn [pbind].
  set (r0 := {| T.r_fields := fields; T.r_rawlen := Z.of_nat (Ps.raw_length r); T.r_unesc := Ps.unescaped r |}).
  destruct Hc as (Cm & Cx).
  destruct (proj1 (proj2 (run_x_ok O (c_local_off cfg) (c_nfields cfg))) (cs_extract c) Cx (cs_ecnt c) (r0, now) Lf)
    as (ex' & ecnt' & p1 & pass & Ex & Hwx & Hn1).
  rewrite Ex. cbn [pbind]. destruct pass; cbn [negb].
  2:{ do 3 eexists. split; [reflexivity|]. split; [exact Hg|]. split; [split; assumption|]. split; [exact I|].
      split; [discriminate|reflexivity]. }
  destruct (extract_keys_ok (c_okeys cfg) (T.r_fields (fst p1))) as (okeys & Eo & Lo).
  { rewrite Hn1. exact (ok_okeys cfg H). }
  rewrite Eo. cbn [pbind].
  set (c1 := {| cs_input := cs_input c; cs_extract := ex'; cs_ecnt := ecnt'; cs_local := cs_local c |}).
  destruct (get_or_create_ok cfg g c1 okeys H Hg (conj Cm Hwx) Lo)
    as (g1 & c2 & idx & Eg & Hg1 & Hc2 & Hidx & Ci & _).
  rewrite Eg. cbn [pbind].
  destruct (nth_error (g_pipes g1) idx) as [pi|] eqn:En; [|apply nth_error_None in En; lia].
  destruct Hg1 as (Gm & Gp & Gc & Gl & Gf).
  assert (Hpi : pinst_ok cfg pi) by (eapply Forall_forall; [exact Gf|eapply nth_error_In; exact En]).
  destruct (worker_step_ok cfg pi idx clk p1 H Hpi Hn1) as (pi' & res & Ew & Hpi' & Hres).
  rewrite Ew. cbn [pbind]. do 3 eexists. split; [reflexivity|].
  split; [|split; [|split; [|split]]].
  - unfold ginv. cbn [g_route g_pipes].
    split; [exact Gm|]. split; [exact Gp|]. split; [exact Gc|]. split.
    + rewrite set_pinst_length. exact Gl.
    + apply set_pinst_Forall; assumption.
  - destruct Hc2 as (Cm2 & Cx2). split; cbn [g_route]; assumption.
  - destruct Hres as [->|(rec & streams & chunks & -> & Hsc)]; [exact I|]. exists rec. exact Hsc.
  - destruct Hres as [->|(rec & streams & chunks & -> & Hsc)]; discriminate.
  - destruct Hres as [->|(rec & streams & chunks & -> & Hsc)]; exact Ci.
Qed.

(* a record dropped by an extraction: re-counted from passed to dropped (CountRecordPassToDrop) *)
Definition counted_dropped_instead (c c' : Ps.counters) (len : nat) : Prop :=
  (Ps.passed_n c' = Ps.passed_n c /\ Ps.passed_bytes c' = Ps.passed_bytes c /\
   Ps.dropped_n c' = Ps.dropped_n c + 1 /\ Ps.dropped_bytes c' = Ps.dropped_bytes c + N.of_nat len)%N.

Theorem process_record_total : forall cfg g c now clk input,
  config_ok cfg -> ginv cfg g -> cinv cfg g c ->
  exists g' c' res,
    process_record O cfg g c now clk input = Ok (g', c', res) /\
    ginv cfg g' /\ cinv cfg g' c' /\ result_shape cfg res /\
    (* accounting of the input counters: a malformed record is counted dropped exactly once and changes nothing
       else; a record dropped by an extraction is counted dropped exactly once (not passed); every other record is
       counted passed exactly once *)
    match res with
    | RDropParse =>
        fst (Ps.parse (c_parser cfg) (cs_input c) input) = Ok None /\
        SyslogSpec.counted_dropped (cs_input c) (cs_input c') (length input) /\
        g' = g /\ cs_extract c' = cs_extract c /\ cs_ecnt c' = cs_ecnt c /\ cs_local c' = cs_local c
    | RDropExtract => counted_dropped_instead (cs_input c) (cs_input c') (length input) /\ g' = g
    | _ => SyslogSpec.counted_passed (cs_input c) (cs_input c') (length input)
    end.
Proof.
  intros cfg g c now clk input H Hg Hc. unfold process_record.
  destruct (C09.C09_accounting (c_parser cfg) (cs_input c) input (ok_parser cfg H)) as (pres & cnt' & Ep & Hacc).
  rewrite Ep. destruct pres as [r|].
  2:{ (* malformed *)
    do 3 eexists. split; [reflexivity|]. split; [exact Hg|]. split; [exact Hc|]. split; [exact I|].
    cbn [fst with_input cs_input cs_extract cs_ecnt cs_local]. repeat split; try reflexivity; apply Hacc. }
  destruct Hacc as (Hpass & Hraw & _).
  destruct (process_parsed_total cfg g (with_input c cnt') now clk r H Hg Hc) as (g' & c' & res & E & Hg' & Hc' & Hs & Hne & Hi).
  rewrite E. exists g', c', res. split; [reflexivity|]. split; [exact Hg'|]. split; [exact Hc'|]. split; [exact Hs|].
  cbn [with_input cs_input] in Hi. rewrite Hi. destruct res; try exact Hpass; [contradiction|].
  (* dropped by an extraction *)
  split.
  - destruct Hpass as (p1 & p2 & p3 & p4). unfold counted_dropped_instead, pass_to_drop. rewrite Hraw.
    cbn [Ps.passed_n Ps.passed_bytes Ps.dropped_n Ps.dropped_bytes]. repeat split; lia.
  - (* the shared state is untouched *)
    unfold process_parsed in E.
    destruct (place _ _ r) as [fields| |]; cbn [pbind] in E; try discriminate.
    destruct (run_xtfs O _ _ _ _) as [[[[ex' ecnt'] p1] pass]| |]; cbn [pbind] in E; try discriminate.
    destruct pass; cbn [negb] in E; [|inversion E; reflexivity].
    destruct (extract_keys _ _) as [okeys| |]; cbn [pbind] in E; try discriminate.
    destruct (get_or_create _ _ _ _) as [[[g1 c2] idx]| |]; cbn [pbind] in E; try discriminate.
    destruct (nth_error _ _) as [pi|]; [|discriminate].
    unfold worker_step in E.
    destruct (extract_keys _ _) as [mk| |]; cbn [pbind] in E; try discriminate.
    destruct (select_metric_key_set _ _ _) as [pi1| |]; cbn [pbind] in E; try discriminate.
    destruct (run_xtfs O _ _ _ _) as [[[[t2 cn2] p2] pass2]| |]; cbn [pbind] in E; try discriminate.
    destruct pass2; [|discriminate].
    destruct (run_outputs _ _ _ _ _ _ _) as [[[pk st] ch]| |]; cbn [pbind] in E; discriminate.
Qed.

(* ---------- ... and for every sequence of records ---------- *)

Theorem process_records_total : forall cfg inputs g c now clk,
  config_ok cfg -> ginv cfg g -> cinv cfg g c ->
  exists g' c' rs,
    process_records O cfg g c now clk inputs = Ok (g', c', rs) /\
    ginv cfg g' /\ cinv cfg g' c' /\ length rs = length inputs /\ Forall (result_shape cfg) rs.
Proof.
  intros cfg inputs. induction inputs as [|x inputs IH]; intros g c now clk H Hg Hc.
  - exists g, c, []. split; [reflexivity|]. split; [exact Hg|]. split; [exact Hc|]. split; [reflexivity|constructor].
  - cbn [process_records].
    destruct (process_record_total cfg g c now clk x H Hg Hc) as (g1 & c1 & res & E & Hg1 & Hc1 & Hs & _).
    rewrite E. cbn [pbind].
    destruct (IH g1 c1 now clk H Hg1 Hc1) as (g2 & c2 & rs & E2 & Hg2 & Hc2 & L & F).
    rewrite E2. cbn [pbind]. exists g2, c2, (res :: rs). split; [reflexivity|].
    split; [exact Hg2|]. split; [exact Hc2|]. split; [cbn; lia|constructor; assumption].
Qed.

End Total.

(* ================================================================================================ *)
(* one TCP connection: every stream, every fragmentation, every timing                               *)

Section Stream.
Variable O : T.oracles.

(* the framing layer alone (C08_never_full): never a panic, never a busy loop, and room for a record of maximal
   length is left after every operation *)
Lemma conn_records_total : forall cfg evs, (1 <= record_limit cfg)%nat ->
  exists records, conn_records cfg evs = Ok records.
Proof.
  intros cfg evs Hl. unfold conn_records.
  destruct (C08.C08_never_full F.trs (c_linebuf cfg) (record_limit cfg) (F.conn_ops evs) Hl) as (st' & out & E & _).
  rewrite E. eauto.
Qed.

Theorem conn_run_total : forall cfg g now clk evs,
  config_ok O cfg -> ginv O cfg g -> (1 <= record_limit cfg)%nat ->
  exists g' c' rs, conn_run O cfg g now clk evs = Ok (g', c', rs) /\ ginv O cfg g' /\ cinv O cfg g' c' /\
                   Forall (result_shape cfg) rs.
Proof.
  intros cfg g now clk evs H Hg Hl. unfold conn_run.
  destruct (conn_records_total cfg evs Hl) as [records E]. rewrite E. cbn [pbind].
  destruct (process_records_total O cfg records g (new_conn cfg) now clk H Hg (cinv_new_conn O cfg g H))
    as (g' & c' & rs & E' & Hg' & Hc' & _ & F').
  exists g', c', rs. split; [exact E'|]. split; [exact Hg'|]. split; [exact Hc'|exact F'].
Qed.

(* ---------- malformed records between well-formed ones ---------- *)

(* the parser's verdict on a record does not depend on the counters (C09_history_independent) *)
Definition malformed (cfg : config) (x : bytes) : bool :=
  match fst (Ps.parse (c_parser cfg) Ps.counters_zero x) with
  | Ok None => true
  | _ => false
  end.

Definition is_drop_parse (r : rec_result) : bool := match r with RDropParse => true | _ => false end.

Lemma parse_split : forall cfg cnt x, ParserProofs.cfg_ok (c_parser cfg) ->
  Ps.parse (c_parser cfg) cnt x =
  (fst (Ps.parse (c_parser cfg) Ps.counters_zero x),
   ParserProofs.counters_add cnt (snd (Ps.parse (c_parser cfg) Ps.counters_zero x))).
Proof. intros cfg cnt x H. apply C09.C09_history_independent. exact H. Qed.

(* the input counters are only carried along by everything behind the parser *)
Lemma get_or_create_input : forall cfg g c okeys cnt,
  get_or_create cfg g (with_input c cnt) okeys =
  match get_or_create cfg g c okeys with
  | Ok (g', c', i) => Ok (g', with_input c' cnt, i)
  | Err e => Err e
  | Panic s => Panic s
  end.
Proof.
  intros cfg g c okeys cnt. unfold get_or_create. cbn [with_input cs_local cs_input cs_extract cs_ecnt].
  destruct (R.local_get_or_create (c_tag cfg) (g_route g) (cs_local c) okeys) as [[[rg lm] i]| |]; try reflexivity.
  destruct (new_pinsts cfg (skipn (length (g_pipes g)) (R.g_pipes rg))); reflexivity.
Qed.

(* what the worker answers is never one of the input-side verdicts *)
Lemma worker_step_res : forall cfg pi idx clk p pi' res,
  worker_step O cfg pi idx clk p = Ok (pi', res) -> res <> RDropExtract /\ res <> RDropParse.
Proof.
  intros cfg pi idx clk p pi' res E. unfold worker_step in E.
  destruct (extract_keys _ _) as [mk| |]; cbn [pbind] in E; try discriminate.
  destruct (select_metric_key_set _ _ _) as [pi1| |]; cbn [pbind] in E; try discriminate.
  destruct (run_xtfs O _ _ _ _) as [[[[t2 cn2] p2] pass2]| |]; cbn [pbind] in E; try discriminate.
  destruct pass2.
  - destruct (run_outputs _ _ _ _ _ _ _) as [[[pk st] ch]| |]; cbn [pbind] in E; try discriminate.
    inversion E; subst. split; discriminate.
  - inversion E; subst. split; discriminate.
Qed.

(* everything behind the parser only carries the input counters along - except a DROP in the extractions, which
   re-counts the record *)
Lemma process_parsed_input : forall cfg g c now clk r cnt,
  process_parsed O cfg g (with_input c cnt) now clk r =
  match process_parsed O cfg g c now clk r with
  | Ok (g', c', res) =>
    Ok (g', with_input c' (match res with RDropExtract => pass_to_drop cnt (Ps.raw_length r) | _ => cnt end), res)
  | Err e => Err e
  | Panic s => Panic s
  end.
Proof.
  intros cfg g c now clk r cnt. unfold process_parsed. cbn [with_input cs_local cs_input cs_extract cs_ecnt].
  destruct (place (c_nfields cfg) (c_locs cfg) r) as [fields| |]; cbn [pbind]; try reflexivity.
  destruct (run_xtfs O (c_local_off cfg) (cs_extract c) (cs_ecnt c) _) as [[[[ex' ecnt'] p1] pass]| |];
    cbn [pbind]; try reflexivity.
  destruct pass; cbn [negb]; [|reflexivity].
  destruct (extract_keys (c_okeys cfg) (T.r_fields (fst p1))) as [okeys| |]; cbn [pbind]; try reflexivity.
  change {| cs_input := cnt; cs_extract := ex'; cs_ecnt := ecnt'; cs_local := cs_local c |}
    with (with_input {| cs_input := cs_input c; cs_extract := ex'; cs_ecnt := ecnt'; cs_local := cs_local c |} cnt).
  rewrite get_or_create_input.
  destruct (get_or_create cfg g _ okeys) as [[[g1 c2] idx]| |]; cbn [pbind]; try reflexivity.
  destruct (nth_error (g_pipes g1) idx) as [pi|]; [|reflexivity].
  destruct (worker_step O cfg pi idx clk p1) as [[pi' res]| |] eqn:Ew; cbn [pbind]; try reflexivity.
  destruct (worker_step_res _ _ _ _ _ _ _ Ew) as [Hne _]. destruct res; try reflexivity. contradiction.
Qed.

(* the input counters after one record, as a function of the counters before it, the record and its result *)
Definition next_counters (cfg : config) (x : bytes) (res : rec_result) (cnt : Ps.counters) : Ps.counters :=
  let p := Ps.parse (c_parser cfg) Ps.counters_zero x in
  let cnt1 := ParserProofs.counters_add cnt (snd p) in
  match res, fst p with
  | RDropExtract, Ok (Some r) => pass_to_drop cnt1 (Ps.raw_length r)
  | _, _ => cnt1
  end.

(* one record, on two connection states that differ in the input counters only *)
Lemma process_record_input : forall cfg g c now clk x cnt, ParserProofs.cfg_ok (c_parser cfg) ->
  process_record O cfg g (with_input c cnt) now clk x =
  match process_record O cfg g c now clk x with
  | Ok (g', c', res) => Ok (g', with_input c' (next_counters cfg x res cnt), res)
  | Err e => Err e
  | Panic s => Panic s
  end.
Proof.
  intros cfg g c now clk x cnt H. unfold process_record, next_counters. cbn [with_input cs_input].
  rewrite (parse_split cfg cnt x H), (parse_split cfg (cs_input c) x H).
  destruct (fst (Ps.parse (c_parser cfg) Ps.counters_zero x)) as [[r|]| |]; try reflexivity.
  set (d := snd (Ps.parse (c_parser cfg) Ps.counters_zero x)).
  change (with_input (with_input c cnt) (ParserProofs.counters_add cnt d))
    with (with_input (with_input c (ParserProofs.counters_add (cs_input c) d)) (ParserProofs.counters_add cnt d)).
  rewrite process_parsed_input.
  destruct (process_parsed O cfg g (with_input c (ParserProofs.counters_add (cs_input c) d)) now clk r) as [[[g' c'] res]| |];
    reflexivity.
Qed.

(* ... in particular the counters of the run itself *)
Lemma process_record_counters : forall cfg g c now clk x g' c' res, ParserProofs.cfg_ok (c_parser cfg) ->
  process_record O cfg g c now clk x = Ok (g', c', res) -> cs_input c' = next_counters cfg x res (cs_input c).
Proof.
  intros cfg g c now clk x g' c' res H E.
  pose proof (process_record_input cfg g c now clk x (cs_input c) H) as Hi.
  replace (with_input c (cs_input c)) with c in Hi by (destruct c; reflexivity).
  rewrite E in Hi. inversion Hi as [Hc]. rewrite Hc at 1. reflexivity.
Qed.

(* a malformed record changes the input counters of its connection and nothing else *)
Lemma process_record_malformed : forall cfg g c now clk x, ParserProofs.cfg_ok (c_parser cfg) ->
  malformed cfg x = true ->
  process_record O cfg g c now clk x =
  Ok (g, with_input c (ParserProofs.counters_add (cs_input c) (snd (Ps.parse (c_parser cfg) Ps.counters_zero x))), RDropParse).
Proof.
  intros cfg g c now clk x H Hm. unfold process_record. rewrite (parse_split cfg (cs_input c) x H).
  unfold malformed in Hm. destruct (fst (Ps.parse (c_parser cfg) Ps.counters_zero x)) as [[r|]| |]; try discriminate.
  reflexivity.
Qed.

Lemma process_record_wellformed : forall cfg g c now clk x g' c' res,
  malformed cfg x = false -> ParserProofs.cfg_ok (c_parser cfg) ->
  process_record O cfg g c now clk x = Ok (g', c', res) -> is_drop_parse res = false.
Proof.
  intros cfg g c now clk x g' c' res Hm H E.
  destruct res; try reflexivity. exfalso.
  unfold process_record in E. rewrite (parse_split cfg (cs_input c) x H) in E. unfold malformed in Hm.
  destruct (fst (Ps.parse (c_parser cfg) Ps.counters_zero x)) as [[r|]| |]; try discriminate.
  (* the parser accepted: process_parsed never answers RDropParse *)
  unfold process_parsed in E.
  destruct (place _ _ r) as [fields| |]; cbn [pbind] in E; try discriminate.
  destruct (run_xtfs O _ _ _ _) as [[[[ex' ecnt'] p1] pass]| |]; cbn [pbind] in E; try discriminate.
  destruct pass; cbn [negb] in E; [|discriminate].
  destruct (extract_keys _ _) as [okeys| |]; cbn [pbind] in E; try discriminate.
  destruct (get_or_create _ _ _ _) as [[[g1 c2] idx]| |]; cbn [pbind] in E; try discriminate.
  destruct (nth_error _ _) as [pi|]; [|discriminate].
  destruct (worker_step O cfg pi idx clk p1) as [[pi' res']| |] eqn:Ew; cbn [pbind] in E; try discriminate.
  destruct (worker_step_res _ _ _ _ _ _ _ Ew) as [_ Hne]. inversion E; subst. contradiction.
Qed.

(* the counters of the run with the malformed records (A) and of the run without them (B): equal but for k dropped
   records of kb bytes *)
Definition cnt_rel (k kb : N) (A B : Ps.counters) : Prop :=
  (Ps.passed_n A = Ps.passed_n B /\ Ps.passed_bytes A = Ps.passed_bytes B /\
   Ps.overflow_n A = Ps.overflow_n B /\ Ps.overflow_bytes A = Ps.overflow_bytes B /\
   Ps.dropped_n A = Ps.dropped_n B + k /\ Ps.dropped_bytes A = Ps.dropped_bytes B + kb)%N.

Lemma cnt_rel_next : forall cfg x res k kb A B,
  cnt_rel k kb A B -> cnt_rel k kb (next_counters cfg x res A) (next_counters cfg x res B).
Proof.
  intros cfg x res k kb A B (h1 & h2 & h3 & h4 & h5 & h6). unfold next_counters.
  set (d := snd (Ps.parse (c_parser cfg) Ps.counters_zero x)).
  assert (Hadd : cnt_rel k kb (ParserProofs.counters_add A d) (ParserProofs.counters_add B d)).
  { unfold cnt_rel, ParserProofs.counters_add. cbn [Ps.passed_n Ps.passed_bytes Ps.dropped_n Ps.dropped_bytes Ps.overflow_n Ps.overflow_bytes].
    repeat split; lia. }
  destruct res; try exact Hadd.
  destruct (fst (Ps.parse (c_parser cfg) Ps.counters_zero x)) as [[r|]| |]; try exact Hadd.
  destruct Hadd as (a1 & a2 & a3 & a4 & a5 & a6). unfold cnt_rel, pass_to_drop.
  cbn [Ps.passed_n Ps.passed_bytes Ps.dropped_n Ps.dropped_bytes Ps.overflow_n Ps.overflow_bytes].
  rewrite a1, a2. repeat split; try lia; assumption.
Qed.

Lemma cnt_rel_malformed : forall cfg x k kb A B, ParserProofs.cfg_ok (c_parser cfg) -> malformed cfg x = true ->
  cnt_rel k kb A B ->
  cnt_rel (k + 1) (kb + N.of_nat (length x))
          (ParserProofs.counters_add A (snd (Ps.parse (c_parser cfg) Ps.counters_zero x))) B.
Proof.
  intros cfg x k kb A B H Hm (h1 & h2 & h3 & h4 & h5 & h6).
  destruct (C09.C09_accounting (c_parser cfg) Ps.counters_zero x H) as (res & d & Ep & Hacc).
  unfold malformed in Hm. rewrite Ep in *. cbn [fst snd] in *. destruct res as [r|]; [discriminate|].
  destruct Hacc as (a1 & a2 & a3 & a4 & a5 & a6). cbn in a1, a2, a3, a4, a5, a6.
  unfold cnt_rel, ParserProofs.counters_add. cbn [Ps.passed_n Ps.passed_bytes Ps.dropped_n Ps.dropped_bytes Ps.overflow_n Ps.overflow_bytes].
  repeat split; lia.
Qed.

(* the fold: dropping the malformed records from the sequence changes nothing but the input counters, and those
   exactly by the malformed records *)
Lemma process_records_filter : forall cfg inputs g c now clk g1 c1 rs cnt k kb,
  ParserProofs.cfg_ok (c_parser cfg) ->
  process_records O cfg g c now clk inputs = Ok (g1, c1, rs) ->
  cnt_rel k kb (cs_input c) cnt ->
  exists cnt',
    process_records O cfg g (with_input c cnt) now clk (filter (fun x => negb (malformed cfg x)) inputs)
    = Ok (g1, with_input c1 cnt', filter (fun r => negb (is_drop_parse r)) rs) /\
    map is_drop_parse rs = map (malformed cfg) inputs /\
    cnt_rel (k + N.of_nat (length (filter (malformed cfg) inputs)))
            (kb + SyslogSpec.sum_lengths (filter (malformed cfg) inputs)) (cs_input c1) cnt'.
Proof.
  intros cfg inputs. induction inputs as [|x inputs IH]; intros g c now clk g1 c1 rs cnt k kb H E Hrel.
  - cbn in E. inversion E; subst. exists cnt. split; [reflexivity|]. split; [reflexivity|].
    cbn. rewrite !N.add_0_r. exact Hrel.
  - cbn [process_records] in E.
    destruct (process_record O cfg g c now clk x) as [[[ga ca] res]| |] eqn:E1; cbn [pbind] in E; try discriminate.
    destruct (process_records O cfg ga ca now clk inputs) as [[[gb cb] rs']| |] eqn:E2; cbn [pbind] in E; try discriminate.
    inversion E; subst g1 c1 rs. clear E. cbn [filter map].
    destruct (malformed cfg x) eqn:Hm; cbn [negb].
    + (* malformed: skipped in the filtered run *)
      rewrite (process_record_malformed cfg g c now clk x H Hm) in E1. inversion E1; subst ga ca res. clear E1.
      cbn [is_drop_parse negb].
      destruct (IH g (with_input c _) now clk gb cb rs' cnt (k + 1)%N (kb + N.of_nat (length x))%N H E2
                  (cnt_rel_malformed cfg x k kb (cs_input c) cnt H Hm Hrel)) as (cnt' & Ef & Em & Hr).
      change (with_input (with_input c ?a) cnt) with (with_input c cnt) in Ef.
      exists cnt'. split; [exact Ef|]. split; [f_equal; exact Em|].
      cbn [length SyslogSpec.sum_lengths fold_right]. fold (SyslogSpec.sum_lengths (filter (malformed cfg) inputs)).
      destruct Hr as (r1 & r2 & r3 & r4 & r5 & r6). unfold cnt_rel. repeat split; try assumption; lia.
    + (* well-formed: the same step in both runs *)
      pose proof (process_record_wellformed cfg g c now clk x ga ca res Hm H E1) as Hnd.
      rewrite Hnd. cbn [negb process_records].
      rewrite (process_record_input cfg g c now clk x cnt H). rewrite E1. cbn [pbind].
      pose proof (process_record_counters cfg g c now clk x ga ca res H E1) as Hca.
      destruct (IH ga ca now clk gb cb rs' (next_counters cfg x res cnt) k kb H E2) as (cnt' & Ef & Em & Hr).
      { rewrite Hca. apply cnt_rel_next. exact Hrel. }
      rewrite Ef. cbn [pbind]. exists cnt'. split; [reflexivity|]. split; [f_equal; exact Em|exact Hr].
Qed.

End Stream.

(* ================================================================================================ *)
(* neighbours unchanged: the same connection with and without the malformed records                   *)

Section Neighbours.
Variable O : T.oracles.

Definition good (cfg : config) (x : bytes) : bool := negb (malformed cfg x).

Lemma Forall_filter : forall (A : Type) (P : A -> Prop) f (l : list A), Forall P l -> Forall P (filter f l).
Proof.
  intros A P f l H. apply Forall_forall. intros x Hx. apply filter_In in Hx. destruct Hx as [Hx _].
  eapply Forall_forall; eassumption.
Qed.

(* [ls]: the lines of the stream, every one a complete single-line record START (shape "<ddd>1 ", at least 32
   bytes, at most b bytes - C08's side conditions), some of them malformed (rejected by the parser: PRI out of
   range, missing header fields, ...).  [evs1] delivers all of them, [evs2] only the well-formed ones - in ANY
   fragmentation and with ANY read timing each.  Then the agent ends in the same shared state, the results for
   the well-formed records are the same (pipeline, serialized bytes for every output, chunks), every malformed
   record - and nothing else - is answered RDropParse, and the input counters differ exactly by one dropped
   record, with its length, per malformed record. *)
Theorem neighbours_unchanged_lemma : forall cfg g now clk b (ls : list bytes) evs1 evs2,
  config_ok O cfg -> ginv O cfg g ->
  (1 <= record_limit cfg)%nat ->
  (2 * b + 1 + record_limit cfg <= Nat.max (c_linebuf cfg) (record_limit cfg * 3))%nat ->
  Forall (FramingSpec.valid_line F.trs b) ls ->
  FramingSpec.ops_text (F.conn_ops evs1) = FramingSpec.unlines ls ->
  FramingSpec.ops_text (F.conn_ops evs2) = FramingSpec.unlines (filter (good cfg) ls) ->
  exists g' c1 c2 rs1,
    conn_run O cfg g now clk evs1 = Ok (g', c1, rs1) /\
    conn_run O cfg g now clk evs2 = Ok (g', c2, filter (fun r => negb (is_drop_parse r)) rs1) /\
    map is_drop_parse rs1 = map (malformed cfg) ls /\
    cs_extract c2 = cs_extract c1 /\ cs_ecnt c2 = cs_ecnt c1 /\ cs_local c2 = cs_local c1 /\
    (let bad := filter (malformed cfg) ls in
     Ps.passed_n (cs_input c1) = Ps.passed_n (cs_input c2) /\
     Ps.passed_bytes (cs_input c1) = Ps.passed_bytes (cs_input c2) /\
     Ps.overflow_n (cs_input c1) = Ps.overflow_n (cs_input c2) /\
     Ps.overflow_bytes (cs_input c1) = Ps.overflow_bytes (cs_input c2) /\
     Ps.dropped_n (cs_input c1) = Ps.dropped_n (cs_input c2) + N.of_nat (length bad) /\
     Ps.dropped_bytes (cs_input c1) = Ps.dropped_bytes (cs_input c2) + SyslogSpec.sum_lengths bad)%N.
Proof.
  intros cfg g now clk b ls evs1 evs2 H Hg Hl Hcap Hv T1 T2.
  pose proof (proj1 C08.C08_test_record_start_prefix) as Hnil.
  destruct (C08.C08_connection_single_line F.trs (c_linebuf cfg) (record_limit cfg) b ls evs1 Hnil Hl Hcap Hv T1) as [st1 R1].
  destruct (C08.C08_connection_single_line F.trs (c_linebuf cfg) (record_limit cfg) b (filter (good cfg) ls) evs2 Hnil Hl Hcap
              (Forall_filter _ _ _ _ Hv) T2) as [st2 R2].
  unfold conn_run, conn_records. rewrite R1, R2. cbn [pbind].
  destruct (process_records_total O cfg ls g (new_conn cfg) now clk H Hg (cinv_new_conn O cfg g H))
    as (g' & c1 & rs1 & E1 & _).
  destruct (process_records_filter O cfg ls g (new_conn cfg) now clk g' c1 rs1 Ps.counters_zero 0%N 0%N (ok_parser O cfg H) E1)
    as (cnt' & E2 & Em & Hr).
  { unfold cnt_rel. cbn. repeat split; reflexivity. }
  change (with_input (new_conn cfg) Ps.counters_zero) with (new_conn cfg) in E2.
  exists g', c1, (with_input c1 cnt'), rs1.
  split; [exact E1|]. split; [exact E2|]. split; [exact Em|].
  split; [reflexivity|]. split; [reflexivity|]. split; [reflexivity|].
  cbn [with_input cs_input]. cbn zeta. rewrite !N.add_0_l in Hr. exact Hr.
Qed.

End Neighbours.

(* ================================================================================================ *)
(* corollaries                                                                                      *)

Section Corollaries.
Variable O : T.oracles.

(* any number of connections, one after the other, on one long-lived agent *)
Theorem agent_run_total : forall cfg conns g now clk,
  config_ok O cfg -> ginv O cfg g -> (1 <= record_limit cfg)%nat ->
  exists g' rss, agent_run O cfg g now clk conns = Ok (g', rss) /\ ginv O cfg g' /\ length rss = length conns.
Proof.
  intros cfg conns. induction conns as [|evs conns IH]; intros g now clk H Hg Hl.
  - exists g, []. split; [reflexivity|]. split; [exact Hg|reflexivity].
  - cbn [agent_run]. destruct (conn_run_total O cfg g now clk evs H Hg Hl) as (g1 & c1 & rs & E & Hg1 & _).
    rewrite E. cbn [pbind]. destruct (IH g1 now clk H Hg1 Hl) as (g2 & rss & E2 & Hg2 & L).
    rewrite E2. cbn [pbind]. exists g2, (rs :: rss). split; [reflexivity|]. split; [exact Hg2|cbn; lia].
Qed.

(* every label value the agent has handed to the metric registry is valid: Gather keeps working *)
Lemma ginv_metrics_ok : forall cfg g, ginv O cfg g -> metrics_ok g = true.
Proof.
  intros cfg g (_ & _ & _ & _ & Hf). unfold metrics_ok. apply forallb_forall. intros pi Hin.
  destruct (proj1 (Forall_forall _ _) Hf pi Hin) as (_ & _ & _ & Hm). exact Hm.
Qed.

End Corollaries.

(* every stream of a passed record is one self-contained MessagePack value that the independent decoder of C10
   reads back as exactly the record's event, with nothing left over: appended to a chunk it cannot disturb the
   events before or after it (C10_decode_encode, C10_small_event_small_strings) *)
From SV Require Props.C10 Spec.MsgpackSpec.

Lemma passed_streams_decode : forall cfg res,
  result_shape cfg res ->
  (N.of_nat (length (c_schema cfg)) < 65535)%N ->
  match res with
  | RPassed _ streams _ =>
      exists rec, Forall2 (fun o stream =>
                     match oc_kind o with
                     | OFluentd sc =>
                       (N.of_nat (length (S.c_env sc)) < 65536)%N ->
                       (N.of_nat (length stream) < 4294967296)%N ->
                       stream <> [] /\
                       MsgpackSpec.decode_all stream = Some (SS.event_tree (c_schema cfg) sc rec, [])
                     | ODatadog _ => True
                     end)
                  (c_outputs cfg) streams
  | _ => True
  end.
Proof.
  intros cfg res Hs Hn. destruct res as [| | |idx streams chunks]; try exact I.
  destruct Hs as [rec Hs]. exists rec. unfold streams_complete in Hs.
  induction Hs as [|o stream outs streams Ho Hr IH]; constructor; [|exact IH].
  unfold stream_ok in Ho. destruct (oc_kind o) as [sc|hidden]; [|exact I].
  intros He Hlen. subst stream. split; [apply PipelineSerializerProofs.encode_spec_nonempty|].
  apply C10.C10_decode_encode; [apply C10.C10_small_event_small_strings; exact Hlen|exact Hn|exact He].
Qed.

(* the reader of a connection, whatever arrives: no panic, no busy loop, and afterwards a record of maximal length still
   fits or the buffer is empty (C08_never_full for the listener's parameters) *)
Lemma conn_reader_never_full : forall cfg evs, (1 <= record_limit cfg)%nat ->
  exists st' records,
    F.run_ops F.trs (F.conn_ops evs) (F.new_mlr (c_linebuf cfg) (record_limit cfg)) [] = Ok (st', records) /\
    (length (F.m_buf st') <= F.m_cap st')%nat /\
    (F.m_limit st' <= F.m_cap st' - length (F.m_buf st') \/ F.m_buf st' = [])%nat.
Proof.
  intros cfg evs Hl.
  destruct (C08.C08_never_full F.trs (c_linebuf cfg) (record_limit cfg) (F.conn_ops evs) Hl) as (st' & out & E & H1 & H2 & _).
  exists st', out. split; [exact E|]. split; [exact H1|exact H2].
Qed.

(* a tag template accepted by NewTagBuilder over the orchestration keys satisfies the tag condition of config_ok *)
Lemma accepted_tag_ok : forall names t parts,
  R.parse_template names t = Some parts -> Forall (TagTemplateProofs.part_wf (length names)) parts.
Proof. exact TagTemplateProofs.parse_template_wf. Qed.
