(* Proofs for Model/FeederLoad.v (C05): the output feeder with load failures of spilled chunks.

   Invariant (for the feeder that gives a chunk up at once, lg_defer = false): the chain
   transmitted ++ window ++ feeder hand ++ queue  is a SUB-LIST of the creation history - every event moves a chunk
   along the chain, appends a new chunk at its end (Accept) or removes one (failed load, queue overflow).  The ids of
   the creation history increase (id clock), hence everything order-related follows for all fault scripts. *)
From Coq Require Import List Arith Bool Lia PeanoNat.
From SV Require Import Model.Common Model.System Model.RecoveryOrder Model.FeederLoad Proofs.SystemLists Proofs.SystemOrderLists
  Proofs.RecoveryOrderProofs.
Import ListNotations.
Open Scope nat_scope.

(* ---------- lists ---------- *)

Lemma sublist_trans : forall A (a b c : list A), sublist a b -> sublist b c -> sublist a c.
Proof.
  intros A a b c H1 H2. revert a H1. induction H2 as [|x b' c' H2 IH|x b' c' H2 IH]; intros a0 H1.
  - assumption.
  - apply sub_skip. apply IH. assumption.
  - inversion H1; subst.
    + apply sub_skip. apply IH. assumption.
    + apply sub_keep. apply IH. assumption.
Qed.

Lemma sublist_app_r : forall A (a b l : list A), sublist a b -> sublist a (b ++ l).
Proof.
  intros A a b l H. pose proof (sublist_app _ a b [] l H (sublist_nil_l _ l)) as P. rewrite app_nil_r in P. exact P.
Qed.

Lemma sublist_snoc : forall A (a b : list A) x, sublist a b -> sublist (a ++ [x]) (b ++ [x]).
Proof. intros. apply sublist_app; [assumption|apply sublist_refl]. Qed.

Lemma lids_app : forall a b, lids (a ++ b) = lids a ++ lids b.
Proof. intros. unfold lids. apply map_app. Qed.

(* ---------- the invariant ---------- *)

Definition lgood (clock : nat) (l : list lchunk) : Prop := incr (lids l) /\ (forall c, In c l -> lid c <= clock).

Definition linv (s : lstate) : Prop := sublist (lchain s) (l_created s) /\ lgood (l_clock s) (l_created s).

Lemma created_snoc : forall cr ck c spill, lgood ck cr -> ck < rc_id c -> lgood (rc_id c) (cr ++ [LC c spill]).
Proof.
  intros cr ck c spill [H2 H3] E. split.
  - rewrite lids_app. apply incr_app. split; [exact H2|]. split; [apply incr_single|].
    intros x y Hx Hy. cbn in Hy. destruct Hy as [<-|[]]. unfold lids in Hx. apply in_map_iff in Hx.
    destruct Hx as [c0 [<- Hc0]]. specialize (H3 c0 Hc0). unfold lid at 2. cbn [lc_chunk]. lia.
  - intros c0 Hc0. apply in_app_or in Hc0. destruct Hc0 as [Hc0|[<-|[]]].
    + specialize (H3 _ Hc0). lia.
    + unfold lid. cbn [lc_chunk]. lia.
Qed.

Ltac dif H := match type of H with context [if ?b then _ else _] => destruct b eqn:?E end.

Lemma lstep_inv : forall g s e s', lg_defer g = false -> linv s -> lstep g s e = Some s' -> linv s'.
Proof.
  intros g [q h rt w o d cr ck] e s' Hd [H1 HG] Hs.
  unfold linv, lchain, lpending in *.
  cbn [l_queue l_hand l_retries l_window l_out l_dropped l_created l_clock] in *.
  destruct e as [c spill| |ok|]; unfold lstep in Hs;
    cbn [l_queue l_hand l_retries l_window l_out l_dropped l_created l_clock] in Hs.
  - (* Accept *)
    destruct (Nat.ltb ck (rc_id c)) eqn:E; [|discriminate]. apply Nat.ltb_lt in E.
    destruct (Nat.ltb (length q) (lg_qcap g)); inversion Hs; subst s';
      cbn [l_queue l_hand l_retries l_window l_out l_dropped l_created l_clock].
    + split; [|apply (created_snoc cr ck); assumption].
      replace (o ++ w ++ map fst h ++ q ++ [LC c spill]) with ((o ++ w ++ map fst h ++ q) ++ [LC c spill])
        by (repeat rewrite <- app_assoc; reflexivity).
      apply sublist_snoc. exact H1.
    + split; [|apply (created_snoc cr ck); assumption]. apply sublist_app_r. exact H1.
  - (* Take *)
    destruct h as [|? ?]; [|discriminate]. destruct q as [|c rest].
    + rewrite Hd in Hs. discriminate.
    + inversion Hs; subst s'. cbn [l_queue l_hand l_retries l_window l_out l_dropped l_created l_clock map fst app].
      cbn [map app] in H1. split; assumption.
  - (* Feed *)
    destruct h as [|[c retry] [|? ?]]; try discriminate. cbn [map fst app] in H1. destruct ok.
    + destruct (lg_wcap g) as [|wc].
      * destruct w as [|? ?]; [|discriminate]. inversion Hs; subst s'.
        cbn [l_queue l_hand l_retries l_window l_out l_dropped l_created l_clock map fst app]. split; [|exact HG].
        rewrite <- app_assoc. cbn [app] in *. exact H1.
      * destruct (Nat.ltb (length w) (S wc)); [|discriminate]. inversion Hs; subst s'.
        cbn [l_queue l_hand l_retries l_window l_out l_dropped l_created l_clock map fst app]. split; [|exact HG].
        rewrite <- app_assoc. cbn [app]. exact H1.
    + destruct (lc_spilled c); [|discriminate]. rewrite Hd in Hs. cbn [andb] in Hs. inversion Hs; subst s'.
      cbn [l_queue l_hand l_retries l_window l_out l_dropped l_created l_clock map fst app]. split; [|exact HG].
      apply (sublist_trans _ _ (o ++ w ++ c :: q)); [|exact H1].
      apply sublist_app; [apply sublist_refl|]. apply sublist_app; [apply sublist_refl|]. apply sub_skip. apply sublist_refl.
  - (* Consume *)
    destruct w as [|c rest]; [discriminate|]. inversion Hs; subst s'.
    cbn [l_queue l_hand l_retries l_window l_out l_dropped l_created l_clock]. split; [|exact HG].
    rewrite <- app_assoc. cbn [app] in *. exact H1.
Qed.

Lemma lsteps_inv : forall g es s s', lg_defer g = false -> linv s -> lsteps g s es = Some s' -> linv s'.
Proof.
  intros g. induction es as [|e r IH]; intros s s' Hd Hi Hs; cbn [lsteps] in Hs.
  - inversion Hs; subst. assumption.
  - destruct (lstep g s e) as [s1|] eqn:E; [|discriminate]. apply (IH s1); auto. apply (lstep_inv g s e); assumption.
Qed.

Lemma linit_inv : forall backlog clock, lgood clock backlog -> linv (linit backlog clock).
Proof.
  intros backlog clock H. unfold linv, linit, lchain, lpending.
  cbn [l_queue l_hand l_retries l_window l_out l_dropped l_created l_clock map app]. split; [apply sublist_refl|exact H].
Qed.

(* ---------- the theorems ---------- *)

(* For all backlogs in id order, capacities, event lists - i.e. all interleavings of worker, feeder and consumer and
   ALL FAULT SCRIPTS (which loads fail) - a feeder that gives up a chunk it cannot load hands the chunks to the consumer
   as a sub-sequence of the creation order; ids increase in transmission order, the pending chunks are in creation order
   and each is newer than everything transmitted (nothing older is still to come). *)
Lemma load_failure_order_lemma : forall g backlog clock es s,
  lg_defer g = false -> lgood clock backlog -> lsteps g (linit backlog clock) es = Some s ->
  sublist (l_out s) (l_created s) /\ incr (lids (l_out s)) /\ incr (lids (lpending s)) /\
  (forall u q, In u (lids (l_out s)) -> In q (lids (lpending s)) -> u < q).
Proof.
  intros g backlog clock es s Hd Hg Hs.
  destruct (lsteps_inv g es _ s Hd (linit_inv _ _ Hg) Hs) as [H1 [H2 _]].
  assert (I : incr (lids (l_out s) ++ lids (lpending s))).
  { rewrite <- lids_app. apply (incr_sublist _ (lids (l_created s))); [|exact H2]. apply sublist_map. exact H1. }
  apply incr_app in I. destruct I as [I1 [I2 I3]]. repeat split; auto.
  apply (sublist_trans _ _ (lchain s)); [|exact H1]. unfold lchain. apply sublist_app_r. apply sublist_refl.
Qed.

(* every stream (connection, key set): if the records were put into chunks in arrival order, they are handed to the
   consumer in arrival order - whatever loads fail *)
Lemma load_failure_stream_order_lemma : forall g backlog clock es s k,
  lg_defer g = false -> lgood clock backlog -> lsteps g (linit backlog clock) es = Some s ->
  incr (rseqs k (ltoks (l_created s))) -> incr (rseqs k (ltoks (l_out s))).
Proof.
  intros g backlog clock es s k Hd Hg Hs Hc.
  destruct (load_failure_order_lemma g backlog clock es s Hd Hg Hs) as [S _].
  apply (incr_sublist _ (rseqs k (ltoks (l_created s)))); [|exact Hc].
  unfold rseqs, ltoks, rtoks. apply sublist_map. apply sublist_filter_mono. apply sublist_flat_map. apply sublist_map. exact S.
Qed.

(* a failed load loses exactly the chunk in the feeder's hand: one step, nothing else moves *)
Lemma load_failure_drops_lemma : forall g q c retry rt w o d cr ck,
  lg_defer g = false -> lc_spilled c = true ->
  lstep g (LS q [(c, retry)] rt w o d cr ck) (LFeed false) = Some (LS q [] rt w o (d ++ [c]) cr ck).
Proof. intros g q c retry rt w o d cr ck Hd Hc. unfold lstep. cbn. rewrite Hc, Hd. reflexivity. Qed.

(* ---------- the variant that retries a failed load behind the queued chunks (seeded change C05/8) ---------- *)

Definition defer_backlog : list lchunk := map lnth_chunk [0; 1; 2].    (* ids 1, 2, 3: records 0, 1, 2 of connection 0 *)

(* chunk 1 is delivered; the read of chunk 2 fails once; chunk 3 is delivered; the queue is empty: chunk 2 is retried *)
Definition defer_events : list levent :=
  [LTake; LFeed true; LConsume; LTake; LFeed false; LTake; LFeed true; LConsume; LTake; LFeed true; LConsume].

Lemma defer_backlog_good : lgood 3 defer_backlog.
Proof.
  unfold lgood, defer_backlog. cbn. repeat split.
  - intros y [<-|[<-|[]]]; lia.
  - intros y [<-|[]]; lia.
  - intros ? [].
  - intros c [<-|[<-|[<-|[]]]]; cbn; lia.
Qed.

Lemma defer_variant_refuted_lemma :
  exists g backlog clock es s,
    lg_defer g = true /\ lgood clock backlog /\ lsteps g (linit backlog clock) es = Some s /\
    lids (l_out s) = [1; 3; 2] /\ l_dropped s = [] /\ ~ incr (lids (l_out s)) /\ ~ incr (rseqs 0 (ltoks (l_out s))).
Proof.
  exists (LCFG 8 1 true), defer_backlog, 3, defer_events.
  eexists. split; [reflexivity|]. split; [exact defer_backlog_good|]. split; [vm_compute; reflexivity|].
  cbn. split; [reflexivity|]. split; [reflexivity|]. split.
  - intros [_ [H _]]. specialize (H 2 (or_introl eq_refl)). lia.
  - intros [_ [H _]]. specialize (H 1 (or_introl eq_refl)). lia.
Qed.

(* non-vacuity: the same fault script on the code as it is - chunk 2 is lost, 1 and 3 are transmitted in order *)
Lemma load_failure_example_lemma :
  exists s, lgood 3 defer_backlog /\ lsteps (LCFG 8 1 false) (linit defer_backlog 3) (firstn 8 defer_events) = Some s /\
    lids (l_out s) = [1; 3] /\ lids (l_dropped s) = [2] /\ lpending s = [] /\
    lsteps (LCFG 8 1 false) s [LTake] = None.
Proof.
  eexists. split; [exact defer_backlog_good|]. split; [vm_compute; reflexivity|]. cbn. repeat split; reflexivity.
Qed.
