(* C17 - proofs about Model/ReloadRecover.v: with the loop over initialPipelineIDs INSIDE NewOrchestrator
   ([sync = true]) no pipeline is started after its generation was shut down, every queue dir has one owner, nothing
   survives the last Shutdown, and the queued key sets have their pipelines when NewOrchestrator returns - for every
   list of steps.  The variant with the loop in a goroutine ([sync = false]) violates each of them. *)
From SV Require Import Model.Common Model.ReloadRecover Spec.ReloadRecoverSpec.
From Coq Require Import Arith List Bool Lia.
Import ListNotations.
Local Open Scope nat_scope.

Lemma mem_In id l : mem id l = true <-> In id l.
Proof.
  unfold mem. rewrite existsb_exists. split.
  - intros [x [Hx He]]. apply Nat.eqb_eq in He. now subst.
  - intros H. exists id. split; [assumption | apply Nat.eqb_refl].
Qed.

Lemma all_shut_spec st : all_shut st = true -> forall g, g < r_n st -> r_shut st g = true.
Proof. unfold all_shut. rewrite forallb_forall. intros H g Hg. apply H. apply in_seq. lia. Qed.

Lemma all_shut_intro st : (forall g, g < r_n st -> r_shut st g = true) -> all_shut st = true.
Proof. intros H. unfold all_shut. rewrite forallb_forall. intros g Hg. apply in_seq in Hg. apply H. lia. Qed.

Record RI (st : rstate) : Prop := mkRI {
  ri_shut_ret : forall g, g < r_n st -> r_shut st g = true -> r_ret st g = true;
  ri_ret_todo : forall g, g < r_n st -> r_ret st g = true -> r_todo st g = [];
  ri_live : forall g id, In (g, id) (r_live st) -> g < r_n st /\ r_shut st g = false /\ In id (r_made st g);
  ri_one : forall g1 g2, g1 < r_n st -> g2 < r_n st -> r_shut st g1 = false -> r_shut st g2 = false -> g1 = g2;
  ri_nodup : NoDup (r_live st);
  ri_log : forall g, In (ShutRet g) (r_log st) -> g < r_n st /\ r_shut st g = true;
  ri_starts : starts_ok (r_log st);
  ri_ids : forall g id, g < r_n st -> In id (r_ids st g) -> In id (r_todo st g) \/ In id (r_made st g);
  ri_made_live : forall g id, g < r_n st -> r_shut st g = false -> In id (r_made st g) -> In (g, id) (r_live st)
}.

Lemma RI_init : RI rinit.
Proof. constructor; cbn; intros; try lia; try contradiction; try constructor. Qed.

Tactic Notation "dg" constr(g0) constr(g) := unfold upd in *; destruct (Nat.eqb_spec g0 g) as [?|?]; [subst|].

Lemma goc_inv st g id todo :
  RI st -> g < r_n st -> r_shut st g = false ->
  (r_ret st g = true -> todo = []) ->
  (forall i, In i (r_ids st g) -> In i todo \/ In i (r_made st g) \/ i = id) ->
  RI (get_or_create st g id todo).
Proof.
  intros I Hg Hs Ht Hi. unfold get_or_create.
  destruct (mem id (r_made st g)) eqn:M.
  - apply mem_In in M.
    constructor; cbn [r_n r_ids r_todo r_made r_ret r_shut r_live r_log]; try apply I.
    + intros g0 H0 H1. dg g0 g; [auto | now apply (ri_ret_todo _ I)].
    + intros g0 i H0 H1. dg g0 g.
      * destruct (Hi _ H1) as [?|[?|?]]; subst; auto.
      * now apply (ri_ids _ I).
  - assert (Hn : ~ In id (r_made st g)) by (intros H; apply mem_In in H; congruence).
    constructor; cbn [r_n r_ids r_todo r_made r_ret r_shut r_live r_log]; try apply I.
    + intros g0 H0 H1. dg g0 g; [auto | now apply (ri_ret_todo _ I)].
    + intros g0 i [H|H].
      * injection H as E1 E2. subst g0 i. dg g g; [|congruence]. repeat split; auto. apply in_or_app; right; now left.
      * destruct (ri_live _ I _ _ H) as [A [B C]]. repeat split; auto. dg g0 g; auto. apply in_or_app; now left.
    + constructor; [|apply I]. intros H. apply (ri_live _ I) in H. tauto.
    + intros g0 [H|H]; [discriminate|]. now apply (ri_log _ I).
    + cbn. split; [|apply I]. intros H. apply (ri_log _ I) in H. destruct H; congruence.
    + intros g0 i H0 H1. dg g0 g.
      * destruct (Hi _ H1) as [?|[?|?]]; subst; auto; right; apply in_or_app; [now left | right; now left].
      * now apply (ri_ids _ I).
    + intros g0 i H0 H1 H2. dg g0 g.
      * apply in_app_or in H2. destruct H2 as [H2|[H2|[]]]; [right; now apply (ri_made_live _ I) | left; now subst].
      * right. now apply (ri_made_live _ I).
Qed.

Lemma starts_ok_stops g l log : starts_ok log -> starts_ok (map (PStop g) l ++ log).
Proof. induction l; cbn; auto. Qed.

Lemma starts_ok_app_stops g l log : starts_ok log -> starts_ok (rev (map (PStop g) l) ++ log).
Proof. rewrite <- map_rev. apply starts_ok_stops. Qed.

Lemma in_stops g l log x : In (ShutRet x) (rev (map (PStop g) l) ++ log) -> In (ShutRet x) log.
Proof.
  intros H. apply in_app_or in H. destruct H as [H|H]; [|assumption].
  apply in_rev in H. apply in_map_iff in H. destruct H as [? [? ?]]. discriminate.
Qed.

Lemma rstep_inv st e st' : RI st -> rstep true st e = Some st' -> RI st'.
Proof.
  intros I H. destruct e as [ids|g|g|g id|g]; cbn [rstep] in H.
  - destruct (all_shut st) eqn:A; [|discriminate]. inversion H; subst; clear H.
    pose proof (all_shut_spec _ A) as AS.
    constructor; cbn [r_n r_ids r_todo r_made r_ret r_shut r_live r_log]; try apply I.
    + intros g H0 H1. dg g (r_n st); [discriminate|]. apply (ri_shut_ret _ I); [lia|auto].
    + intros g H0 H1. dg g (r_n st); [discriminate|]. apply (ri_ret_todo _ I); [lia|auto].
    + intros g i H. destruct (ri_live _ I _ _ H) as [A1 [A2 A3]]. rewrite (AS _ A1) in A2. discriminate.
    + intros g1 g2 H1 H2 S1 S2. dg g1 (r_n st); dg g2 (r_n st); auto.
      * rewrite AS in S2; [discriminate|lia].
      * rewrite AS in S1; [discriminate|lia].
      * rewrite AS in S1; [discriminate|lia].
    + intros g H. destruct (ri_log _ I _ H) as [A1 A2]. split; [lia|]. dg g (r_n st); [lia|auto].
    + intros g i H0 H1. dg g (r_n st); [now left|]. apply (ri_ids _ I); [lia|auto].
    + intros g i H0 H1 H2. dg g (r_n st); [contradiction|]. rewrite AS in H1; [discriminate|lia].
  - destruct (g <? r_n st) eqn:L; [|discriminate]. apply Nat.ltb_lt in L.
    destruct (r_todo st g) as [|id rest] eqn:T; [discriminate|]. inversion H; subst; clear H.
    assert (R : r_ret st g = false).
    { destruct (r_ret st g) eqn:R; auto. rewrite (ri_ret_todo _ I _ L R) in T. discriminate. }
    assert (S : r_shut st g = false).
    { destruct (r_shut st g) eqn:S; auto. rewrite (ri_shut_ret _ I _ L S) in R. discriminate. }
    apply goc_inv; auto.
    + congruence.
    + intros i Hi. destruct (ri_ids _ I _ _ L Hi) as [H|H]; auto. rewrite T in H. destruct H; subst; auto.
  - destruct ((g <? r_n st) && negb (r_ret st g) && (negb true || match r_todo st g with [] => true | _ => false end)) eqn:C; [|discriminate].
    inversion H; subst; clear H.
    apply andb_prop in C. destruct C as [C C3]. apply andb_prop in C. destruct C as [C1 C2].
    apply Nat.ltb_lt in C1. cbn in C3. destruct (r_todo st g) eqn:T; [|discriminate].
    constructor; cbn [r_n r_ids r_todo r_made r_ret r_shut r_live r_log]; try apply I.
    + intros g0 H0 H1. dg g0 g; auto. now apply (ri_shut_ret _ I).
    + intros g0 H0 H1. dg g0 g; auto. now apply (ri_ret_todo _ I).
  - destruct ((g <? r_n st) && r_ret st g && negb (r_shut st g)) eqn:C; [|discriminate].
    inversion H; subst; clear H.
    apply andb_prop in C. destruct C as [C C3]. apply andb_prop in C. destruct C as [C1 C2].
    apply Nat.ltb_lt in C1. apply negb_true_iff in C3.
    apply goc_inv; auto.
    + intros _. now apply (ri_ret_todo _ I).
    + intros i Hi. destruct (ri_ids _ I _ _ C1 Hi); auto.
  - destruct ((g <? r_n st) && r_ret st g && negb (r_shut st g)) eqn:C; [|discriminate].
    inversion H; subst; clear H.
    apply andb_prop in C. destruct C as [C C3]. apply andb_prop in C. destruct C as [C1 C2].
    apply Nat.ltb_lt in C1. apply negb_true_iff in C3.
    constructor; cbn [r_n r_ids r_todo r_made r_ret r_shut r_live r_log]; try apply I.
    + intros g0 H0 H1. dg g0 g; auto. now apply (ri_shut_ret _ I).
    + intros g0 i H. apply filter_In in H. destruct H as [H F]. cbn in F. apply negb_true_iff in F. apply Nat.eqb_neq in F.
      destruct (ri_live _ I _ _ H) as [A1 [A2 A3]]. dg g0 g; [congruence|]. auto.
    + intros g1 g2 H1 H2 S1 S2. dg g1 g; [discriminate|]. dg g2 g; [discriminate|]. now apply (ri_one _ I).
    + apply NoDup_filter. apply I.
    + intros g0 [H|H].
      * injection H as E. subst g0. split; auto. dg g g; [auto|congruence].
      * apply in_stops in H. destruct (ri_log _ I _ H). split; auto. dg g0 g; auto.
    + cbn. apply starts_ok_app_stops. apply I.
    + intros g0 i H0 H1 H2. dg g0 g; [discriminate|]. apply filter_In. split; [now apply (ri_made_live _ I)|].
      cbn. apply negb_true_iff. now apply Nat.eqb_neq.
Qed.

Lemma rrun_inv evs : forall st st', RI st -> rrun true st evs = Some st' -> RI st'.
Proof.
  induction evs as [|e r IH]; intros st st' I H; cbn in H.
  - now inversion H; subst.
  - destruct (rstep true st e) eqn:E; [|discriminate]. eapply IH; [|exact H]. eapply rstep_inv; eauto.
Qed.

Lemma reach_inv evs st : rrun true rinit evs = Some st -> RI st.
Proof. apply rrun_inv, RI_init. Qed.

(* ---- the statements used by Props/C17.v ---- *)

Lemma no_start_after_shutdown_lemma :
  forall evs st, rrun true rinit evs = Some st -> starts_ok (r_log st).
Proof. intros evs st H. apply (ri_starts _ (reach_inv _ _ H)). Qed.

Lemma one_owner_lemma :
  forall evs st, rrun true rinit evs = Some st -> one_owner (r_live st).
Proof.
  intros evs st H. pose proof (reach_inv _ _ H) as I. split; [apply I|].
  intros g1 g2 id H1 H2. destruct (ri_live _ I _ _ H1) as [A1 [A2 _]]. destruct (ri_live _ I _ _ H2) as [B1 [B2 _]].
  now apply (ri_one _ I).
Qed.

Lemma none_live_after_shutdown_lemma :
  forall evs st, rrun true rinit evs = Some st -> all_shut st = true -> r_live st = [].
Proof.
  intros evs st H A. pose proof (reach_inv _ _ H) as I. destruct (r_live st) as [|[g id] l] eqn:L; auto.
  destruct (ri_live _ I g id) as [A1 [A2 _]]; [rewrite L; now left|].
  rewrite (all_shut_spec _ A _ A1) in A2. discriminate.
Qed.

(* when NewOrchestrator has returned and until Shutdown, every queued key set has its running pipeline in THIS
   generation (the queued chunks are taken over by the new pipelines) *)
Lemma takeover_complete_lemma :
  forall evs st g id, rrun true rinit evs = Some st -> g < r_n st -> r_ret st g = true -> r_shut st g = false ->
  In id (r_ids st g) -> In (g, id) (r_live st).
Proof.
  intros evs st g id H Hg R S Hi. pose proof (reach_inv _ _ H) as I.
  apply (ri_made_live _ I); auto. destruct (ri_ids _ I _ _ Hg Hi) as [T|T]; auto.
  rewrite (ri_ret_todo _ I _ Hg R) in T. contradiction.
Qed.

(* the variant: the loop over initialPipelineIDs runs in a goroutine, NewOrchestrator returns at once.
   Schedule 1 (reload; shutdown): generation 0 with queue dirs 1,2 returns, is shut down, then its goroutine creates
   the pipeline of dir 1: started after Shutdown, alive although every generation is shut down.
   Schedule 2 (reload; reload): ... generation 1 is created and recovers dir 1, then generation 0's goroutine does too:
   two running pipelines on queue dir 1. *)
Definition async_witness_1 : list revent := [RNew [1; 2]; RReturn 0; RShutdown 0; RCreate 0].
Definition async_witness_2 : list revent := [RNew [1; 2]; RReturn 0; RShutdown 0; RNew [1; 2]; RCreate 1; RCreate 0].

Lemma async_variant_refuted_lemma :
  (exists st, rrun false rinit async_witness_1 = Some st /\ ~ starts_ok (r_log st) /\ all_shut st = true /\ r_live st <> []) /\
  (exists st, rrun false rinit async_witness_2 = Some st /\ ~ one_owner (r_live st)) /\
  (exists st, rrun false rinit [RNew [1; 2]; RReturn 0] = Some st /\ r_ret st 0 = true /\ r_shut st 0 = false /\ ~ In (0, 1) (r_live st)).
Proof.
  split; [|split].
  - eexists. split; [vm_compute; reflexivity|]. cbn. split; [|split].
    + intros [H _]. apply H. now left.
    + reflexivity.
    + discriminate.
  - eexists. split; [vm_compute; reflexivity|]. cbn. intros [_ H].
    specialize (H 0 1 1). assert (0 = 1) by (apply H; [now left | right; now left]). discriminate.
  - eexists. split; [vm_compute; reflexivity|]. cbn. repeat split; auto.
Qed.

(* the same schedules are not runs of the code: NewOrchestrator cannot return before the loop is done *)
Lemma async_witness_not_a_run_lemma :
  rrun true rinit async_witness_1 = None /\ rrun true rinit async_witness_2 = None.
Proof. split; vm_compute; reflexivity. Qed.

(* non-vacuity: two back-to-back reloads with two queued key sets and traffic for a third; the run exists, ends with
   everything shut down, six + one pipelines started and stopped *)
Definition recover_example : list revent :=
  new_generation_events 0 [0; 1] ++ sched_events [(1, 0); (3, 5); (1, 0)]%Z 0 [0; 1].

Lemma recover_example_lemma :
  exists st, rrun true rinit recover_example = Some st /\ all_shut st = true /\ r_n st = 3 /\
             length (filter (fun e => match e with PStart _ _ => true | _ => false end) (r_log st)) = 8.
Proof. eexists. split; [vm_compute; reflexivity|]. cbn. repeat split. Qed.
