(* C07 follow-up (wave-2 misses 4 and 5).

   A. Record starts.  What a client SENDS is described without reference to the reader's predicate: a line of the
      documented shape "<" 1-3 digits ">1 " + ANY bytes, at least 32 bytes, no newline ([sent_line]).  Every such line
      is a record start for the reader ([header_line_is_start], from C08's characterisation of TestRecordStart), hence
      a connection whose text consists of such lines - NIL timestamp, garbage timestamp, anything after the header -
      hands exactly these lines, one by one and unaltered, to the parser, and every one of them is answered: counted
      dropped (malformed) or counted passed / re-counted by an extraction ([every_sent_record_accounted]).
      The variant of TestRecordStart that also wants a digit after the header ([trs_digit]) is refuted: a NIL-timestamp
      record is glued onto the well-formed record before it, and vanishes when it is alone on the connection.
   B. Label values.  [label_values_spec]: for every list of key values the label values are valid UTF-8 (the registry's
      check passes), there is one per key, and valid values are handed on unchanged.  The variant with a byte cap
      after the clean-up is refuted FOR EVERY cap n >= 1: a valid value with a 2-byte character across offset n
      becomes invalid and WithLabelValues panics. *)
From SV Require Import Model.Common.
From SV Require Model.Utf8 Model.Parser Model.Transforms Model.Routing Model.Framing.
From SV Require Import Model.Pipeline Model.PipelineVariants.
From SV Require Spec.Utf8Spec Spec.SyslogSpec Spec.FramingSpec.
From SV Require Proofs.Utf8Proofs Proofs.ParserProofs.
From SV Require Import Proofs.PipelineProofs Proofs.PipelineWitnesses.
From SV Require Props.C08 Props.C09.
From Coq Require Import Lia ZifyBool ZifyN ZifyNat.
Ltac Zify.zify_post_hook ::= Z.div_mod_to_equations.

(* ================================================================================================ *)
(* A. record starts                                                                                 *)

(* a record as a client sends it: header "<PRI>1 " (PRI = 1 to 3 digits) followed by anything, at least 32 bytes, no
   newline inside, at most b bytes.  Nothing is said about the timestamp or any later byte. *)
Definition sent_line (b : nat) (l : bytes) : Prop :=
  FramingSpec.nonl l /\ FramingSpec.start_shape l /\ (length l <= b)%nat.

Lemma header_line_is_start : forall l, FramingSpec.start_shape l -> F.trs l = true.
Proof.
  intros l H. apply C08.C08_test_record_start_shape in H. unfold F.trs. rewrite H. reflexivity.
Qed.

(* the same, spelled out: "<" ds ">1 " c rest, whatever the byte c and the rest are *)
Lemma header_any_byte_is_start : forall (ds : bytes) (c : N) (rest : bytes),
  (1 <= length ds <= 3)%nat -> Forall (fun d => is_digit d = true) ds ->
  (32 <= length (60%N :: ds ++ 62%N :: 49%N :: 32%N :: c :: rest))%nat ->
  F.trs (60%N :: ds ++ 62%N :: 49%N :: 32%N :: c :: rest) = true.
Proof.
  intros ds c rest Hl Hd H32. apply header_line_is_start. split; [exact H32|].
  exists ds, (c :: rest). split; [reflexivity|]. split; assumption.
Qed.

Lemma sent_line_valid : forall b l, sent_line b l -> FramingSpec.valid_line F.trs b l.
Proof.
  intros b l (Hn & Hs & Hb). split.
  - intros ->. destruct Hs as [H32 _]. cbn in H32. lia.
  - split; [exact Hn|]. split; [apply header_line_is_start; exact Hs|exact Hb].
Qed.

Section Accounting.
Variable O : T.oracles.

(* counters after a sequence: every record is in exactly one of passed / dropped *)
Lemma process_records_sum : forall cfg inputs g c now clk g' c' rs,
  config_ok O cfg -> ginv O cfg g -> cinv O cfg g c ->
  process_records O cfg g c now clk inputs = Ok (g', c', rs) ->
  (Ps.passed_n (cs_input c') + Ps.dropped_n (cs_input c') =
   Ps.passed_n (cs_input c) + Ps.dropped_n (cs_input c) + N.of_nat (length inputs))%N /\
  (Ps.passed_n (cs_input c) <= Ps.passed_n (cs_input c'))%N.
Proof.
  intros cfg inputs. induction inputs as [|x inputs IH]; intros g c now clk g' c' rs H Hg Hc E.
  - cbn in E. injection E as <- <- <-. cbn [length]. lia.
  - cbn [process_records] in E.
    destruct (process_record_total O cfg g c now clk x H Hg Hc) as (g1 & c1 & res & E1 & Hg1 & Hc1 & _ & Hres).
    rewrite E1 in E. cbn [pbind] in E.
    destruct (process_records O cfg g1 c1 now clk inputs) as [[[g2 c2] rs2]| |] eqn:E2; cbn [pbind] in E; try discriminate E.
    injection E as <- <- <-.
    destruct (IH g1 c1 now clk g2 c2 rs2 H Hg1 Hc1 E2) as [IH1 IH2].
    cbn [length].
    assert (Hstep : (Ps.passed_n (cs_input c1) + Ps.dropped_n (cs_input c1) =
                     Ps.passed_n (cs_input c) + Ps.dropped_n (cs_input c) + 1)%N /\
                    (Ps.passed_n (cs_input c) <= Ps.passed_n (cs_input c1))%N).
    { destruct res.
      - destruct Hres as (_ & Hd & _). unfold SyslogSpec.counted_dropped in Hd. lia.
      - destruct Hres as (Hd & _). unfold counted_dropped_instead in Hd. lia.
      - unfold SyslogSpec.counted_passed in Hres. lia.
      - unfold SyslogSpec.counted_passed in Hres. lia. }
    lia.
Qed.

(* Every record SENT is accounted for.  [ls]: the lines of the connection's text, each of the header shape and of
   at most b bytes (cap >= 2b+1+limit: C08's side condition; production 4 x limit), in ANY fragmentation and read
   timing.  Then the parser is handed exactly these lines, in order and unaltered (no line glued to its neighbour,
   none lost); there is one result per line; exactly the malformed ones are rejected; and the input counters of the
   connection add up to the number of lines sent. *)
Theorem every_sent_record_accounted : forall cfg g now clk b (ls : list bytes) evs,
  config_ok O cfg -> ginv O cfg g ->
  (1 <= record_limit cfg)%nat ->
  (2 * b + 1 + record_limit cfg <= Nat.max (c_linebuf cfg) (record_limit cfg * 3))%nat ->
  Forall (sent_line b) ls ->
  FramingSpec.ops_text (F.conn_ops evs) = FramingSpec.unlines ls ->
  conn_records cfg evs = Ok ls /\
  exists g' c rs,
    conn_run O cfg g now clk evs = Ok (g', c, rs) /\
    ginv O cfg g' /\
    length rs = length ls /\
    map is_drop_parse rs = map (malformed cfg) ls /\
    (Ps.passed_n (cs_input c) + Ps.dropped_n (cs_input c) = N.of_nat (length ls))%N /\
    (N.of_nat (length (filter (malformed cfg) ls)) <= Ps.dropped_n (cs_input c))%N.
Proof.
  intros cfg g now clk b ls evs H Hg Hl Hcap Hs T.
  assert (Hv : Forall (FramingSpec.valid_line F.trs b) ls).
  { eapply Forall_impl; [|exact Hs]. intros l. apply sent_line_valid. }
  pose proof (proj1 C08.C08_test_record_start_prefix) as Hnil.
  destruct (C08.C08_connection_single_line F.trs (c_linebuf cfg) (record_limit cfg) b ls evs Hnil Hl Hcap Hv T) as [st R].
  assert (Ecr : conn_records cfg evs = Ok ls) by (unfold conn_records; rewrite R; reflexivity).
  split; [exact Ecr|].
  unfold conn_run. rewrite Ecr. cbn [pbind].
  destruct (process_records_total O cfg ls g (new_conn cfg) now clk H Hg (cinv_new_conn O cfg g H))
    as (g' & c1 & rs & E1 & Hg' & _ & Hlen & _).
  destruct (process_records_filter O cfg ls g (new_conn cfg) now clk g' c1 rs Ps.counters_zero 0%N 0%N (ok_parser O cfg H) E1)
    as (cnt' & _ & Em & Hr).
  { unfold cnt_rel. cbn. repeat split; reflexivity. }
  destruct (process_records_sum cfg ls g (new_conn cfg) now clk g' c1 rs H Hg (cinv_new_conn O cfg g H) E1) as [Hsum _].
  exists g', c1, rs. split; [exact E1|]. split; [exact Hg'|]. split; [exact Hlen|]. split; [exact Em|].
  cbn [new_conn cs_input Ps.counters_zero Ps.passed_n Ps.dropped_n] in Hsum.
  split; [lia|].
  destruct Hr as (_ & _ & _ & _ & Hd & _). lia.
Qed.

End Accounting.

(* ---------- the variant with "&& isDigit(s[i+3])" ---------- *)

(* rec_good2 = "<14>1 - hostA appC 78 src - second record, NIL timestamp": a record as a client may send it ... *)
Lemma nil_record_is_sent_line : sent_line 96 rec_good2.
Proof.
  split; [|split].
  - unfold FramingSpec.nonl, F.NL. cbn. intuition discriminate.
  - split; [cbn; lia|]. exists [49; 52]%N. eexists. split; [reflexivity|]. split; [cbn; lia|repeat constructor].
  - cbn. lia.
Qed.

Lemma trs_digit_variant_refuted :
  sent_line 96 rec_good2 /\
  F.trs rec_good2 = true /\ trs_digit rec_good2 = false /\
  (* the real reader: three records, each on its own; the NIL record alone on a connection reaches the parser *)
  conn_records_with F.trs (ex_cfg true true) [F.EvData (FramingSpec.unlines [rec_good1; rec_good2; rec_good1]) false; F.EvClose]
  = Ok [rec_good1; rec_good2; rec_good1] /\
  conn_records_with F.trs (ex_cfg true true) [F.EvData (FramingSpec.unlines [rec_good2]) false; F.EvClose] = Ok [rec_good2] /\
  (* the variant: the NIL record is glued onto its well-formed neighbour, and vanishes when it is alone *)
  conn_records_with trs_digit (ex_cfg true true) [F.EvData (FramingSpec.unlines [rec_good1; rec_good2; rec_good1]) false; F.EvClose]
  = Ok [rec_good1 ++ F.NL :: rec_good2; rec_good1] /\
  conn_records_with trs_digit (ex_cfg true true) [F.EvData (FramingSpec.unlines [rec_good2]) false; F.EvClose] = Ok [].
Proof.
  split; [exact nil_record_is_sent_line|].
  repeat split; vm_compute; reflexivity.
Qed.

(* ================================================================================================ *)
(* B. label values                                                                                  *)

Lemma label_values_spec : forall vs,
  Forall Utf8Spec.valid_utf8 (metric_label_values true vs) /\
  length (metric_label_values true vs) = length vs /\
  (Forall Utf8Spec.valid_utf8 vs -> metric_label_values true vs = vs) /\
  with_label_values (metric_label_values true vs) = Ok tt.
Proof.
  intros vs. unfold metric_label_values. split; [|split; [|split]].
  - apply Forall_forall. intros x Hx. apply in_map_iff in Hx. destruct Hx as (v & <- & _).
    apply C09.C09_to_valid_utf8_valid.
  - apply map_length.
  - intros Hv. induction Hv as [|v vs Hv _ IH]; [reflexivity|]. cbn [map]. rewrite IH.
    rewrite (C09.C09_to_valid_utf8_id v Hv). reflexivity.
  - unfold with_label_values. change (map Utf8.to_valid_utf8 vs) with (metric_label_values true vs).
    rewrite labels_ok_fixed. reflexivity.
Qed.

(* ---------- the variant with a byte cap ---------- *)

Lemma valid_ascii_cons : forall s, Utf8.valid (104%N :: s) = Utf8.valid s.
Proof. intros s. reflexivity. Qed.

Lemma valid_repeat_h_app : forall k s, Utf8.valid (repeat 104%N k ++ s) = Utf8.valid s.
Proof. induction k as [|k IH]; intros s; [reflexivity|]. cbn [repeat app]. rewrite valid_ascii_cons. apply IH. Qed.

Lemma firstn_repeat_app : forall (k : nat) (s : bytes) j, firstn (k + j) (repeat 104%N k ++ s) = repeat 104%N k ++ firstn j s.
Proof. induction k as [|k IH]; intros s j; [reflexivity|]. cbn [repeat app Nat.add firstn]. rewrite IH. reflexivity. Qed.

(* for EVERY cap n >= 1 there is a VALID value that the capped variant turns into an invalid label value *)
Lemma label_cut_variant_refuted : forall n, (1 <= n)%nat ->
  Utf8.valid (straddling_value n) = true /\
  metric_label_values true [straddling_value n] = [straddling_value n] /\
  with_label_values (metric_label_values true [straddling_value n]) = Ok tt /\
  with_label_values (metric_label_values_cut n [straddling_value n]) = Panic site_label.
Proof.
  intros n Hn. unfold straddling_value.
  assert (Hvalid : Utf8.valid (repeat 104%N (n - 1) ++ [195; 164]%N) = true).
  { rewrite valid_repeat_h_app. reflexivity. }
  assert (Hid : Utf8.to_valid_utf8 (repeat 104%N (n - 1) ++ [195; 164]%N) = repeat 104%N (n - 1) ++ [195; 164]%N).
  { apply C09.C09_to_valid_utf8_id. apply C09.C09_utf8_valid_iff. exact Hvalid. }
  split; [exact Hvalid|]. split; [|split].
  - unfold metric_label_values. cbn [map]. rewrite Hid. reflexivity.
  - apply label_values_spec.
  - unfold metric_label_values_cut, cut_label_value. cbn [map]. rewrite Hid.
    rewrite app_length, repeat_length. cbn [length].
    replace (n <? n - 1 + 2)%nat with true by lia.
    replace n with ((n - 1) + 1)%nat at 1 by lia.
    rewrite firstn_repeat_app. cbn [firstn].
    unfold with_label_values. cbn [forallb]. unfold label_ok. rewrite valid_repeat_h_app.
    reflexivity.
Qed.

(* the seeded cap, spelled out: a 201-byte host name that is valid UTF-8 *)
Lemma label_cut_200_refuted :
  Utf8.valid (straddling_value 200) = true /\ length (straddling_value 200) = 201%nat /\
  with_label_values (metric_label_values_cut 200 [straddling_value 200]) = Panic site_label.
Proof.
  destruct (label_cut_variant_refuted 200 ltac:(lia)) as (H1 & _ & _ & H4).
  split; [exact H1|]. split; [reflexivity|exact H4].
Qed.
