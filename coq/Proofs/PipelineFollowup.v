(* C07 follow-up (wave-2 misses 4 and 5).

   A. Record starts.  What a client SENDS is described without reference to the reader's predicate: a line of the
      documented shape "<" 1-3 digits ">1 " + ANY bytes, at least 32 bytes, no newline ([sent_line]).  Every such line
      is a record start for the reader ([header_line_is_start], from C08's characterisation of TestRecordStart), hence
      a connection whose text consists of such lines - NIL timestamp, garbage timestamp, anything after the header -
      hands exactly these lines, one by one and unaltered, to the parser, and every one of them is answered: counted
      dropped (malformed) or counted passed / re-counted by an extraction ([every_sent_record_accounted]).
      The variant of TestRecordStart that also wants a digit after the header ([trs_digit]) is refuted: a NIL-timestamp
      record is glued onto the well-formed record before it, and vanishes when it is alone on the connection.
   B. Label values.  [label_values_spec]: for every list of key values the label values are valid UTF-8 (the registry's
      check passes), there is one per key, and valid values are handed on unchanged.  The variant with a byte cap
      after the clean-up is refuted FOR EVERY cap n >= 1: a valid value with a 2-byte character across offset n
      becomes invalid and WithLabelValues panics. *)
From SV Require Import Model.Common.
From SV Require Model.Utf8 Model.Parser Model.Transforms Model.Routing Model.Framing.
From SV Require Import Model.Pipeline Model.PipelineVariants.
From SV Require Spec.Utf8Spec Spec.SyslogSpec Spec.FramingSpec.
From SV Require Proofs.Utf8Proofs Proofs.ParserProofs.
From SV Require Import Proofs.PipelineProofs Proofs.PipelineWitnesses.
From SV Require Props.C08 Props.C09.
From Coq Require Import Lia ZifyBool ZifyN ZifyNat.
Ltac Zify.zify_post_hook ::= Z.div_mod_to_equations.

(* ================================================================================================ *)
(* A. record starts                                                                                 *)

(* a record as a client sends it: header "<PRI>1 " (PRI = 1 to 3 digits) followed by anything, at least 32 bytes, no
   newline inside, at most b bytes.  Nothing is said about the timestamp or any later byte. *)
Definition sent_line (b : nat) (l : bytes) : Prop :=
  FramingSpec.nonl l /\ FramingSpec.start_shape l /\ (length l <= b)%nat.

Lemma header_line_is_start : forall l, FramingSpec.start_shape l -> F.trs l = true.
Proof.
  intros l H. apply C08.C08_test_record_start_shape in H. unfold F.trs. rewrite H. reflexivity.
Qed.

(* the same, spelled out: "<" ds ">1 " c rest, whatever the byte c and the rest are *)
Lemma header_any_byte_is_start : forall (ds : bytes) (c : N) (rest : bytes),
  (1 <= length ds <= 3)%nat -> Forall (fun d => is_digit d = true) ds ->
  (32 <= length (60%N :: ds ++ 62%N :: 49%N :: 32%N :: c :: rest))%nat ->
  F.trs (60%N :: ds ++ 62%N :: 49%N :: 32%N :: c :: rest) = true.
Proof.
  intros ds c rest Hl Hd H32. apply header_line_is_start. split; [exact H32|].
  exists ds, (c :: rest). split; [reflexivity|]. split; assumption.
Qed.

Lemma sent_line_valid : forall b l, sent_line b l -> FramingSpec.valid_line F.trs b l.
Proof.
  intros b l (Hn & Hs & Hb). split.
  - intros ->. destruct Hs as [H32 _]. cbn in H32. lia.
  - split; [exact Hn|]. split; [apply header_line_is_start; exact Hs|exact Hb].
Qed.

Section Accounting.
Variable O : T.oracles.

(* counters after a sequence: every record is in exactly one of passed / dropped *)
Lemma process_records_sum : forall cfg inputs g c now clk g' c' rs,
  config_ok O cfg -> ginv O cfg g -> cinv O cfg g c ->
  process_records O cfg g c now clk inputs = Ok (g', c', rs) ->
  (Ps.passed_n (cs_input c') + Ps.dropped_n (cs_input c') =
   Ps.passed_n (cs_input c) + Ps.dropped_n (cs_input c) + N.of_nat (length inputs))%N /\
  (Ps.passed_n (cs_input c) <= Ps.passed_n (cs_input c'))%N.
Proof.
  intros cfg inputs. induction inputs as [|x inputs IH]; intros g c now clk g' c' rs H Hg Hc E.
  - cbn in E. injection E as <- <- <-. cbn [length]. lia.
  - cbn [process_records] in E.
    destruct (process_record_total O cfg g c now clk x H Hg Hc) as (g1 & c1 & res & E1 & Hg1 & Hc1 & _ & Hres).
    rewrite E1 in E. cbn [pbind] in E.
    destruct (process_records O cfg g1 c1 now clk inputs) as [[[g2 c2] rs2]| |] eqn:E2; cbn [pbind] in E; try discriminate E.
    injection E as <- <- <-.
    destruct (IH g1 c1 now clk g2 c2 rs2 H Hg1 Hc1 E2) as [IH1 IH2].
    cbn [length].
    assert (Hstep : (Ps.passed_n (cs_input c1) + Ps.dropped_n (cs_input c1) =
                     Ps.passed_n (cs_input c) + Ps.dropped_n (cs_input c) + 1)%N /\
                    (Ps.passed_n (cs_input c) <= Ps.passed_n (cs_input c1))%N).
    { destruct res.
      - destruct Hres as (_ & Hd & _). unfold SyslogSpec.counted_dropped in Hd. lia.
      - destruct Hres as (Hd & _). unfold counted_dropped_instead in Hd. lia.
      - unfold SyslogSpec.counted_passed in Hres. lia.
      - unfold SyslogSpec.counted_passed in Hres. lia. }
    lia.
Qed.

(* Every record SENT is accounted for.  [ls]: the lines of the connection's text, each of the header shape and of
   at most b bytes (cap >= 2b+1+limit: C08's side condition; production 4 x limit), in ANY fragmentation and read
   timing.  Then the parser is handed exactly these lines, in order and unaltered (no line glued to its neighbour,
   none lost); there is one result per line; exactly the malformed ones are rejected; and the input counters of the
   connection add up to the number of lines sent. *)
Theorem every_sent_record_accounted : forall cfg g now clk b (ls : list bytes) evs,
  config_ok O cfg -> ginv O cfg g ->
  (1 <= record_limit cfg)%nat ->
  (2 * b + 1 + record_limit cfg <= Nat.max (c_linebuf cfg) (record_limit cfg * 3))%nat ->
  Forall (sent_line b) ls ->
  FramingSpec.ops_text (F.conn_ops evs) = FramingSpec.unlines ls ->
  conn_records cfg evs = Ok ls /\
  exists g' c rs,
    conn_run O cfg g now clk evs = Ok (g', c, rs) /\
    ginv O cfg g' /\
    length rs = length ls /\
    map is_drop_parse rs = map (malformed cfg) ls /\
    (Ps.passed_n (cs_input c) + Ps.dropped_n (cs_input c) = N.of_nat (length ls))%N /\
    (N.of_nat (length (filter (malformed cfg) ls)) <= Ps.dropped_n (cs_input c))%N.
Proof.
  intros cfg g now clk b ls evs H Hg Hl Hcap Hs T.
  assert (Hv : Forall (FramingSpec.valid_line F.trs b) ls).
  { eapply Forall_impl; [|exact Hs]. intros l. apply sent_line_valid. }
  pose proof (proj1 C08.C08_test_record_start_prefix) as Hnil.
  destruct (C08.C08_connection_single_line F.trs (c_linebuf cfg) (record_limit cfg) b ls evs Hnil Hl Hcap Hv T) as [st R].
  assert (Ecr : conn_records cfg evs = Ok ls) by (unfold conn_records; rewrite R; reflexivity).
  split; [exact Ecr|].
  unfold conn_run. rewrite Ecr. cbn [pbind].
  destruct (process_records_total O cfg ls g (new_conn cfg) now clk H Hg (cinv_new_conn O cfg g H))
    as (g' & c1 & rs & E1 & Hg' & _ & Hlen & _).
  destruct (process_records_filter O cfg ls g (new_conn cfg) now clk g' c1 rs Ps.counters_zero 0%N 0%N (ok_parser O cfg H) E1)
    as (cnt' & _ & Em & Hr).
  { unfold cnt_rel. cbn. repeat split; reflexivity. }
  destruct (process_records_sum cfg ls g (new_conn cfg) now clk g' c1 rs H Hg (cinv_new_conn O cfg g H) E1) as [Hsum _].
  exists g', c1, rs. split; [exact E1|]. split; [exact Hg'|]. split; [exact Hlen|]. split; [exact Em|].
  cbn [new_conn cs_input Ps.counters_zero Ps.passed_n Ps.dropped_n] in Hsum.
  split; [lia|].
  destruct Hr as (_ & _ & _ & _ & Hd & _). lia.
Qed.

End Accounting.

(* ---------- the variant with "&& isDigit(s[i+3])" ---------- *)

(* rec_good2 = "<14>1 - hostA appC 78 src - second record, NIL timestamp": a record as a client may send it ... *)
Lemma nil_record_is_sent_line : sent_line 96 rec_good2.
Proof.
  split; [|split].
  - unfold FramingSpec.nonl, F.NL. cbn. intuition discriminate.
  - split; [cbn; lia|]. exists [49; 52]%N. eexists. split; [reflexivity|]. split; [cbn; lia|repeat constructor].
  - cbn. lia.
Qed.

Lemma trs_digit_variant_refuted :
  sent_line 96 rec_good2 /\
  F.trs rec_good2 = true /\ trs_digit rec_good2 = false /\
  (* the real reader: three records, each on its own; the NIL record alone on a connection reaches the parser *)
  conn_records_with F.trs (ex_cfg true true) [F.EvData (FramingSpec.unlines [rec_good1; rec_good2; rec_good1]) false; F.EvClose]
  = Ok [rec_good1; rec_good2; rec_good1] /\
  conn_records_with F.trs (ex_cfg true true) [F.EvData (FramingSpec.unlines [rec_good2]) false; F.EvClose] = Ok [rec_good2] /\
  (* the variant: the NIL record is glued onto its well-formed neighbour, and vanishes when it is alone *)
  conn_records_with trs_digit (ex_cfg true true) [F.EvData (FramingSpec.unlines [rec_good1; rec_good2; rec_good1]) false; F.EvClose]
  = Ok [rec_good1 ++ F.NL :: rec_good2; rec_good1] /\
  conn_records_with trs_digit (ex_cfg true true) [F.EvData (FramingSpec.unlines [rec_good2]) false; F.EvClose] = Ok [].
Proof.
  split; [exact nil_record_is_sent_line|].
  repeat split; vm_compute; reflexivity.
Qed.

(* ================================================================================================ *)
(* B. label values                                                                                  *)

Lemma label_values_spec : forall vs,
  Forall Utf8Spec.valid_utf8 (metric_label_values true vs) /\
  length (metric_label_values true vs) = length vs /\
  (Forall Utf8Spec.valid_utf8 vs -> metric_label_values true vs = vs) /\
  with_label_values (metric_label_values true vs) = Ok tt.
Proof.
  intros vs. unfold metric_label_values. split; [|split; [|split]].
  - apply Forall_forall. intros x Hx. apply in_map_iff in Hx. destruct Hx as (v & <- & _).
    apply C09.C09_to_valid_utf8_valid.
  - apply map_length.
  - intros Hv. induction Hv as [|v vs Hv _ IH]; [reflexivity|]. cbn [map]. rewrite IH.
    rewrite (C09.C09_to_valid_utf8_id v Hv). reflexivity.
  - unfold with_label_values. change (map Utf8.to_valid_utf8 vs) with (metric_label_values true vs).
    rewrite labels_ok_fixed. reflexivity.
Qed.

(* ---------- the variant with a byte cap ---------- *)

Lemma valid_ascii_cons : forall s, Utf8.valid (104%N :: s) = Utf8.valid s.
Proof. intros s. reflexivity. Qed.

Lemma valid_repeat_h_app : forall k s, Utf8.valid (repeat 104%N k ++ s) = Utf8.valid s.
Proof. induction k as [|k IH]; intros s; [reflexivity|]. cbn [repeat app]. rewrite valid_ascii_cons. apply IH. Qed.

Lemma firstn_repeat_app : forall (k : nat) (s : bytes) j, firstn (k + j) (repeat 104%N k ++ s) = repeat 104%N k ++ firstn j s.
Proof. induction k as [|k IH]; intros s j; [reflexivity|]. cbn [repeat app Nat.add firstn]. rewrite IH. reflexivity. Qed.

(* for EVERY cap n >= 1 there is a VALID value that the capped variant turns into an invalid label value *)
Lemma label_cut_variant_refuted : forall n, (1 <= n)%nat ->
  Utf8.valid (straddling_value n) = true /\
  metric_label_values true [straddling_value n] = [straddling_value n] /\
  with_label_values (metric_label_values true [straddling_value n]) = Ok tt /\
  with_label_values (metric_label_values_cut n [straddling_value n]) = Panic site_label.
Proof.
  intros n Hn. unfold straddling_value.
  assert (Hvalid : Utf8.valid (repeat 104%N (n - 1) ++ [195; 164]%N) = true).
  { rewrite valid_repeat_h_app. reflexivity. }
  assert (Hid : Utf8.to_valid_utf8 (repeat 104%N (n - 1) ++ [195; 164]%N) = repeat 104%N (n - 1) ++ [195; 164]%N).
  { apply C09.C09_to_valid_utf8_id. apply C09.C09_utf8_valid_iff. exact Hvalid. }
  split; [exact Hvalid|]. split; [|split].
  - unfold metric_label_values. cbn [map]. rewrite Hid. reflexivity.
  - apply label_values_spec.
  - unfold metric_label_values_cut, cut_label_value. cbn [map]. rewrite Hid.
    rewrite app_length, repeat_length. cbn [length].
    replace (n <? n - 1 + 2)%nat with true by lia.
    replace n with ((n - 1) + 1)%nat at 1 by lia.
    rewrite firstn_repeat_app. cbn [firstn].
    unfold with_label_values. cbn [forallb]. unfold label_ok. rewrite valid_repeat_h_app.
    reflexivity.
Qed.

(* the seeded cap, spelled out: a 201-byte host name that is valid UTF-8 *)
Lemma label_cut_200_refuted :
  Utf8.valid (straddling_value 200) = true /\ length (straddling_value 200) = 201%nat /\
  with_label_values (metric_label_values_cut 200 [straddling_value 200]) = Panic site_label.
Proof.
  destruct (label_cut_variant_refuted 200 ltac:(lia)) as (H1 & _ & _ & H4).
  split; [exact H1|]. split; [reflexivity|exact H4].
Qed.

(* ================================================================================================ *)
(* C. the parseTime step and parseFractionNanos (wave-3 seed 7)                                      *)

(* The pipeline model runs ParseTime.transform_parse_time (C13's model, imported) in [run_parse_time]; the model of
   parseFractionNanos is a fixed nine-iteration loop without any indexing.  Stated explicitly: for EVERY content of the
   time field - every fraction length - the step is not a panic. *)
Lemma parse_fraction_total : forall frac,
  match ParseTime.parse_fraction_nanos frac with Panic _ => False | _ => True end.
Proof. intros [|c [|d ds]]; exact I. Qed.

Lemma parse_time_value_total : forall local_off (v : bytes),
  match ParseTime.transform_parse_time local_off v with ParseTime.TpPanic _ => False | _ => True end.
Proof.
  intros local_off v. pose proof (C13.C13_transform_cases local_off v) as H.
  destruct (ParseTime.transform_parse_time local_off v); try exact I. exact H.
Qed.

(* the transform step on a record: whatever bytes the time field holds, with the key inside the field array *)
Lemma parse_time_step_total : forall local_off loc label cs (p : prec),
  (loc < length (T.r_fields (fst p)))%nat ->
  exists cs' p', run_parse_time local_off loc label cs p = Ok (cs', p') /\
                 length (T.r_fields (fst p')) = length (T.r_fields (fst p)).
Proof.
  intros local_off loc label cs p Hl.
  exact (parse_time_ok local_off (length (T.r_fields (fst p))) loc label cs p Hl eq_refl).
Qed.

Lemma parse_rfc3339_with_real : forall off t,
  parse_rfc3339_with ParseTime.parse_fraction_nanos off t = ParseTime.parse_rfc3339 off t.
Proof. reflexivity. Qed.

(* ---------- the table variant ---------- *)

Ltac frac_case :=
  cbn [parse_fraction_nanos_table ParseTime.parse_fraction_nanos frac_value fold_left ParseTime.frac_loop length nth_error
       fraction_digit_nanos Nat.ltb Nat.leb firstn Nat.sub];
  try reflexivity; try (f_equal; ring).

(* it panics for EVERY fraction of exactly ten characters after the dot ... *)
Lemma table_variant_panics_at_10 : forall c ds, length ds = 10%nat ->
  parse_fraction_nanos_table (c :: ds) = Panic site_frac_table.
Proof.
  intros c ds H.
  do 10 (destruct ds as [|? ds]; [discriminate H|]). destruct ds; [|discriminate H].
  reflexivity.
Qed.

(* ... and is the real function for every other length (0-9 digits scaled by the table, 11 and more cut to nine) *)
Lemma table_variant_agrees_elsewhere : forall c ds, length ds <> 10%nat ->
  parse_fraction_nanos_table (c :: ds) = ParseTime.parse_fraction_nanos (c :: ds).
Proof.
  intros c ds H.
  do 10 (destruct ds as [|? ds]; [frac_case|]).
  destruct ds as [|? ds]; [exfalso; apply H; reflexivity|].
  frac_case.
Qed.

Definition ten_digits : bytes := [49;50;51;52;53;54;55;56;57;49]%N.       (* "1234567891" *)

(* "<13>1 2019-08-15T15:50:49.1234567891+03:00 hostA appB 77 src - hello" *)
Definition rec_ten_digit_fraction : bytes :=
  [60;49;51;62;49;32]%N ++ ts_with_fraction ten_digits ++
  [32; 104;111;115;116;65;32; 97;112;112;66;32; 55;55;32; 115;114;99;32; 45;32; 104;101;108;108;111]%N.

Lemma fraction_table_variant_refuted :
  (* the real transform: parsed, digits beyond the ninth ignored *)
  ParseTime.transform_parse_time 0 (ts_with_fraction ten_digits) = ParseTime.TpSet 1565873449 123456789 /\
  (* the real pipeline delivers the record *)
  match process_record O (ex_cfg true true) g_init (new_conn (ex_cfg true true)) (1600000000, 0)%Z 0%Z rec_ten_digit_fraction with
  | Ok (_, _, RPassed 0 [s] _) => s <> []
  | _ => False
  end /\
  (* the variant: index out of range inside the transform *)
  transform_parse_time_with parse_fraction_nanos_table 0 (ts_with_fraction ten_digits) = ParseTime.TpPanic site_frac_table /\
  (* nine and eleven digits are fine in the variant: only the length class 10 is affected *)
  transform_parse_time_with parse_fraction_nanos_table 0 (ts_with_fraction (firstn 9 ten_digits)) = ParseTime.TpSet 1565873449 123456789 /\
  transform_parse_time_with parse_fraction_nanos_table 0 (ts_with_fraction (ten_digits ++ [50]%N)) = ParseTime.TpSet 1565873449 123456789.
Proof.
  split; [vm_compute; reflexivity|]. split; [vm_compute; discriminate|].
  repeat split; vm_compute; reflexivity.
Qed.
