(* C06 - the length-prefixed merged key (util.AppendMergedKey) is injective on ALL lists of byte strings. *)
From SV Require Import Model.Common Model.Routing Proofs.CommonFacts.
From Coq Require Import Lia ZifyBool ZifyN ZifyNat.
Ltac Zify.zify_post_hook ::= Z.div_mod_to_equations.
Open Scope N_scope.

(* ---------- uvarint is a prefix code ---------- *)

Definition fuel_ok (f : nat) (x : N) : Prop := x < 2 ^ (N.of_nat f + 7).

Lemma pow_step : forall f : nat, 2 ^ (N.of_nat (S f) + 7) = 2 * 2 ^ (N.of_nat f + 7).
Proof.
  intros f. replace (N.of_nat (S f) + 7) with (N.succ (N.of_nat f + 7)) by lia.
  apply N.pow_succ_r'.
Qed.

Lemma fuel_ok_0 : forall x, fuel_ok 0 x -> x < 128.
Proof. unfold fuel_ok. intros x H. change (2 ^ (N.of_nat 0 + 7)) with 128 in H. exact H. Qed.

Lemma fuel_ok_step : forall f x, fuel_ok (S f) x -> fuel_ok f (x / 128).
Proof.
  unfold fuel_ok. intros f x H. rewrite pow_step in H.
  assert (Hp : 0 < 2 ^ (N.of_nat f + 7)) by (apply N.neq_0_lt_0; apply N.pow_nonzero; lia).
  lia.
Qed.

Lemma uvarint_fuel_enough : forall x, fuel_ok (N.to_nat (N.log2 x)) x.
Proof.
  intros x. unfold fuel_ok. rewrite N2Nat.id.
  destruct (N.eq_dec x 0) as [->|Hx].
  - change (N.log2 0) with 0. change (2 ^ (0 + 7)) with 128. lia.
  - assert (H : x < 2 ^ N.succ (N.log2 x)) by (apply N.log2_spec; lia).
    eapply N.lt_le_trans; [exact H|]. apply N.pow_le_mono_r; lia.
Qed.

Lemma uvarint_fuel_nonempty : forall f x, uvarint_fuel f x <> [].
Proof. intros [|f] x; cbn [uvarint_fuel]; [discriminate|]. destruct (x <? 128); discriminate. Qed.

Lemma cons_eq : forall (A : Type) (x y : A) (l l' : list A), x :: l = y :: l' -> x = y /\ l = l'.
Proof. intros A x y l l' H. injection H as H1 H2. auto. Qed.

(* two encodings followed by anything: equal streams give equal numbers and equal rests *)
Lemma uvarint_fuel_prefix_free :
  forall f g a b r r', fuel_ok f a -> fuel_ok g b ->
    uvarint_fuel f a ++ r = uvarint_fuel g b ++ r' -> a = b /\ r = r'.
Proof.
  induction f as [|f IH]; intros g a b r r' Ha Hb Heq.
  - apply fuel_ok_0 in Ha. cbn [uvarint_fuel app] in Heq.
    destruct g as [|g]; cbn [uvarint_fuel] in Heq.
    + cbn [app] in Heq. apply cons_eq in Heq; destruct Heq as [H1 H2]. subst. auto.
    + destruct (b <? 128) eqn:Hb128; cbn [app] in Heq.
      * apply cons_eq in Heq; destruct Heq as [H1 H2]. subst. auto.
      * apply cons_eq in Heq; destruct Heq as [H1 H2]. exfalso. lia.
  - cbn [uvarint_fuel] in Heq. destruct (a <? 128) eqn:Ha128.
    + cbn [app] in Heq. destruct g as [|g]; cbn [uvarint_fuel] in Heq.
      * cbn [app] in Heq. apply cons_eq in Heq; destruct Heq as [H1 H2]. subst. auto.
      * destruct (b <? 128) eqn:Hb128; cbn [app] in Heq.
        -- apply cons_eq in Heq; destruct Heq as [H1 H2]. subst. auto.
        -- apply cons_eq in Heq; destruct Heq as [H1 H2]. exfalso. lia.
    + cbn [app] in Heq. destruct g as [|g]; cbn [uvarint_fuel] in Heq.
      * apply fuel_ok_0 in Hb. cbn [app] in Heq. apply cons_eq in Heq; destruct Heq as [H1 H2]. exfalso. lia.
      * destruct (b <? 128) eqn:Hb128; cbn [app] in Heq.
        -- apply cons_eq in Heq; destruct Heq as [H1 H2]. exfalso. lia.
        -- apply cons_eq in Heq; destruct Heq as [H1 H2].
           apply fuel_ok_step in Ha. apply fuel_ok_step in Hb.
           destruct (IH g (a / 128) (b / 128) r r' Ha Hb H2) as [Hq Hr].
           split; [|exact Hr]. lia.
Qed.

Lemma uvarint_prefix_free :
  forall a b r r', uvarint a ++ r = uvarint b ++ r' -> a = b /\ r = r'.
Proof.
  intros a b r r'. unfold uvarint.
  apply uvarint_fuel_prefix_free; apply uvarint_fuel_enough.
Qed.

Lemma uvarint_nonempty : forall x, uvarint x <> [].
Proof. intros x. apply uvarint_fuel_nonempty. Qed.

(* ---------- the merged key as a flat_map ---------- *)

Definition enc_key (k : bytes) : bytes := uvarint (N.of_nat (length k)) ++ k.

Lemma append_merged_key_spec : forall ks buf, append_merged_key buf ks = buf ++ flat_map enc_key ks.
Proof.
  induction ks as [|k ks IH]; intros buf; cbn [append_merged_key flat_map].
  - rewrite app_nil_r. reflexivity.
  - rewrite IH. unfold enc_key. rewrite <- !app_assoc. reflexivity.
Qed.

Lemma merged_key_spec : forall ks, merged_key ks = flat_map enc_key ks.
Proof. intros ks. unfold merged_key. rewrite append_merged_key_spec. reflexivity. Qed.

Lemma app_eq_same_length : forall (A : Type) (a b r r' : list A),
  length a = length b -> a ++ r = b ++ r' -> a = b /\ r = r'.
Proof.
  induction a as [|x a IH]; intros [|y b] r r' Hl Heq; cbn in Hl; try discriminate.
  - auto.
  - cbn [app] in Heq. inversion Heq as [[Hx Ht]]. destruct (IH b r r' ltac:(lia) Ht) as [-> ->]. auto.
Qed.

Lemma enc_key_prefix_free : forall k k' r r', enc_key k ++ r = enc_key k' ++ r' -> k = k' /\ r = r'.
Proof.
  intros k k' r r' H. unfold enc_key in H. rewrite <- !app_assoc in H.
  apply uvarint_prefix_free in H. destruct H as [Hl H].
  apply app_eq_same_length in H; [exact H|lia].
Qed.

Lemma enc_key_nonempty : forall k, enc_key k <> [].
Proof.
  intros k H. unfold enc_key in H. apply app_eq_nil in H. destruct H as [H _].
  exact (uvarint_nonempty _ H).
Qed.

(* the main lemma: injective on all lists, whatever their lengths *)
Lemma merged_key_injective_lemma : forall ks ks', merged_key ks = merged_key ks' -> ks = ks'.
Proof.
  intros ks ks'. rewrite !merged_key_spec. revert ks'.
  induction ks as [|k ks IH]; intros [|k' ks'] H; cbn [flat_map] in H.
  - reflexivity.
  - symmetry in H. apply app_eq_nil in H. destruct H as [H _]. exfalso. exact (enc_key_nonempty _ H).
  - apply app_eq_nil in H. destruct H as [H _]. exfalso. exact (enc_key_nonempty _ H).
  - apply enc_key_prefix_free in H. destruct H as [-> H]. f_equal. apply IH. exact H.
Qed.

Lemma merged_key_distinct_lemma :
  forall ks ks', length ks = length ks' -> ks <> ks' -> merged_key ks <> merged_key ks'.
Proof. intros ks ks' _ Hne H. apply Hne. apply merged_key_injective_lemma. exact H. Qed.

(* the original code: plain concatenation; two tuples of the same arity collide *)
Lemma concat_key_collides :
  exists ks ks', length ks = length ks' /\ ks <> ks' /\ concat_key [] ks = concat_key [] ks'.
Proof.
  exists [[97; 98]; [99]], [[97]; [98; 99]].
  split; [reflexivity|]. split; [discriminate|]. reflexivity.
Qed.

Lemma concat_key_collides_empty :
  exists ks ks', length ks = length ks' /\ ks <> ks' /\ concat_key [] ks = concat_key [] ks'.
Proof.
  exists [[]; [120]], [[120]; []].
  split; [reflexivity|]. split; [discriminate|]. reflexivity.
Qed.

(* the witnesses are separated by the repaired key *)
Lemma merged_key_separates_witnesses :
  merged_key [[97; 98]; [99]] <> merged_key [[97]; [98; 99]] /\ merged_key [[]; [120]] <> merged_key [[120]; []].
Proof. split; vm_compute; discriminate. Qed.
