(* Proofs about Model/MetricsMem.v (C19, part G): the counter set of a pipeline worker on POOLED records.

   Specification (independent of the machine): [own_events] reads off a history, for every record the worker
   processes, the metric-key values the record had WHEN IT WAS PARSED (cut out of the message it was parsed
   from), its length, labels and verdict.  The property: the counter sets a scrape shows are those of the
   value-level worker (Model/Metrics.v part C) run on the records' own values - whatever buffers the pool hands
   out and however parsing and processing interleave. *)
From SV Require Import Model.Common Model.Metrics Model.MetricsMem Proofs.CommonFacts Proofs.MetricsProofs.
From Coq Require Import Lia ZifyBool ZifyN ZifyNat.
Ltac Zify.zify_post_hook ::= Z.div_mod_to_equations.
Local Open Scope Z_scope.

(* ------------------------------------------------------------------------------------------ *)
(* specification side                                                                           *)

Fixpoint tbl_get (t : list (nat * p_event)) (b : nat) : option p_event :=
  match t with
  | [] => None
  | (k, e) :: t' => if Nat.eqb k b then Some e else tbl_get t' b
  end.

(* the record as its message says: key values cut out of the message at parse time *)
Definition own_event (content : bytes) (keys : list (nat * nat)) (fired : list bytes) (drop : bool) : p_event :=
  PRec (map (fun k => cut content (fst k) (snd k)) keys) (Z.of_nat (length content)) fired drop.

Fixpoint own_from (t : list (nat * p_event)) (evs : list m_event) : list p_event :=
  match evs with
  | [] => []
  | MParse b content keys fired drop :: r => own_from ((b, own_event content keys fired drop) :: t) r
  | MWork b :: r => match tbl_get t b with Some e => e :: own_from t r | None => own_from t r end
  end.

Definition own_events (evs : list m_event) : list p_event := own_from [] evs.

Fixpoint works (evs : list m_event) : Z :=
  match evs with [] => 0 | MWork _ :: r => 1 + works r | _ :: r => works r end.

(* ------------------------------------------------------------------------------------------ *)
(* memory                                                                                       *)

Lemma heap_set_same : forall h b c, (b <= length h)%nat -> nth b (heap_set h b c) [] = c.
Proof.
  induction h as [|x h IH]; intros b c H; simpl in *.
  - assert (b = 0)%nat by lia. subst b. reflexivity.
  - destruct b as [|b]; simpl; [reflexivity|]. apply IH. lia.
Qed.

Lemma heap_set_other : forall h b c b', (b <= length h)%nat -> b' <> b ->
  nth b' (heap_set h b c) [] = nth b' h [].
Proof.
  induction h as [|x h IH]; intros b c b' H Hne; simpl in *.
  - assert (b = 0)%nat by lia. subst b. destruct b' as [|b']; [congruence|]. simpl. destruct b'; reflexivity.
  - destruct b as [|b]; destruct b' as [|b']; simpl; try reflexivity; try congruence.
    apply IH; [lia|congruence].
Qed.

Definition is_own (r : sref) : Prop := match r with Own _ => True | Alias _ => False end.

Lemma sval_own_heap : forall h h' ks, Forall is_own ks -> map (sval h) ks = map (sval h') ks.
Proof.
  intros h h' ks H. induction H as [|r ks Hr _ IH]; simpl; [reflexivity|].
  rewrite IH. destruct r; [reflexivity|contradiction].
Qed.

Lemma sval_map_own : forall h vs, map (sval h) (map Own vs) = vs.
Proof. intros h vs. rewrite map_map. simpl. apply map_id. Qed.

Lemma Forall_own_map : forall vs, Forall is_own (map Own vs).
Proof. induction vs; simpl; constructor; [exact I|assumption]. Qed.

Lemma sval_alias : forall h l, map (sval h) (map Alias l) = map (rd h) l.
Proof. intros h l. rewrite map_map. reflexivity. Qed.

Lemma vals_eqb_eq : forall a b, vals_eqb a b = true -> a = b.
Proof.
  induction a as [|x a IH]; intros [|y b] H; simpl in H; try reflexivity; try discriminate.
  apply andb_true_iff in H. destruct H as [H1 H2]. apply bytes_eqb_eq in H1. apply IH in H2. subst. reflexivity.
Qed.

(* ------------------------------------------------------------------------------------------ *)
(* the view of the map                                                                          *)

Definition ventry (h : heap) (e : mentry) : kcount := KC (map (sval h) (me_keys e)) (me_in e) (me_lab e).
Definition view_h (h : heap) (m : list (bytes * mentry)) : list (bytes * kcount) :=
  map (fun p : bytes * mentry => (fst p, ventry h (snd p))) m.

Lemma m_view_eq : forall s, m_view s = view_h (ms_heap s) (ms_map s).
Proof. reflexivity. Qed.

Lemma view_upd : forall h m mk nk fM fK, (forall e, ventry h (fM e) = fK (ventry h e)) ->
  view_h h (mmap_upd m mk nk fM) = kmap_upd (view_h h m) mk (map (sval h) nk) fK.
Proof.
  intros h m mk nk fM fK H. induction m as [|[k e] m IH]; simpl.
  - rewrite H. reflexivity.
  - destruct (bytes_eqb k mk); simpl; [rewrite H; reflexivity|rewrite IH; reflexivity].
Qed.

Definition map_own (m : list (bytes * mentry)) : Prop :=
  Forall (fun p : bytes * mentry => Forall is_own (me_keys (snd p))) m.

Lemma view_heap_indep : forall h h' m, map_own m -> view_h h m = view_h h' m.
Proof.
  intros h h' m H. induction H as [|[k e] m He _ IH]; simpl; [reflexivity|].
  rewrite IH. unfold ventry. simpl in He. rewrite (sval_own_heap h h' _ He). reflexivity.
Qed.

Lemma map_own_upd : forall m mk nk f, map_own m -> Forall is_own nk -> (forall e, me_keys (f e) = me_keys e) ->
  map_own (mmap_upd m mk nk f).
Proof.
  intros m mk nk f Hm Hn Hf. induction Hm as [|[k e] m He Hm IH]; simpl.
  - constructor; [|constructor]. simpl. rewrite Hf. exact Hn.
  - destruct (bytes_eqb k mk).
    + constructor; [|exact Hm]. simpl. rewrite Hf. exact He.
    + constructor; [exact He|exact IH].
Qed.

Lemma live_get_del : forall l b b',
  live_get (live_del l b) b' = if Nat.eqb b b' then None else live_get l b'.
Proof.
  induction l as [|[k r] l IH]; intros b b'; simpl.
  - destruct (Nat.eqb b b'); reflexivity.
  - destruct (Nat.eqb k b) eqn:E1.
    + apply Nat.eqb_eq in E1. subst k. rewrite IH. destruct (Nat.eqb b b'); reflexivity.
    + simpl. rewrite IH. destruct (Nat.eqb b b') eqn:E2; [|reflexivity].
      apply Nat.eqb_eq in E2. subst b'. rewrite E1. reflexivity.
Qed.

(* ------------------------------------------------------------------------------------------ *)
(* the invariant                                                                                *)

(* a record that is parsed and not yet released still reads as it was parsed: its strings point into its own
   buffer, and nobody writes a buffer that is in use *)
Definition live_ok (h : heap) (live : list (nat * mrec)) (t : list (nat * p_event)) : Prop :=
  forall b r, live_get live b = Some r ->
    Forall (fun sp => sp_buf sp = b) (mr_keys r) /\
    tbl_get t b = Some (PRec (map (rd h) (mr_keys r)) (mr_len r) (mr_fired r) (mr_drop r)).

Definition cur_ok (mg : list bytes -> bytes) (v : mvariant) (h : heap) (cur : option (list sref * bytes)) : Prop :=
  match cur with
  | None => True
  | Some (cks, cmk) => mv_cache v = CacheCopies -> Forall is_own cks /\ cmk = mg (map (sval h) cks)
  end.

Definition minv (mg : list bytes -> bytes) (v : mvariant) (s : mstate) (t : list (nat * p_event)) : Prop :=
  map_own (ms_map s) /\ live_ok (ms_heap s) (ms_live s) t /\ cur_ok mg v (ms_heap s) (ms_cur s).

(* the variants that keep copies: this tree, and a fast path that remembers copies *)
Definition faithful (v : mvariant) : Prop := mv_copy_keys v = true /\ mv_cache v <> CacheTransient.

Lemma m_step_parse : forall mg v s t b content keys fired drop s1,
  minv mg v s t -> m_step mg v s (MParse b content keys fired drop) = Some s1 ->
  minv mg v s1 ((b, own_event content keys fired drop) :: t) /\ m_view s1 = m_view s.
Proof.
  intros mg v s t b content keys fired drop s1 (Hm & Hl & Hc) H.
  unfold m_step in H. destruct (live_get (ms_live s) b) eqn:G; [discriminate|].
  destruct (Nat.leb b (length (ms_heap s))) eqn:L; [|discriminate].
  apply Nat.leb_le in L. inversion H; subst s1; clear H.
  split; [split; [|split]|].
  - exact Hm.
  - intros b' r' Hg. cbn [ms_live ms_heap] in *. simpl in Hg.
    destruct (Nat.eqb b b') eqn:E.
    + apply Nat.eqb_eq in E. subst b'. inversion Hg; subst r'. cbn [mr_keys mr_len mr_fired mr_drop].
      split.
      * apply Forall_forall. intros sp Hin. apply in_map_iff in Hin. destruct Hin as (k & <- & _). reflexivity.
      * simpl. rewrite Nat.eqb_refl. unfold own_event. f_equal. f_equal. rewrite map_map. apply map_ext.
        intros k. unfold rd. cbn [sp_buf sp_off sp_len]. rewrite heap_set_same by exact L. reflexivity.
    + destruct (Hl b' r' Hg) as [Hb Ht]. split; [exact Hb|].
      simpl. rewrite E, Ht. f_equal. f_equal. apply map_ext_in. intros sp Hin.
      rewrite Forall_forall in Hb. specialize (Hb sp Hin). unfold rd. rewrite Hb.
      rewrite heap_set_other; [reflexivity|exact L|]. apply Nat.eqb_neq in E. congruence.
  - cbn [ms_heap ms_cur]. unfold cur_ok in *. destruct (ms_cur s) as [[cks cmk]|]; [|exact I].
    intros Hv. destruct (Hc Hv) as [Ho Hk]. split; [exact Ho|]. rewrite Hk. f_equal. apply sval_own_heap. exact Ho.
  - rewrite !m_view_eq. cbn [ms_heap ms_map]. apply view_heap_indep. exact Hm.
Qed.

Lemma m_step_work : forall mg v, faithful v -> forall s t b s1,
  minv mg v s t -> m_step mg v s (MWork b) = Some s1 ->
  exists e, tbl_get t b = Some e /\ minv mg v s1 t /\
            forall ps, m_view s = p_map ps -> m_view s1 = p_map (p_step_mg mg ps e).
Proof.
  intros mg v [Hcopy Hcache] s t b s1 (Hm & Hl & Hc) H.
  unfold m_step in H. destruct (live_get (ms_live s) b) as [r|] eqn:G; [|discriminate].
  destruct (Hl b r G) as [Hb Ht].
  exists (PRec (map (rd (ms_heap s)) (mr_keys r)) (mr_len r) (mr_fired r) (mr_drop r)).
  split; [exact Ht|].
  cbv zeta in H. rewrite sval_alias in H.
  set (h := ms_heap s) in *.
  set (vals := map (rd h) (mr_keys r)) in *.
  set (fM := fun e : mentry => ME (me_keys e)
                (if mr_drop r then ic_drop (me_in e) (mr_len r) else ic_pass (me_in e) (mr_len r))
                (lab_add_all (me_lab e) (mr_fired r) (mr_len r))) in *.
  set (fK := fun kc : kcount => KC (kc_keys kc)
                (if mr_drop r then ic_drop (kc_in kc) (mr_len r) else ic_pass (kc_in kc) (mr_len r))
                (lab_add_all (kc_lab kc) (mr_fired r) (mr_len r))).
  assert (HfK : forall e, ventry h (fM e) = fK (ventry h e)) by (intros e; reflexivity).
  assert (Hfk : forall e, me_keys (fM e) = me_keys e) by (intros e; reflexivity).
  assert (Hlive : live_ok h (live_del (ms_live s) b) t).
  { intros b' r' Hg. rewrite live_get_del in Hg. destruct (Nat.eqb b b'); [discriminate|]. apply Hl. exact Hg. }
  assert (Hmiss : forall cur',
            cur_ok mg v h cur' ->
            Some (MS h (live_del (ms_live s) b)
                     (mmap_upd (ms_map s) (mg vals) (if mv_copy_keys v then map Own vals else map Alias (mr_keys r)) fM)
                     cur') = Some s1 ->
            minv mg v s1 t /\
            forall ps, m_view s = p_map ps ->
                       m_view s1 = p_map (p_step_mg mg ps (PRec vals (mr_len r) (mr_fired r) (mr_drop r)))).
  { intros cur' Hcur' Heq. inversion Heq; subst s1; clear Heq. rewrite Hcopy.
    split.
    - split; [|split]; cbn [ms_map ms_heap ms_live ms_cur].
      + apply map_own_upd; [exact Hm|apply Forall_own_map|exact Hfk].
      + exact Hlive.
      + exact Hcur'.
    - intros ps Hv. rewrite m_view_eq in *. cbn [ms_map ms_heap]. fold h in Hv.
      rewrite (view_upd h _ _ _ fM fK HfK). rewrite sval_map_own. rewrite Hv. reflexivity. }
  destruct (ms_cur s) as [[cks cmk]|] eqn:C.
  - destruct (cache_on (mv_cache v) && vals_eqb vals (map (sval h) cks)) eqn:Hit.
    + (* fast path *)
      apply andb_true_iff in Hit. destruct Hit as [Hon Heq]. apply vals_eqb_eq in Heq.
      assert (Hcc : mv_cache v = CacheCopies).
      { destruct (mv_cache v); [discriminate|reflexivity|congruence]. }
      destruct (Hc Hcc) as [Ho Hk].
      inversion H; subst s1; clear H.
      split.
      * split; [|split]; cbn [ms_map ms_heap ms_live ms_cur].
        -- apply map_own_upd; [exact Hm|exact Ho|exact Hfk].
        -- exact Hlive.
        -- exact Hc.
      * intros ps Hv. rewrite m_view_eq in *. cbn [ms_map ms_heap]. fold h in Hv.
        rewrite (view_upd h _ _ _ fM fK HfK). rewrite Hk, <- Heq, Hv. reflexivity.
    + (* no hit: through the map *)
      apply Hmiss in H; [exact H|].
      destruct (mv_cache v) eqn:Ec.
      * exact Hc.
      * intros _. split; [apply Forall_own_map|]. rewrite sval_map_own. reflexivity.
      * congruence.
  - apply Hmiss in H; [exact H|].
    destruct (mv_cache v) eqn:Ec.
    + exact I.
    + intros _. split; [apply Forall_own_map|]. rewrite sval_map_own. reflexivity.
    + congruence.
Qed.

Lemma mem_refines_gen : forall mg v, faithful v -> forall evs s t ps s',
  minv mg v s t -> m_view s = p_map ps -> m_run mg v s evs = Some s' ->
  m_view s' = p_map (fold_left (p_step_mg mg) (own_from t evs) ps) /\
  psum is_rec (own_from t evs) = works evs.
Proof.
  intros mg v Hf. induction evs as [|e evs IH]; intros s t ps s' Hinv Hv Hrun; simpl in Hrun.
  - inversion Hrun; subst s'. simpl. split; [exact Hv|reflexivity].
  - destruct (m_step mg v s e) as [s1|] eqn:Hs; [|discriminate].
    destruct e as [b content keys fired drop | b].
    + destruct (m_step_parse _ _ _ _ _ _ _ _ _ _ Hinv Hs) as [Hinv1 Hv1].
      cbn [own_from works]. apply (IH s1 _ ps s' Hinv1); [rewrite Hv1; exact Hv|exact Hrun].
    + destruct (m_step_work mg v Hf _ _ _ _ Hinv Hs) as (e & Ht & Hinv1 & Hv1).
      cbn [own_from works]. rewrite Ht. cbn [fold_left psum].
      destruct (IH s1 t (p_step_mg mg ps e) s' Hinv1 (Hv1 ps Hv) Hrun) as [H1 H2].
      split; [exact H1|].
      assert (He : is_rec e = 1).
      { destruct Hinv as (_ & Hl & _). unfold m_step in Hs.
        destruct (live_get (ms_live s) b) as [r|] eqn:G; [|discriminate].
        destruct (Hl b r G) as [_ Ht']. rewrite Ht' in Ht. inversion Ht. reflexivity. }
      rewrite He, H2. reflexivity.
Qed.

Lemma minv_init : forall mg v, minv mg v m_init [].
Proof.
  intros mg v. split; [constructor|split].
  - intros b r H. discriminate.
  - exact I.
Qed.

(* REFINEMENT: for every history the machine accepts - any buffers, any interleaving of parser and worker, any
   number of recyclings - the scrape shows the counter sets of the value-level worker run on the records' own
   values *)
Lemma mem_refines_lemma : forall mg v, faithful v -> forall evs s,
  m_run mg v m_init evs = Some s ->
  m_view s = p_map (p_run_mg mg 0 (own_events evs)).
Proof.
  intros mg v Hf evs s Hrun.
  destruct (mem_refines_gen mg v Hf evs m_init [] (p_init 0) s (minv_init mg v) eq_refl Hrun) as [H _].
  exact H.
Qed.

(* every record the worker processed is counted once, in some counter set *)
Lemma mem_total_lemma : forall mg v, faithful v -> forall evs s,
  m_run mg v m_init evs = Some s ->
  kmap_sum g_n (m_view s) = works evs.
Proof.
  intros mg v Hf evs s Hrun.
  destruct (mem_refines_gen mg v Hf evs m_init [] (p_init 0) s (minv_init mg v) eq_refl Hrun) as [H1 H2].
  rewrite H1. fold (p_run_mg mg 0 (own_from [] evs)).
  destruct (p_balance_lemma mg 0%nat (own_from [] evs)) as [Hb _]. rewrite Hb.
  destruct (p_entered_lemma mg 0%nat (own_from [] evs)) as [He _]. rewrite He. exact H2.
Qed.

(* ATTRIBUTION on pooled records (length-prefixed map key): for every metric-key tuple some processed record had
   when it was parsed, there is a counter set that carries exactly that tuple as label values and counts exactly
   the records whose own tuple it is - passed, dropped, every label; records and bytes *)
Definition mem_attributed (m : list (bytes * kcount)) (evs : list p_event) (ks : list bytes) : Prop :=
  exists kc, kmap_get m (merge_key true ks) = Some kc /\ kc_keys kc = ks /\
    ic_pn (kc_in kc) = psum (on (selk ks) w_pn) evs /\ ic_pb (kc_in kc) = psum (on (selk ks) w_pb) evs /\
    ic_dn (kc_in kc) = psum (on (selk ks) w_dn) evs /\ ic_db (kc_in kc) = psum (on (selk ks) w_db) evs /\
    forall l, lab_get (kc_lab kc) l = (psum (on (selk ks) (w_ln l)) evs, psum (on (selk ks) (w_lb l)) evs).

Lemma mem_attribution_lemma : forall v, faithful v -> forall evs s,
  m_run (merge_key true) v m_init evs = Some s ->
  forall ks, In ks (keys_of (own_events evs)) -> mem_attributed (m_view s) (own_events evs) ks.
Proof.
  intros v Hf evs s Hrun ks Hin. unfold mem_attributed.
  rewrite (mem_refines_lemma (merge_key true) v Hf evs s Hrun).
  exact (attribution_lp_lemma 0%nat (own_events evs) ks Hin).
Qed.

Lemma faithful_tree : faithful mv_tree.
Proof. split; [reflexivity|discriminate]. Qed.

Lemma faithful_copies : faithful (MV true CacheCopies).
Proof. split; [reflexivity|discriminate]. Qed.

(* ------------------------------------------------------------------------------------------ *)
(* the variants that do not copy                                                                *)

Definition ex_a : bytes := [97;97;97;97]%N.   (* "aaaa" *)
Definition ex_b : bytes := [98;98;98;98]%N.   (* "bbbb" *)

(* two records with different key values of the same length at the same offset; the first is processed and
   released before the second is parsed into the recycled buffer *)
Definition ex_recycle : list m_event :=
  [MParse 0 (ex_a ++ [32;49]%N) [(0, 4)]%nat [] false; MWork 0;
   MParse 0 (ex_b ++ [32;50]%N) [(0, 4)]%nat [label_marker] true; MWork 0].

(* a fast path that remembers the transient strings: the remembered keys read as the NEW record's values, the
   comparison succeeds, and the record with "bbbb" is counted under "aaaa"; no counter set carries "bbbb" *)
Lemma transient_cache_refuted_lemma :
  exists evs s, m_run (merge_key true) (MV true CacheTransient) m_init evs = Some s /\
    In [ex_b] (keys_of (own_events evs)) /\
    kmap_get (m_view s) (merge_key true [ex_b]) = None /\
    ~ mem_attributed (m_view s) (own_events evs) [ex_a].
Proof.
  exists ex_recycle. eexists. split; [vm_compute; reflexivity|].
  split; [vm_compute; auto|]. split; [vm_compute; reflexivity|].
  intros (kc & Hg & _ & _ & _ & Hdn & _). vm_compute in Hg. inversion Hg; subst kc. vm_compute in Hdn. discriminate.
Qed.

(* label values that are not copied: after the buffer is recycled the counter set of "aaaa" shows "bbbb" *)
Lemma uncopied_keys_refuted_lemma :
  exists evs s kc, m_run (merge_key true) (MV false NoCache) m_init evs = Some s /\
    kmap_get (m_view s) (merge_key true [ex_a]) = Some kc /\ kc_keys kc = [ex_b].
Proof.
  exists ex_recycle. eexists. eexists. split; [vm_compute; reflexivity|].
  split; vm_compute; reflexivity.
Qed.

(* non-vacuity: the history with a recycled buffer is accepted by the faithful variants, and its two records
   have different tuples; a longer history with two buffers in flight *)
Definition ex_two_buffers : list m_event :=
  [MParse 0 (ex_a ++ [32;49]%N) [(0, 4)]%nat [] false;
   MParse 1 (ex_b ++ [32;50]%N) [(0, 4); (5, 1)]%nat [] false;
   MWork 0;
   MParse 0 (ex_b ++ [32;51]%N) [(0, 4)]%nat [label_tagged] false;
   MWork 1; MWork 0].

Lemma mem_example_lemma :
  (exists s, m_run (merge_key true) mv_tree m_init ex_recycle = Some s /\
             keys_of (own_events ex_recycle) = [[ex_a]; [ex_b]] /\ works ex_recycle = 2) /\
  (exists s, m_run (merge_key true) (MV true CacheCopies) m_init ex_two_buffers = Some s /\ works ex_two_buffers = 3).
Proof.
  split; eexists; (split; [vm_compute; reflexivity|]); try split; vm_compute; reflexivity.
Qed.
