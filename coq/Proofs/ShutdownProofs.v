(* Proofs about Model/Shutdown.v (C18). *)
From SV Require Import Model.Common Model.Shutdown.
From Coq Require Import Lia ZifyBool ZifyN ZifyNat.
Ltac Zify.zify_post_hook ::= Z.div_mod_to_equations.
Local Open Scope Z_scope.

(* ------------------------------------------------------------------------------------------ *)
(* 1. the completion bound is sound for every wait graph                                        *)

Lemma runs_ge : forall g s t, wf g = true -> runs g s t -> forall z, t = Some z -> s <= z.
Proof.
  intros g s t Hwf Hr. induction Hr; intros z Hz; try discriminate.
  - inversion Hz; subst. lia.
  - inversion Hz; subst. lia.
  - inversion Hz; subst. lia.
  - simpl in Hwf. apply andb_true_iff in Hwf. destruct Hwf as [Ha Hb].
    specialize (IHHr1 Ha t1 eq_refl). specialize (IHHr2 Hb z Hz). lia.
  - simpl in Hwf. apply andb_true_iff in Hwf. destruct Hwf as [Ha Hb].
    destruct ta as [xa|], tb as [xb|]; simpl in Hz; try discriminate. inversion Hz; subst.
    specialize (IHHr1 Ha xa eq_refl). lia.
Qed.

(* a wait graph whose bound is b completes, in EVERY run, no later than b ticks after it was started *)
Lemma bnd_sound : forall g s t, wf g = true -> runs g s t ->
  forall bd, bnd g = Some bd -> exists z, t = Some z /\ s <= z <= s + bd.
Proof.
  intros g s t Hwf Hr. induction Hr; intros bd Hb; simpl in Hb.
  - (* Op *) inversion Hb; subst. exists t. split; [reflexivity|lia].
  - (* Wait *)
    exists t. split; [reflexivity|]. split; [lia|].
    destruct stop, dl as [c|]; simpl in *; inversion Hb; subst; try (specialize (H0 eq_refl)); lia.
  - (* Wait never *) discriminate.
  - (* WaitPeer *)
    simpl in Hwf. apply andb_true_iff in Hwf. destruct Hwf as [Hc Hp].
    exists t. split; [reflexivity|]. split; [lia|].
    destruct (bnd p) as [bp|] eqn:Ebp.
    + destruct (IHHr Hp bp eq_refl) as (zp & Hzp & Hle). subst tp. simpl in H2.
      destruct stop, dl as [c|]; simpl in *; inversion Hb; subst; try (specialize (H0 eq_refl)); lia.
    + destruct stop, dl as [c|]; simpl in *; inversion Hb; subst; try (specialize (H0 eq_refl)); lia.
  - (* WaitPeer never *)
    simpl in Hwf. destruct (bnd p) as [bp|] eqn:Ebp.
    + destruct (IHHr Hwf bp eq_refl) as (zp & Hzp & _). discriminate.
    + discriminate.
  - (* Seq *)
    simpl in Hwf. apply andb_true_iff in Hwf. destruct Hwf as [Ha Hbb].
    destruct (bnd a) as [ba|] eqn:Ea, (bnd b) as [bb|] eqn:Eb; simpl in Hb; try discriminate. inversion Hb; subst.
    destruct (IHHr1 Ha ba eq_refl) as (z1 & Hz1 & Hl1). inversion Hz1; subst z1.
    destruct (IHHr2 Hbb bb eq_refl) as (z2 & Hz2 & Hl2). exists z2. split; [exact Hz2|lia].
  - (* Seq never *)
    simpl in Hwf. apply andb_true_iff in Hwf. destruct Hwf as [Ha Hbb].
    destruct (bnd a) as [ba|] eqn:Ea; simpl in Hb; [|destruct (bnd b); discriminate].
    destruct (IHHr Ha ba eq_refl) as (z1 & Hz1 & _). discriminate.
  - (* Join *)
    simpl in Hwf. apply andb_true_iff in Hwf. destruct Hwf as [Ha Hbb].
    destruct (bnd a) as [ba|] eqn:Ea, (bnd b) as [bb|] eqn:Eb; simpl in Hb; try discriminate. inversion Hb; subst.
    destruct (IHHr1 Ha ba eq_refl) as (z1 & Hz1 & Hl1). destruct (IHHr2 Hbb bb eq_refl) as (z2 & Hz2 & Hl2).
    subst. simpl. exists (Z.max z1 z2). split; [reflexivity|lia].
Qed.

Lemma bnd_nonneg : forall g b, wf g = true -> bnd g = Some b -> 0 <= b.
Proof.
  induction g as [d|stop dl|stop dl p IHp|a IHa b0 IHb|a IHa b0 IHb]; intros b Hwf Hb; simpl in Hwf, Hb.
  - inversion Hb; subst. lia.
  - destruct stop, dl as [c|]; simpl in Hb; inversion Hb; subst; lia.
  - apply andb_true_iff in Hwf. destruct Hwf as [Hc Hp].
    destruct (bnd p) as [bp|] eqn:Ep; [specialize (IHp bp Hp eq_refl)|];
      destruct stop, dl as [c|]; simpl in Hb; inversion Hb; subst; lia.
  - apply andb_true_iff in Hwf. destruct Hwf as [H1 H2].
    destruct (bnd a) as [x|], (bnd b0) as [y|]; simpl in Hb; try discriminate. inversion Hb; subst.
    specialize (IHa x H1 eq_refl). specialize (IHb y H2 eq_refl). lia.
  - apply andb_true_iff in Hwf. destruct Hwf as [H1 H2].
    destruct (bnd a) as [x|], (bnd b0) as [y|]; simpl in Hb; try discriminate. inversion Hb; subst.
    specialize (IHa x H1 eq_refl). lia.
Qed.

(* ------------------------------------------------------------------------------------------ *)
(* 2. bounds of repeated graphs                                                                  *)

Lemma wf_seqn : forall n g, wf g = true -> wf (seqn n g) = true.
Proof. induction n as [|n IH]; intros g H; cbn [seqn wf]; [reflexivity|]. rewrite H, (IH g H). reflexivity. Qed.
Lemma wf_joinn : forall n g, wf g = true -> wf (joinn n g) = true.
Proof. induction n as [|n IH]; intros g H; cbn [joinn wf]; [reflexivity|]. rewrite H, (IH g H). reflexivity. Qed.

Lemma bnd_seqn : forall n g b, bnd g = Some b -> bnd (seqn n g) = Some (Z.of_nat n * b).
Proof.
  induction n as [|n IH]; intros g b H; cbn [seqn bnd].
  - f_equal; lia.
  - rewrite H, (IH g b H). cbn [oadd]. f_equal; lia.
Qed.

Lemma bnd_joinn : forall n g b, bnd g = Some b -> 0 <= b ->
  bnd (joinn n g) = Some (match n with O => 0 | S _ => b end).
Proof.
  induction n as [|n IH]; intros g b H Hb; cbn [joinn bnd]; [reflexivity|].
  rewrite H, (IH g b H Hb). cbn [omax]. f_equal; destruct n; lia.
Qed.

(* ------------------------------------------------------------------------------------------ *)
(* 3. the agent                                                                                  *)

Section Agent.
Variable p : params.
Variable sh : shape.
Hypothesis Hp : params_ok p = true.

Lemma params_nonneg :
  0 <= t_in p /\ 0 <= t_ch p /\ 0 <= t_bs p /\ 0 <= t_conn p /\ 0 <= t_send p /\ 0 <= t_ack p /\ 0 <= t_ackstop p /\ 0 <= t_retry p.
Proof.
  pose proof Hp as H. unfold params_ok in H.
  repeat (apply andb_true_iff in H; destruct H as [H ?]).
  repeat match goal with H : (_ <=? _) = true |- _ => apply Z.leb_le in H end. repeat split; assumption.
Qed.

Lemma bnd_collect : bnd (collect p) = Some 0.
Proof.
  destruct params_nonneg as (H1 & H2 & H3 & H4 & H5 & H6 & H7 & H8).
  unfold collect, acker_end. cbn [bnd omin oadd]. f_equal; lia.
Qed.

Lemma bnd_final : bnd (final sh) = Some 0.
Proof. unfold final. cbn [bnd]. rewrite (bnd_seqn _ (Op 0) 0 eq_refl). cbn [oadd]. f_equal; lia. Qed.

Lemma bnd_after_failed_send : bnd (after_failed_send p sh) = Some 0.
Proof.
  destruct params_nonneg as (H1 & H2 & H3 & H4 & H5 & H6 & H7 & H8).
  unfold after_failed_send. cbn [bnd]. rewrite bnd_collect, bnd_final. cbn [omin oadd]. f_equal; lia.
Qed.

Definition aborted_phase (ph : cphase18) : bool :=
  match ph with
  | PIdle | PWaitAck | PSending | PConnecting | PRecovery | PRetryWait | PHandOver => true
  | PSendingLate | PConnectingLate => late_abort sh
  | PStuck => false
  end.

(* every wait the client passes after the stop - on the session the stop signal aborts, in the retry wait, while
   connecting - has a stop edge: the client finishes without waiting for any deadline *)
Lemma client_instant_lemma : forall ph, aborted_phase ph = true -> bnd (client p sh ph) = Some 0.
Proof.
  destruct params_nonneg as (H1 & H2 & H3 & H4 & H5 & H6 & H7 & H8).
  intros ph Ha. destruct ph; cbn [aborted_phase] in Ha; try discriminate; unfold client, send_aborted; try rewrite Ha; cbn [bnd omin oadd].
  all: try (destruct (n_win sh); cbn [bnd omin oadd]).
  all: rewrite ?bnd_collect, ?bnd_final, ?bnd_after_failed_send; simpl; f_equal; lia.
Qed.

(* a session opened after the abort-on-stop callback has run is not aborted: its sends are bounded by their
   deadline only *)
Lemma client_late_lemma : late_abort sh = false ->
  bnd (client p sh PSendingLate) = Some (t_send p) /\
  bnd (client p sh PConnectingLate) = Some (Z.of_nat (n_left sh) * t_send p).
Proof.
  intros Hl.
  destruct params_nonneg as (H1 & H2 & H3 & H4 & H5 & H6 & H7 & H8).
  unfold client, send_live. rewrite Hl. cbn [bnd omin oadd]. rewrite bnd_collect, bnd_final.
  assert (Hs : bnd (Seq (Wait false (Some (t_send p))) (Wait true None)) = Some (t_send p)) by (simpl; f_equal; lia).
  rewrite (bnd_seqn _ _ _ Hs). simpl. split; f_equal; lia.
Qed.

Lemma client_stuck_lemma : bnd (client p sh PStuck) = None.
Proof. reflexivity. Qed.

Lemma wf_client : forall ph, wf (client p sh ph) = true.
Proof.
  destruct params_nonneg as (H1 & H2 & H3 & H4 & H5 & H6 & H7 & H8).
  assert (Hc : wf (collect p) = true) by (unfold collect, acker_end; simpl; lia).
  assert (Hf : wf (final sh) = true) by (unfold final; cbn [wf]; rewrite wf_seqn by reflexivity; reflexivity).
  assert (Ha : wf (after_failed_send p sh) = true) by (unfold after_failed_send; cbn [wf]; rewrite Hc, Hf; simpl; lia).
  intros ph. destruct ph; unfold client, send_aborted, send_live; cbn [wf].
  all: try (destruct (late_abort sh); cbn [wf]).
  all: try (destruct (n_win sh); cbn [wf]).
  all: rewrite ?Hc, ?Hf, ?Ha, ?wf_seqn; simpl; try lia.
  all: cbn [wf]; simpl; lia.
Qed.

Lemma bnd_feeder : forall ph, bnd (feeder p sh ph) = bnd (client p sh ph).
Proof.
  intros ph. unfold feeder. cbn [bnd omin oadd].
  destruct (bnd (client p sh ph)) as [c|]; simpl; [f_equal; lia|reflexivity].
Qed.

Lemma run_timeout_nonneg : 0 <= run_timeout p sh.
Proof. destruct params_nonneg as (_ & H2 & H3 & _). unfold run_timeout. destruct (has_dir sh); lia. Qed.

(* Destroy never waits longer than its own deadline, whatever the consumer does *)
Lemma bnd_destroy : forall ph,
  exists d, bnd (destroy p sh ph) = Some d /\ 0 <= d <= B_destroy p sh /\
            (forall c, bnd (client p sh ph) = Some c -> d = (if has_dir sh then 0 else t_bs p) + Z.min (run_timeout p sh) c).
Proof.
  destruct params_nonneg as (H1 & H2 & H3 & _). pose proof run_timeout_nonneg as Hr.
  intros ph. unfold destroy, B_destroy. cbn [bnd omin oadd]. rewrite bnd_feeder.
  destruct (bnd (client p sh ph)) as [c|] eqn:Ec.
  - pose proof (bnd_nonneg _ _ (wf_client ph) Ec) as Hc.
    destruct (has_dir sh); cbn [bnd omin oadd]; eexists; (split; [reflexivity|]); (split; [lia|]);
      intros c0 Hc0; inversion Hc0; subst; lia.
  - destruct (has_dir sh); cbn [bnd omin oadd]; eexists; (split; [reflexivity|]); (split; [lia|]);
      intros c0 Hc0; discriminate.
Qed.

Lemma bnd_pipeline : forall ph,
  exists d, bnd (pipeline p sh ph) = Some d /\ 0 <= d <= Z.of_nat (n_out sh) * B_destroy p sh.
Proof.
  intros ph. destruct (bnd_destroy ph) as (d & Hd & Hle & _).
  unfold pipeline. cbn [bnd oadd]. rewrite (bnd_seqn _ _ _ Hd). simpl.
  eexists. split; [reflexivity|]. nia.
Qed.

Lemma bnd_orchestrator : forall ph,
  exists d, bnd (orchestrator p sh ph) = Some d /\ 0 <= d <= B_orch p sh.
Proof.
  intros ph. destruct (bnd_pipeline ph) as (d & Hd & Hle).
  unfold orchestrator, B_orch. cbn [bnd oadd]. rewrite (bnd_joinn _ _ _ Hd) by lia. simpl.
  eexists. split; [reflexivity|]. destruct (n_pipe sh); lia.
Qed.

Lemma bnd_connection :
  exists d, bnd (connection p sh) = Some d /\ 0 <= d <= (if worker_live sh then 0 else Z.of_nat (n_flush sh) * t_ch p).
Proof.
  destruct params_nonneg as (H1 & H2 & _).
  unfold connection, worker_receive. cbn [bnd omin oadd].
  destruct (worker_live sh).
  - assert (Hs : bnd (WaitPeer false (Some (t_ch p)) (Op 0)) = Some 0) by (simpl; f_equal; lia).
    rewrite (bnd_seqn _ _ _ Hs). simpl. eexists. split; [reflexivity|]. lia.
  - assert (Hs : bnd (WaitPeer false (Some (t_ch p)) (Wait false None)) = Some (t_ch p)) by reflexivity.
    rewrite (bnd_seqn _ _ _ Hs). simpl. eexists. split; [reflexivity|]. lia.
Qed.

Lemma bnd_inputs : exists d, bnd (inputs p sh) = Some d /\ 0 <= d <= B_inputs p sh.
Proof.
  destruct bnd_connection as (d & Hd & Hle).
  unfold inputs, B_inputs. cbn [bnd omin oadd omax]. rewrite (bnd_joinn _ _ _ Hd) by lia. simpl.
  eexists. split; [reflexivity|]. destruct (n_conn sh); destruct (worker_live sh); lia.
Qed.

Lemma wf_agent : forall ph, wf (agent p sh ph) = true.
Proof.
  destruct params_nonneg as (H1 & H2 & H3 & H4 & H5 & H6 & H7 & H8). pose proof run_timeout_nonneg as Hr.
  intros ph. unfold agent, inputs, orchestrator, pipeline, destroy, feeder, connection, worker_receive. cbn [wf].
  rewrite !wf_joinn, ?wf_seqn; cbn [wf]; rewrite ?wf_client, ?wf_seqn; cbn [wf]; try reflexivity.
  all: repeat match goal with
       | |- context [if ?c then _ else _] => destruct c
       end; cbn [wf]; rewrite ?wf_client; simpl; lia.
Qed.

(* stop_terminates + stop_bound: whatever the client and the upstream do (any phase, including a consumer that
   never finishes), every run of the agent's shutdown completes, within B ticks *)
Lemma stop_bound_lemma : forall ph t,
  runs (agent p sh ph) 0 t -> exists z, t = Some z /\ 0 <= z <= B p sh.
Proof.
  intros ph t Hr.
  destruct bnd_inputs as (di & Hdi & Hli). destruct (bnd_orchestrator ph) as (d0 & Hd0 & Hl0).
  assert (Hb : bnd (agent p sh ph) = Some (di + d0)) by (unfold agent; cbn [bnd]; rewrite Hdi, Hd0; reflexivity).
  destruct (bnd_sound _ _ _ (wf_agent ph) Hr _ Hb) as (z & Hz & Hle).
  exists z. split; [exact Hz|]. unfold B. lia.
Qed.

(* when the client is on a path where every wait has a stop edge (and the directory is usable, the workers
   live), the shutdown needs no tick at all: nothing but scheduler latency and I/O, and Destroy returns through
   the feeder, not through its deadline *)
Lemma stop_instant_lemma : forall ph t,
  aborted_phase ph = true -> worker_live sh = true -> has_dir sh = true ->
  runs (agent p sh ph) 0 t -> t = Some 0.
Proof.
  intros ph t Ha Hw Hdir Hr.
  destruct bnd_inputs as (di & Hdi & Hli). unfold B_inputs in Hli. rewrite Hw in Hli.
  assert (di = 0) by (destruct (n_conn sh); lia). subst di.
  destruct (bnd_destroy ph) as (d & Hd & Hle & Heq).
  specialize (Heq 0 (client_instant_lemma ph Ha)).
  pose proof run_timeout_nonneg as Hr0. rewrite Hdir in Heq.
  assert (d = 0) by lia. subst d.
  assert (Hb : bnd (agent p sh ph) = Some 0).
  { unfold agent, orchestrator, pipeline. cbn [bnd oadd]. rewrite Hdi.
    assert (Hpl : bnd (Seq (Op 0) (Seq (seqn (n_out sh) (destroy p sh ph)) (Op 0))) = Some 0).
    { cbn [bnd oadd]. rewrite (bnd_seqn _ _ _ Hd). simpl. f_equal. lia. }
    rewrite (bnd_joinn _ _ _ Hpl) by lia. simpl. destruct (n_pipe sh); reflexivity. }
  destruct (bnd_sound _ _ _ (wf_agent ph) Hr _ Hb) as (z & Hz & Hzle).
  subst t. f_equal. lia.
Qed.

(* the feeder - which waits for the consumers WITHOUT a deadline - stops before Destroy's deadline whenever the
   client's own bound is below it: then Destroy returns because the feeder has stopped (every pending chunk saved
   or handed back), not through the "BUG: couldn't stop feeder in time" branch *)
Lemma feeder_in_time_lemma : forall ph c s t,
  bnd (client p sh ph) = Some c -> 0 <= c ->
  runs (feeder p sh ph) s t -> exists z, t = Some z /\ s <= z <= s + c.
Proof.
  intros ph c s t Hc Hc0 Hr.
  assert (Hwf : wf (feeder p sh ph) = true) by (unfold feeder; cbn [wf]; rewrite wf_client; reflexivity).
  apply (bnd_sound _ _ _ Hwf Hr). rewrite bnd_feeder. exact Hc.
Qed.

End Agent.

(* production values of defs/params.go in seconds, a 1 MiB chunk (90 s + 1 MiB / 10 KiB/s = 192 s to send) *)
Definition prod_params : params := PR 1 60 240 60 192 120 180 10.
(* prod_shape: the original code (late_abort = false); prod_shape_repaired: with the repair *)
Definition prod_shape : shape := SH 100 4 50 2 4 250 true true false.
Definition prod_shape_repaired : shape := SH 100 4 50 2 4 250 true true true.

Lemma prod_example_lemma :
  params_ok prod_params = true /\ B prod_params prod_shape_repaired = 600 /\
  bnd (agent prod_params prod_shape_repaired PSending) = Some 0 /\
  bnd (agent prod_params prod_shape_repaired PConnectingLate) = Some 0 /\
  bnd (agent prod_params prod_shape_repaired PStuck) = Some 600.
Proof. vm_compute. repeat split; reflexivity. Qed.

(* the observation of the design: a session opened after the abort-on-stop callback ran is not aborted; with
   leftovers and an upstream that stops reading, the client alone can need longer than Destroy's deadline, and
   Destroy then returns through the "BUG: couldn't stop feeder in time" branch with chunks still held in memory *)
Lemma late_session_exceeds_destroy_deadline_lemma :
  exists c, bnd (client prod_params prod_shape PConnectingLate) = Some c /\ run_timeout prod_params prod_shape < c.
Proof. eexists. split; [vm_compute; reflexivity|]. vm_compute. reflexivity. Qed.

Lemma feeder_at_once_lemma : forall (p : params) (sh : shape), params_ok p = true ->
  forall ph s t, aborted_phase sh ph = true -> runs (feeder p sh ph) s t -> t = Some s.
Proof.
  intros p sh Hp ph s t Ha Hr.
  destruct (feeder_in_time_lemma p sh Hp ph 0 s t (client_instant_lemma p sh Hp ph Ha) (Z.le_refl 0) Hr) as (z & Hz & Hle).
  subst t. f_equal. lia.
Qed.
