(* C14 follow-up (wave-4 miss seeded/C14/8): the backward scan of the local part has no bound.
   - the loop over a parametric start scan, instantiated with the faithful scan, IS the model (every text);
   - addresses with a local part of ANY length n+1 are addresses of the specification and are covered;
   - the scan capped at [cap] characters gives up on every local part longer than cap (for all cap, n), and the
     whole redaction with the cap of the seeded change (64) leaves a 65-byte address untouched. *)
From SV Require Import Model.Common Model.Redact Model.RedactBounded Spec.RedactSpec Proofs.CommonFacts Proofs.RedactProofs.
From Coq Require Import Lia ZifyBool ZifyN ZifyNat.
Local Open Scope nat_scope.

(* ---------- the parametric loop with the faithful scan is the model ---------- *)

Lemma redact_step_v_faithful : forall t st, redact_step_v find_start t st = redact_step t st.
Proof. reflexivity. Qed.

Lemma redact_loop_v_faithful : forall fuel t st, redact_loop_v find_start fuel t st = redact_loop fuel t st.
Proof.
  induction fuel as [|f IH]; intros t st; [reflexivity|].
  cbn [redact_loop_v redact_loop]. rewrite redact_step_v_faithful.
  destruct (S (r_at st) <? length t); [|reflexivity].
  destruct (redact_step t st) as [[st'|st']|e|p]; cbn [rbind]; auto.
Qed.

Lemma redact_email_v_faithful : forall t, redact_email_v find_start t = redact_email t.
Proof.
  intros t. unfold redact_email_v, redact_email, redact1_v, redact1.
  destruct (find_first t) as [[first|]|e|p]; cbn [rbind]; auto using redact_loop_v_faithful.
Qed.

(* ---------- local parts of any length ---------- *)

Lemma repeat_a_addr : forall n, Forall addr_ch (repeat 97%N n).
Proof. induction n as [|n IH]; cbn [repeat]; constructor; auto. unfold addr_ch, word_ch, digit_ch. lia. Qed.

Lemma repeat_snoc : forall (c : N) n, repeat c (S n) = repeat c n ++ [c].
Proof. induction n as [|n IH]; [reflexivity|]. cbn [repeat app] in *. rewrite <- IH. reflexivity. Qed.

(* "aaa...a@b.c" with n+1 letters is an address at [0, n+5), its '@' at n+1 - whatever n *)
Lemma long_local_email_at : forall n, email_at (long_local n) 0 (S n) (n + 5).
Proof.
  intros n. exists [], (repeat 97%N (S n)), [98;46;99]%N, [].
  split; [unfold long_local; cbn [app]; reflexivity|].
  split; [reflexivity|]. split; [rewrite repeat_length; reflexivity|].
  split; [cbn [length]; lia|].
  split; [left; reflexivity|].
  split.
  { exists (repeat 97%N n), 97%N. split; [apply repeat_snoc|]. split; [apply repeat_a_addr|ch]. }
  split.
  - apply (dom_dotted [98%N] 99%N [] []).
    + exists 98%N, []. split; [reflexivity|]. split; [ch | constructor].
    + ch.
    + constructor.
    + exact I.
  - intros [_ [HF _]]. inversion HF as [|? ? H1 _]; subst. destruct H1 as [H|H]; revert H; ch.
Qed.

(* ... and the model redacts it entirely: every position of the text lies inside a span *)
Lemma long_local_covered : forall n, exists out spans,
  redact_email (long_local n) = Ok (out, spans) /\ forall i, i < n + 5 -> covered spans i.
Proof.
  intros n. destruct (redact_email_total (long_local n)) as [out [spans H]].
  exists out, spans. split; [exact H|]. intros i Hi.
  apply (complete_lemma _ _ _ 0 (S n) (n + 5) H (long_local_email_at n)). lia.
Qed.

(* ---------- the capped scan ---------- *)

(* the faithful scan walks back over a local part of any length n ... *)
Lemma find_start_any_length : forall n rest,
  find_start (repeat 97%N n ++ 64%N :: rest) n 0 = Ok (Some 0).
Proof.
  intros n rest. unfold find_start.
  pose proof (find_start_loop_run (repeat 97%N n) [] (64%N :: rest) 0 (repeat_a_addr n) (or_introl eq_refl)) as H.
  cbn [app length Nat.add] in H. rewrite repeat_length in H. rewrite H by lia. reflexivity.
Qed.

(* ... the capped scan rejects every local part longer than the cap: for all caps, all lengths *)
Lemma find_start_capped_gives_up : forall cap n rest, cap < n ->
  find_start_capped cap (repeat 97%N n ++ 64%N :: rest) n 0 = Ok None.
Proof.
  intros cap n rest Hlt. unfold find_start_capped.
  replace (cap + 1 + 0 <=? n) with true by (symmetry; apply Nat.leb_le; lia).
  pose proof (find_start_loop_run (repeat 97%N n) [] (64%N :: rest) (n - cap - 1) (repeat_a_addr n) (or_introl eq_refl)) as H.
  cbn [app length Nat.add] in H. rewrite repeat_length in H. rewrite H by lia. clear H.
  cbn [rbind]. rewrite Nat.max_0_l.
  destruct (n - cap - 1) as [|i] eqn:E.
  - replace (cap <? n) with true by (symmetry; apply Nat.ltb_lt; lia). reflexivity.
  - assert (Hn : nth_error (repeat 97%N n ++ 64%N :: rest) i = Some 97%N).
    { rewrite nth_error_app1 by (rewrite repeat_length; lia).
      apply nth_error_repeat. lia. }
    rewrite (get_some _ _ _ Hn). cbn [rbind].
    replace (97 =? ch_slash)%N with false by reflexivity.
    replace (cap <? n - S i) with true by (symmetry; apply Nat.ltb_lt; lia). reflexivity.
Qed.

(* ... and accepts exactly like the faithful one up to the cap *)
Lemma find_start_capped_within : forall cap n rest, n <= cap ->
  find_start_capped cap (repeat 97%N n ++ 64%N :: rest) n 0 = Ok (Some 0).
Proof.
  intros cap n rest Hle. unfold find_start_capped.
  replace (cap + 1 + 0 <=? n) with false by (symmetry; apply Nat.leb_gt; lia).
  pose proof (find_start_loop_run (repeat 97%N n) [] (64%N :: rest) 0 (repeat_a_addr n) (or_introl eq_refl)) as H.
  cbn [app length Nat.add] in H. rewrite repeat_length in H. rewrite H by lia. clear H.
  cbn [rbind Nat.max]. replace (cap <? n) with false by (symmetry; apply Nat.ltb_ge; lia). reflexivity.
Qed.

(* The seeded variant (cap 64): "a"*65 ++ "@b.c" is an address, the variant returns the text unchanged with no
   span - the start of the address is not covered - while the model redacts it; with 64 letters both redact. *)
Lemma bounded_scan_variant_witness :
  redact_email_v (find_start_capped 64) (long_local 64) = Ok (long_local 64, []) /\
  redact_email (long_local 64) = Ok (marker, [(0, 69)]) /\
  redact_email_v (find_start_capped 64) (long_local 63) = Ok (marker, [(0, 68)]).
Proof. split; [|split]; vm_compute; reflexivity. Qed.

Lemma bounded_scan_variant_refuted :
  exists t s a e, email_at t s a e /\
    exists out spans, redact_email_v (find_start_capped 64) t = Ok (out, spans) /\ out = t /\ ~ covered spans s.
Proof.
  exists (long_local 64), 0, 65, 69. split; [exact (long_local_email_at 64)|].
  exists (long_local 64), []. split; [exact (proj1 bounded_scan_variant_witness)|].
  split; [reflexivity|]. intros [s [e [[] _]]].
Qed.
