(* Facts about the buffer writers (Model/Msgpack.v) and about the decoder (Spec/MsgpackSpec.v).

   Buffer facts are in "append form": the buffer is [pre ++ old ++ tail], the position is [length pre], the
   writer produces [data] with [length old = length data]; the result is [pre ++ data ++ tail] and nothing else
   changes.  Decoder facts: every header form used by the encoder is read back, for every length of its class. *)
From SV Require Import Model.Common Model.Msgpack Model.Unescape Model.Serializer
     Spec.MsgpackSpec Spec.SerializerSpec Proofs.CommonFacts.
From Coq Require Import Lia ZifyBool ZifyN ZifyNat.
Ltac Zify.zify_post_hook ::= Z.div_mod_to_equations.
Open Scope N_scope.

(* ------------------------------------------------------------------ *)
(* lists                                                               *)

Lemma split_len : forall {A} (l : list A) (a b : nat),
  length l = (a + b)%nat -> exists l1 l2, l = l1 ++ l2 /\ length l1 = a /\ length l2 = b.
Proof.
  intros A l a b H. exists (firstn a l), (skipn a l).
  rewrite firstn_skipn. split; [reflexivity|]. split.
  - rewrite firstn_length. lia.
  - rewrite skipn_length. lia.
Qed.

Lemma split_le : forall {A} (l : list A) (a : nat),
  (a <= length l)%nat -> exists l1 l2, l = l1 ++ l2 /\ length l1 = a.
Proof.
  intros A l a H. exists (firstn a l), (skipn a l).
  rewrite firstn_skipn. split; [reflexivity|]. rewrite firstn_length. lia.
Qed.

Lemma length_zero_nil : forall {A} (l : list A), length l = O -> l = [].
Proof. intros A [|x l] H; [reflexivity|discriminate]. Qed.

(* ------------------------------------------------------------------ *)
(* put / copy_at in append form                                        *)

Lemma set_nth_at : forall pre x tail v,
  set_nth (pre ++ x :: tail) (length pre) v = Some (pre ++ v :: tail).
Proof.
  induction pre as [|p pre IH]; intros x tail v; cbn [set_nth app length].
  - reflexivity.
  - rewrite IH. reflexivity.
Qed.

Lemma put_at : forall pre x tail v n,
  n = length pre -> put (pre ++ x :: tail) n v = Ok (pre ++ v :: tail).
Proof. intros pre x tail v n ->. unfold put. rewrite set_nth_at. reflexivity. Qed.

Lemma put_mid : forall pre mid x tail v n,
  n = (length pre + length mid)%nat ->
  put (pre ++ mid ++ x :: tail) n v = Ok (pre ++ mid ++ v :: tail).
Proof.
  intros pre mid x tail v n ->. rewrite !app_assoc. apply put_at. rewrite app_length. reflexivity.
Qed.

Lemma put0 : forall pre x t v, put (pre ++ x :: t) (length pre) v = Ok (pre ++ v :: t).
Proof. intros. apply put_at. reflexivity. Qed.
Lemma put1 : forall pre a x t v, put (pre ++ a :: x :: t) (length pre + 1) v = Ok (pre ++ a :: v :: t).
Proof. intros. apply (put_mid pre [a]). reflexivity. Qed.
Lemma put2 : forall pre a b x t v, put (pre ++ a :: b :: x :: t) (length pre + 2) v = Ok (pre ++ a :: b :: v :: t).
Proof. intros. apply (put_mid pre [a; b]). reflexivity. Qed.
Lemma put3 : forall pre a b c x t v,
  put (pre ++ a :: b :: c :: x :: t) (length pre + 3) v = Ok (pre ++ a :: b :: c :: v :: t).
Proof. intros. apply (put_mid pre [a; b; c]). reflexivity. Qed.
Lemma put4 : forall pre a b c d x t v,
  put (pre ++ a :: b :: c :: d :: x :: t) (length pre + 4) v = Ok (pre ++ a :: b :: c :: d :: v :: t).
Proof. intros. apply (put_mid pre [a; b; c; d]). reflexivity. Qed.

Lemma put_out_of_range : forall buf i v, (length buf <= i)%nat -> put buf i v = Panic site_index.
Proof.
  unfold put. induction buf as [|h t IH]; intros i v H; cbn [set_nth].
  - reflexivity.
  - destruct i as [|i]; cbn [length] in H; [lia|].
    specialize (IH i v ltac:(lia)). destruct (set_nth t i v); [discriminate|reflexivity].
Qed.

Lemma blit_exact : forall old src tail,
  length old = length src -> blit (old ++ tail) src = (src ++ tail, length src).
Proof.
  induction old as [|o old IH]; intros [|s src] tail H; cbn [length] in H; try discriminate.
  - destruct tail; reflexivity.
  - cbn [blit app length]. rewrite IH by lia. reflexivity.
Qed.

Lemma copy_at_opt_at : forall pre old src tail,
  length old = length src ->
  copy_at_opt (pre ++ old ++ tail) (length pre) src = Some (pre ++ src ++ tail, length src).
Proof.
  induction pre as [|p pre IH]; intros old src tail H; cbn [copy_at_opt app length].
  - rewrite blit_exact by assumption. reflexivity.
  - rewrite IH by assumption. reflexivity.
Qed.

Lemma copy_at_at : forall pre old src tail n,
  n = length pre -> length old = length src ->
  copy_at (pre ++ old ++ tail) n src = Ok (pre ++ src ++ tail, length src).
Proof. intros pre old src tail n -> H. unfold copy_at. rewrite copy_at_opt_at by assumption. reflexivity. Qed.

(* copy into a window from its start *)
Lemma copy_at_0 : forall old src tail,
  length old = length src -> copy_at (old ++ tail) 0 src = Ok (src ++ tail, length src).
Proof. intros old src tail H. apply (copy_at_at [] old src tail O); [reflexivity|assumption]. Qed.

(* lengths are preserved by every primitive *)
Lemma set_nth_length : forall buf i v b, set_nth buf i v = Some b -> length b = length buf.
Proof.
  induction buf as [|h t IH]; intros i v b H; cbn [set_nth] in H; [discriminate|].
  destruct i as [|i].
  - inversion H; reflexivity.
  - destruct (set_nth t i v) eqn:E; [|discriminate]. inversion H; subst. cbn [length]. f_equal. eapply IH; eassumption.
Qed.

Lemma put_length : forall buf i v b, put buf i v = Ok b -> length b = length buf.
Proof.
  unfold put. intros buf i v b H. destruct (set_nth buf i v) eqn:E; [|discriminate].
  inversion H; subst. eapply set_nth_length; eassumption.
Qed.

Lemma blit_length : forall buf src, length (fst (blit buf src)) = length buf /\ (snd (blit buf src) <= length src)%nat
                                    /\ (snd (blit buf src) <= length buf)%nat.
Proof.
  induction buf as [|h t IH]; intros [|s src]; cbn [blit fst snd length]; try (repeat split; lia).
  specialize (IH src). destruct (blit t src) as [t' n]. cbn [fst snd length] in *. lia.
Qed.

Lemma copy_at_opt_length : forall buf off src b n,
  copy_at_opt buf off src = Some (b, n) -> length b = length buf /\ (n <= length src)%nat /\ (off + n <= length buf)%nat.
Proof.
  induction buf as [|h t IH]; intros off src b n H.
  - destruct off; cbn [copy_at_opt] in H; [|discriminate].
    pose proof (blit_length [] src) as L. destruct (blit [] src) as [b' n']. inversion H; subst.
    cbn [fst snd length] in *. lia.
  - destruct off as [|off]; cbn [copy_at_opt] in H.
    + pose proof (blit_length (h :: t) src) as L. destruct (blit (h :: t) src) as [b' n']. inversion H; subst.
      cbn [fst snd] in L. lia.
    + destruct (copy_at_opt t off src) as [[t' n']|] eqn:E; [|discriminate]. inversion H; subst.
      apply IH in E. cbn [length]. lia.
Qed.

Lemma copy_at_length : forall buf off src b n,
  copy_at buf off src = Ok (b, n) -> length b = length buf /\ (n <= length src)%nat /\ (off + n <= length buf)%nat.
Proof.
  unfold copy_at. intros buf off src b n H. destruct (copy_at_opt buf off src) as [[b' n']|] eqn:E; [|discriminate].
  inversion H; subst. eapply copy_at_opt_length; eassumption.
Qed.

(* ------------------------------------------------------------------ *)
(* numbers                                                             *)

Lemma lor_low4 : forall base n, (base = 128 \/ base = 144 \/ base = 160) -> n < 16 -> N.lor base n = base + n.
Proof.
  intros base n Hb Hn.
  assert (E : n = 0 \/ n = 1 \/ n = 2 \/ n = 3 \/ n = 4 \/ n = 5 \/ n = 6 \/ n = 7 \/ n = 8 \/ n = 9 \/ n = 10
              \/ n = 11 \/ n = 12 \/ n = 13 \/ n = 14 \/ n = 15) by lia.
  destruct Hb as [-> | [-> | ->]];
    repeat (destruct E as [-> | E]; [reflexivity|]); subst; reflexivity.
Qed.

Lemma to_byte_small : forall n, N.of_nat n < 256 -> to_byte n = N.of_nat n.
Proof. intros n H. unfold to_byte. apply N.mod_small. assumption. Qed.

Lemma be_val_be16 : forall n, n < 65536 -> be_val (be16 n) 0 = n.
Proof. intros n H. unfold be16. cbn [be_val]. lia. Qed.

Lemma be_val_be32 : forall n, n < 4294967296 -> be_val (be32 n) 0 = n.
Proof. intros n H. unfold be32. cbn [be_val]. lia. Qed.

Lemma be16_mod : forall n, be16 (n mod 65536) = be16 n.
Proof. intros n. unfold be16. f_equal; [|f_equal]; lia. Qed.

(* ------------------------------------------------------------------ *)
(* writers in append form                                              *)

Lemma write2_at : forall pre a b tail n,
  write2 (pre ++ a :: b :: tail) (length pre) n = Ok (pre ++ be16 n ++ tail, (length pre + 2)%nat).
Proof. intros. unfold write2. rewrite put0. cbn [obind]. rewrite put1. reflexivity. Qed.

Lemma write4_at : forall pre a b c d tail n,
  write4 (pre ++ a :: b :: c :: d :: tail) (length pre) n = Ok (pre ++ be32 n ++ tail, (length pre + 4)%nat).
Proof.
  intros. unfold write4. rewrite put0. cbn [obind]. rewrite put1. cbn [obind]. rewrite put2. cbn [obind].
  rewrite put3. reflexivity.
Qed.

Lemma write2_at1 : forall pre x a b tail n,
  write2 (pre ++ x :: a :: b :: tail) (length pre + 1) n = Ok (pre ++ x :: be16 n ++ tail, (length pre + 3)%nat).
Proof.
  intros. replace (pre ++ x :: a :: b :: tail) with ((pre ++ [x]) ++ a :: b :: tail) by (rewrite <- app_assoc; reflexivity).
  replace (length pre + 1)%nat with (length (pre ++ [x])) by (rewrite app_length; reflexivity).
  rewrite write2_at. rewrite app_length. cbn [length]. rewrite <- app_assoc. f_equal. f_equal. lia.
Qed.

Lemma write4_at1 : forall pre x a b c d tail n,
  write4 (pre ++ x :: a :: b :: c :: d :: tail) (length pre + 1) n
  = Ok (pre ++ x :: be32 n ++ tail, (length pre + 5)%nat).
Proof.
  intros. replace (pre ++ x :: a :: b :: c :: d :: tail) with ((pre ++ [x]) ++ a :: b :: c :: d :: tail)
    by (rewrite <- app_assoc; reflexivity).
  replace (length pre + 1)%nat with (length (pre ++ [x])) by (rewrite app_length; reflexivity).
  rewrite write4_at. rewrite app_length. cbn [length]. rewrite <- app_assoc. f_equal. f_equal. lia.
Qed.

(* the three string headers *)
Lemma string_len4_at : forall pre x tail len,
  N.of_nat len < 16 ->
  encode_string_len4 (pre ++ x :: tail) (length pre) len = Ok (pre ++ (160 + N.of_nat len) :: tail, (length pre + 1)%nat).
Proof.
  intros pre x tail len H. unfold encode_string_len4. rewrite put0. cbn [obind].
  rewrite to_byte_small by lia. unfold code_fixstr. rewrite lor_low4 by (auto; lia). reflexivity.
Qed.

Lemma string_len16_at : forall pre x a b tail len,
  encode_string_len16 (pre ++ x :: a :: b :: tail) (length pre) len
  = Ok (pre ++ 218 :: be16 (N.of_nat len mod 65536) ++ tail, (length pre + 3)%nat).
Proof. intros. unfold encode_string_len16. rewrite put0. cbn [obind]. rewrite write2_at1. reflexivity. Qed.

Lemma string_len32_at : forall pre x a b c d tail len,
  encode_string_len32 (pre ++ x :: a :: b :: c :: d :: tail) (length pre) len
  = Ok (pre ++ 219 :: be32 (N.of_nat len mod 4294967296) ++ tail, (length pre + 5)%nat).
Proof. intros. unfold encode_string_len32. rewrite put0. cbn [obind]. rewrite write4_at1. reflexivity. Qed.

Lemma str_header_length : forall len,
  length (str_header len) = if N.of_nat len <? 16 then 1%nat else if N.of_nat len <? 65536 then 3%nat else 5%nat.
Proof. intros len. unfold str_header. destruct (N.of_nat len <? 16); [reflexivity|]. destruct (N.of_nat len <? 65536); reflexivity. Qed.

Lemma rw_header_length : forall m a, length (rw_header m a) = if N.of_nat m <? 65536 then 3%nat else 5%nat.
Proof. intros. unfold rw_header. destruct (N.of_nat m <? 65536); reflexivity. Qed.

Lemma map_header_length : forall c n, length (map_header c n) = if N.of_nat c <? 16 then 1%nat else 3%nat.
Proof. intros. unfold map_header. destruct (N.of_nat c <? 16); reflexivity. Qed.

(* a string by its length class, key or value: encode_string_auto writes exactly [enc_str] *)
Lemma encode_string_auto_at : forall pre old tail s,
  length old = length (enc_str s) ->
  encode_string_auto (pre ++ old ++ tail) (length pre) s
  = Ok (pre ++ enc_str s ++ tail, (length pre + length (enc_str s))%nat).
Proof.
  intros pre old tail s H. unfold enc_str in *. rewrite app_length in H.
  destruct (split_len old _ _ H) as (oh & ob & -> & Hh & Hb).
  rewrite str_header_length in Hh. unfold encode_string_auto, str_header.
  destruct (N.of_nat (length s) <? 16) eqn:E16.
  - destruct oh as [|x [|? ?]]; try discriminate. cbn [app].
    unfold encode_string4, encode_string_with. rewrite string_len4_at by lia. cbn [obind].
    replace (pre ++ (160 + N.of_nat (length s)) :: ob ++ tail)
      with ((pre ++ [160 + N.of_nat (length s)]) ++ ob ++ tail) by (rewrite <- app_assoc; reflexivity).
    rewrite (copy_at_at (pre ++ [160 + N.of_nat (length s)]) ob s tail) by (rewrite ?app_length; cbn [length]; lia).
    cbn [obind]. rewrite <- !app_assoc. cbn [app length]. f_equal. f_equal. lia.
  - destruct (N.of_nat (length s) <? 65536) eqn:E64.
    + destruct oh as [|x [|a [|b [|? ?]]]]; try discriminate. cbn [app].
      unfold encode_string16, encode_string_with. rewrite string_len16_at. cbn [obind].
      rewrite N.mod_small by lia.
      replace (pre ++ 218 :: be16 (N.of_nat (length s)) ++ ob ++ tail)
        with ((pre ++ 218 :: be16 (N.of_nat (length s))) ++ ob ++ tail) by (rewrite <- app_assoc; reflexivity).
      rewrite (copy_at_at (pre ++ 218 :: be16 (N.of_nat (length s))) ob s tail)
        by (rewrite ?app_length; cbn [length be16]; lia).
      cbn [obind]. rewrite <- !app_assoc. cbn [app length be16]. f_equal. f_equal. lia.
    + destruct oh as [|x [|a [|b [|c [|d [|? ?]]]]]]; try discriminate. cbn [app].
      unfold encode_string32, encode_string_with. rewrite string_len32_at. cbn [obind].
      replace (pre ++ 219 :: be32 (N.of_nat (length s) mod 4294967296) ++ ob ++ tail)
        with ((pre ++ 219 :: be32 (N.of_nat (length s) mod 4294967296)) ++ ob ++ tail)
        by (rewrite <- app_assoc; reflexivity).
      rewrite (copy_at_at (pre ++ 219 :: be32 (N.of_nat (length s) mod 4294967296)) ob s tail)
        by (rewrite ?app_length; cbn [length be32]; lia).
      cbn [obind]. rewrite <- !app_assoc. cbn [app length be32]. f_equal. f_equal. lia.
Qed.

(* "environment" *)
Lemma encode_string4_at : forall pre old tail s,
  N.of_nat (length s) < 16 -> length old = length (enc_str s) ->
  encode_string4 (pre ++ old ++ tail) (length pre) s
  = Ok (pre ++ enc_str s ++ tail, (length pre + length (enc_str s))%nat).
Proof.
  intros pre old tail s Hs H. pose proof (encode_string_auto_at pre old tail s H) as A.
  unfold encode_string_auto in A. replace (N.of_nat (length s) <? 16) with true in A by lia. exact A.
Qed.

(* map headers: written where the slot was reserved, the class chosen by [cls] *)
Lemma map_len4_at : forall pre x tail n,
  N.of_nat n < 16 ->
  encode_map_len4 (pre ++ x :: tail) (length pre) n = Ok (pre ++ (128 + N.of_nat n) :: tail, (length pre + 1)%nat).
Proof.
  intros pre x tail n H. unfold encode_map_len4. rewrite put0. cbn [obind].
  rewrite to_byte_small by lia. unfold code_fixmap. rewrite lor_low4 by (auto; lia). reflexivity.
Qed.

Lemma map_len16_at : forall pre x a b tail n,
  encode_map_len16 (pre ++ x :: a :: b :: tail) (length pre) n
  = Ok (pre ++ 222 :: be16 (N.of_nat n mod 65536) ++ tail, (length pre + 3)%nat).
Proof. intros. unfold encode_map_len16. rewrite put0. cbn [obind]. rewrite write2_at1. reflexivity. Qed.

Lemma map_header_at : forall pre old tail cls n,
  (n <= cls)%nat -> length old = length (map_header cls n) ->
  (if N.of_nat cls <? 16 then encode_map_len4 (pre ++ old ++ tail) (length pre) n
   else encode_map_len16 (pre ++ old ++ tail) (length pre) n)
  = Ok (pre ++ map_header cls n ++ tail, (length pre + length (map_header cls n))%nat).
Proof.
  intros pre old tail cls n Hn H. rewrite map_header_length in *. unfold map_header.
  destruct (N.of_nat cls <? 16) eqn:E.
  - destruct old as [|x [|? ?]]; try discriminate. cbn [app]. rewrite map_len4_at by lia.
    rewrite N.mod_small by lia. reflexivity.
  - destruct old as [|x [|a [|b [|? ?]]]]; try discriminate. cbn [app]. rewrite map_len16_at. reflexivity.
Qed.

(* the array header and the event time *)
Lemma array_len4_at : forall pre x tail n,
  N.of_nat n < 16 ->
  encode_array_len4 (pre ++ x :: tail) (length pre) n = Ok (pre ++ (144 + N.of_nat n) :: tail, (length pre + 1)%nat).
Proof.
  intros pre x tail n H. unfold encode_array_len4. rewrite put0. cbn [obind].
  rewrite to_byte_small by lia. unfold code_fixarray. rewrite lor_low4 by (auto; lia). reflexivity.
Qed.

Lemma event_time_at : forall pre old tail unix nsec,
  length old = 10%nat ->
  encode_event_time (pre ++ old ++ tail) (length pre) unix nsec
  = Ok (pre ++ [215; 0] ++ be32 (Z.to_N (unix mod 4294967296)) ++ be32 (Z.to_N (nsec mod 4294967296)) ++ tail,
        (length pre + 10)%nat).
Proof.
  intros pre old tail unix nsec H.
  destruct old as [|o1 [|o2 [|o3 [|o4 [|o5 [|o6 [|o7 [|o8 [|o9 [|o10 [|? ?]]]]]]]]]]]; try discriminate.
  cbn [app]. unfold encode_event_time, encode_ext_header8. rewrite put0. cbn [obind]. rewrite put1. cbn [obind].
  replace (pre ++ code_fixext8 :: 0 :: o3 :: o4 :: o5 :: o6 :: o7 :: o8 :: o9 :: o10 :: tail)
    with ((pre ++ [215; 0]) ++ o3 :: o4 :: o5 :: o6 :: o7 :: o8 :: o9 :: o10 :: tail)
    by (rewrite <- app_assoc; reflexivity).
  replace (length pre + 2)%nat with (length (pre ++ [215%N; 0%N])) by (rewrite app_length; reflexivity).
  rewrite write4_at. cbn [obind].
  set (u := be32 (Z.to_N (unix mod 4294967296))).
  replace ((pre ++ [215; 0]) ++ u ++ o7 :: o8 :: o9 :: o10 :: tail)
    with ((pre ++ [215; 0] ++ u) ++ o7 :: o8 :: o9 :: o10 :: tail) by (rewrite <- !app_assoc; reflexivity).
  replace (length (pre ++ [215%N; 0%N]) + 4)%nat with (length (pre ++ [215%N; 0%N] ++ u))
    by (rewrite !app_length; subst u; cbn [length be32]; lia).
  rewrite write4_at. rewrite !app_length. subst u. cbn [length be32]. rewrite <- !app_assoc.
  cbn [app]. f_equal. f_equal. lia.
Qed.

(* ------------------------------------------------------------------ *)
(* the decoder on the forms the encoder produces                       *)

Lemma take_app : forall s rest, take (s ++ rest) (N.of_nat (length s)) = Some (s, rest).
Proof.
  induction s as [|x s IH]; intros rest.
  - cbn [length app]. destruct rest; reflexivity.
  - cbn [length app take]. replace (N.of_nat (S (length s)) =? 0) with false by lia.
    replace (N.pred (N.of_nat (S (length s)))) with (N.of_nat (length s)) by lia.
    rewrite IH. reflexivity.
Qed.

Lemma read_body_app : forall mk s rest, read_body mk (N.of_nat (length s)) (s ++ rest) = Some (mk s, rest).
Proof. intros. unfold read_body. rewrite take_app. reflexivity. Qed.

Lemma decode_fixstr_byte : forall f b r, 160 <= b < 192 -> decode (S f) (b :: r) = read_body VStr (b - 160) r.
Proof.
  intros f b r H. cbn [decode].
  replace (b <? 128) with false by lia. replace (b <? 144) with false by lia.
  replace (b <? 160) with false by lia. replace (b <? 192) with true by lia. reflexivity.
Qed.

Lemma decode_fixmap_byte : forall f b r, 128 <= b < 144 ->
  decode (S f) (b :: r) = wrap_map (dec_pairs (decode f) (N.to_nat (b - 128)) r).
Proof.
  intros f b r H. cbn [decode].
  replace (b <? 128) with false by lia. replace (b <? 144) with true by lia. reflexivity.
Qed.

Lemma take2 : forall a b r, take (a :: b :: r) 2 = Some ([a; b], r).
Proof. intros. exact (take_app [a; b] r). Qed.
Lemma take4 : forall a b c d r, take (a :: b :: c :: d :: r) 4 = Some ([a; b; c; d], r).
Proof. intros. exact (take_app [a; b; c; d] r). Qed.

Lemma read_uint2 : forall n r, n < 65536 -> read_uint 2 (be16 n ++ r) = Some (n, r).
Proof.
  intros n r H. unfold read_uint. pose proof (be_val_be16 n H) as B. unfold be16 in *. cbn [app].
  rewrite take2. rewrite B. reflexivity.
Qed.

Lemma read_uint4 : forall n r, n < 4294967296 -> read_uint 4 (be32 n ++ r) = Some (n, r).
Proof.
  intros n r H. unfold read_uint. pose proof (be_val_be32 n H) as B. unfold be32 in *. cbn [app].
  rewrite take4. rewrite B. reflexivity.
Qed.

(* any string: by its own length class *)
Lemma decode_enc_str : forall f s rest,
  N.of_nat (length s) < 4294967296 -> decode (S f) (enc_str s ++ rest) = Some (VStr s, rest).
Proof.
  intros f s rest H. unfold enc_str, str_header.
  destruct (N.of_nat (length s) <? 16) eqn:E16.
  - cbn [app]. rewrite decode_fixstr_byte by lia.
    replace (160 + N.of_nat (length s) - 160) with (N.of_nat (length s)) by lia. apply read_body_app.
  - destruct (N.of_nat (length s) <? 65536) eqn:E64.
    + cbn [app]. change (decode (S f) (218 :: ?x)) with (read_sized VStr 2 x).
      unfold read_sized. rewrite <- app_assoc. rewrite read_uint2 by lia. apply read_body_app.
    + cbn [app]. change (decode (S f) (219 :: ?x)) with (read_sized VStr 4 x).
      unfold read_sized. rewrite <- app_assoc. rewrite N.mod_small by lia. rewrite read_uint4 by lia. apply read_body_app.
Qed.

(* a rewritten string: the header class comes from the reserved maximum, the length is the actual one *)
Lemma decode_rw_str : forall f maxlen s rest,
  (length s <= maxlen)%nat -> N.of_nat (length s) < 4294967296 ->
  decode (S f) ((rw_header maxlen (length s) ++ s) ++ rest) = Some (VStr s, rest).
Proof.
  intros f maxlen s rest Hm H. unfold rw_header.
  destruct (N.of_nat maxlen <? 65536) eqn:E.
  - cbn [app]. change (decode (S f) (218 :: ?x)) with (read_sized VStr 2 x).
    unfold read_sized. rewrite <- !app_assoc. rewrite N.mod_small by lia. rewrite read_uint2 by lia. apply read_body_app.
  - cbn [app]. change (decode (S f) (219 :: ?x)) with (read_sized VStr 4 x).
    unfold read_sized. rewrite <- !app_assoc. rewrite N.mod_small by lia. rewrite read_uint4 by lia. apply read_body_app.
Qed.

(* a map header followed by its pairs *)
Lemma decode_map : forall f cls n body rest kvs,
  (n <= cls)%nat -> N.of_nat cls < 65536 ->
  dec_pairs (decode f) n (body ++ rest) = Some (kvs, rest) ->
  decode (S f) ((map_header cls n ++ body) ++ rest) = Some (VMap kvs, rest).
Proof.
  intros f cls n body rest kvs Hn Hc D. unfold map_header.
  destruct (N.of_nat cls <? 16) eqn:E.
  - cbn [app]. rewrite N.mod_small by lia. rewrite decode_fixmap_byte by lia.
    replace (N.to_nat (128 + N.of_nat n - 128)) with n by lia. rewrite D. reflexivity.
  - cbn [app]. cbn [decode].
    change (222 <? 128) with false. cbv beta iota.
    rewrite <- !app_assoc. rewrite N.mod_small by lia.
    replace (N.eqb 222 222) with true by reflexivity.
    cbn [N.ltb N.eqb N.compare Pos.compare Pos.compare_cont Pos.eqb].
    rewrite read_uint2 by lia. replace (N.to_nat (N.of_nat n)) with n by lia. rewrite D. reflexivity.
Qed.

(* pairs of strings *)
Lemma dec_pairs_strs : forall f (kvs : list (bytes * bytes)) enc rest,
  Forall (fun kv => N.of_nat (length (fst kv)) < 4294967296) kvs ->
  Forall2 (fun kv e => forall r, decode (S f) (e ++ r) = Some (VStr (snd kv), r)) kvs enc ->
  dec_pairs (decode (S f)) (length kvs)
            (flat_map (fun p => enc_str (fst (fst p)) ++ snd p) (combine kvs enc) ++ rest)
  = Some (map str_pair kvs, rest).
Proof.
  intros f kvs enc rest Hk H2. revert Hk. induction H2 as [|kv e kvs enc He H2 IH]; intros Hk.
  - reflexivity.
  - inversion Hk as [|? ? Hk1 Hk2]; subst.
    cbn [length combine flat_map dec_pairs fst snd map]. rewrite <- !app_assoc.
    rewrite decode_enc_str by assumption. rewrite He. rewrite IH by assumption. reflexivity.
Qed.
