(* C16 - proofs about the model of ConfigHolder.UnmarshalYAML (Model/ConfigHolder.v). *)
From Coq Require Import Lia.
From SV Require Import Model.Common Model.ConfigTemplate Model.ConfigHolder Spec.ConfigHolderSpec Proofs.CommonFacts.

Lemma memb_In : forall x l, memb x l = true <-> In x l.
Proof.
  intros x l. unfold memb. rewrite existsb_exists. split.
  - intros [y [Hin Heq]]. apply bytes_eqb_eq in Heq. subst. exact Hin.
  - intros Hin. exists x. split; [exact Hin | apply bytes_eqb_refl].
Qed.

Lemma ykind_eqb_eq : forall a b, ykind_eqb a b = true <-> a = b.
Proof. intros a b. destruct a, b; cbn; split; intros H; try reflexivity; try discriminate. Qed.

Lemma is_type_key_spec : forall k, is_type_key k = true <-> (y_kind k = KScalar /\ y_value k = s_type).
Proof.
  intros k. unfold is_type_key. rewrite andb_true_iff, ykind_eqb_eq, bytes_eqb_eq. reflexivity.
Qed.

(* ---------------------------------------------------------------- which guards are safe *)

(* under a safe guard UnmarshalYAML never panics, whatever the node, the table and the decoder's answers *)
Lemma holder_with_safe_total :
  forall guard, guard_safe guard ->
  forall table dec n, is_panic (holder_with guard table dec n) = false.
Proof.
  intros guard Hsafe table dec n. unfold holder_with.
  destruct (guard n) eqn:Hg; cbn [check obind]; [| reflexivity].
  specialize (Hsafe n Hg).
  destruct (y_content n) as [| k [| v rest]] eqn:Hc.
  - contradiction.
  - cbn [ynth nth_error obind]. rewrite Hsafe. reflexivity.
  - cbn [ynth nth_error obind].
    destruct (is_type_key k); cbn [check obind]; [| reflexivity].
    destruct (memb (y_value v) table); cbn [check obind]; [| reflexivity].
    destruct (dec (y_value v) n); reflexivity.
Qed.

(* ... and a guard under which it never panics is safe: the condition is exact *)
Lemma holder_with_total_safe :
  forall guard,
  (forall table dec n, is_panic (holder_with guard table dec n) = false) -> guard_safe guard.
Proof.
  intros guard Htot n Hg. specialize (Htot [] (fun _ _ => true) n).
  unfold holder_with in Htot. rewrite Hg in Htot. cbn [check obind] in Htot.
  destruct (y_content n) as [| k [| v rest]].
  - cbn in Htot. discriminate.
  - cbn [ynth nth_error obind] in Htot.
    destruct (is_type_key k); [cbn in Htot; discriminate | reflexivity].
  - exact I.
Qed.

Lemma guard_exact :
  forall guard,
  (forall table dec n, is_panic (holder_with guard table dec n) = false) <-> guard_safe guard.
Proof. intros guard. split; [apply holder_with_total_safe | apply holder_with_safe_total]. Qed.

Lemma code_guard_safe : guard_safe code_guard.
Proof.
  intros n Hg. unfold code_guard in Hg. apply Nat.leb_le in Hg.
  destruct (y_content n) as [| k [| v rest]]; cbn in Hg; [lia | lia | exact I].
Qed.

(* the code: for every node shape the answer is a type name or an error value *)
Lemma holder_total : forall table dec n, is_panic (holder_unmarshal table dec n) = false.
Proof. exact (holder_with_safe_total code_guard code_guard_safe). Qed.

Lemma site_decode_total : forall table dec n, is_panic (site_decode table dec n) = false.
Proof.
  intros table dec n. unfold site_decode, site_decode_with.
  destruct (bytes_eqb (y_tag (resolve_alias n)) s_null_tag); [reflexivity |].
  pose proof (holder_total table dec (resolve_alias n)) as H. unfold holder_unmarshal in H.
  destruct (holder_with code_guard table dec (resolve_alias n)); cbn in *; congruence.
Qed.

(* every node of a document - whichever of them yaml.v3 hands to a holder - decodes without a panic *)
Lemma every_site_total :
  forall table dec d, Forall (fun s => is_panic (site_decode table dec s) = false) (subnodes d).
Proof. intros table dec d. apply Forall_forall. intros s _. apply site_decode_total. Qed.

(* ---------------------------------------------------------------- what is accepted *)

Lemma holder_spec :
  forall table dec n ty, holder_unmarshal table dec n = Ok ty <-> holder_accepts table dec n ty.
Proof.
  intros table dec n ty. unfold holder_unmarshal, holder_with, holder_accepts, code_guard. split.
  - intros H.
    destruct (y_content n) as [| k [| v rest]] eqn:Hc; cbn in H; try discriminate.
    destruct (is_type_key k) eqn:Hk; cbn in H; [| discriminate].
    destruct (memb (y_value v) table) eqn:Hm; cbn in H; [| discriminate].
    destruct (dec (y_value v) n) eqn:Hd; cbn in H; [| discriminate].
    injection H as H. subst ty.
    apply is_type_key_spec in Hk. destruct Hk as [Hk1 Hk2].
    exists k, v, rest. repeat split; try assumption. apply memb_In. exact Hm.
  - intros [k [v [rest [Hc [Hk1 [Hk2 [Hv [Hin Hd]]]]]]]].
    rewrite Hc. cbn.
    assert (Hk : is_type_key k = true) by (apply is_type_key_spec; split; assumption).
    rewrite Hk. cbn. subst ty.
    apply memb_In in Hin. rewrite Hin. cbn. rewrite Hd. reflexivity.
Qed.

(* rejected = an error value: the three outcomes are exhaustive and exclusive *)
Lemma holder_rejects_cleanly :
  forall table dec n, (forall ty, ~ holder_accepts table dec n ty) -> exists e, holder_unmarshal table dec n = Err e.
Proof.
  intros table dec n Hno.
  pose proof (holder_total table dec n) as Ht.
  destruct (holder_unmarshal table dec n) as [ty | e | s] eqn:H.
  - exfalso. apply (Hno ty). apply holder_spec. exact H.
  - exists e. reflexivity.
  - cbn in Ht. discriminate.
Qed.

(* ---------------------------------------------------------------- the variants *)

Definition y_empty_mapping : ynode := YNode KMapping [33;33;109;97;112]%N [] [].            (* {} *)
Definition y_type_scalar : ynode := YNode KScalar [33;33;115;116;114]%N s_type [].          (* type *)
Definition y_seq_type : ynode := YNode KSequence [33;33;115;101;113]%N [] [y_type_scalar].  (* [type] *)
Definition y_alias_empty : ynode := YNode KAlias [33;33;109;97;112]%N [101]%N [y_empty_mapping]. (* *e with &e {} *)

(* "must be a mapping" instead of the length check: the empty mapping passes and Content[0] panics - directly,
   through an alias, for every table and decoder *)
Lemma kind_guard_refuted :
  ~ guard_safe kind_guard /\
  forall table dec,
    holder_with kind_guard table dec y_empty_mapping = Panic site_holder_index /\
    site_decode_with kind_guard table dec y_alias_empty = Panic site_holder_index /\
    (exists e, holder_unmarshal table dec y_empty_mapping = Err e) /\
    (exists e, site_decode table dec y_alias_empty = Err e).
Proof.
  split.
  - intros H. exact (H y_empty_mapping eq_refl).
  - intros table dec. repeat split; try reflexivity; eexists; reflexivity.
Qed.

(* "must not be empty" (len < 1): the one-element sequence [type] passes both checks and Content[1] panics *)
Lemma len1_guard_refuted :
  ~ guard_safe len1_guard /\
  forall table dec,
    holder_with len1_guard table dec y_seq_type = Panic site_holder_index /\
    (exists e, holder_unmarshal table dec y_seq_type = Err e).
Proof.
  split.
  - intros H. specialize (H y_seq_type eq_refl). cbn in H. discriminate.
  - intros table dec. split; [reflexivity | eexists; reflexivity].
Qed.

Lemma no_guard_refuted :
  ~ guard_safe no_guard /\
  forall table dec, holder_with no_guard table dec (YNode KScalar [33;33;115;116;114]%N [120]%N []) = Panic site_holder_index.
Proof.
  split.
  - intros H. exact (H y_empty_mapping eq_refl).
  - intros table dec. reflexivity.
Qed.

(* non-vacuity: a mapping {type: unescape, key: log} is accepted, its alias too, null leaves the holder alone *)
Definition s_unescape_ty : bytes := [117;110;101;115;99;97;112;101]%N.
Definition y_str (v : bytes) : ynode := YNode KScalar [33;33;115;116;114]%N v [].
Definition y_unescape : ynode :=
  YNode KMapping [33;33;109;97;112]%N []
    [y_type_scalar; y_str s_unescape_ty; y_str [107;101;121]%N; y_str [108;111;103]%N].
Definition y_null : ynode := YNode KScalar s_null_tag [126]%N [].

Lemma holder_example :
  holder_unmarshal [s_unescape_ty] (fun _ _ => true) y_unescape = Ok s_unescape_ty /\
  holder_accepts [s_unescape_ty] (fun _ _ => true) y_unescape s_unescape_ty /\
  site_decode [s_unescape_ty] (fun _ _ => true) (YNode KAlias [] [117]%N [y_unescape]) = Ok (HType s_unescape_ty) /\
  site_decode [s_unescape_ty] (fun _ _ => true) y_null = Ok HNil /\
  (exists e, holder_unmarshal [s_unescape_ty] (fun _ _ => false) y_unescape = Err e) /\
  (exists e, holder_unmarshal [] (fun _ _ => true) y_unescape = Err e).
Proof.
  assert (H : holder_unmarshal [s_unescape_ty] (fun _ _ => true) y_unescape = Ok s_unescape_ty) by reflexivity.
  repeat split; try reflexivity.
  - apply holder_spec. exact H.
  - eexists; reflexivity.
  - eexists; reflexivity.
Qed.
