(* Unfolding equations of the mutually recursive functions of Model/Config.v on the constructors
   that carry nested steps (simpl/cbn cannot refold the calls to the other functions of a mutual
   block).  Every equation holds by computation. *)
From SV Require Import Model.Common Model.ConfigTemplate Model.ConfigExtractor Model.Config.
Open Scope Z_scope.

(* ---------- transform_decodes ---------- *)
Lemma decodes_block : forall steps, transform_decodes (TBlock steps) = tlist_decodes steps.
Proof. reflexivity. Qed.
Lemma decodes_if : forall m then_, transform_decodes (TIf m then_) = matcher_decodes m && tlist_decodes then_.
Proof. reflexivity. Qed.
Lemma decodes_switch : forall cases, transform_decodes (TSwitch cases) = clist_decodes cases.
Proof. reflexivity. Qed.
Lemma decodes_tcons : forall t ts, tlist_decodes (TCons t ts) = transform_decodes t && tlist_decodes ts.
Proof. reflexivity. Qed.
Lemma decodes_ccons : forall m then_ cs, clist_decodes (CCons m then_ cs) = matcher_decodes m && tlist_decodes then_ && clist_decodes cs.
Proof. reflexivity. Qed.

(* ---------- verify ---------- *)
Lemma verify_t_block : forall q sch steps, verify_t q sch (TBlock steps) =
  (let* _ := check (match steps with TNil => false | _ => true end) err_empty in verify_tl q sch steps).
Proof. reflexivity. Qed.
Lemma verify_t_if : forall q sch m then_, verify_t q sch (TIf m then_) =
  (let* _ := verify_match sch m in
   let* _ := check (match then_ with TNil => false | _ => true end) err_empty in
   verify_tl q sch then_).
Proof. reflexivity. Qed.
Lemma verify_t_switch : forall q sch cases, verify_t q sch (TSwitch cases) =
  (let* _ := check (match cases with CNil => false | _ => true end) err_empty in verify_cl q sch cases).
Proof. reflexivity. Qed.
Lemma verify_tl_cons : forall q sch t ts, verify_tl q sch (TCons t ts) = (let* _ := verify_t q sch t in verify_tl q sch ts).
Proof. reflexivity. Qed.
Lemma verify_cl_cons : forall q sch m then_ cs, verify_cl q sch (CCons m then_ cs) =
  (let* _ := verify_match sch m in
   let* _ := check (match then_ with TNil => false | _ => true end) err_empty in
   let* _ := verify_tl q sch then_ in
   verify_cl q sch cs).
Proof. reflexivity. Qed.

(* ---------- construct ---------- *)
Lemma construct_t_block : forall q sch reg steps, construct_t q sch reg (TBlock steps) =
  (let* (s, reg') := construct_tl q sch reg steps in Ok (RBlock s, reg')).
Proof. reflexivity. Qed.
Lemma construct_t_if : forall q sch reg m then_, construct_t q sch reg (TIf m then_) =
  (let* rm := construct_matcher sch m in
   let* (s, reg') := construct_tl q sch reg then_ in
   Ok (RIf rm s, reg')).
Proof. reflexivity. Qed.
Lemma construct_t_switch : forall q sch reg cases, construct_t q sch reg (TSwitch cases) =
  (let* (cs, reg') := construct_cl q sch reg cases in Ok (RSwitch cs, reg')).
Proof. reflexivity. Qed.
Lemma construct_tl_cons : forall q sch reg t ts, construct_tl q sch reg (TCons t ts) =
  (let* (rt, reg1) := construct_t q sch reg t in
   let* (rts, reg2) := construct_tl q sch reg1 ts in
   Ok (RTCons rt rts, reg2)).
Proof. reflexivity. Qed.
Lemma construct_cl_cons : forall q sch reg m then_ cs, construct_cl q sch reg (CCons m then_ cs) =
  (let* rm := construct_matcher sch m in
   let* (s, reg1) := construct_tl q sch reg then_ in
   let* (rcs, reg2) := construct_cl q sch reg1 cs in
   Ok (RCCons rm s rcs, reg2)).
Proof. reflexivity. Qed.

(* ---------- safety ---------- *)
Lemma rt_safe_block : forall nf nc steps, rt_safe nf nc (RBlock steps) = rtl_safe nf nc steps.
Proof. reflexivity. Qed.
Lemma rt_safe_if : forall nf nc m then_, rt_safe nf nc (RIf m then_) = matcher_safe nf m && rtl_safe nf nc then_.
Proof. reflexivity. Qed.
Lemma rt_safe_switch : forall nf nc cases, rt_safe nf nc (RSwitch cases) = rcl_safe nf nc cases.
Proof. reflexivity. Qed.
Lemma rtl_safe_cons : forall nf nc t ts, rtl_safe nf nc (RTCons t ts) = rt_safe nf nc t && rtl_safe nf nc ts.
Proof. reflexivity. Qed.
Lemma rcl_safe_cons : forall nf nc m then_ cs, rcl_safe nf nc (RCCons m then_ cs) =
  matcher_safe nf m && rtl_safe nf nc then_ && rcl_safe nf nc cs.
Proof. reflexivity. Qed.

(* ---------- run ---------- *)
Lemma run_t_block : forall x nc steps f, run_t x nc (RBlock steps) f = run_tl x nc steps f.
Proof. reflexivity. Qed.
Lemma run_t_if : forall x nc m then_ f, run_t x nc (RIf m then_) f =
  (let* matched := run_matcher x m f in if matched then run_tl x nc then_ f else Ok (f, true)).
Proof. reflexivity. Qed.
Lemma run_t_switch : forall x nc cases f, run_t x nc (RSwitch cases) f = run_cl x nc cases f.
Proof. reflexivity. Qed.
Lemma run_tl_cons : forall x nc t ts f, run_tl x nc (RTCons t ts) f =
  (let* (f', pass) := run_t x nc t f in if pass then run_tl x nc ts f' else Ok (f', false)).
Proof. reflexivity. Qed.
Lemma run_cl_cons : forall x nc m then_ cs f, run_cl x nc (RCCons m then_ cs) f =
  (let* matched := run_matcher x m f in if matched then run_tl x nc then_ f else run_cl x nc cs f).
Proof. reflexivity. Qed.

(* ---------- refs ---------- *)
Lemma refs_t_block : forall sch steps, refs_t sch (TBlock steps) = RefNonEmpty 3 (tl_empty steps) :: refs_tl sch steps.
Proof. reflexivity. Qed.
Lemma refs_t_if : forall sch m then_, refs_t sch (TIf m then_) =
  refs_matcher m ++ RefNonEmpty 7 (tl_empty then_) :: refs_tl sch then_.
Proof. reflexivity. Qed.
Lemma refs_t_switch : forall sch cases, refs_t sch (TSwitch cases) =
  RefNonEmpty 12 (match cases with CNil => true | _ => false end) :: refs_cl sch cases.
Proof. reflexivity. Qed.
Lemma refs_tl_cons : forall sch t ts, refs_tl sch (TCons t ts) = refs_t sch t ++ refs_tl sch ts.
Proof. reflexivity. Qed.
Lemma refs_cl_cons : forall sch m then_ cs, refs_cl sch (CCons m then_ cs) =
  refs_matcher m ++ RefNonEmpty 14 (tl_empty then_) :: refs_tl sch then_ ++ refs_cl sch cs.
Proof. reflexivity. Qed.
