(* List facts for the order proofs (C05): strictly increasing lists, filters of take_first / partition / sort. *)
From Coq Require Import List Arith Bool Lia PeanoNat Permutation.
From SV Require Import Model.Common Model.System Proofs.SystemLists.
Import ListNotations.
Open Scope nat_scope.

Fixpoint incr (l : list nat) : Prop :=
  match l with
  | [] => True
  | x :: r => (forall y, In y r -> x < y) /\ incr r
  end.

Lemma incr_app : forall a b, incr (a ++ b) <-> incr a /\ incr b /\ (forall x y, In x a -> In y b -> x < y).
Proof.
  induction a as [|x a IH]; intros b; cbn.
  - split; [intros H; repeat split; auto; intros ? ? []|tauto].
  - rewrite IH. split.
    + intros [H1 [H2 [H3 H4]]]. repeat split; auto.
      * intros y Hy. apply H1. apply in_or_app. auto.
      * intros u v [<-|Hu] Hv; [apply H1; apply in_or_app; auto|apply H4; auto].
    + intros [[H1 H2] [H3 H4]]. repeat split; auto.
      intros y Hy. apply in_app_or in Hy. destruct Hy as [Hy|Hy]; [apply H1; auto|apply H4; auto].
Qed.

Lemma incr_single : forall x, incr [x].
Proof. intros. cbn. split; [intros ? []|exact I]. Qed.

Lemma incr_NoDup : forall l, incr l -> NoDup l.
Proof.
  induction l as [|x l IH]; intros H; constructor.
  - destruct H as [H _]. intros Hx. specialize (H x Hx). lia.
  - apply IH. apply H.
Qed.

(* removing elements keeps a list increasing *)
Inductive sublist {A} : list A -> list A -> Prop :=
| sub_nil : sublist [] []
| sub_skip x a b : sublist a b -> sublist a (x :: b)
| sub_keep x a b : sublist a b -> sublist (x :: a) (x :: b).

Lemma sublist_in : forall A (a b : list A), sublist a b -> forall x, In x a -> In x b.
Proof. induction 1; intros y Hy; cbn in *; auto. destruct Hy as [->|Hy]; auto. Qed.

Lemma sublist_refl : forall A (l : list A), sublist l l.
Proof. induction l; [constructor|apply sub_keep; assumption]. Qed.

Lemma sublist_nil_l : forall A (l : list A), sublist [] l.
Proof. induction l; [constructor|apply sub_skip; assumption]. Qed.

Lemma sublist_app : forall A (a a' b b' : list A), sublist a a' -> sublist b b' -> sublist (a ++ b) (a' ++ b').
Proof. induction 1; intros Hb; cbn; [assumption|apply sub_skip; auto|apply sub_keep; auto]. Qed.

Lemma incr_sublist : forall a b, sublist a b -> incr b -> incr a.
Proof.
  induction 1; intros Hb; cbn in *; auto.
  - apply IHsublist. apply Hb.
  - destruct Hb as [H1 H2]. split; auto. intros y Hy. apply H1. eapply sublist_in; eauto.
Qed.

Lemma sublist_filter : forall A (f : A -> bool) l, sublist (filter f l) l.
Proof. induction l as [|x l IH]; cbn; [constructor|]. destruct (f x); [apply sub_keep|apply sub_skip]; auto. Qed.

Lemma sublist_map : forall A B (g : A -> B) a b, sublist a b -> sublist (map g a) (map g b).
Proof. induction 1; cbn; [constructor|apply sub_skip; auto|apply sub_keep; auto]. Qed.

Lemma sublist_filter_mono : forall A (f : A -> bool) a b, sublist a b -> sublist (filter f a) (filter f b).
Proof. induction 1; cbn; [constructor| |]; destruct (f x); auto; [apply sub_skip|apply sub_keep]; auto. Qed.

(* take_first under a filter that is implied by / disjoint from the selector *)
Lemma take_first_sublist : forall A (f : A -> bool) l x r, take_first f l = Some (x, r) -> sublist r l.
Proof.
  intros A f l x r H. destruct (take_first_spec _ _ _ _ _ H) as [_ [a [b [-> [-> _]]]]].
  apply sublist_app; [apply sublist_refl|apply sub_skip; apply sublist_refl].
Qed.

(* if the selector f is implied by g, the element taken is the first g-element ... *)
Lemma take_first_filter_hit : forall A (f g : A -> bool) l x r,
  take_first f l = Some (x, r) -> (forall y, g y = true -> f y = true) -> g x = true ->
  filter g l = x :: filter g r.
Proof.
  intros A f g l x r H Hfg Hx. destruct (take_first_spec _ _ _ _ _ H) as [_ [a [b [-> [-> Ha]]]]].
  rewrite !filter_app. cbn. rewrite Hx.
  assert (E : filter g a = []).
  { clear -Ha Hfg. induction a as [|y a IH]; cbn; [reflexivity|].
    destruct (g y) eqn:G.
    - specialize (Ha y (or_introl eq_refl)). apply Hfg in G. congruence.
    - apply IH. intros z Hz. apply Ha. right. assumption. }
  rewrite E. reflexivity.
Qed.

(* ... and if the taken element is not a g-element the g-filter is unchanged *)
Lemma take_first_filter_miss : forall A (f g : A -> bool) l x r,
  take_first f l = Some (x, r) -> g x = false -> filter g l = filter g r.
Proof.
  intros A f g l x r H Hx. destruct (take_first_spec _ _ _ _ _ H) as [_ [a [b [-> [-> _]]]]].
  rewrite !filter_app. cbn. rewrite Hx. reflexivity.
Qed.

Lemma partition_filter_in : forall A (f g : A -> bool) l a b,
  partition f l = (a, b) -> (forall y, g y = true -> f y = true) -> filter g l = filter g a /\ filter g b = [].
Proof.
  intros A f g l a b H Hfg. rewrite partition_as_filter in H. inversion H; subst; clear H. split.
  - induction l as [|x l IH]; cbn; [reflexivity|]. destruct (f x) eqn:F; cbn.
    + destruct (g x); [f_equal|]; exact IH.
    + destruct (g x) eqn:G; [apply Hfg in G; congruence|exact IH].
  - induction l as [|x l IH]; cbn; [reflexivity|]. destruct (f x) eqn:F; cbn; [exact IH|].
    destruct (g x) eqn:G; [apply Hfg in G; congruence|exact IH].
Qed.

Lemma partition_filter_out : forall A (f g : A -> bool) l a b,
  partition f l = (a, b) -> (forall y, g y = true -> f y = false) -> filter g l = filter g b /\ filter g a = [].
Proof.
  intros A f g l a b H Hfg. rewrite partition_as_filter in H. inversion H; subst; clear H. split.
  - induction l as [|x l IH]; cbn; [reflexivity|]. destruct (f x) eqn:F; cbn.
    + destruct (g x) eqn:G; [apply Hfg in G; congruence|exact IH].
    + destruct (g x); [f_equal|]; exact IH.
  - induction l as [|x l IH]; cbn; [reflexivity|]. destruct (f x) eqn:F; cbn; [|exact IH].
    destruct (g x) eqn:G; [apply Hfg in G; congruence|exact IH].
Qed.

Lemma partition_sublists : forall A (f : A -> bool) l a b, partition f l = (a, b) -> sublist a l /\ sublist b l.
Proof.
  intros A f l a b H. rewrite partition_as_filter in H.
  assert (Ea : a = filter f l) by congruence.
  assert (Eb : b = filter (fun x => negb (f x)) l) by congruence.
  subst. split; apply sublist_filter.
Qed.

(* insertion sort by chunk id *)
Fixpoint sorted_le (l : list nat) : Prop :=
  match l with
  | [] => True
  | x :: r => (forall y, In y r -> x <= y) /\ sorted_le r
  end.

Lemma insert_item_sorted : forall x l, sorted_le (map q_id l) -> sorted_le (map q_id (insert_item x l)).
Proof.
  induction l as [|y l IH]; intros H; cbn.
  - split; [intros ? []|exact I].
  - destruct (Nat.leb (q_id x) (q_id y)) eqn:E; cbn.
    + apply Nat.leb_le in E. split; [|exact H]. destruct H as [H1 H2].
      intros z [<-|Hz]; [assumption|]. specialize (H1 z Hz). lia.
    + apply Nat.leb_gt in E. destruct H as [H1 H2]. split; [|apply IH; assumption].
      intros z Hz. apply in_map_iff in Hz. destruct Hz as [w [<- Hw]]. apply insert_item_in in Hw.
      destruct Hw as [->|Hw]; [lia|]. apply H1. apply in_map. assumption.
Qed.

Lemma sort_items_sorted : forall l, sorted_le (map q_id (sort_items l)).
Proof. induction l as [|x l IH]; cbn; [exact I|]. apply insert_item_sorted. exact IH. Qed.

Lemma sorted_le_sublist : forall a b, sublist a b -> sorted_le b -> sorted_le a.
Proof.
  induction 1; intros Hb; cbn in *; auto.
  - apply IHsublist. apply Hb.
  - destruct Hb as [H1 H2]. split; auto. intros y Hy. apply H1. eapply sublist_in; eauto.
Qed.

Lemma sorted_NoDup_incr : forall l, sorted_le l -> NoDup l -> incr l.
Proof.
  induction l as [|x l IH]; intros Hs Hn; cbn; [exact I|].
  inversion Hn as [|? ? Hnx Hnl]; subst. destruct Hs as [Hs1 Hs2]. split; [|apply IH; assumption].
  intros y Hy. specialize (Hs1 y Hy). assert (x <> y) by (intros ->; contradiction). lia.
Qed.

Lemma insert_item_perm : forall x l, Permutation (insert_item x l) (x :: l).
Proof.
  induction l as [|y l IH]; cbn; [reflexivity|]. destruct (Nat.leb (q_id x) (q_id y)); [reflexivity|].
  rewrite IH. apply perm_swap.
Qed.

Lemma sort_items_perm : forall l, Permutation (sort_items l) l.
Proof. induction l as [|x l IH]; cbn; [reflexivity|]. rewrite insert_item_perm. constructor. exact IH. Qed.

(* the ids of pipeline p in a sorted item list are strictly increasing when they are distinct *)
Lemma sorted_ids_incr : forall (f : qitem -> bool) l,
  NoDup (map q_id (filter f l)) -> incr (map q_id (filter f (sort_items l))).
Proof.
  intros f l Hn. apply sorted_NoDup_incr.
  - eapply sorted_le_sublist; [|apply sort_items_sorted]. apply sublist_map. apply sublist_filter.
  - eapply Permutation_NoDup; [|exact Hn]. apply Permutation_map. symmetry.
    (* filter respects permutations *)
    assert (P : forall a b : list qitem, Permutation a b -> Permutation (filter f a) (filter f b)).
    { induction 1; cbn; auto.
      - destruct (f x); auto.
      - destruct (f x), (f y); auto. apply perm_swap.
      - etransitivity; eauto. }
    apply P. apply sort_items_perm.
Qed.
