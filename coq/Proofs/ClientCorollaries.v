(* C02 — the theorems transported to accepted observed traces: what the invariants say about every trace of
   the real client that the acceptor accepted (stated on observable events only), and an example run. *)
From SV Require Import Model.Common Model.Client Model.ClientAccept Spec.ClientSpec
     Proofs.ClientBase Proofs.ClientSafety Proofs.ClientHistory Proofs.ClientOrder Proofs.ClientTheorems
     Proofs.ClientAcceptProofs.
From Coq Require Import Lia Permutation.

Lemma filter_split : forall (A : Type) (f : A -> bool) l o1 x o2,
  filter f l = o1 ++ x :: o2 -> exists l1 l2, l = l1 ++ x :: l2 /\ filter f l1 = o1 /\ filter f l2 = o2.
Proof.
  intros A f. induction l as [|a l IH]; intros o1 x o2 H; simpl in H.
  - destruct o1; discriminate H.
  - destruct (f a) eqn:E.
    + destruct o1 as [|y o1]; simpl in H.
      * inversion H; subst. exists [], l. simpl. auto.
      * inversion H; subst. destruct (IH _ _ _ H2) as (l1 & l2 & -> & F1 & F2).
        exists (y :: l1), l2. simpl. rewrite E, F1. auto.
    + destruct (IH _ _ _ H) as (l1 & l2 & -> & F1 & F2). exists (a :: l1), l2. simpl. rewrite E. auto.
Qed.

Lemma offered_of_obs : forall tr, offered_of (obs_of tr) = offered_of tr.
Proof. induction tr as [|e tr IH]; [reflexivity|]. destruct e; simpl; rewrite ?IH; try reflexivity; exact IH. Qed.
Lemma consumed_of_obs : forall tr, consumed_of (obs_of tr) = consumed_of tr.
Proof. induction tr as [|e tr IH]; [reflexivity|]. destruct e; simpl; rewrite ?IH; try reflexivity; exact IH. Qed.
Lemma handed_of_obs : forall tr, handed_of (obs_of tr) = handed_of tr.
Proof. induction tr as [|e tr IH]; [reflexivity|]. destruct e; simpl; rewrite ?IH; try reflexivity; exact IH. Qed.
Lemma finished_in_obs : forall tr, finished_in (obs_of tr) = finished_in tr.
Proof.
  induction tr as [|e tr IH]; [reflexivity|]. unfold finished_in in *.
  destruct e; simpl; rewrite ?IH; try reflexivity; exact IH.
Qed.

(* every trace the acceptor accepts (searching inside the contract only) satisfies, on its observable events:
   a confirmation is preceded by a completed transmission of that chunk and a successful ack read on the same
   connection; with distinct ids and the client finished, the chunks the model says were taken are exactly the
   confirmed and handed-back ones, each once *)
Lemma accepted_trace_lemma : forall P os out,
  Forall (fun e => is_obs e = true) os ->
  accept_out P false os = str_accept ++ colon :: out ->
  (forall o1 c o2, os = o1 ++ EConsumed c :: o2 ->
     exists k a, In (ESendRet k c ROk) o1 /\ In (EAckRet k a) o1 /\ (a = AId c \/ a = AEmpty)) /\
  exists s, render_proj s = out /\
    (NoDup (offered_of os) -> finished_in os = true ->
     Permutation (rev (h_taken s)) (consumed_of os ++ handed_of os) /\ NoDup (consumed_of os ++ handed_of os)).
Proof.
  intros P os out Hf Ha.
  destruct (accept_sound_lemma P false os out Hf Ha) as (tr & s & Hr & Ho & Hc & Hp).
  specialize (Hc eq_refl). split.
  - intros o1 c o2 E. rewrite <- Ho in E. unfold obs_of in E.
    destruct (filter_split _ _ _ _ _ _ E) as (t1 & t2 & -> & F1 & F2).
    destruct (confirm_after_ack_lemma P t1 c t2 s Hr) as (k & Hs & (p1 & p2 & a & Hpre & Hd)).
    exists k, a. subst o1. split; [apply filter_In; split; [exact Hs|reflexivity]|].
    split.
    + apply filter_In. split; [|reflexivity]. rewrite Hpre. apply in_or_app. right. left. reflexivity.
    + destruct Hd as [Hd|[Hd _]]; auto.
  - exists s. split; [exact Hp|]. intros Hn Hfin.
    rewrite <- Ho in *. rewrite offered_of_obs in Hn. rewrite finished_in_obs in Hfin.
    rewrite consumed_of_obs, handed_of_obs.
    destruct (resolved_exactly_once_at_end P tr s Hr Hc Hn Hfin) as [H1 H2].
    split; [|exact H2]. rewrite (hs_taken _ _ (hist_reach P tr s Hr)), rev_involutive. exact H1.
Qed.

(* ---------- a concrete, non-trivial run inside the hypotheses of the theorems ---------- *)
(* two chunks; the second send fails on connection 1; both are re-sent in id order on connection 2 and
   acknowledged (one with its id, one with the empty id); stop; nothing is handed back *)
Definition example_run : list event :=
  [EOffer 1%N; EOffer 2%N; EMainSpawn; EConnStart 1; EConnRet 1 true; EMainConn; EResendDone;
   ETake 1%N; ESendRet 1 1%N ROk; EEnqueue; ETake 2%N; ESendRet 1 2%N RErr; EAckerTake 1%N; EAckRet 1 AErr;
   EClose 1; ECollected; ERetryTimeout;
   EMainSpawn; EConnStart 2; EConnRet 2 true; EMainConn;
   EResendTake 1%N; ESendRet 2 1%N ROk; EEnqueue; EResendTake 2%N; ESendRet 2 2%N ROk; EEnqueue; EResendDone;
   EAckerTake 1%N; EAckRet 2 (AId 1%N); EConsumed 1%N; EAckerTake 2%N; EAckRet 2 AEmpty; EConsumed 2%N;
   EInClose; EStop; EInClosedSeen; EAckerAbort; ECollected; EAborter; EClose 2; EFinished].

Lemma example_lemma :
  exists s, reach_by (mkParams 2 false true) example_run s /\ in_contract example_run /\ distinct_input example_run /\
            finished_in example_run = true /\
            taken_of example_run = [1; 2]%N /\ consumed_of example_run = [1; 2]%N /\ handed_of example_run = [] /\
            sent_on 1 example_run = [1%N] /\ sent_on 2 example_run = [1; 2]%N /\
            h_los s = [(2%nat, [1; 2]%N); (1%nat, [])].
Proof.
  destruct (run (mkParams 2 false true) init example_run) as [s|] eqn:E; [|vm_compute in E; discriminate E].
  exists s. split; [exact E|]. vm_compute in E. inversion E; subst s. clear E.
  split; [unfold in_contract, example_run; simpl; intuition discriminate|].
  split; [unfold distinct_input; simpl; repeat constructor; simpl; intuition discriminate|].
  repeat split; reflexivity.
Qed.
