(* C02 — order of transmissions per connection: leftovers first (sorted by id), then new chunks in queue order. *)
From SV Require Import Model.Common Model.Client Spec.ClientSpec Proofs.ClientBase Proofs.ClientSafety Proofs.ClientHistory.
From Coq Require Import Lia Permutation Sorted.
Local Open Scope nat_scope.

Lemma sent_on_snoc : forall k tr e,
  sent_on k (tr ++ [e]) = sent_on k tr ++ match e with
                                          | ESendRet k' c ROk => if Nat.eqb k' k then [c] else []
                                          | _ => [] end.
Proof.
  intros k tr e. unfold sent_on. rewrite sent_of_snoc, filter_app, map_app. f_equal.
  destruct e; try reflexivity. destruct r; [|reflexivity]. simpl. destruct (Nat.eqb k0 k); reflexivity.
Qed.

Definition dialing (o : ostate) : bool := match o with ODialing | OResult _ => true | _ => false end.

(* the transmissions of one connection: a prefix of its leftovers, then (only after all of them) chunks
   taken from the queue, consecutively and in queue order *)
Definition conn_form (L : list chunk) (sent taken : list chunk) : Prop :=
  exists m news a b, sent = firstn m L ++ news /\ (news <> [] -> firstn m L = L) /\ taken = a ++ news ++ b.

Record inv3 (tr : list event) (s : state) : Prop := {
  k_keys : forall k L, In (k, L) (h_los s) -> k <= nconn s /\ (dialing (opener s) = true -> k < nconn s);
  k_cur : forall ss, cur s = Some ss -> exists L, In (s_id ss, L) (h_los s);
  k_nodup : NoDup (map fst (h_los s));
  k_lo : lt_sorted (lo s);
  k_form : forall k L, In (k, L) (h_los s) -> lt_sorted L /\ conn_form L (sent_on k tr) (taken_of tr);
  k_now : forall ss L, cur s = Some ss -> In (s_id ss, L) (h_los s) ->
          match pc s with
          | MResend | MEnqueue FResend _ => sent_on (s_id ss) tr ++ lo s = L
          | MSend FResend c => sent_on (s_id ss) tr ++ c :: lo s = L
          | MInput | MEnqueue FInput _ => exists a news, sent_on (s_id ss) tr = L ++ news /\ taken_of tr = a ++ news
          | MSend FInput c => exists a news, sent_on (s_id ss) tr = L ++ news /\ taken_of tr = a ++ news ++ [c]
          | _ => True
          end;
  k_sent : forall k c, In (k, c) (sent_of tr) -> exists L, In (k, L) (h_los s)
}.

Lemma firstn_app_exact : forall (A : Type) (l m : list A), firstn (length l) (l ++ m) = l.
Proof. intros. rewrite firstn_app, Nat.sub_diag, firstn_all. simpl. apply app_nil_r. Qed.

Lemma cf_resend : forall L sent c rest taken, sent ++ c :: rest = L -> conn_form L (sent ++ [c]) taken.
Proof.
  intros L sent c rest taken <-. exists (length (sent ++ [c])), [], [], taken.
  split; [|split; [congruence|reflexivity]].
  replace (sent ++ c :: rest) with ((sent ++ [c]) ++ rest) by (rewrite <- app_assoc; reflexivity).
  rewrite firstn_app_exact, app_nil_r. reflexivity.
Qed.

Lemma cf_input : forall L sent news a c taken,
  sent = L ++ news -> taken = a ++ news ++ [c] -> conn_form L (sent ++ [c]) taken.
Proof.
  intros L sent news a c taken -> ->. exists (length L), (news ++ [c]), a, [].
  rewrite firstn_all, app_nil_r, <- !app_assoc. auto.
Qed.

Lemma cf_take : forall L sent taken c, conn_form L sent taken -> conn_form L sent (taken ++ [c]).
Proof.
  intros L sent taken c (m & news & a & b & H1 & H2 & H3). exists m, news, a, (b ++ [c]).
  subst taken. rewrite <- !app_assoc. auto.
Qed.

Lemma cf_init : forall L taken, conn_form L [] taken.
Proof. intros. exists 0, [], [], taken. simpl. split; [reflexivity|split; [congruence|reflexivity]]. Qed.

Lemma los_unique : forall (l : list (nat * list chunk)) k L L',
  NoDup (map fst l) -> In (k, L) l -> In (k, L') l -> L = L'.
Proof.
  induction l as [|[k0 L0] l IH]; intros k L L' Hn H1 H2; [contradiction|].
  simpl in Hn. inversion Hn as [|? ? Hni Hn']; subst.
  destruct H1 as [E1|H1]; destruct H2 as [E2|H2].
  - congruence.
  - inversion E1; subst. exfalso. apply Hni. apply (in_map fst) in H2. exact H2.
  - inversion E2; subst. exfalso. apply Hni. apply (in_map fst) in H1. exact H1.
  - eapply IH; eauto.
Qed.

Lemma sent_on_none : forall k tr, (forall c, ~ In (k, c) (sent_of tr)) -> sent_on k tr = [].
Proof.
  intros k tr H. unfold sent_on. induction (sent_of tr) as [|[k0 c0] l IH]; [reflexivity|].
  simpl. destruct (Nat.eqb_spec k0 k).
  - subst. exfalso. apply (H c0). left. reflexivity.
  - apply IH. intros c Hc. apply (H c). right. exact Hc.
Qed.

Ltac some_inv :=
  repeat match goal with
  | H : Some _ = Some _ |- _ => inversion H; subst; clear H
  | H : None = Some _ |- _ => discriminate H
  end.

Lemma inv3_step : forall P tr s e s', inv1 s -> inv3 tr s -> step P s e = Some s' -> inv3 (tr ++ [e]) s'.
Proof.
  intros P tr s e s' Hi [Kk Kc Kn Kl Kf Kw Ks] Hs.
  destruct e; step_inv Hs.
  all: boolprep; constructor; st_simpl; intros;
       rewrite ?sent_on_snoc, ?taken_of_snoc, ?sent_of_snoc, ?app_nil_r in *; use_eqs2; st_simpl; some_inv; st_simpl.
  all: try solve [eauto].
  all: try solve [eapply Kw; eauto].
  all: try solve [match goal with H : In (?k, ?L) (h_los _) |- _ => destruct (Kk _ _ H); destruct (Kf _ _ H); split; auto; simpl; intros; try discriminate; lia end].
  all: try solve [eapply lt_sorted_tail; eassumption].
  all: try solve [apply new_leftovers_sorted].
  - (* ESendRet ok: form of every connection *)
    destruct (Kf _ _ H) as [Hs1 Hs2]. split; [exact Hs1|].
    destruct (Nat.eqb_spec (s_id s0) k); [subst k|rewrite app_nil_r; exact Hs2].
    specialize (Kw _ _ eq_refl H). destruct f.
    + eapply cf_resend; eauto.
    + destruct Kw as (a & news & E1 & E2). eapply cf_input; eauto.
  - (* ESendRet ok: the running session *)
    specialize (Kw _ _ eq_refl H0). rewrite Nat.eqb_refl. destruct f.
    + rewrite <- app_assoc. exact Kw.
    + destruct Kw as (a & news & E1 & E2). exists a, (news ++ [c0]). rewrite E1, E2, <- !app_assoc. auto.
  - apply in_app_or in H. destruct H as [H|[E|[]]]; [eauto|]. inversion E; subst. eauto.
  - (* EMainConn: keys *)
    destruct H as [E|H]; [inversion E; subst; simpl; split; [lia|discriminate]|].
    destruct (Kk _ _ H). simpl. split; [lia|discriminate].
  - eauto using in_eq.
  - simpl. constructor; [|exact Kn]. intro Hin. apply in_map_iff in Hin. destruct Hin as ([k L] & E & Hin).
    simpl in E. subst k. destruct (Kk _ _ Hin) as [_ Hlt].  specialize (Hlt eq_refl). lia.
  - destruct H as [E|H]; [|eauto]. inversion E; subst. split; [exact Kl|].
    rewrite sent_on_none; [apply cf_init|].
    intros c Hc. destruct (Ks _ _ Hc) as (L' & HL'). destruct (Kk _ _ HL') as [_ Hlt]. 
    specialize (Hlt eq_refl). lia.
  - destruct H0 as [E|H0].
    + inversion E; subst. rewrite sent_on_none; [reflexivity|].
      intros c Hc. destruct (Ks _ _ Hc) as (L' & HL'). destruct (Kk _ _ HL') as [_ Hlt]. 
      specialize (Hlt eq_refl). lia.
    + exfalso. destruct (Kk _ _ H0) as [_ Hlt].  specialize (Hlt eq_refl). lia.
  - destruct (Ks _ _ H) as (L' & HL'). exists L'. right. exact HL'.
  - (* EResendDone *)
    specialize (Kw _ _ eq_refl H0). rewrite app_nil_r in Kw. exists (taken_of tr), []. rewrite !app_nil_r. auto.
  - (* ETake *)
    destruct (Kf _ _ H). split; [assumption|]. apply cf_take. assumption.
  - specialize (Kw _ _ eq_refl H0). destruct Kw as (a & news & E1 & E2). exists a, news. rewrite E2, <- app_assoc. auto.
Qed.

Lemma inv3_init : inv3 [] init.
Proof.
  constructor; simpl; intros; try contradiction; try discriminate; try constructor.
Qed.

Lemma inv3_reach : forall P tr s, reach_by P tr s -> inv3 tr s.
Proof.
  intros P. apply reach_by_ind; [exact inv3_init|].
  intros tr s e s' Hr Hi Hs. eapply inv3_step; eauto. eapply inv1_reach. exists tr. exact Hr.
Qed.

(* nothing is handed back before the final loop of run() *)
Lemma handed_only_at_end : forall P s, reach P s -> h_handed s <> [] -> pc s = MFinal \/ pc s = MDone.
Proof.
  intros P. apply (reach_ind P (fun s => h_handed s <> [] -> pc s = MFinal \/ pc s = MDone)); [simpl; congruence|].
  intros s e s' _ IH Hs. destruct e; step_inv Hs; st_simpl; auto.
  all: try solve [intros H; destruct (IH H); congruence].
  all: try solve [destruct p; st_simpl; intros H; destruct (IH H); congruence].
Qed.

Lemma lt_sorted_increasing : forall l, lt_sorted l -> strictly_increasing l.
Proof.
  induction l as [|x l IH]; intros Hs i j a b Hi Hj Hij.
  - destruct i; discriminate.
  - inversion Hs as [|? ? Hs' Hall]; subst. destruct j as [|j]; [lia|]. simpl in Hj.
    destruct i as [|i].
    + simpl in Hi. inversion Hi; subst. rewrite Forall_forall in Hall. apply Hall. eapply nth_error_In; eauto.
    + simpl in Hi. eapply IH; eauto. lia.
Qed.
