(* Facts about the directory model and util.WriteFileAt (Model/FileWrite.v). *)
From SV Require Import Model.Common Model.FileWrite Model.Buffer Spec.BufferSpec Proofs.CommonFacts.
From Coq Require Import Lia ZifyBool ZifyN ZifyNat Sorting.Sorted.
Ltac Zify.zify_post_hook ::= Z.div_mod_to_equations.

(* ---------- names ---------- *)
Lemma name_eqb_eq : forall a b, name_eqb a b = true <-> a = b.
Proof. exact bytes_eqb_eq. Qed.

Lemma name_eqb_refl : forall a, name_eqb a a = true.
Proof. exact bytes_eqb_refl. Qed.

Lemma name_eqb_neq : forall a b, name_eqb a b = false <-> a <> b.
Proof.
  intros a b. split.
  - intros H E. apply name_eqb_eq in E. congruence.
  - intros H. destruct (name_eqb a b) eqn:E; [apply name_eqb_eq in E; contradiction|reflexivity].
Qed.

Lemma name_eqb_sym : forall a b, name_eqb a b = name_eqb b a.
Proof.
  intros a b. destruct (name_eqb a b) eqn:E.
  - apply name_eqb_eq in E. subst. symmetry. apply name_eqb_refl.
  - symmetry. apply name_eqb_neq. apply name_eqb_neq in E. congruence.
Qed.

Definition name_eq_dec : forall a b : name, {a = b} + {a <> b} := list_eq_dec N.eq_dec.


Lemma name_ltb_irrefl : forall a, name_ltb a a = false.
Proof. induction a as [|x a IH]; cbn [name_ltb]; [reflexivity|]. rewrite N.ltb_irrefl. exact IH. Qed.

Lemma name_ltb_trans : forall a b c, name_ltb a b = true -> name_ltb b c = true -> name_ltb a c = true.
Proof.
  induction a as [|x a IH]; intros b c Hab Hbc.
  - destruct b as [|y b]; [discriminate|]. destruct c as [|z c]; [discriminate|]. reflexivity.
  - destruct b as [|y b]; [discriminate|]. destruct c as [|z c]; [cbn in Hbc; discriminate|].
    cbn [name_ltb] in *.
    destruct (x <? y) eqn:Exy; destruct (y <? x) eqn:Eyx; destruct (y <? z) eqn:Eyz; destruct (z <? y) eqn:Ezy;
      destruct (x <? z) eqn:Exz; destruct (z <? x) eqn:Ezx; try reflexivity; try discriminate; try lia.
    eapply IH; eassumption.
Qed.

Lemma name_ltb_total : forall a b, name_ltb a b = false -> name_eqb a b = false -> name_ltb b a = true.
Proof.
  induction a as [|x a IH]; intros b Hlt Hne.
  - destruct b; cbn in *; discriminate.
  - destruct b as [|y b]; [reflexivity|].
    cbn [name_ltb] in *. unfold name_eqb in *. cbn [bytes_eqb] in Hne.
    destruct (x <? y) eqn:Exy; [discriminate|]. destruct (y <? x) eqn:Eyx; [reflexivity|].
    assert (x = y) by lia. subst y. rewrite N.eqb_refl in Hne. cbn [andb] in Hne.
    apply IH; assumption.
Qed.

Lemma name_ltb_neq : forall a b, name_ltb a b = true -> a <> b.
Proof. intros a b H E. subst. rewrite name_ltb_irrefl in H. discriminate. Qed.

(* ---------- directory: get / set / del ---------- *)
Lemma dir_get_set_same : forall d n e, dir_get (dir_set d n e) n = Some e.
Proof.
  induction d as [|[k v] d IH]; intros n e; cbn [dir_set dir_get].
  - rewrite name_eqb_refl. reflexivity.
  - destruct (name_eqb k n) eqn:E.
    + cbn [dir_get]. rewrite name_eqb_refl. reflexivity.
    + destruct (name_ltb n k); cbn [dir_get].
      * rewrite name_eqb_refl. reflexivity.
      * rewrite E. apply IH.
Qed.

Lemma dir_get_set_other : forall d n e m, m <> n -> dir_get (dir_set d n e) m = dir_get d m.
Proof.
  induction d as [|[k v] d IH]; intros n e m Hm; cbn [dir_set dir_get].
  - assert (name_eqb n m = false) as -> by (apply name_eqb_neq; congruence). reflexivity.
  - assert (Hnm : name_eqb n m = false) by (apply name_eqb_neq; congruence).
    destruct (name_eqb k n) eqn:E.
    + apply name_eqb_eq in E. subst k. cbn [dir_get]. rewrite Hnm. reflexivity.
    + destruct (name_ltb n k); cbn [dir_get].
      * rewrite Hnm. reflexivity.
      * destruct (name_eqb k m); [reflexivity|]. apply IH; assumption.
Qed.

Lemma dir_get_del_same : forall d n, dir_get (dir_del d n) n = None.
Proof.
  induction d as [|[k v] d IH]; intros n; unfold dir_del; cbn [filter dir_get fst]; [reflexivity|].
  destruct (name_eqb k n) eqn:E; cbn [negb].
  - apply IH.
  - cbn [dir_get]. rewrite E. apply IH.
Qed.

Lemma dir_get_del_other : forall d n m, m <> n -> dir_get (dir_del d n) m = dir_get d m.
Proof.
  induction d as [|[k v] d IH]; intros n m Hm; unfold dir_del; cbn [filter dir_get fst]; [reflexivity|].
  destruct (name_eqb k n) eqn:E; cbn [negb].
  - apply name_eqb_eq in E. subst k.
    assert (name_eqb n m = false) as -> by (apply name_eqb_neq; congruence). apply IH; assumption.
  - cbn [dir_get]. destruct (name_eqb k m); [reflexivity|]. apply IH; assumption.
Qed.

Lemma dir_get_in : forall d n e, dir_get d n = Some e -> In n (dir_names d).
Proof.
  induction d as [|[k v] d IH]; intros n e H; cbn [dir_get] in H; [discriminate|].
  cbn [dir_names map fst]. destruct (name_eqb k n) eqn:E.
  - apply name_eqb_eq in E. left. assumption.
  - right. eapply IH. eassumption.
Qed.

Lemma dir_in_get : forall d n, In n (dir_names d) -> exists e, dir_get d n = Some e.
Proof.
  induction d as [|[k v] d IH]; intros n H; cbn [dir_names map fst] in H; [contradiction|].
  cbn [dir_get]. destruct (name_eqb k n) eqn:E; [eexists; reflexivity|].
  destruct H as [H|H]; [subst; rewrite name_eqb_refl in E; discriminate|]. apply IH. exact H.
Qed.

(* ---------- sortedness ---------- *)

Lemma dir_sorted_nil : dir_sorted [].
Proof. constructor. Qed.

Lemma Forall_lt_set : forall d k n e,
  Forall (name_lt k) (dir_names d) -> name_lt k n -> Forall (name_lt k) (dir_names (dir_set d n e)).
Proof.
  induction d as [|[k' v] d IH]; intros k n e Hall Hkn; cbn [dir_set dir_names map fst] in *.
  - constructor; [assumption|constructor].
  - inversion Hall as [|? ? Hk' Hrest]; subst.
    destruct (name_eqb k' n); [constructor; assumption|].
    destruct (name_ltb n k'); cbn [map fst].
    + constructor; [assumption|]. constructor; assumption.
    + constructor; [assumption|]. apply IH; assumption.
Qed.

Lemma dir_sorted_set : forall d n e, dir_sorted d -> dir_sorted (dir_set d n e).
Proof.
  unfold dir_sorted. induction d as [|[k v] d IH]; intros n e Hs; cbn [dir_set dir_names map fst] in *.
  - constructor; constructor.
  - inversion Hs as [|? ? Hs' Hall]; subst.
    destruct (name_eqb k n) eqn:E.
    + apply name_eqb_eq in E. subst k. cbn [map fst]. constructor; assumption.
    + destruct (name_ltb n k) eqn:L; cbn [map fst].
      * constructor; [constructor; assumption|].
        constructor; [exact L|].
        eapply Forall_impl; [|exact Hall]. intros a Ha. unfold name_lt in *. eapply name_ltb_trans; eassumption.
      * constructor; [apply IH; assumption|].
        apply Forall_lt_set; [assumption|]. unfold name_lt. apply name_ltb_total; [exact L|].
        rewrite name_eqb_sym. exact E.
Qed.

Lemma dir_sorted_del : forall d n, dir_sorted d -> dir_sorted (dir_del d n).
Proof.
  unfold dir_sorted, dir_del. induction d as [|[k v] d IH]; intros n Hs; cbn [filter dir_names map fst] in *.
  - constructor.
  - inversion Hs as [|? ? Hs' Hall]; subst.
    destruct (negb (name_eqb k n)); [|apply IH; assumption].
    cbn [map fst]. constructor; [apply IH; assumption|].
    clear - Hall. induction d as [|[k' v'] d IHd]; cbn [filter map fst] in *; [constructor|].
    inversion Hall; subst. destruct (negb (name_eqb k' n)); cbn [map fst]; [constructor|]; auto.
Qed.

Lemma sorted_filter : forall (f : name -> bool) l,
  StronglySorted name_lt l -> StronglySorted name_lt (filter f l).
Proof.
  induction l as [|a l IH]; intros Hs; cbn [filter]; [constructor|].
  inversion Hs as [|? ? Hs' Hall]; subst.
  destruct (f a); [|apply IH; assumption].
  constructor; [apply IH; assumption|].
  clear - Hall. induction l as [|b l IHl]; cbn [filter]; [constructor|].
  inversion Hall; subst. destruct (f b); [constructor|]; auto.
Qed.

Lemma sorted_firstn : forall n l, StronglySorted name_lt l -> StronglySorted name_lt (firstn n l).
Proof.
  induction n as [|n IH]; intros l Hs; [constructor|].
  destruct l as [|a l]; [constructor|]. cbn [firstn].
  inversion Hs as [|? ? Hs' Hall]; subst. constructor; [apply IH; assumption|].
  clear - Hall. revert n. induction l as [|b l IHl]; intros n; destruct n; cbn [firstn]; try constructor.
  - inversion Hall; assumption.
  - inversion Hall; subst. apply IHl. assumption.
Qed.

Lemma sorted_nodup : forall l, StronglySorted name_lt l -> NoDup l.
Proof.
  induction l as [|a l IH]; intros Hs; [constructor|].
  inversion Hs as [|? ? Hs' Hall]; subst. constructor; [|apply IH; assumption].
  intros Hin. rewrite Forall_forall in Hall. apply Hall in Hin. unfold name_lt in Hin.
  rewrite name_ltb_irrefl in Hin. discriminate.
Qed.

(* ---------- WriteFileAt ---------- *)

(* what one call may change: only the name itself and its temporary name *)
Definition frame (d d' : dirT) (n : name) : Prop :=
  forall m, m <> n -> m <> tmp_name n -> dir_get d' m = dir_get d m.

Ltac wf_cases H :=
  unfold write_file_at in H; cbv zeta in H;
  repeat match type of H with
         | context [if ?b then _ else _] => let E := fresh "E" in destruct b eqn:E
         end.

Lemma tmp_name_neq : forall n, tmp_name n <> n.
Proof.
  intros n H. unfold tmp_name in H. assert (L : length (n ++ tmp_suffix) = length n) by (rewrite H; reflexivity).
  rewrite app_length in L. cbn in L. lia.
Qed.

Lemma write_frame : forall ws d n data d' r,
  write_file_at ws d n data = (d', r) -> frame d d' n.
Proof.
  intros ws d n data d' r H m Hn Ht. wf_cases H; inversion H; subst; clear H;
    repeat first [rewrite dir_get_set_other by congruence | rewrite dir_get_del_other by congruence]; reflexivity.
Qed.

Lemma write_sorted : forall ws d n data d' r,
  write_file_at ws d n data = (d', r) -> dir_sorted d -> dir_sorted d'.
Proof.
  intros ws d n data d' r H Hs. wf_cases H; inversion H; subst; clear H;
    repeat first [assumption | apply dir_sorted_set | apply dir_sorted_del].
Qed.

(* a short write is detected: success means the complete data is under the name, nothing under the temporary name *)
Lemma write_ok : forall ws d n data d',
  write_file_at ws d n data = (d', WOk) ->
  dir_get d' n = Some (EFile data) /\ dir_get d' (tmp_name n) = None.
Proof.
  intros ws d n data d' H. pose proof (tmp_name_neq n) as Hneq.
  wf_cases H; inversion H; subst; clear H.
  apply Bool.orb_false_iff in E3. destruct E3 as [E3 _]. apply Bool.orb_false_iff in E3. destruct E3 as [_ E3].
  apply Nat.ltb_ge in E3.
  assert (Hk : stored ws data = length data).
  { unfold stored in *. destruct (ws_n ws); lia. }
  rewrite Hk, firstn_all. split.
  - apply dir_get_set_same.
  - rewrite dir_get_set_other by assumption. apply dir_get_del_same.
Qed.

(* failure reported: the name is untouched, the temporary file is removed *)
Lemma write_err : forall ws d n data d',
  write_file_at ws d n data = (d', WErr) ->
  dir_get d' n = dir_get d n.
Proof.
  intros ws d n data d' H. pose proof (tmp_name_neq n) as Hneq.
  wf_cases H; inversion H; subst; clear H; try reflexivity;
    repeat first [rewrite dir_get_del_other by congruence | rewrite dir_get_set_other by congruence]; reflexivity.
Qed.

(* killed: under the name there is what was there before, or the complete data - never a part of it *)
Lemma write_died : forall ws d n data d',
  write_file_at ws d n data = (d', WDied) ->
  dir_get d' n = dir_get d n \/ dir_get d' n = Some (EFile data).
Proof.
  intros ws d n data d' H. pose proof (tmp_name_neq n) as Hneq.
  wf_cases H; inversion H; subst; clear H;
    try (left; repeat first [rewrite dir_get_del_other by congruence | rewrite dir_get_set_other by congruence]; reflexivity).
  right.
  apply Bool.orb_false_iff in E3. destruct E3 as [E3 _]. apply Bool.orb_false_iff in E3. destruct E3 as [_ E3].
  apply Nat.ltb_ge in E3.
  assert (Hk : stored ws data = length data).
  { unfold stored in *. destruct (ws_n ws); lia. }
  rewrite Hk, firstn_all. apply dir_get_set_same.
Qed.

(* in every case *)
Lemma write_name_cases : forall ws d n data d' r,
  write_file_at ws d n data = (d', r) ->
  dir_get d' n = dir_get d n \/ dir_get d' n = Some (EFile data).
Proof.
  intros ws d n data d' r H. destruct r.
  - right. apply write_ok in H. tauto.
  - left. eapply write_err; eassumption.
  - eapply write_died; eassumption.
Qed.

(* without faults the write succeeds when neither name is occupied by a directory *)
Lemma write_no_fault : forall d n data,
  is_dir (dir_get d (tmp_name n)) = false -> is_dir (dir_get d n) = false ->
  exists d', write_file_at ws_ok d n data = (d', WOk).
Proof.
  intros d n data Ht Hn. unfold write_file_at, ws_ok, stored.
  cbn [ws_open_err ws_n ws_write_err ws_close_err ws_rename_err ws_kill Nat.eqb orb].
  rewrite Ht, Hn. rewrite Nat.ltb_irrefl. cbn [orb]. eexists. reflexivity.
Qed.

(* ---------- the code before the fix: commits (write_file_at_v0) ---------- *)

(* a short write without error is reported as success and leaves a truncated file *)
Lemma v0_short_write_refuted :
  exists ws d n data d' part,
    write_file_at_v0 ws d n data = (d', WOk) /\ dir_get d' n = Some (EFile part) /\ part <> data /\ part <> [].
Proof.
  exists {| ws_open_err := false; ws_n := Some 1%nat; ws_write_err := false; ws_close_err := false;
            ws_rename_err := false; ws_kill := 0 |}, [], [99; 46; 102; 102], [1; 2; 3], [([99; 46; 102; 102], EFile [1])], [1].
  vm_compute. repeat split; discriminate.
Qed.

(* a process killed in the middle of the write leaves a non-empty prefix under the chunk's name *)
Lemma v0_crash_mid_write_refuted :
  exists ws d n data d' part,
    write_file_at_v0 ws d n data = (d', WDied) /\ dir_get d' n = Some (EFile part) /\ part <> data /\ part <> [].
Proof.
  exists {| ws_open_err := false; ws_n := Some 2%nat; ws_write_err := false; ws_close_err := false;
            ws_rename_err := false; ws_kill := 2 |}, [], [99; 46; 102; 102], [1; 2; 3], [([99; 46; 102; 102], EFile [1; 2])], [1; 2].
  vm_compute. repeat split; discriminate.
Qed.
