(* C14: the Gallina terms GENERATED from transform/tredactemail/redactemail.go (Gen/C14Gen.v, regenerated on
   every check; all seven functions and the two lookup tables built by init() are translated) against the
   hand-written model Model/Redact.v.  Proved here, for every input: the tables are the character classes
   of the model, and redactEmailCheckNumber = check_number.  The other functions are translated and
   validated against the real Go code by bin/go2coq-selftest; their equivalence proofs are not done yet
   (design_notes/XLT.md). *)
From SV Require Import Model.Common Model.GoSem Model.Redact Spec.RedactSpec Proofs.GoSemFacts Proofs.RedactProofs.
From SV Require Gen.C14Gen.
From Coq Require Import Lia ZifyBool ZifyN ZifyNat.
Open Scope Z_scope.

(* ---------- the tables: a finite domain (256 bytes), checked by evaluation and lifted ---------- *)
Definition table_ok (tbl : list bool) (f : N -> bool) : bool :=
  (Nat.eqb (length tbl) 256 &&
   forallb (fun k => match nth_error tbl k with Some b => Bool.eqb b (f (N.of_nat k)) | None => false end) (seq 0 256))%bool.

Lemma table_lookup : forall tbl f, table_ok tbl f = true ->
  forall c : N, (c < 256)%N -> go_index tbl (int_of_byte c) = GOk (f c).
Proof.
  intros tbl f H c Hc. unfold table_ok in H. apply andb_prop in H. destruct H as [_ H].
  rewrite forallb_forall in H. specialize (H (N.to_nat c)).
  assert (Hin : In (N.to_nat c) (seq 0 256)) by (apply in_seq; lia).
  specialize (H Hin). rewrite N2Nat.id in H.
  apply go_index_nth; [unfold int_of_byte; lia|].
  unfold int_of_byte. replace (Z.to_nat (Z.of_N c)) with (N.to_nat c) by lia.
  destruct (nth_error tbl (N.to_nat c)) as [b|]; [|discriminate].
  apply Bool.eqb_prop in H. congruence.
Qed.

Lemma word_table_ok : table_ok C14Gen.validWordChars is_word = true.
Proof. vm_compute. reflexivity. Qed.
Lemma addr_table_ok : table_ok C14Gen.validAddressChars is_addr = true.
Proof. vm_compute. reflexivity. Qed.

Lemma word_table_gen : forall c : N, (c < 256)%N -> go_index C14Gen.validWordChars (int_of_byte c) = GOk (is_word c).
Proof. exact (table_lookup _ _ word_table_ok). Qed.
Lemma addr_table_gen : forall c : N, (c < 256)%N -> go_index C14Gen.validAddressChars (int_of_byte c) = GOk (is_addr c).
Proof. exact (table_lookup _ _ addr_table_ok). Qed.

(* the initialiser itself ends without panic and within its fuel *)
Lemma tables_init_ok : exists r, C14Gen.tables_init = GOk r.
Proof. eexists. vm_compute. reflexivity. Qed.

(* ---------- redactEmailCheckNumber ---------- *)
Lemma firstn_snoc_nth : forall {A} (l : list A) n x, nth_error l n = Some x -> firstn (S n) l = firstn n l ++ [x].
Proof.
  intros A l. induction l as [|y l IH]; intros [|n] x H; cbn in *; try discriminate.
  - injection H as ->. reflexivity.
  - f_equal. apply IH. assumption.
Qed.

Lemma nth_error_firstn_lt : forall {A} (l : list A) n k, (k < n)%nat -> nth_error (firstn n l) k = nth_error l k.
Proof.
  intros A l. induction l as [|y l IH]; intros [|n] [|k] H; cbn; try reflexivity; try lia.
  apply IH. lia.
Qed.

Definition num_ok (c : N) : bool := (is_digit c || (c =? ch_dot)%N)%bool.

Lemma check_number_gen_eq : forall s : bytes,
  to_outcome (C14Gen.redactEmailCheckNumber s) = check_number s.
Proof.
  intros s. unfold C14Gen.redactEmailCheckNumber, C14Gen.redactEmailCheckNumber_fuel, check_number.
  destruct (Nat.ltb_spec (length s) 2) as [Hs|Hl].
  { repeat split_if; gosym_done. }
  destruct s as [|c0 tl]; [cbn [length] in Hl; lia|].
  assert (Htl : (1 <= length tl)%nat) by (cbn [length] in Hl; lia).
  assert (Hlast : exists cl, nth_error (c0 :: tl) (length (c0 :: tl) - 1) = Some cl).
  { destruct (nth_error (c0 :: tl) (length (c0 :: tl) - 1)) eqn:E; [eauto|]. apply nth_error_None in E. cbn [length] in *. lia. }
  destruct Hlast as (cl & Hcl).
  set (p0 := c0 :: tl) in *.
  assert (Hlen : go_len p0 = Z.of_nat (length tl) + 1) by (unfold p0, go_len; cbn [length]; lia).
  assert (Hi0 : go_index p0 0 = GOk c0) by reflexivity.
  assert (Hil : go_index p0 (go_len p0 - 1) = GOk cl).
  { apply go_index_nth; [lia|]. rewrite <- Hcl. f_equal. unfold go_len. lia. }
  unfold get. rewrite Hcl. change (nth_error p0 0) with (Some c0). cbn [rbind].
  replace (go_len p0 <? 2) with false by lia. rewrite Hi0. cbn [gbind]. rewrite Hil. cbn [gbind].
  unfold is_digit.
  destruct ((c0 <? 48)%N || (57 <? c0)%N)%bool eqn:E0.
  { replace (negb ((48 <=? c0)%N && (c0 <=? 57)%N)) with true by lia. reflexivity. }
  replace (negb ((48 <=? c0)%N && (c0 <=? 57)%N)) with false by lia.
  destruct ((cl <? 48)%N || (57 <? cl)%N)%bool eqn:E1.
  { replace (negb ((48 <=? cl)%N && (cl <=? 57)%N)) with true by lia. reflexivity. }
  replace (negb ((48 <=? cl)%N && (cl <=? 57)%N)) with false by lia.
  (* the model's slice s[1:len-1] *)
  set (mid := firstn (length tl - 1) tl).
  assert (Hsub : sub p0 1 (length p0 - 1) = Ok mid).
  { unfold sub, slice, p0. cbn [length skipn]. replace (S (length tl) - 1)%nat with (length tl) by lia.
    replace (Nat.leb 1 (length tl) && Nat.leb (length tl) (S (length tl)))%bool with true by lia. reflexivity. }
  rewrite Hsub. cbn [rbind].
  fold num_ok. change (fun c : N => ((48 <=? c)%N && (c <=? 57)%N || (c =? ch_dot)%N)%bool) with num_ok.
  (* the loop *)
  pose (Q := fun r : Z + bool => match r with inl _ => forallb num_ok mid = true | inr b => b = false /\ forallb num_ok mid = false end).
  match goal with
  | |- context [go_loop ?fl ?cd ?bd ?pt ?st0] =>
    assert (HL : exists r, go_loop fl cd bd pt st0 = GOk r /\ Q r)
  end.
  { apply go_loop_inv with
      (Inv := fun i => 1 <= i <= go_len p0 - 1 /\ forallb num_ok (firstn (Z.to_nat (i - 1)) tl) = true)
      (measure := fun i => Z.to_nat (go_len p0 - i)); unfold Q.
  - (* one iteration *)
    intros i (Hi & Hpre). cbv beta.
    destruct (Z.ltb_spec i (go_len p0 - 1)) as [Hlt|Hge].
    + exists true. split; [reflexivity|].
      assert (Hn : exists c, nth_error tl (Z.to_nat (i - 1)) = Some c).
      { destruct (nth_error tl (Z.to_nat (i - 1))) eqn:E; [eauto|]. apply nth_error_None in E. lia. }
      destruct Hn as (c & Hn).
      assert (Hix : go_index p0 i = GOk c).
      { apply go_index_nth; [lia|]. unfold p0. replace (Z.to_nat i) with (S (Z.to_nat (i - 1))) by lia. exact Hn. }
      rewrite Hix. cbn [gbind].
      destruct (num_ok c) eqn:Eok.
      * exists (CNext i). split.
        { unfold num_ok, is_digit, ch_dot in Eok. repeat (cbn [gbind]; try split_if); first [reflexivity | exfalso; lia]. }
        eexists. split; [reflexivity|]. split; [|lia]. split; [lia|].
        replace (Z.to_nat (i + 1 - 1)) with (S (Z.to_nat (i - 1))) by lia.
        rewrite (firstn_snoc_nth _ _ _ Hn), forallb_app, Hpre. cbn [forallb]. rewrite Eok. reflexivity.
      * exists (CRet false). split.
        { unfold num_ok, is_digit, ch_dot in Eok. repeat (cbn [gbind]; try split_if); first [reflexivity | exfalso; lia]. }
        split; [reflexivity|].
        destruct (forallb num_ok mid) eqn:Em; [|reflexivity].
        rewrite forallb_forall in Em. rewrite <- Eok. symmetry. apply Em.
        apply nth_error_In with (n := Z.to_nat (i - 1)). unfold mid. rewrite nth_error_firstn_lt by lia. exact Hn.
    + exists false. split; [reflexivity|].
      replace (Z.to_nat (i - 1)) with (length tl - 1)%nat in Hpre by lia. exact Hpre.
  - split; [lia|]. reflexivity.
  - unfold go_len, p0. cbn [length]. lia. }
  destruct HL as (r & -> & Hr). unfold Q in Hr.
  cbn [gbind]. destruct r as [i|b]; cbn [to_outcome].
  - rewrite Hr. reflexivity.
  - destruct Hr as (-> & ->). reflexivity.
Qed.

Lemma check_number_total : forall s, exists b, check_number s = Ok b.
Proof.
  intros s. unfold check_number. destruct (Nat.ltb_spec (length s) 2); [eauto|].
  destruct s as [|c0 tl]; [cbn [length] in *; lia|].
  unfold get. cbn [nth_error rbind].
  destruct (negb (is_digit c0)); [eauto|].
  destruct (nth_error (c0 :: tl) (length (c0 :: tl) - 1)) eqn:E.
  2: { apply nth_error_None in E. cbn [length] in *. lia. }
  cbn [rbind]. destruct (negb (is_digit n)); [eauto|].
  unfold sub, slice. cbn [length] in *. replace (Nat.leb 1 (S (length tl) - 1) && Nat.leb (S (length tl) - 1) (S (length tl)))%bool with true by lia.
  cbn [rbind]. eauto.
Qed.

Lemma check_number_gen_agrees : forall s : bytes,
  same_result (check_number s) (C14Gen.redactEmailCheckNumber s) /\
  is_out_of_fuel (C14Gen.redactEmailCheckNumber s) = false.
Proof.
  intros s. pose proof (check_number_gen_eq s) as E. destruct (check_number_total s) as [b Hb].
  rewrite Hb in *. destruct (C14Gen.redactEmailCheckNumber s); cbn in *; try discriminate.
  split; [congruence|reflexivity].
Qed.

Lemma check_number_gen_numeric : forall d : bytes,
  exists b, C14Gen.redactEmailCheckNumber d = GOk b /\ (b = true <-> numeric d).
Proof.
  intros d. destruct (check_number_spec d) as (b & Hb & Hn). exists b. split; [|assumption].
  pose proof (check_number_gen_eq d) as E. rewrite Hb in E.
  destruct (C14Gen.redactEmailCheckNumber d); cbn in E; congruence.
Qed.
