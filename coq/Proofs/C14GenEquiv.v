(* C14: the Gallina terms GENERATED from transform/tredactemail/redactemail.go (Gen/C14Gen.v, regenerated on
   every check; all seven functions and the two lookup tables built by init() are translated) against the
   hand-written model Model/Redact.v.  Proved here, for every input: the tables are the character classes
   of the model, redactEmailCheckNumber = check_number, and the scanning functions redactFindEmailStart,
   redactFindEmailEnd, redactFindEmailBoundary, redactEmailFindFirst equal find_start, find_end,
   find_boundary, find_first.  redactEmail1 / redactEmail are translated and validated against the real Go
   code by bin/go2coq-selftest; their equivalence proof is not done (design_notes/XLT.md). *)
From SV Require Import Model.Common Model.GoSem Model.Redact Spec.RedactSpec Proofs.GoSemFacts Proofs.RedactProofs.
From SV Require Gen.C14Gen.
From Coq Require Import Lia ZifyBool ZifyN ZifyNat.
Open Scope Z_scope.

(* ---------- the tables: a finite domain (256 bytes), checked by evaluation and lifted ---------- *)
Definition table_ok (tbl : list bool) (f : N -> bool) : bool :=
  (Nat.eqb (length tbl) 256 &&
   forallb (fun k => match nth_error tbl k with Some b => Bool.eqb b (f (N.of_nat k)) | None => false end) (seq 0 256))%bool.

Lemma table_lookup : forall tbl f, table_ok tbl f = true ->
  forall c : N, (c < 256)%N -> go_index tbl (int_of_byte c) = GOk (f c).
Proof.
  intros tbl f H c Hc. unfold table_ok in H. apply andb_prop in H. destruct H as [_ H].
  rewrite forallb_forall in H. specialize (H (N.to_nat c)).
  assert (Hin : In (N.to_nat c) (seq 0 256)) by (apply in_seq; lia).
  specialize (H Hin). rewrite N2Nat.id in H.
  apply go_index_nth; [unfold int_of_byte; lia|].
  unfold int_of_byte. replace (Z.to_nat (Z.of_N c)) with (N.to_nat c) by lia.
  destruct (nth_error tbl (N.to_nat c)) as [b|]; [|discriminate].
  apply Bool.eqb_prop in H. congruence.
Qed.

Lemma word_table_ok : table_ok C14Gen.validWordChars is_word = true.
Proof. vm_compute. reflexivity. Qed.
Lemma addr_table_ok : table_ok C14Gen.validAddressChars is_addr = true.
Proof. vm_compute. reflexivity. Qed.

Lemma word_table_gen : forall c : N, (c < 256)%N -> go_index C14Gen.validWordChars (int_of_byte c) = GOk (is_word c).
Proof. exact (table_lookup _ _ word_table_ok). Qed.
Lemma addr_table_gen : forall c : N, (c < 256)%N -> go_index C14Gen.validAddressChars (int_of_byte c) = GOk (is_addr c).
Proof. exact (table_lookup _ _ addr_table_ok). Qed.

(* the initialiser itself ends without panic and within its fuel *)
Lemma tables_init_ok : exists r, C14Gen.tables_init = GOk r.
Proof. eexists. vm_compute. reflexivity. Qed.

(* ---------- redactEmailCheckNumber ---------- *)
Definition num_ok (c : N) : bool := (is_digit c || (c =? ch_dot)%N)%bool.

Lemma check_number_gen_eq : forall s : bytes,
  to_outcome (C14Gen.redactEmailCheckNumber s) = check_number s.
Proof.
  intros s. unfold C14Gen.redactEmailCheckNumber, C14Gen.redactEmailCheckNumber_fuel, check_number.
  destruct (Nat.ltb_spec (length s) 2) as [Hs|Hl].
  { repeat split_if; gosym_done. }
  destruct s as [|c0 tl]; [cbn [length] in Hl; lia|].
  assert (Htl : (1 <= length tl)%nat) by (cbn [length] in Hl; lia).
  assert (Hlast : exists cl, nth_error (c0 :: tl) (length (c0 :: tl) - 1) = Some cl).
  { destruct (nth_error (c0 :: tl) (length (c0 :: tl) - 1)) eqn:E; [eauto|]. apply nth_error_None in E. cbn [length] in *. lia. }
  destruct Hlast as (cl & Hcl).
  set (p0 := c0 :: tl) in *.
  assert (Hlen : go_len p0 = Z.of_nat (length tl) + 1) by (unfold p0, go_len; cbn [length]; lia).
  assert (Hi0 : go_index p0 0 = GOk c0) by reflexivity.
  assert (Hil : go_index p0 (go_len p0 - 1) = GOk cl).
  { apply go_index_nth; [lia|]. rewrite <- Hcl. f_equal. unfold go_len. lia. }
  unfold get. rewrite Hcl. change (nth_error p0 0) with (Some c0). cbn [rbind].
  replace (go_len p0 <? 2) with false by lia. rewrite Hi0. cbn [gbind]. rewrite Hil. cbn [gbind].
  unfold is_digit.
  destruct ((c0 <? 48)%N || (57 <? c0)%N)%bool eqn:E0.
  { replace (negb ((48 <=? c0)%N && (c0 <=? 57)%N)) with true by lia. reflexivity. }
  replace (negb ((48 <=? c0)%N && (c0 <=? 57)%N)) with false by lia.
  destruct ((cl <? 48)%N || (57 <? cl)%N)%bool eqn:E1.
  { replace (negb ((48 <=? cl)%N && (cl <=? 57)%N)) with true by lia. reflexivity. }
  replace (negb ((48 <=? cl)%N && (cl <=? 57)%N)) with false by lia.
  (* the model's slice s[1:len-1] *)
  set (mid := firstn (length tl - 1) tl).
  assert (Hsub : sub p0 1 (length p0 - 1) = Ok mid).
  { unfold sub, slice, p0. cbn [length skipn]. replace (S (length tl) - 1)%nat with (length tl) by lia.
    replace (Nat.leb 1 (length tl) && Nat.leb (length tl) (S (length tl)))%bool with true by lia. reflexivity. }
  rewrite Hsub. cbn [rbind].
  fold num_ok. change (fun c : N => ((48 <=? c)%N && (c <=? 57)%N || (c =? ch_dot)%N)%bool) with num_ok.
  (* the loop *)
  pose (Q := fun r : Z + bool => match r with inl _ => forallb num_ok mid = true | inr b => b = false /\ forallb num_ok mid = false end).
  match goal with
  | |- context [go_loop ?fl ?cd ?bd ?pt ?st0] =>
    assert (HL : exists r, go_loop fl cd bd pt st0 = GOk r /\ Q r)
  end.
  { apply go_loop_inv with
      (Inv := fun i => 1 <= i <= go_len p0 - 1 /\ forallb num_ok (firstn (Z.to_nat (i - 1)) tl) = true)
      (measure := fun i => Z.to_nat (go_len p0 - i)); unfold Q.
  - (* one iteration *)
    intros i (Hi & Hpre). cbv beta.
    destruct (Z.ltb_spec i (go_len p0 - 1)) as [Hlt|Hge].
    + exists true. split; [reflexivity|].
      assert (Hn : exists c, nth_error tl (Z.to_nat (i - 1)) = Some c).
      { destruct (nth_error tl (Z.to_nat (i - 1))) eqn:E; [eauto|]. apply nth_error_None in E. lia. }
      destruct Hn as (c & Hn).
      assert (Hix : go_index p0 i = GOk c).
      { apply go_index_nth; [lia|]. unfold p0. replace (Z.to_nat i) with (S (Z.to_nat (i - 1))) by lia. exact Hn. }
      rewrite Hix. cbn [gbind].
      destruct (num_ok c) eqn:Eok.
      * exists (CNext i). split.
        { unfold num_ok, is_digit, ch_dot in Eok. repeat (cbn [gbind]; try split_if); first [reflexivity | exfalso; lia]. }
        eexists. split; [reflexivity|]. split; [|lia]. split; [lia|].
        replace (Z.to_nat (i + 1 - 1)) with (S (Z.to_nat (i - 1))) by lia.
        rewrite (firstn_snoc_nth _ _ _ Hn), forallb_app, Hpre. cbn [forallb]. rewrite Eok. reflexivity.
      * exists (CRet false). split.
        { unfold num_ok, is_digit, ch_dot in Eok. repeat (cbn [gbind]; try split_if); first [reflexivity | exfalso; lia]. }
        split; [reflexivity|].
        destruct (forallb num_ok mid) eqn:Em; [|reflexivity].
        rewrite forallb_forall in Em. rewrite <- Eok. symmetry. apply Em.
        apply nth_error_In with (n := Z.to_nat (i - 1)). unfold mid. rewrite nth_error_firstn_lt by lia. exact Hn.
    + exists false. split; [reflexivity|].
      replace (Z.to_nat (i - 1)) with (length tl - 1)%nat in Hpre by lia. exact Hpre.
  - split; [lia|]. reflexivity.
  - unfold go_len, p0. cbn [length]. lia. }
  destruct HL as (r & -> & Hr). unfold Q in Hr.
  cbn [gbind]. destruct r as [i|b]; cbn [to_outcome].
  - rewrite Hr. reflexivity.
  - destruct Hr as (-> & ->). reflexivity.
Qed.

Lemma check_number_total : forall s, exists b, check_number s = Ok b.
Proof.
  intros s. unfold check_number. destruct (Nat.ltb_spec (length s) 2); [eauto|].
  destruct s as [|c0 tl]; [cbn [length] in *; lia|].
  unfold get. cbn [nth_error rbind].
  destruct (negb (is_digit c0)); [eauto|].
  destruct (nth_error (c0 :: tl) (length (c0 :: tl) - 1)) eqn:E.
  2: { apply nth_error_None in E. cbn [length] in *. lia. }
  cbn [rbind]. destruct (negb (is_digit n)); [eauto|].
  unfold sub, slice. cbn [length] in *. replace (Nat.leb 1 (S (length tl) - 1) && Nat.leb (S (length tl) - 1) (S (length tl)))%bool with true by lia.
  cbn [rbind]. eauto.
Qed.

Lemma check_number_gen_agrees : forall s : bytes,
  same_result (check_number s) (C14Gen.redactEmailCheckNumber s) /\
  is_out_of_fuel (C14Gen.redactEmailCheckNumber s) = false.
Proof.
  intros s. pose proof (check_number_gen_eq s) as E. destruct (check_number_total s) as [b Hb].
  rewrite Hb in *. destruct (C14Gen.redactEmailCheckNumber s); cbn in *; try discriminate.
  split; [congruence|reflexivity].
Qed.

Lemma check_number_gen_numeric : forall d : bytes,
  exists b, C14Gen.redactEmailCheckNumber d = GOk b /\ (b = true <-> numeric d).
Proof.
  intros d. destruct (check_number_spec d) as (b & Hb & Hn). exists b. split; [|assumption].
  pose proof (check_number_gen_eq d) as E. rewrite Hb in E.
  destruct (C14Gen.redactEmailCheckNumber d); cbn in E; congruence.
Qed.

(* ====================================================================================================
   The scanning functions.  Go's int is Z, the model's indices are nat and "-1" is [None]: [opt_int].
   The lookup tables are indexed by a byte, so the text must consist of bytes: [bytes_ok] (c < 256);
   the index arguments are within the text (atIndex is the position of an '@' in every call).
   Each loop: a lemma over ANY cond/body/post that satisfy pointwise specifications (proved by induction),
   instantiated with the generated lambdas, whose specifications are closed by case analysis. *)
Definition opt_int (o : option nat) : Z := match o with Some n => Z.of_nat n | None => -1 end.
Definition bytes_ok (t : bytes) : Prop := Forall (fun c => (c < 256)%N) t.

Lemma bytes_ok_nth : forall t i c, bytes_ok t -> nth_error t i = Some c -> (c < 256)%N.
Proof. intros t i c H Hn. unfold bytes_ok in H. rewrite Forall_forall in H. apply H. eapply nth_error_In; eassumption. Qed.

Lemma get_ok : forall t i c, nth_error t i = Some c -> get t i = Ok c.
Proof. intros t i c H. unfold get. rewrite H. reflexivity. Qed.

Lemma sub_ok : forall t a b, (a <= b <= length t)%nat -> sub t a b = Ok (firstn (b - a) (skipn a t)).
Proof.
  intros t a b H. unfold sub, slice. replace (Nat.leb a b && Nat.leb b (length t))%bool with true by lia. reflexivity.
Qed.

(* closes a pointwise specification of a generated lambda, after the facts about its reads were rewritten *)
Ltac close_spec :=
  repeat (cbn [gbind]; try split_if); cbn [gbind];
  first [ reflexivity | f_equal; lia | f_equal; f_equal; lia | exfalso; lia ].

(* ---------- redactFindEmailStart ---------- *)
Section FindStart.
  Variable t : bytes.
  Variable l : nat.
  Variables (cond : Z -> gres bool) (body : Z -> gres (ctl Z Z)) (post : Z -> gres Z).
  Hypothesis Hcond : forall v, cond v = GOk (Z.of_nat l <=? v).
  Hypothesis Hbody : forall i c, nth_error t i = Some c ->
    body (Z.of_nat i) = GOk (if is_addr c then CNext (Z.of_nat i) else CBrk (Z.of_nat i)).
  Hypothesis Hpost : forall v, post v = GOk (v - 1).

  Lemma fs_loop_gen : forall j fuel, (j <= length t)%nat -> (j < fuel)%nat ->
    exists j', find_start_loop t l j = Ok j' /\ (j' <= j)%nat /\
               go_loop fuel cond body post (Z.of_nat j - 1) = GOk (inl (Z.of_nat j' - 1)).
  Proof.
    induction j as [|i IH]; intros fuel Hj Hf; (destruct fuel as [|fuel]; [lia|]); rewrite go_loop_S, Hcond; cbn [gbind].
    - exists O. replace (Z.of_nat l <=? Z.of_nat 0 - 1) with false by lia. repeat split; reflexivity || lia.
    - cbn [find_start_loop].
      replace (Z.of_nat (S i) - 1) with (Z.of_nat i) by lia.
      destruct (Nat.leb_spec l i) as [Hl|Hl].
      + replace (Z.of_nat l <=? Z.of_nat i) with true by lia.
        destruct (nth_lt t i ltac:(lia)) as (c & Hc). rewrite (get_ok _ _ _ Hc), (Hbody _ _ Hc). cbn [rbind gbind].
        destruct (is_addr c).
        * rewrite Hpost. cbn [gbind]. destruct (IH fuel ltac:(lia) ltac:(lia)) as (j' & E1 & E2 & E3).
          exists j'. repeat split; [assumption|lia|assumption].
        * exists (S i). repeat split; [lia|]. do 3 f_equal. lia.
      + replace (Z.of_nat l <=? Z.of_nat i) with false by lia.
        exists (S i). repeat split; [lia|]. do 3 f_equal. lia.
  Qed.
End FindStart.

Lemma find_start_gen_eq : forall (t : bytes) (a l : nat),
  bytes_ok t -> (a <= length t)%nat ->
  exists r, find_start t a l = Ok r /\
            C14Gen.redactFindEmailStart t (Z.of_nat a) (Z.of_nat l) = GOk (opt_int r).
Proof.
  intros t a l Hb Ha. unfold C14Gen.redactFindEmailStart, C14Gen.redactFindEmailStart_fuel, find_start.
  cbv zeta.
  match goal with
  | |- context [go_loop ?fl ?cd ?bd ?pt ?st0] =>
    destruct (fs_loop_gen t l cd bd pt) with (j := a) (fuel := fl) as (j' & -> & Hj' & ->)
  end.
  - intros v. reflexivity.
  - intros i c Hc. cbv beta. rewrite (go_index_nat _ _ _ Hc). cbn [gbind].
    rewrite (addr_table_gen c (bytes_ok_nth _ _ _ Hb Hc)). destruct (is_addr c); close_spec.
  - intros v. reflexivity.
  - assumption.
  - lia.
  - cbn [rbind gbind]. destruct j' as [|i].
    + exists (Some O). split; [reflexivity|]. close_spec.
    + destruct (nth_lt t i ltac:(lia)) as (c & Hc). rewrite (get_ok _ _ _ Hc). cbn [rbind].
      replace (Z.of_nat (S i) - 1) with (Z.of_nat i) by lia. rewrite (go_index_nat _ _ _ Hc).
      unfold ch_slash. destruct (N.eqb_spec c 47) as [->|Hne].
      * exists None. split; [reflexivity|]. close_spec.
      * exists (Some (S i)). split; [reflexivity|]. cbn [opt_int]. close_spec.
Qed.

(* ---------- redactFindEmailEnd ---------- *)
Lemma skipn_cons_nth : forall {A} (t : list A) i c r, skipn i t = c :: r ->
  nth_error t i = Some c /\ skipn (S i) t = r /\ (i < length t)%nat.
Proof.
  intros A t. induction t as [|x t IH]; intros [|i] c r H; cbn in *; try discriminate.
  - injection H as -> ->. repeat split; lia.
  - destruct (IH i c r H) as (H1 & H2 & H3). repeat split; [assumption|assumption|lia].
Qed.

Lemma check_number_pair : forall d : bytes, exists b, check_number d = Ok b /\ C14Gen.redactEmailCheckNumber d = GOk b.
Proof.
  intros d. destruct (check_number_total d) as [b Hb]. exists b. split; [assumption|].
  pose proof (check_number_gen_eq d) as E. rewrite Hb in E.
  destruct (C14Gen.redactEmailCheckNumber d); cbn in E; congruence.
Qed.

Section DotScan.
  Variable t : bytes.
  Variables (cond : Z * Z -> gres bool) (body : Z * Z -> gres (ctl (Z * Z) Z)) (post : Z * Z -> gres (Z * Z)).
  Hypothesis Hcond : forall d v, cond (d, v) = GOk (v <? go_len t).
  Hypothesis Hbody : forall d i c, nth_error t i = Some c ->
    body (d, Z.of_nat i) = GOk (if negb (is_addr c) then CRet (-1)
                                else if (c =? 46)%N then CBrk (Z.of_nat i, Z.of_nat i) else CNext (d, Z.of_nat i)).
  Hypothesis Hpost : forall d v, post (d, v) = GOk (d, v + 1).

  Lemma dot_loop_gen : forall rest i d fuel, skipn i t = rest -> (i <= length t)%nat -> (length rest < fuel)%nat ->
    go_loop fuel cond body post (d, Z.of_nat i) =
      GOk (match dot_scan rest i with
           | DotNotAddr => inr (-1)
           | DotNone => inl (d, go_len t)
           | DotAt k => inl (Z.of_nat k, Z.of_nat k)
           end) /\
    match dot_scan rest i with DotAt k => (i <= k < length t)%nat | _ => True end.
  Proof.
    induction rest as [|c r IH]; intros i d fuel Hs Hi Hf; (destruct fuel as [|fuel]; [cbn [length] in Hf; lia|]);
      rewrite go_loop_S, Hcond; cbn [gbind dot_scan].
    - assert (length t <= i)%nat.
      { assert (E : length (skipn i t) = 0%nat) by (rewrite Hs; reflexivity). rewrite skipn_length in E. lia. }
      replace (Z.of_nat i <? go_len t) with false by (unfold go_len; lia).
      split; [|exact I]. do 3 f_equal. unfold go_len. lia.
    - destruct (skipn_cons_nth _ _ _ _ Hs) as (Hc & Hr & Hlt).
      replace (Z.of_nat i <? go_len t) with true by (unfold go_len; lia).
      rewrite (Hbody _ _ _ Hc). cbn [gbind].
      destruct (negb (is_addr c)); [split; [reflexivity|exact I]|].
      unfold ch_dot. destruct (c =? 46)%N; [split; [reflexivity|lia]|].
      rewrite Hpost. cbn [gbind]. replace (Z.of_nat i + 1) with (Z.of_nat (S i)) by lia.
      cbn [length] in Hf. destruct (IH (S i) d fuel Hr ltac:(lia) ltac:(lia)) as (E1 & E2). split; [exact E1|].
      destruct (dot_scan r (S i)); try exact I. lia.
  Qed.
End DotScan.

Section EndScan.
  Variable t : bytes.
  Variables (cond : Z -> gres bool) (body : Z -> gres (ctl Z Z)) (post : Z -> gres Z).
  Hypothesis Hcond : forall v, cond v = GOk (v <? go_len t).
  Hypothesis Hbody : forall i c, nth_error t i = Some c ->
    body (Z.of_nat i) = GOk (if negb (is_addr c) then CBrk (Z.of_nat i) else CNext (Z.of_nat i)).
  Hypothesis Hpost : forall v, post v = GOk (v + 1).

  Lemma end_loop_gen : forall rest i fuel, skipn i t = rest -> (i <= length t)%nat -> (length rest < fuel)%nat ->
    go_loop fuel cond body post (Z.of_nat i) = GOk (inl (Z.of_nat (end_scan rest i))) /\
    (i <= end_scan rest i <= length t)%nat.
  Proof.
    induction rest as [|c r IH]; intros i fuel Hs Hi Hf; (destruct fuel as [|fuel]; [cbn [length] in Hf; lia|]);
      rewrite go_loop_S, Hcond; cbn [gbind end_scan].
    - assert (length t <= i)%nat.
      { assert (E : length (skipn i t) = 0%nat) by (rewrite Hs; reflexivity). rewrite skipn_length in E. lia. }
      replace (Z.of_nat i <? go_len t) with false by (unfold go_len; lia). split; [reflexivity|lia].
    - destruct (skipn_cons_nth _ _ _ _ Hs) as (Hc & Hr & Hlt).
      replace (Z.of_nat i <? go_len t) with true by (unfold go_len; lia).
      rewrite (Hbody _ _ Hc). cbn [gbind].
      destruct (is_addr c); cbn [negb]; [|split; [reflexivity|lia]].
      rewrite Hpost. cbn [gbind]. replace (Z.of_nat i + 1) with (Z.of_nat (S i)) by lia.
      cbn [length] in Hf. destruct (IH (S i) fuel Hr ltac:(lia) ltac:(lia)) as (E1 & E2). split; [exact E1|lia].
  Qed.
End EndScan.

Lemma find_end_gen_eq : forall (t : bytes) (a : nat),
  bytes_ok t -> (a < length t)%nat ->
  exists r, find_end t a = Ok r /\ C14Gen.redactFindEmailEnd t (Z.of_nat a) = GOk (opt_int r).
Proof.
  intros t a Hb Ha. unfold C14Gen.redactFindEmailEnd, C14Gen.redactFindEmailEnd_fuel, find_end.
  cbv zeta. replace (Z.of_nat a + 1) with (Z.of_nat (a + 1)) by lia.
  match goal with
  | |- context [go_loop ?fl ?cd ?bd ?pt (?d0, _)] =>
    destruct (dot_loop_gen t cd bd pt) with (rest := skipn (a + 1) t) (i := (a + 1)%nat) (d := d0) (fuel := fl) as (-> & Hk)
  end.
  - intros d v. reflexivity.
  - intros d i c Hc. cbv beta. rewrite (go_index_nat _ _ _ Hc). cbn [gbind].
    rewrite (addr_table_gen c (bytes_ok_nth _ _ _ Hb Hc)). destruct (is_addr c); cbn [negb gbind]; [|reflexivity].
    destruct (c =? 46)%N; reflexivity.
  - intros d v. reflexivity.
  - reflexivity.
  - lia.
  - rewrite skipn_length. lia.
  - cbn [gbind]. destruct (dot_scan (skipn (a + 1) t) (a + 1)) as [| |k].
    + exists None. split; reflexivity.
    + (* no dot: the rest of the text is the domain *)
      replace (-1 =? -1) with true by reflexivity.
      rewrite go_slice_from_nat by lia. cbn [gbind]. rewrite sub_ok by lia.
      rewrite firstn_all2 by (rewrite skipn_length; lia). cbn [rbind].
      destruct (check_number_pair (skipn (a + 1) t)) as (b & -> & ->). cbn [rbind gbind].
      destruct b; [exists None|exists (Some (length t))]; split; reflexivity.
    + replace (Z.of_nat k =? -1) with false by lia.
      destruct (Nat.eqb_spec k (length t - 1)) as [Hke|Hkn].
      { replace (Z.of_nat k =? go_len t - 1) with true by (unfold go_len; lia).
        exists (Some (length t)). split; reflexivity. }
      replace (Z.of_nat k =? go_len t - 1) with false by (unfold go_len; lia).
      destruct (nth_lt t (k + 1) ltac:(lia)) as (c & Hc). rewrite (get_ok _ _ _ Hc). cbn [rbind].
      replace (Z.of_nat k + 1) with (Z.of_nat (k + 1)) by lia. rewrite (go_index_nat _ _ _ Hc). cbn [gbind].
      rewrite (word_table_gen c (bytes_ok_nth _ _ _ Hb Hc)). cbn [gbind].
      destruct (is_word c); cbn [negb]; [|exists None; split; reflexivity].
      replace (Z.of_nat k + 2) with (Z.of_nat (k + 2)) by lia.
      match goal with
      | |- context [go_loop ?fl ?cd ?bd ?pt _] =>
        destruct (end_loop_gen t cd bd pt) with (rest := skipn (k + 2) t) (i := (k + 2)%nat) (fuel := fl) as (-> & He)
      end.
      * intros v. reflexivity.
      * intros i c' Hc'. cbv beta. rewrite (go_index_nat _ _ _ Hc'). cbn [gbind].
        rewrite (addr_table_gen c' (bytes_ok_nth _ _ _ Hb Hc')). destruct (is_addr c'); reflexivity.
      * intros v. reflexivity.
      * reflexivity.
      * lia.
      * rewrite skipn_length. lia.
      * cbn [gbind]. set (e := end_scan (skipn (k + 2) t) (k + 2)) in *.
        rewrite go_slice_nat by lia. cbn [gbind]. rewrite sub_ok by lia. cbn [rbind].
        destruct (check_number_pair (firstn (e - (a + 1)) (skipn (a + 1) t))) as (b & -> & ->). cbn [rbind gbind].
        destruct b; [exists None|exists (Some e)]; split; reflexivity.
Qed.

(* ---------- redactFindEmailBoundary ---------- *)
Lemma find_boundary_gen_eq : forall (t : bytes) (a l : nat),
  bytes_ok t -> (a < length t)%nat ->
  exists s e, find_boundary t a l = Ok (s, e) /\
              C14Gen.redactFindEmailBoundary t (Z.of_nat a) (Z.of_nat l) = GOk (opt_int s, opt_int e).
Proof.
  intros t a l Hb Ha. unfold C14Gen.redactFindEmailBoundary, find_boundary.
  destruct (find_start_gen_eq t a l Hb ltac:(lia)) as (s & -> & ->). cbn [rbind gbind]. cbv zeta.
  destruct s as [es|].
  - cbn [opt_int]. replace (Z.of_nat es =? -1) with false by lia.
    destruct (find_end_gen_eq t a Hb Ha) as (e & -> & ->). cbn [rbind gbind].
    exists (Some es), e. split; reflexivity.
  - exists None, None. split; reflexivity.
Qed.

(* ---------- redactEmailFindFirst ---------- *)
Lemma go_index_byte_from_spec : forall s c off,
  go_index_byte_from s c off = match index_byte s c with Some k => off + Z.of_nat k | None => -1 end.
Proof.
  induction s as [|x s IH]; intros c off; cbn [go_index_byte_from index_byte]; [reflexivity|].
  destruct (x =? c)%N; [lia|]. rewrite IH. destruct (index_byte s c); cbn [option_map]; lia.
Qed.

Lemma go_index_byte_spec : forall s c, go_index_byte s c = opt_int (index_byte s c).
Proof. intros. unfold go_index_byte. rewrite go_index_byte_from_spec. destruct (index_byte s c); cbn [opt_int]; lia. Qed.

Lemma index_byte_lt : forall s c k, index_byte s c = Some k -> (k < length s)%nat.
Proof.
  induction s as [|x s IH]; intros c k H; cbn [index_byte] in H; [discriminate|].
  destruct (x =? c)%N; [injection H as <-; cbn [length]; lia|].
  destruct (index_byte s c) eqn:E; cbn [option_map] in H; [|discriminate]. injection H as <-.
  specialize (IH _ _ E). cbn [length]. lia.
Qed.

Definition res_int (r : Z + Z) : Z := match r with inl _ => -1 | inr n => n end.

Section FindFirst.
  Variable t : bytes.
  Variables (cond : Z -> gres bool) (body : Z -> gres (ctl Z Z)) (post : Z -> gres Z).
  Hypothesis Hcond : forall v, cond v = GOk (v <? go_len t - 1).
  Hypothesis Hbody : forall sAt, (S sAt < length t)%nat ->
    exists g, at_guard t sAt = Ok g /\
      body (Z.of_nat sAt) = GOk (if g then CRet (Z.of_nat sAt)
                                 else match index_byte (skipn (S sAt) t) ch_at with
                                      | None => CBrk (Z.of_nat (S sAt))
                                      | Some k => CNext (Z.of_nat (S sAt + k))
                                      end).
  Hypothesis Hpost : forall v, post v = GOk v.

  Lemma ff_loop_gen : forall mf sAt fuel, (mf <= fuel)%nat -> (length t - sAt < mf)%nat ->
    exists r res, find_first_loop mf t sAt = Ok r /\
                  go_loop fuel cond body post (Z.of_nat sAt) = GOk res /\ res_int res = opt_int r.
  Proof.
    induction mf as [|mf IH]; intros sAt fuel Hf Hm; [lia|]. destruct fuel as [|fuel]; [lia|].
    rewrite go_loop_S, Hcond. cbn [gbind find_first_loop].
    destruct (Nat.ltb_spec (S sAt) (length t)) as [Hlt|Hge].
    - replace (Z.of_nat sAt <? go_len t - 1) with true by (unfold go_len; lia).
      destruct (Hbody sAt Hlt) as (g & -> & ->). cbn [rbind gbind]. destruct g.
      + exists (Some sAt), (inr (Z.of_nat sAt)). repeat split.
      + rewrite sub_ok by lia. cbn [rbind]. rewrite firstn_all2 by (rewrite skipn_length; lia).
        destruct (index_byte (skipn (S sAt) t) ch_at) as [k|] eqn:Ek.
        * rewrite Hpost. cbn [gbind]. apply IH; lia.
        * exists None, (inl (Z.of_nat (S sAt))). repeat split.
    - replace (Z.of_nat sAt <? go_len t - 1) with false by (unfold go_len; lia).
      exists None, (inl (Z.of_nat sAt)). repeat split.
  Qed.
End FindFirst.

Lemma find_first_gen_eq : forall t : bytes,
  bytes_ok t ->
  exists r, find_first t = Ok r /\ C14Gen.redactEmailFindFirst t = GOk (opt_int r).
Proof.
  intros t Hb. unfold C14Gen.redactEmailFindFirst, C14Gen.redactEmailFindFirst_fuel, find_first.
  cbv zeta. rewrite go_index_byte_spec. fold ch_at.
  destruct (index_byte t ch_at) as [k0|] eqn:E0; cbn [opt_int].
  - match goal with
    | |- context [go_loop ?fl ?cd ?bd ?pt _] =>
      destruct (ff_loop_gen t cd bd pt) with (mf := S (length t)) (sAt := k0) (fuel := fl) as (r & res & -> & -> & Hres)
    end.
    + intros v. reflexivity.
    + (* the body *)
      intros sAt Hlt. cbv beta. unfold at_guard.
      destruct (nth_lt t (sAt + 1) ltac:(lia)) as (n & Hn).
      replace (Z.of_nat sAt + 1) with (Z.of_nat (sAt + 1)) by lia.
      rewrite (go_index_nat _ _ _ Hn), (get_ok _ _ _ Hn). cbn [gbind].
      rewrite (word_table_gen n (bytes_ok_nth _ _ _ Hb Hn)).
      replace (Z.of_nat (sAt + 1)) with (Z.of_nat (S sAt)) by lia.
      rewrite go_slice_from_nat by lia. cbn [gbind]. rewrite go_index_byte_spec. fold ch_at.
      destruct sAt as [|i].
      * exists false. split; [reflexivity|]. cbn [gbind].
        destruct (index_byte (skipn 1 t) ch_at); cbn [opt_int]; close_spec.
      * destruct (nth_lt t i ltac:(lia)) as (p & Hp).
        replace (S i - 1)%nat with i by lia. replace (Z.of_nat (S i) - 1) with (Z.of_nat i) by lia.
        rewrite (go_index_nat _ _ _ Hp), (get_ok _ _ _ Hp). cbn [gbind]. rewrite (word_table_gen p (bytes_ok_nth _ _ _ Hb Hp)).
        replace (0 <? S i)%nat with true by reflexivity. replace (0 <? Z.of_nat (S i)) with true by lia.
        cbn [rbind gbind].
        destruct (is_word p); cbn [rbind gbind].
        { destruct (is_word n); [exists true|exists false]; (split; [reflexivity|]).
          - reflexivity.
          - destruct (index_byte (skipn (S (S i)) t) ch_at); cbn [opt_int]; close_spec. }
        exists false. split; [reflexivity|].
        destruct (index_byte (skipn (S (S i)) t) ch_at); cbn [opt_int]; close_spec.
    + intros v. reflexivity.
    + lia.
    + lia.
    + exists r. split; [reflexivity|]. cbn [gbind]. destruct res; cbn [res_int] in Hres; rewrite <- Hres; reflexivity.
  - (* no '@' at all: Go still enters the loop once with sAt = -1 when the text is not empty *)
    exists None. split; [reflexivity|].
    destruct t as [|c0 t'].
    + reflexivity.
    + cbn [length Nat.add]. rewrite go_loop_S. cbn [gbind]. rewrite go_len_cons.
      replace (-1 <? go_len t' + 1 - 1) with true by (pose proof (go_len_nonneg t'); lia).
      replace (0 <? -1) with false by reflexivity. cbn [gbind].
      replace (-1 + 1) with (Z.of_nat 0) by reflexivity. rewrite go_slice_from_nat by lia. cbn [skipn gbind].
      rewrite go_index_byte_spec. fold ch_at. rewrite E0. reflexivity.
Qed.
