(* Model/Unescape.v (RunToBuffer with its IndexByte chunking, on a destination window) against the recursive
   reference unescaper of Spec/SerializerSpec.v. *)
From SV Require Import Model.Common Model.Msgpack Model.Unescape Model.Serializer
     Spec.MsgpackSpec Spec.SerializerSpec Proofs.CommonFacts Proofs.MsgpackProofs.
From Coq Require Import Lia ZifyBool ZifyN ZifyNat.
Ltac Zify.zify_post_hook ::= Z.div_mod_to_equations.
Open Scope N_scope.

(* ------------------------------------------------------------------ *)
(* the reference unescaper                                             *)

(* induction two bytes at a time *)
Lemma bytes_ind2 : forall (P : bytes -> Prop),
  P [] -> (forall c, P [c]) -> (forall c v rest, P rest -> P (v :: rest) -> P (c :: v :: rest)) -> forall s, P s.
Proof.
  intros P H0 H1 H2 s.
  assert (A : P s /\ forall c, P (c :: s)).
  { induction s as [|v rest [IHa IHb]].
    - split; [exact H0 | exact H1].
    - split; [apply IHb|]. intros c. apply H2; [exact IHa | apply IHb]. }
  apply A.
Qed.

Lemma unescape_ref_length : forall esc tr s, (length (unescape_ref esc tr s) <= length s)%nat.
Proof.
  intros esc tr s. induction s as [|c|c v rest H1 H2] using bytes_ind2.
  - cbn. lia.
  - cbn [unescape_ref]. destruct (c =? esc); cbn [length]; lia.
  - cbn [unescape_ref] in *. destruct (c =? esc).
    + destruct (tr v); cbn [length] in *; lia.
    + cbn [length] in *. lia.
Qed.

Definition noesc (esc : N) (s : bytes) : Prop := Forall (fun c => c <> esc) s.

Lemma unescape_ref_noesc_app : forall esc tr chunk r,
  noesc esc chunk -> unescape_ref esc tr (chunk ++ r) = chunk ++ unescape_ref esc tr r.
Proof.
  intros esc tr chunk r H. induction H as [|c chunk Hc H IH].
  - reflexivity.
  - cbn [app unescape_ref]. replace (c =? esc) with false by lia. rewrite IH. reflexivity.
Qed.

Lemma unescape_ref_noesc : forall esc tr s, noesc esc s -> unescape_ref esc tr s = s.
Proof.
  intros esc tr s H. rewrite <- (app_nil_r s) at 1. rewrite unescape_ref_noesc_app by assumption.
  cbn. apply app_nil_r.
Qed.

Lemma unescape_ref_ext : forall esc tr tr' s, (forall v, tr v = tr' v) -> unescape_ref esc tr s = unescape_ref esc tr' s.
Proof.
  intros esc tr tr' s E. induction s as [|c|c v rest H1 H2] using bytes_ind2.
  - reflexivity.
  - reflexivity.
  - cbn [unescape_ref] in *. destruct (c =? esc).
    + rewrite E. rewrite H1. reflexivity.
    + f_equal. exact H2.
Qed.

(* the syslog unescaper's table is the documented one *)
Lemma syslog_tr_of : forall v, tr_of syslog_unescaper v = syslog_tr v.
Proof.
  intros v. unfold tr_of, syslog_unescaper, new_unescaper, syslog_tr. cbn [u_map u_esc find fst snd].
  destruct (N.eqb_spec v 92); [subst; reflexivity|].
  destruct (N.eqb_spec 98 v); [subst; reflexivity|].
  destruct (N.eqb_spec 102 v); [subst; reflexivity|].
  destruct (N.eqb_spec 110 v); [subst; reflexivity|].
  destruct (N.eqb_spec 114 v); [subst; reflexivity|].
  destruct (N.eqb_spec 116 v); [subst; reflexivity|].
  replace (v =? 98) with false by lia. replace (v =? 102) with false by lia.
  replace (v =? 110) with false by lia. replace (v =? 114) with false by lia.
  replace (v =? 116) with false by lia. reflexivity.
Qed.

Lemma unescape_syslog_eq : forall s,
  unescape_ref (u_esc syslog_unescaper) (tr_of syslog_unescaper) s = unescape_syslog s.
Proof. intros s. unfold unescape_syslog. apply unescape_ref_ext. apply syslog_tr_of. Qed.

(* ------------------------------------------------------------------ *)
(* IndexByte                                                           *)

(* a string splits at the first escape byte *)
Lemma index_byte_split : forall esc s,
  exists chunk rest, s = chunk ++ rest /\ noesc esc chunk /\
    ((rest = [] /\ index_byte s esc = None) \/
     (exists r, rest = esc :: r) /\ index_byte s esc = Some (length chunk)).
Proof.
  intros esc. induction s as [|c s IH].
  - exists [], []. split; [reflexivity|]. split; [constructor|]. left. split; reflexivity.
  - cbn [index_byte]. destruct (N.eqb_spec c esc) as [->|Hne].
    + exists [], (esc :: s). split; [reflexivity|]. split; [constructor|]. right. split; [eexists; reflexivity|reflexivity].
    + destruct IH as (chunk & rest & -> & Hn & Hcase). exists (c :: chunk), rest.
      split; [reflexivity|]. split; [constructor; assumption|].
      destruct Hcase as [[-> E] | [Hr E]].
      * left. split; [reflexivity|]. rewrite E. reflexivity.
      * right. split; [assumption|]. rewrite E. reflexivity.
Qed.

Lemma index_byte_none_noesc : forall esc s, index_byte s esc = None -> noesc esc s.
Proof.
  intros esc. induction s as [|c s IH]; intros H.
  - constructor.
  - cbn [index_byte] in H. destruct (N.eqb_spec c esc); [discriminate|].
    destruct (index_byte s esc) eqn:E; [discriminate|]. constructor; [assumption|]. apply IH. reflexivity.
Qed.

(* ------------------------------------------------------------------ *)
(* source accessors on a decomposed source                             *)

Lemma src_at_app : forall done x rest, src_at (done ++ x :: rest) (length done) = Ok x.
Proof.
  intros. unfold src_at. rewrite nth_error_app2 by lia. rewrite Nat.sub_diag. reflexivity.
Qed.

Lemma src_slice_mid : forall done mid post a b,
  a = length done -> b = (length done + length mid)%nat ->
  src_slice (done ++ mid ++ post) a b = Ok mid.
Proof.
  intros done mid post a b -> ->. unfold src_slice, slice.
  replace ((length done <=? length done + length mid)%nat && (length done + length mid <=? length (done ++ mid ++ post))%nat)%bool
    with true by (rewrite !app_length; lia).
  rewrite skipn_app. rewrite skipn_all. rewrite Nat.sub_diag. cbn [app skipn].
  replace (length done + length mid - length done)%nat with (length mid) by lia.
  rewrite firstn_app. rewrite firstn_all. rewrite Nat.sub_diag. cbn [firstn]. rewrite app_nil_r. reflexivity.
Qed.

(* ------------------------------------------------------------------ *)
(* the loop                                                            *)

Section Loop.
  Variable u : unescaper.
  Let esc := u_esc u.
  Let ref := unescape_ref (u_esc u) (tr_of u).

  Lemma unescape_loop_spec : forall fuel done rest written old tail,
    (rest = [] \/ exists r, rest = esc :: r) ->
    (length rest <= fuel)%nat ->
    length old = length (ref rest) ->
    unescape_loop fuel u (done ++ rest) (length (done ++ rest)) (length done) (written ++ old ++ tail) (length written)
    = Ok (written ++ ref rest ++ tail, (length written + length (ref rest))%nat).
  Proof.
    induction fuel as [|fuel IH]; intros done rest written old tail Hrest Hfuel Hold.
    - (* no fuel: rest is empty *)
      assert (rest = []) by (destruct rest; [reflexivity|cbn [length] in Hfuel; lia]). subst rest.
      cbn [unescape_loop]. rewrite app_nil_r.
      replace (length done + 1 <? length done)%nat with false by lia.
      replace (length done <? length done)%nat with false by lia.
      cbn [ref unescape_ref length] in *. apply length_zero_nil in Hold. subst old.
      subst ref. cbn [unescape_ref app]. f_equal. f_equal. lia.
    - destruct Hrest as [-> | [r ->]].
      + (* nothing left *)
        cbn [unescape_loop]. rewrite app_nil_r.
        replace (length done + 1 <? length done)%nat with false by lia.
        replace (length done <? length done)%nat with false by lia.
        subst ref. cbn [unescape_ref length] in *. apply length_zero_nil in Hold. subst old.
        cbn [app]. f_equal. f_equal. lia.
      + destruct r as [|val rest2].
        * (* a trailing escape byte: copied by the final copy *)
          cbn [unescape_loop].
          replace (length done + 1 <? length (done ++ [esc]))%nat with false by (rewrite app_length; cbn [length]; lia).
          replace (length done <? length (done ++ [esc]))%nat with true by (rewrite app_length; cbn [length]; lia).
          rewrite <- (app_nil_r (done ++ [esc])) at 1. rewrite <- app_assoc.
          rewrite (src_slice_mid done [esc] []) by (rewrite ?app_length; cbn [length]; lia || reflexivity).
          cbn [obind].
          subst ref. cbn [unescape_ref] in *. subst esc. rewrite N.eqb_refl in *. cbn [length] in Hold.
          rewrite (copy_at_at written old [u_esc u] tail) by (cbn [length]; lia || reflexivity).
          cbn [obind length]. reflexivity.
        * (* esc val ... : one iteration *)
          destruct (index_byte_split esc rest2) as (chunk & rest3 & -> & Hchunk & Hcase).
          remember (length (done ++ esc :: val :: chunk ++ rest3)) as len eqn:Hlen.
          cbn [unescape_loop].
          replace (length done + 1 <? len)%nat with true
            by (subst len; rewrite app_length; cbn [length]; lia).
          (* val := src[si+1] *)
          replace (done ++ esc :: val :: chunk ++ rest3) with ((done ++ [esc]) ++ val :: chunk ++ rest3)
            by (rewrite <- app_assoc; reflexivity).
          replace (length done + 1)%nat with (length (done ++ [esc])) by (rewrite app_length; reflexivity).
          rewrite src_at_app. cbn [obind].
          (* what the reference does with this pair and the chunk *)
          assert (Href : ref (esc :: val :: chunk ++ rest3)
                         = (match tr_of u val with Some x => [x] | None => [esc; val] end) ++ chunk ++ ref rest3).
          { subst ref. cbn [unescape_ref]. subst esc. rewrite N.eqb_refl.
            rewrite unescape_ref_noesc_app by assumption. destruct (tr_of u val); reflexivity. }
          rewrite Href in *. clear Href.
          set (pair := match tr_of u val with Some x => [x] | None => [esc; val] end) in *.
          rewrite !app_length in Hold.
          destruct (split_len old _ _ Hold) as (o1 & o23 & -> & Ho1 & Ho23).
          destruct (split_len o23 _ _ Ho23) as (o2 & o3 & -> & Ho2 & Ho3).
          (* the one or two byte stores *)
          assert (Hput :
            (if u_map u val =? 0
             then d1 <-- put (written ++ (o1 ++ o2 ++ o3) ++ tail) (length written) (u_esc u) ;;
                  d2 <-- put d1 (length written + 1) val ;; Ok (d2, (length written + 2)%nat)
             else d1 <-- put (written ++ (o1 ++ o2 ++ o3) ++ tail) (length written) (u_map u val) ;;
                  Ok (d1, (length written + 1)%nat))
            = Ok ((written ++ pair) ++ o2 ++ o3 ++ tail, length (written ++ pair))).
          { subst pair. unfold tr_of in *. destruct (u_map u val =? 0) eqn:E0.
            - destruct o1 as [|a [|b [|? ?]]]; try discriminate. cbn [app].
              rewrite put0. cbn [obind]. rewrite put1. cbn [obind].
              f_equal. f_equal; [rewrite <- !app_assoc; reflexivity | rewrite app_length; reflexivity].
            - destruct o1 as [|a [|? ?]]; try discriminate. cbn [app].
              rewrite put0. cbn [obind].
              f_equal. f_equal; [rewrite <- !app_assoc; reflexivity | rewrite app_length; reflexivity]. }
          rewrite Hput. clear Hput. cbn [obind].
          (* rest := src[si+2:], chunk := src[si+2 : si+2+n] *)
          replace ((done ++ [esc]) ++ val :: chunk ++ rest3) with ((done ++ [esc; val]) ++ (chunk ++ rest3) ++ [])
            by (rewrite <- !app_assoc; rewrite app_nil_r; reflexivity).
          rewrite (src_slice_mid (done ++ [esc; val]) (chunk ++ rest3) [])
            by (subst len; rewrite ?app_length; cbn [length]; rewrite ?app_length; lia).
          cbn [obind].
          assert (Hn : match index_byte (chunk ++ rest3) (u_esc u) with
                       | Some n => n
                       | None => (len - (length done + 2))%nat
                       end = length chunk).
          { destruct Hcase as [[-> E] | [_ E]]; fold esc; rewrite E; [|reflexivity].
            subst len. rewrite !app_length. cbn [length]. rewrite app_nil_r. lia. }
          rewrite Hn. clear Hn.
          replace ((done ++ [esc; val]) ++ (chunk ++ rest3) ++ []) with ((done ++ [esc; val]) ++ chunk ++ rest3)
            by (rewrite app_nil_r; reflexivity).
          rewrite (src_slice_mid (done ++ [esc; val]) chunk rest3)
            by (rewrite ?app_length; cbn [length]; lia).
          cbn [obind].
          rewrite (copy_at_at (written ++ pair) o2 chunk (o3 ++ tail)) by (reflexivity || lia).
          cbn [obind].
          (* back to the shape of the induction hypothesis *)
          replace ((done ++ [esc; val]) ++ chunk ++ rest3) with ((done ++ esc :: val :: chunk) ++ rest3)
            by (rewrite <- !app_assoc; reflexivity).
          replace (length done + 2 + length chunk)%nat with (length (done ++ esc :: val :: chunk))
            by (rewrite !app_length; cbn [length]; lia).
          replace ((written ++ pair) ++ chunk ++ o3 ++ tail) with ((written ++ pair ++ chunk) ++ o3 ++ tail)
            by (rewrite <- !app_assoc; reflexivity).
          replace (length (written ++ pair) + length chunk)%nat with (length (written ++ pair ++ chunk))
            by (rewrite !app_length; lia).
          assert (Hlen' : len = length ((done ++ esc :: val :: chunk) ++ rest3))
            by (subst len; rewrite <- !app_assoc; reflexivity).
          rewrite Hlen'.
          rewrite (IH (done ++ esc :: val :: chunk) rest3 (written ++ pair ++ chunk) o3 tail).
          -- rewrite <- !app_assoc. f_equal. f_equal. rewrite !app_length. lia.
          -- destruct Hcase as [[-> _] | [Hr _]]; [left; reflexivity | right; exact Hr].
          -- cbn [length] in Hfuel. rewrite app_length in Hfuel. lia.
          -- exact Ho3.
  Qed.
End Loop.

(* RunToBuffer, called as runescape does (first = FindFirst(src) <> -1), on a window with room for the result,
   writes exactly the reference result and returns its length; the bytes behind it are untouched *)
Theorem run_to_buffer_spec : forall u src first old tail,
  find_first u src = Some first ->
  length old = length (unescape_ref (u_esc u) (tr_of u) src) ->
  run_to_buffer u src first (old ++ tail)
  = Ok (unescape_ref (u_esc u) (tr_of u) src ++ tail, length (unescape_ref (u_esc u) (tr_of u) src)).
Proof.
  intros u src first old tail Hf Hold. unfold find_first in Hf.
  destruct (index_byte_split (u_esc u) src) as (chunk & rest & -> & Hchunk & Hcase).
  destruct Hcase as [[_ E] | [Hr E]]; rewrite E in Hf; [discriminate|]. inversion Hf; subst first.
  rewrite unescape_ref_noesc_app in * by assumption. rewrite app_length in Hold.
  destruct (split_len old _ _ Hold) as (o1 & o2 & -> & Ho1 & Ho2).
  unfold run_to_buffer.
  rewrite (src_slice_mid [] chunk rest) by reflexivity. cbn [obind].
  rewrite <- app_assoc. rewrite (copy_at_at [] o1 chunk (o2 ++ tail)) by (reflexivity || assumption).
  cbn [obind app].
  pose proof (unescape_loop_spec u (length (chunk ++ rest)) chunk rest chunk o2 tail) as L.
  rewrite L.
  - rewrite <- app_assoc. rewrite app_length. reflexivity.
  - right. exact Hr.
  - rewrite app_length. lia.
  - exact Ho2.
Qed.

(* without an escape byte the value is its own unescaped form (runescape then copies it) *)
Lemma find_first_none_ref : forall u src,
  find_first u src = None -> unescape_ref (u_esc u) (tr_of u) src = src.
Proof. intros u src H. apply unescape_ref_noesc. apply index_byte_none_noesc. exact H. Qed.

(* Run (used by the unescape transform as well): the reference result, never a panic *)
Theorem unescape_run_spec : forall u src, unescape_run u src = Ok (unescape_ref (u_esc u) (tr_of u) src).
Proof.
  intros u src. unfold unescape_run. destruct (find_first u src) as [first|] eqn:F.
  - unfold run_from_first.
    pose proof (unescape_ref_length (u_esc u) (tr_of u) src) as Hle.
    destruct (split_le (repeat 0 (length src)) (length (unescape_ref (u_esc u) (tr_of u) src))) as (o1 & o2 & E & Ho1).
    { rewrite repeat_length. exact Hle. }
    rewrite E. rewrite (run_to_buffer_spec u src first o1 o2 F Ho1). cbn [obind].
    rewrite <- (app_nil_l (unescape_ref (u_esc u) (tr_of u) src ++ o2)).
    rewrite (src_slice_mid [] (unescape_ref (u_esc u) (tr_of u) src) o2) by reflexivity. reflexivity.
  - rewrite find_first_none_ref by assumption. reflexivity.
Qed.
