(* C15: the truncate transform never removes a complete rune from the part it keeps
   (consequences of Proofs/TfUtf8DecProofs.v at the level of Model/Transforms.v run_truncate). *)
From SV Require Import Model.Common Model.TfUtf8 Model.TfUtf8Dec Model.TfUnescape Model.Template Model.Extractor
     Model.TinyRegex Model.Transforms
     Spec.TfUtf8Spec Spec.TfUtf8DecSpec Spec.TransformsSpec
     Proofs.TfUtf8Proofs Proofs.TfUtf8DecProofs Proofs.TfStringFacts Proofs.TransformsProofs.
From Coq Require Import Lia ZifyBool ZifyN ZifyNat.
Open Scope N_scope.

(* every well-formed sequence that lies completely inside the first maxLen bytes is in the result, in its place:
   only bytes around it may have been deleted *)
Lemma truncate_keeps_runes : forall loc maxlen suffix r a q b, (0 <= maxlen)%Z ->
  (Z.of_nat (length (getf r loc)) > maxlen + Z.of_nat (length suffix))%Z ->
  firstn (Z.to_nat maxlen) (getf r loc) = a ++ q ++ b -> utf8_seq q ->
  exists a' b', run_truncate loc maxlen suffix r = Ok (set_field r loc ((a' ++ q ++ b') ++ suffix)) /\
                subseq a' a /\ subseq b' b.
Proof.
  intros loc maxlen suffix r a q b Hm Hlen Hcut Hq.
  destruct (truncate_value loc maxlen suffix r Hm Hlen) as (p & Hp & Hrun).
  rewrite Hcut in Hp. destruct (clean_utf8_keeps_rune a q b p Hq Hp) as (a' & b' & -> & Ha & Hb).
  exists a', b'. split; [exact Hrun|]. split; assumption.
Qed.

(* when the kept part is well formed after its last ASCII byte (in particular: the value is valid UTF-8 and the
   cut falls on a rune boundary) the result is exactly the first maxLen bytes and the suffix *)
Lemma truncate_valid_window : forall loc maxlen suffix r, (0 <= maxlen)%Z ->
  (Z.of_nat (length (getf r loc)) > maxlen + Z.of_nat (length suffix))%Z ->
  let w := firstn (Z.to_nat maxlen) (getf r loc) in
  valid_utf8 (skipn (find_last_end_of_ascii w) w) ->
  run_truncate loc maxlen suffix r = Ok (set_field r loc (w ++ suffix)).
Proof.
  intros loc maxlen suffix r Hm Hlen w Hv.
  destruct (truncate_value loc maxlen suffix r Hm Hlen) as (p & Hp & Hrun).
  fold w in Hp. rewrite (clean_utf8_valid_tail_id w Hv) in Hp. inversion Hp; subst p. exact Hrun.
Qed.
