(* C02 — facts that hold for the REPAIRED acknowledger (p_fix = true: an ACK with an unknown id ends the session):
   shape of the pending map, who closed the connection of an ended acknowledger, and the theorem
   "after an unknown-id ACK the session ends and every pending chunk is in the next leftovers". *)
From SV Require Import Model.Common Model.Client Spec.ClientSpec
     Proofs.ClientBase Proofs.ClientSafety Proofs.ClientHistory Proofs.ClientOrder Proofs.ClientTheorems.
From Coq Require Import Lia Permutation.
Local Open Scope nat_scope.

(* ---------- the pending map of the repaired acknowledger holds exactly the chunk it waits an ACK for ---------- *)

Definition pend_shape (ss : sess) : Prop :=
  match s_apc ss with
  | AIdle => s_pending ss = []
  | AReading c | AAcked c => s_pending ss = [c]
  | AEnded => True
  end.

Lemma pdel_single : forall c, pdel c [c] = [].
Proof. intros. unfold pdel. simpl. rewrite N.eqb_refl. reflexivity. Qed.

Lemma pend_shape_reach : forall P s, p_fix P = true -> reach P s -> forall ss, cur s = Some ss -> pend_shape ss.
Proof.
  intros P s Hfix Hr. revert s Hr.
  apply (reach_ind P (fun s => forall ss, cur s = Some ss -> pend_shape ss)).
  - simpl. discriminate.
  - intros s e s' _ IH Hs. destruct e; step_inv Hs; st_simpl; try assumption.
    all: try congruence.
    all: intros ss0 E; try discriminate E; try (inversion E; subst; clear E); unfold pend_shape in *; st_simpl.
    all: try (pose proof (IH _ eq_refl) as I3).
    all: try (match goal with H : cur _ = Some ?x |- _ => pose proof (IH _ H) as I3 end).
    all: try solve [exact I3].
    all: try solve [reflexivity].
    all: try solve [match goal with H : cur _ = Some ?y |- _ => apply IH; exact H end].
    all: repeat match goal with H : s_apc _ = _ |- _ => rewrite H in * end.
    all: try solve [exact I3].
    all: try solve [match goal with H : cur ?s = Some ?x, H2 : cur ?s = Some ?y |- _ =>
                      rewrite H in H2; inversion H2; subst; exact I3 end].
    all: boolprep.
    + (* EAckRet AId known *) rewrite I3 in *. match goal with H : In _ [_] |- _ => destruct H as [<-|[]] end. reflexivity.
    + (* EConsumed *) rewrite I3. apply pdel_single.
    + (* EAckerTake *) rewrite I3. reflexivity.
Qed.

(* ---------- an acknowledger that has ended outside collectLeftovers has closed the connection ---------- *)

Lemma ended_why : forall P s, reach P s -> forall ss, cur s = Some ss ->
  s_ended ss = true -> s_creq ss = true \/ s_aclosed ss = true \/ s_abort ss = true.
Proof.
  intros P. apply (reach_ind P (fun s => forall ss, cur s = Some ss ->
    s_ended ss = true -> s_creq ss = true \/ s_aclosed ss = true \/ s_abort ss = true)).
  - simpl. discriminate.
  - intros s e s' _ IH Hs. destruct e; step_inv Hs; st_simpl; try assumption.
    all: intros ss0 E; try discriminate E; try (inversion E; subst; clear E); st_simpl.
    all: try (pose proof (IH _ eq_refl) as I3).
    all: try (match goal with H : cur _ = Some ?x |- _ => pose proof (IH _ H) as I3 end).
    all: try solve [intuition (try discriminate; auto)].
    all: try solve [match goal with H : cur _ = Some ?y |- _ => apply IH; exact H end].
    all: try solve [intros _; rewrite orb_true_r; auto].
    all: try solve [match goal with H : cur ?s = Some ?x, H2 : cur ?s = Some ?y |- _ =>
                      rewrite H in H2; inversion H2; subst; exact I3 end].
    all: try congruence.
Qed.

(* ---------- abortConn schedules Close: a session with the RunOnce flag set has its Close pending or executed ---------- *)

Fixpoint closes_of (tr : list event) : list nat :=
  match tr with [] => [] | EClose k :: r => k :: closes_of r | _ :: r => closes_of r end.

Lemma closes_of_app : forall a b, closes_of (a ++ b) = closes_of a ++ closes_of b.
Proof. induction a as [|e a IH]; intros b; [reflexivity|]. destruct e; simpl; rewrite ?IH; reflexivity. Qed.

Lemma filter_neq_In : forall k x l, In x (filter (fun y => negb (Nat.eqb k y)) l) <-> x <> k /\ In x l.
Proof.
  intros k x l. rewrite filter_In. split.
  - intros [H1 H2]. split; [|exact H1]. intro; subst. rewrite Nat.eqb_refl in H2. discriminate.
  - intros [H1 H2]. split; [exact H2|]. destruct (Nat.eqb_spec k x); [subst; contradiction|reflexivity].
Qed.

Definition close_tracked (tr : list event) (s : state) : Prop :=
  forall ss, cur s = Some ss -> s_creq ss = true -> In (s_id ss) (close_pend s) \/ In (s_id ss) (closes_of tr).

Ltac ct_simpl :=
  cbn [close_pend st_main st_sess st_env st_misc st_inq st_opener st_hist h_add_sent h_add_ack h_add_consumed
       h_add_handed h_set_finished h_add_los collect_hard collect_soft creq_new negb andb] in *.

Lemma close_tracked_reach : forall P tr s, reach_by P tr s -> close_tracked tr s.
Proof.
  intros P. apply (reach_by_ind P close_tracked).
  - intros ss E. discriminate E.
  - intros tr s e s' _ IH Hs. unfold close_tracked in *.
    destruct e; step_inv Hs; rewrite closes_of_app; cbn [closes_of]; rewrite ?app_nil_r.
    all: ct_simpl; st_simpl; ct_simpl.
    all: try assumption.
    all: intros ss0 E; try discriminate E; try (inversion E; subst; clear E); st_simpl; ct_simpl.
    all: try (pose proof (IH _ eq_refl) as I3).
    all: try (match goal with H : cur ?s = Some ?x |- _ => pose proof (IH _ H) as I3 end).
    all: repeat match goal with H : cur ?s = _ |- context [cur ?s] => rewrite H end.
    all: unfold creq_new; st_simpl; ct_simpl.
    all: boolprep.
    all: try solve [intros Hq; try discriminate Hq; rewrite ?in_app_iff; simpl; destruct (s_creq _) eqn:?; simpl;
                    rewrite ?app_nil_r; intuition auto].
    all: try solve [intros Hq; destruct (I3 Hq) as [I|I]; [|right; apply in_or_app; left; exact I];
                    try (match goal with H : close_pend _ = _ |- _ => rewrite H in I end);
                    simpl in I; rewrite ?in_app_iff; simpl;
                    try (destruct I as [I|I]; [right; right; left; auto|]);
                    auto].
    all: try solve [intros Hq; destruct (I3 Hq) as [I|I]; [|right; apply in_or_app; left; exact I];
                    try (match goal with H : close_pend _ = _ |- _ => rewrite H in I end);
                    destruct (Nat.eq_dec (s_id ss0) k);
                    [right; apply in_or_app; right; left; auto|];
                    left; destruct I as [I|I]; [left; exact I|right; apply filter_neq_In; split; auto]].
    all: try solve [match goal with H : cur ?s = Some ?x, H2 : cur ?s = Some ?y |- _ =>
                      rewrite H in H2; inversion H2; subst; exact I3 end].
    all: try congruence.
Qed.

(* ---------- an ended session keeps its snapshot until collectLeftovers merges it ---------- *)

Definition frozen (k : nat) (X : list chunk) (s : state) : Prop :=
  exists ss, cur s = Some ss /\ s_id ss = k /\ s_ended ss = true /\ s_apc ss = AEnded /\ s_unacked ss = Some X /\ s_creq ss = true.

Lemma frozen_step : forall P s e s' k X,
  inv1 s -> frozen k X s -> step P s e = Some s' ->
  (frozen k X s' /\ e <> ECollected /\ e <> EBugTimeout /\ (forall c, e <> EConsumed c) /\ (forall j a, e <> EAckRet j a)) \/
  (e = ECollected /\ cur s' = None /\ forall c, In c X -> In c (lo s')) \/
  e = EBugTimeout.
Proof.
  intros P s e s' k X Hi (ss & Hcur & Hid & Hend & Hapc & Hun & Hq) Hs.
  destruct e; step_inv Hs.
  all: try (right; right; reflexivity).
  all: try (match type of Hcur with Some _ = Some _ => inversion Hcur; subst end).
  all: try (match type of Hcur with None = Some _ => discriminate Hcur end).
  all: repeat match goal with Hc : cur ?st = Some ?a, H : cur ?st = Some ?x |- _ =>
         lazymatch x with a => fail | _ => rewrite Hc in H; inversion H; subst x; clear H end end.
  all: try (rewrite Hapc in *; discriminate).
  all: unfold frozen.
  all: try solve [left; split; [|repeat split; intros; discriminate];
                  eexists; st_simpl; split; [first [reflexivity|eassumption]|]; st_simpl; rewrite ?Hq; auto].
  - (* EMainConn with a connection: main is between sessions, there is no current session *)
    destruct (i_between s Hi) as [Hn _]; [match goal with H : pc _ = _ |- _ => rewrite H end; reflexivity|]. congruence.
  - (* ECollected *)
    right. left. split; [reflexivity|]. st_simpl. split; [reflexivity|].
    intros c Hc. unfold merged. apply new_leftovers_In. rewrite Hun in *. some_inv.
    rewrite !in_app_iff. auto.
Qed.

Lemma no_collect_split : forall (tr : list event) e, ~ In e (tr) -> forall x, In x tr -> x <> e.
Proof. intros tr e H x Hx E. subst. contradiction. Qed.

Lemma frozen_run : forall P tr s s' k X,
  reach P s -> frozen k X s -> run P s tr = Some s' -> ~ In ECollected tr -> ~ In EBugTimeout tr ->
  frozen k X s' /\ (forall c, ~ In (EConsumed c) tr) /\ (forall j a, ~ In (EAckRet j a) tr).
Proof.
  intros P tr. induction tr as [|e tr IH]; intros s s' k X Hr Hf Hrun Hnc Hnb.
  - simpl in Hrun. inversion Hrun; subst. split; [exact Hf|]. split; intros; intros [].
  - simpl in Hrun. destruct (step P s e) as [s1|] eqn:E; [|discriminate Hrun].
    destruct (frozen_step P s e s1 k X (inv1_reach P s Hr) Hf E) as [(Hf1 & N1 & N2 & N3 & N4)|[(He & _)|He]].
    + destruct (IH s1 s' k X (reach_step P s e s1 Hr E) Hf1 Hrun) as (F & C & A).
      { intro H. apply Hnc. right. exact H. } { intro H. apply Hnb. right. exact H. }
      split; [exact F|]. split.
      * intros c [H|H]; [exact (N3 c H)|exact (C c H)].
      * intros j a [H|H]; [exact (N4 j a H)|exact (A j a H)].
    + exfalso. apply Hnc. left. exact He.
    + exfalso. apply Hnb. left. exact He.
Qed.

(* After a successful ack read that carries an id which is not pending, the repaired acknowledger has ended
   (deferred snapshot taken, ackerEnded signalled), Close of the connection is requested (pending or executed),
   and whatever happens next inside the contract - any interleaving, any environment - the acknowledger reads no
   further ACK and confirms nothing, and the collectLeftovers that ends this session puts every chunk of the
   pending map into the leftovers of the next session. *)
Lemma unknown_ack_ends_session_lemma : forall P tr s ss k i s1,
  p_fix P = true -> reach_by P tr s -> cur s = Some ss -> ~ In i (s_pending ss) ->
  step P s (EAckRet k (AId i)) = Some s1 ->
  (exists ss1, cur s1 = Some ss1 /\ s_id ss1 = k /\ s_apc ss1 = AEnded /\ s_ended ss1 = true /\
               s_unacked ss1 = Some (s_pending ss) /\ s_creq ss1 = true /\
               (In k (close_pend s1) \/ In (EClose k) tr)) /\
  forall tr2 s2, run P s1 (tr2 ++ [ECollected]) = Some s2 -> ~ In ECollected tr2 -> in_contract tr2 ->
    cur s2 = None /\ (forall c, In c (s_pending ss) -> In c (lo s2)) /\
    (forall c, ~ In (EConsumed c) tr2) /\ (forall j a, ~ In (EAckRet j a) tr2).
Proof.
  intros P tr s ss k i s1 Hfix Hr Hcur Hni Hs.
  assert (Hr1 : reach_by P (tr ++ [EAckRet k (AId i)]) s1).
  { unfold reach_by in *. rewrite run_snoc, Hr. exact Hs. }
  pose proof (close_tracked_reach P _ s1 Hr1) as Hct.
  assert (Hfz : frozen k (s_pending ss) s1 /\ exists ss1, cur s1 = Some ss1 /\ s_id ss1 = k).
  { apply mem_false in Hni. unfold step in Hs. rewrite Hcur in Hs.
    destruct (s_apc ss) eqn:Ea; try discriminate Hs.
    destruct (Nat.eqb k (s_id ss)) eqn:Ek; [|discriminate Hs]. apply Nat.eqb_eq in Ek.
    rewrite Hni, Hfix in Hs. inversion Hs; subst s1. st_simpl.
    split; eexists; (split; [reflexivity|]); st_simpl; rewrite ?orb_true_r; auto. }
  destruct Hfz as [Hfz (ssx & Hcx & Hix)].
  split.
  - destruct Hfz as (ss1 & C1 & I1 & E1 & A1 & U1 & Q1). exists ss1. repeat split; auto.
    destruct (Hct ss1 C1 Q1) as [H|H]; [left; rewrite <- I1; exact H|].
    right. rewrite closes_of_app in H. simpl in H. rewrite app_nil_r, I1 in H.
    clear -H. induction tr as [|e tr IH]; [contradiction|]. destruct e; simpl in H; try (right; apply IH; exact H).
    destruct H as [->|H]; [left; reflexivity|right; apply IH; exact H].
  - intros tr2 s2 Hrun Hnc Hcon. rewrite run_snoc in Hrun.
    destruct (run P s1 tr2) as [sm|] eqn:Em; [|discriminate Hrun].
    assert (Hreach1 : reach P s1) by (exists (tr ++ [EAckRet k (AId i)]); exact Hr1).
    destruct (frozen_run P tr2 s1 sm k (s_pending ss) Hreach1 Hfz Em Hnc Hcon) as (Fm & Cm & Am).
    assert (Hreachm : reach P sm).
    { destruct Hreach1 as [t Ht]. exists (t ++ tr2). unfold reach_by in *. rewrite run_app, Ht. exact Em. }
    destruct (frozen_step P sm ECollected s2 k (s_pending ss) (inv1_reach P sm Hreachm) Fm Hrun)
      as [(_ & N & _)|[(_ & C2 & L2)|He]]; [congruence| |discriminate He].
    repeat split; auto.
Qed.
