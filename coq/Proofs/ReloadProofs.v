(* C17 - the property lemmas: no record goes to dead pipelines, nothing is lost or duplicated,
   a failed reload changes nothing but the failure counter; witnesses for the two defects. *)
From SV Require Import Model.Common Model.Reload Spec.ReloadSpec Proofs.ReloadLists Proofs.ReloadInv.
From Coq Require Import Arith Lia Permutation.
Local Open Scope nat_scope.

(* ================= 1. no record to a dead pipeline, no panic ================= *)
Lemma no_dead_pipeline_lemma : forall nthr maxn evs st,
  grun true (init nthr maxn) evs = Some st -> log_ok (st_log st).
Proof.
  intros nthr maxn evs st H. apply i_log. eapply grun_inv; [apply inv_init|exact H].
Qed.

(* ================= 2. conservation of records ================= *)
Definition cnt (r : rec) (l : list rec) : nat := count_occ N.eq_dec l r.

Lemma cnt_app : forall r l1 l2, cnt r (l1 ++ l2) = cnt r l1 + cnt r l2.
Proof. intros. apply count_occ_app. Qed.

Ltac cnt0 :=
  repeat match goal with
  | H : context [cnt ?r (@nil ?T)] |- _ => change (cnt r (@nil T)) with 0 in H
  | |- context [cnt ?r (@nil ?T)] => change (cnt r (@nil T)) with 0
  end.

Lemma cnt_rev : forall r l, cnt r (rev l) = cnt r l.
Proof.
  induction l as [|x l IH]; simpl; auto. rewrite cnt_app, IH. unfold cnt at 2 3. simpl.
  destruct (N.eq_dec x r); unfold cnt; lia.
Qed.

Lemma cnt_flat_map_upd : forall A (f : A -> list rec) r l t c c',
  nth_error l t = Some c ->
  cnt r (flat_map f (upd l t c')) + cnt r (f c) = cnt r (flat_map f l) + cnt r (f c').
Proof.
  induction l as [|y l IH]; intros [|t] c c' H; simpl in *; try discriminate.
  - inversion H; subst. rewrite !cnt_app. lia.
  - rewrite !cnt_app. specialize (IH _ _ c' H). lia.
Qed.

Lemma cnt_flat_map_app : forall A (f : A -> list rec) r l x,
  cnt r (flat_map f (l ++ [x])) = cnt r (flat_map f l) + cnt r (f x).
Proof. intros. rewrite flat_map_app, cnt_app. simpl. rewrite app_nil_r. reflexivity. Qed.

(* where a record can be: delivered, buffered in a downstream sink, or inside an Accept call *)
Definition whereabouts (r : rec) (st : state) : nat :=
  cnt r (delivered_recs (st_log st)) + cnt r (buffered st) + cnt r (inflight st).

Lemma delivered_hand : forall t s g al rs lg,
  delivered_recs (rev (map (fun r => OHand t r s g al) rs) ++ lg) = delivered_recs lg.
Proof.
  intros. unfold delivered_recs. rewrite flat_map_app.
  replace (flat_map _ (rev (map (fun r => OHand t r s g al) rs))) with (@nil rec); auto.
  rewrite <- map_rev. induction (rev rs); simpl; auto.
Qed.

Lemma delivered_deliver : forall s g al rs lg r,
  cnt r (delivered_recs (rev (map (fun r => ODeliver r s g al) rs) ++ lg)) = cnt r rs + cnt r (delivered_recs lg).
Proof.
  intros. unfold delivered_recs. rewrite flat_map_app, cnt_app. f_equal.
  rewrite <- map_rev. rewrite <- (cnt_rev r rs). induction (rev rs) as [|x l IH]; simpl; auto.
  unfold cnt in *. simpl. destruct (N.eq_dec x r); lia.
Qed.

Lemma thr_change_inflight : forall st t c c' r,
  get_thr st t = Some c ->
  cnt r (inflight (put_thr st t c')) + cnt r (inflight_of c) = cnt r (inflight st) + cnt r (inflight_of c').
Proof. intros. unfold inflight, put_thr. cbn [st_thr set_thr]. apply cnt_flat_map_upd. exact H. Qed.

Lemma flush_whereabouts : forall st s d cl r,
  sink_at st s = Some d ->
  cnt r (delivered_recs (st_log (flush st s cl))) + cnt r (buffered (flush st s cl)) =
  cnt r (delivered_recs (st_log st)) + cnt r (buffered st).
Proof.
  intros st s d cl r Hd. unfold flush. pose proof Hd as Hd'. unfold sink_at in Hd'. rewrite Hd'.
  cbn [st_log set_log]. rewrite delivered_deliver. unfold buffered. cbn [st_sinks set_log set_sinks].
  pose proof (cnt_flat_map_upd _ ds_pending r (st_sinks st) s d
                (mkSink (ds_gen d) (ds_num d) (ds_addr d) (ds_closed d || cl) []) Hd') as H.
  cbn [inflight_of ct_pc ds_pending] in H. cnt0. lia.
Qed.

Lemma flush_inflight : forall st s cl, inflight (flush st s cl) = inflight st.
Proof. intros. unfold flush. destruct (nth_error (st_sinks st) s); reflexivity. Qed.

Lemma flush_get : forall st s cl x t, get_thr (set_readers (flush st s cl) x) t = get_thr st t.
Proof. intros. unfold get_thr, flush. destruct (nth_error (st_sinks st) s); reflexivity. Qed.

Lemma flush_get2 : forall st s cl tb x t, get_thr (set_readers (set_table (flush st s cl) tb) x) t = get_thr st t.
Proof. intros. unfold get_thr, flush. destruct (nth_error (st_sinks st) s); reflexivity. Qed.

Lemma cnt_nil : forall r, cnt r [] = 0.
Proof. reflexivity. Qed.

(* one step: what the event accepts is added to the whereabouts, nothing else changes *)
Lemma step_conserves : forall st e st' r,
  INV st -> guard st e = true -> step true st e = Some st' ->
  whereabouts r st' = cnt r (acc_of_event e) + whereabouts r st.
Proof.
  intros st e st' r I G H. unfold whereabouts. destruct e; simpl acc_of_event; cnt0.
  - (* ENewBegin *) inv_step H. inversion H; subst st'; clear H.
    pose proof (thr_change_inflight (set_readers st (S (st_readers st))) t _ (mkThr n HNone (PNewIn (st_cur st))) r Ht) as E.
    cbn [inflight_of ct_pc ds_pending] in E. cnt0.
    change (inflight (set_readers st (S (st_readers st)))) with (inflight st) in E.
    unfold buffered. cbn [st_log st_sinks put_thr set_thr set_readers]. fold (buffered st). lia.
  - (* ENewMade: not an event of the current code *)
    unfold step in H. destruct (get_thr st t) as [[? [] []]|]; discriminate.
  - (* ENewEnd *) inv_step H. rename ct_num into n.
    pose proof (i_thr _ I _ _ Ht) as Hok. unfold thr_ok in Hok; simpl in Hok. destruct Hok as [-> Hnl].
    unfold new_sink in H. cbn [st_readers set_sinks] in H. unfold store in H.
    cbn [st_table set_readers set_sinks] in H. apply Nat.ltb_lt in Hnl. rewrite Hnl in H.
    inversion H; subst st'; clear H.
    match goal with |- context [put_thr ?X t ?c] =>
      pose proof (thr_change_inflight X t _ c r Ht) as E end.
    cbn [inflight_of ct_pc ds_pending] in E. cnt0.
    unfold buffered in *. cbn [st_log st_sinks put_thr set_thr set_readers set_addrs set_table set_sinks] in *.
    rewrite cnt_flat_map_app. cbn [ds_pending]. cnt0.
    unfold inflight in *. cbn [st_thr put_thr set_thr set_readers set_addrs set_table set_sinks] in *. lia.
  - (* EAccBegin *) inv_step H. destruct (open_idle_slot _ _ _ I Ht) as [s Hs]. rewrite Hs in H.
    inversion H; subst st'; clear H.
    pose proof (thr_change_inflight (set_readers st (S (st_readers st))) t _ (mkThr ct_num HOpen (PAccIn s rs)) r Ht) as E.
    cbn [inflight_of ct_pc ds_pending] in E. cnt0.
    change (inflight (set_readers st (S (st_readers st)))) with (inflight st) in E.
    unfold buffered. cbn [st_log st_sinks put_thr set_thr set_readers]. fold (buffered st). lia.
  - (* EAccEnd *) inv_step H. inversion H; subst st'; clear H.
    pose proof (i_thr _ I _ _ Ht) as Hs. unfold thr_ok in Hs; simpl in Hs.
    destruct (in_call_sink _ _ _ _ _ I Ht eq_refl Hs) as (d & Hd & Ho).
    unfold hand. pose proof Hd as Hd'. unfold sink_at in Hd'. rewrite Hd'.
    match goal with |- context [put_thr ?X t ?c] =>
      pose proof (thr_change_inflight X t _ c r Ht) as E end.
    cbn [inflight_of ct_pc ds_pending] in E. cnt0.
    pose proof (cnt_flat_map_upd _ ds_pending r (st_sinks st) s d
                (mkSink (ds_gen d) (ds_num d) (ds_addr d) (ds_closed d) (ds_pending d ++ rs)) Hd') as Eb.
    cbn [inflight_of ct_pc ds_pending] in Eb. rewrite cnt_app in Eb.
    unfold buffered in *. unfold inflight in *.
    cbn [st_log st_sinks st_thr put_thr set_thr set_readers set_log set_sinks] in *.
    rewrite delivered_hand. lia.
  - (* ETickBegin *) inv_step H. destruct (open_idle_slot _ _ _ I Ht) as [s Hs]. rewrite Hs in H.
    inversion H; subst st'; clear H.
    pose proof (thr_change_inflight (set_readers st (S (st_readers st))) t _ (mkThr ct_num HOpen (PTickIn s)) r Ht) as E.
    cbn [inflight_of ct_pc ds_pending] in E. cnt0.
    change (inflight (set_readers st (S (st_readers st)))) with (inflight st) in E.
    unfold buffered. cbn [st_log st_sinks put_thr set_thr set_readers]. fold (buffered st). lia.
  - (* ETickEnd *) inv_step H. inversion H; subst st'; clear H.
    pose proof (i_thr _ I _ _ Ht) as Hs. unfold thr_ok in Hs; simpl in Hs.
    destruct (in_call_sink _ _ _ _ _ I Ht eq_refl Hs) as (d & Hd & Ho).
    pose proof (flush_whereabouts st s d false r Hd) as Ef.
    match goal with |- context [put_thr ?X t ?c] =>
      pose proof (thr_change_inflight X t _ c r (eq_trans (flush_get _ _ _ _ _) Ht)) as E end.
    cbn [inflight_of ct_pc ds_pending] in E. cnt0.
    change (inflight (set_readers (flush st s false) (pred (st_readers (flush st s false)))))
      with (inflight (flush st s false)) in E. rewrite flush_inflight in E.
    unfold buffered in *. cbn [st_log st_sinks put_thr set_thr set_readers] in *. lia.
  - (* ECloseBegin *) inv_step H. destruct (open_idle_slot _ _ _ I Ht) as [s Hs]. rewrite Hs in H.
    inversion H; subst st'; clear H.
    pose proof (thr_change_inflight (set_readers st (S (st_readers st))) t _ (mkThr ct_num HOpen (PCloseIn s)) r Ht) as E.
    cbn [inflight_of ct_pc ds_pending] in E. cnt0.
    change (inflight (set_readers st (S (st_readers st)))) with (inflight st) in E.
    unfold buffered. cbn [st_log st_sinks put_thr set_thr set_readers]. fold (buffered st). lia.
  - (* ECloseEnd *) inv_step H. inversion H; subst st'; clear H.
    pose proof (i_thr _ I _ _ Ht) as Hs. unfold thr_ok in Hs; simpl in Hs.
    destruct (in_call_sink _ _ _ _ _ I Ht eq_refl Hs) as (d & Hd & Ho).
    pose proof (flush_whereabouts st s d true r Hd) as Ef.
    match goal with |- context [put_thr ?X t ?c] =>
      pose proof (thr_change_inflight X t _ c r (eq_trans (flush_get2 _ _ _ _ _ _) Ht)) as E end.
    cbn [inflight_of ct_pc ds_pending] in E. cnt0.
    unfold buffered in *. unfold inflight in *.
    cbn [st_log st_sinks st_thr put_thr set_thr set_readers set_table] in *.
    pose proof (flush_inflight st s true) as Ei. unfold inflight in Ei. rewrite Ei in E. lia.
  - (* ERlBegin *) unfold step in H. destruct (st_rl st); try discriminate. inversion H; subst. reflexivity.
  - (* ERlInit *) unfold step in H. destruct (st_rl st); try discriminate. destruct ok; inversion H; subst; reflexivity.
  - (* ERlLock *) unfold step in H. destruct (st_rl st); try discriminate. destruct (st_writer st); try discriminate.
    destruct (st_readers st); try discriminate. inversion H; subst. reflexivity.
  - (* ERlStep *) unfold step in H. destruct (st_rl st) eqn:Er; try discriminate.
    + (* close *) inversion H; subst st'; clear H. destruct (slot st j) as [s|] eqn:Hsj.
      * destruct (i_tabv _ I _ _ Hsj) as (d & Hd & _).
        pose proof (flush_whereabouts st s d true r Hd) as Ef. pose proof (flush_inflight st s true) as Ei.
        unfold buffered, inflight in *. cbn [st_log st_sinks st_thr set_rl]. rewrite Ei. lia.
      * reflexivity.
    + inversion H; subst. reflexivity.
    + inversion H; subst st'; clear H. unfold after_new, finish_reload.
      destruct (next_slot _ 0); reflexivity.
    + unfold new_sink in H. inversion H; subst st'; clear H. unfold after_new, finish_reload.
      match goal with |- context [next_slot ?a ?b] => destruct (next_slot a b) end;
        unfold buffered, inflight; cbn [st_log st_sinks st_thr set_rl set_succs set_writer set_table set_sinks];
        rewrite cnt_flat_map_app; cbn [ds_pending]; cnt0; lia.
Qed.

Lemma cnt_acc_events_cons : forall r e evs, cnt r (acc_of_events (e :: evs)) = cnt r (acc_of_event e) + cnt r (acc_of_events evs).
Proof. intros. unfold acc_of_events. simpl. apply cnt_app. Qed.

Lemma grun_conserves : forall evs st st' r,
  INV st -> grun true st evs = Some st' ->
  whereabouts r st' = cnt r (acc_of_events evs) + whereabouts r st.
Proof.
  induction evs as [|e evs IH]; intros st st' r I H; simpl in H.
  - inversion H; subst. reflexivity.
  - destruct (guard st e) eqn:G; try discriminate. destruct (step true st e) as [st1|] eqn:S; try discriminate.
    rewrite cnt_acc_events_cons. rewrite (IH st1 st' r); [|eapply step_inv; eauto|exact H].
    rewrite (step_conserves st e st1 r I G S). lia.
Qed.

Lemma whereabouts_init : forall nthr maxn r, whereabouts r (init nthr maxn) = 0.
Proof.
  intros. unfold whereabouts, buffered, inflight, init. cbn [st_log st_sinks st_thr]. simpl.
  induction nthr; simpl; auto.
Qed.

(* every record, at every moment of every run: delivered + buffered + in an Accept call = times accepted *)
Lemma no_loss_count_lemma : forall nthr maxn evs st r,
  grun true (init nthr maxn) evs = Some st ->
  cnt r (delivered_recs (st_log st)) + cnt r (buffered st) + cnt r (inflight st) = cnt r (acc_of_events evs).
Proof.
  intros nthr maxn evs st r H. pose proof (grun_conserves evs _ _ r (inv_init nthr maxn) H) as E.
  rewrite whereabouts_init in E. unfold whereabouts in E. lia.
Qed.

(* a sink that buffers records is open, its pipelines are alive, and the table tracks it *)
Lemma buffered_live_lemma : forall nthr maxn evs st s d,
  grun true (init nthr maxn) evs = Some st ->
  nth_error (st_sinks st) s = Some d -> ds_pending d <> [] -> live_tracked st s d.
Proof.
  intros nthr maxn evs st s d H Hd Hp. pose proof (grun_inv _ _ _ (inv_init nthr maxn) H) as I.
  destruct (i_sink _ I _ _ Hd) as [H1 H2]. destruct (ds_closed d) eqn:Ec.
  - exfalso. apply Hp. apply H1. reflexivity.
  - destruct (H2 eq_refl) as (Eg & Hg & Ht). unfold live_tracked. rewrite Eg. auto.
Qed.

Lemma flat_map_nil : forall A B (f : A -> list B) l, (forall x, In x l -> f x = []) -> flat_map f l = [].
Proof. induction l as [|x l IH]; intros H; simpl; auto. rewrite (H x) by (left; auto). apply IH. intros; apply H; right; auto. Qed.

Lemma quiescent_empty : forall st, INV st -> quiescent st -> buffered st = [] /\ inflight st = [].
Proof.
  intros st I [Hrl Hq]. split.
  - unfold buffered. apply flat_map_nil. intros d Hin. apply In_nth_error in Hin. destruct Hin as [s Hd].
    destruct (i_sink _ I _ _ Hd) as [H1 H2]. destruct (ds_closed d) eqn:Ec; auto.
    exfalso. destruct (H2 eq_refl) as (_ & _ & Ht). apply slot_nth in Ht.
    destruct (i_own _ I _ _ Ht) as (t & c & Hc & _ & Hh). destruct (Hq _ _ Hc) as [_ Hn]. contradiction.
  - unfold inflight. apply flat_map_nil. intros c Hin. apply In_nth_error in Hin. destruct Hin as [t Hc].
    destruct (Hq _ _ Hc) as [Hp _]. unfold inflight_of. rewrite Hp. reflexivity.
Qed.

(* when all connections are closed and no reload is running, every record has been delivered exactly
   as many times as it was accepted *)
Lemma no_loss_quiescent_lemma : forall nthr maxn evs st,
  grun true (init nthr maxn) evs = Some st -> quiescent st ->
  Permutation (acc_of_events evs) (delivered_recs (st_log st)).
Proof.
  intros nthr maxn evs st H Q. apply (Permutation_count_occ N.eq_dec). intros r.
  pose proof (no_loss_count_lemma _ _ _ _ r H) as E.
  destruct (quiescent_empty st (grun_inv _ _ _ (inv_init nthr maxn) H) Q) as [Eb Ei].
  rewrite Eb, Ei in E. unfold cnt in E. simpl in E. lia.
Qed.

Lemma exactly_once_lemma : forall nthr maxn evs st r,
  grun true (init nthr maxn) evs = Some st -> quiescent st ->
  NoDup (acc_of_events evs) -> In r (acc_of_events evs) ->
  count_occ N.eq_dec (delivered_recs (st_log st)) r = 1.
Proof.
  intros nthr maxn evs st r H Q ND Hin.
  pose proof (no_loss_quiescent_lemma _ _ _ _ H Q) as P.
  rewrite (Permutation_count_occ N.eq_dec) in P. rewrite <- P.
  apply NoDup_count_occ'; auto.
Qed.

(* ================= 3. a failed reload changes nothing but the failure counter ================= *)
Lemma failed_init_step_lemma : forall lk st st',
  step lk st (ERlInit false) = Some st' ->
  st_rl st = RInit /\ st' = set_rl (set_fails st (S (st_fails st))) RIdle.
Proof.
  intros lk st st' H. unfold step in H. destruct (st_rl st) eqn:E; try discriminate. inversion H. auto.
Qed.

(* the events of the connections neither read nor write the state of the reload goroutine *)
Lemma step_conn_rl : forall lk st e r,
  is_reload_event e = false ->
  step lk (set_rl st r) e = option_map (fun s => set_rl s r) (step lk st e).
Proof.
  intros lk st e r He. destruct e; try discriminate He; unfold step;
    change (get_thr (set_rl st r) t) with (get_thr st t);
    destruct (get_thr st t) as [[n0 [] []]|]; try reflexivity;
    change (st_writer (set_rl st r)) with (st_writer st);
    destruct lk; try reflexivity; destruct (st_writer st); try reflexivity.
  all: try (unfold new_sink, store; cbn [st_table set_rl set_readers set_sinks st_sinks st_readers];
            match goal with |- context [?a <? ?b] => destruct (a <? b) end; reflexivity).
  all: try (change (slot (set_rl st r) n0) with (slot st n0); destruct (slot st n0); reflexivity).
  all: try (unfold hand; change (st_sinks (set_rl st r)) with (st_sinks st);
            destruct (nth_error (st_sinks st) s); reflexivity).
  all: try (unfold flush; change (st_sinks (set_rl st r)) with (st_sinks st);
            destruct (nth_error (st_sinks st) s); reflexivity).
Qed.

Lemma state_eta_rl : forall st, set_rl st (st_rl st) = st.
Proof. destruct st; reflexivity. Qed.

Lemma step_conn_keeps_rl : forall lk st e st',
  is_reload_event e = false -> step lk st e = Some st' -> st_rl st' = st_rl st.
Proof.
  intros lk st e st' He H. pose proof (step_conn_rl lk st e (st_rl st) He) as E.
  rewrite state_eta_rl, H in E. simpl in E. inversion E as [E1]. rewrite E1 at 1. reflexivity.
Qed.

Lemma run_conn_rl : forall lk evs st r,
  Forall (fun e => is_reload_event e = false) evs ->
  run lk (set_rl st r) evs = option_map (fun s => set_rl s r) (run lk st evs).
Proof.
  induction evs as [|e evs IH]; intros st r F; simpl; auto.
  inversion F as [|? ? He F']; subst. rewrite (step_conn_rl lk st e r He).
  destruct (step lk st e) as [st1|]; simpl; auto.
Qed.

Lemma run_conn_keeps_rl : forall lk evs st st',
  Forall (fun e => is_reload_event e = false) evs -> run lk st evs = Some st' -> st_rl st' = st_rl st.
Proof.
  induction evs as [|e evs IH]; intros st st' F H; simpl in H.
  - inversion H; auto.
  - inversion F as [|? ? He F']; subst. destruct (step lk st e) as [st1|] eqn:S; try discriminate.
    rewrite (IH _ _ F' H). eapply step_conn_keeps_rl; eauto.
Qed.

Lemma run_app : forall lk evs1 evs2 st,
  run lk st (evs1 ++ evs2) = match run lk st evs1 with Some st1 => run lk st1 evs2 | None => None end.
Proof.
  induction evs1 as [|e evs1 IH]; intros evs2 st; simpl; auto.
  destruct (step lk st e); auto.
Qed.

(* a reload whose initiateReload fails - at any moment, with any traffic of the connections in between -
   leaves exactly the state the same traffic produces without it, plus one on the failure counter *)
Lemma failed_reload_noop_lemma : forall lk st evs st',
  Forall (fun e => is_reload_event e = false) evs ->
  run lk st (ERlBegin :: evs ++ [ERlInit false]) = Some st' ->
  exists st0, run lk st evs = Some st0 /\ st' = set_fails st0 (S (st_fails st0)).
Proof.
  intros lk st evs st' F H. simpl in H. destruct (st_rl st) eqn:Er; try discriminate.
  rewrite run_app in H. rewrite (run_conn_rl lk evs st RInit F) in H.
  destruct (run lk st evs) as [st0|] eqn:R; simpl in H; try discriminate.
  exists st0. split; auto. inversion H; subst st'; clear H.
  pose proof (run_conn_keeps_rl _ _ _ _ F R) as Er0. rewrite Er in Er0.
  destruct st0; simpl in *. subst. reflexivity.
Qed.

(* ================= 4. witnesses ================= *)
Definition quiescentb (st : state) : bool :=
  match st_rl st with RIdle => true | _ => false end &&
  forallb (fun c => match ct_pc c, ct_h c with PIdle, HOpen => false | PIdle, _ => true | _, _ => false end) (st_thr st).

Lemma quiescentb_sound : forall st, quiescentb st = true -> quiescent st.
Proof.
  intros st H. unfold quiescentb in H. apply andb_true_iff in H. destruct H as [H1 H2]. split.
  - destruct (st_rl st); try discriminate; reflexivity.
  - intros t c Hc. pose proof (forallb_nth _ _ _ _ _ H2 Hc) as H. simpl in H.
    destruct (ct_pc c); try discriminate. destruct (ct_h c); try discriminate; split; auto; discriminate.
Qed.

(* a run of the current code that satisfies every hypothesis: two connections with traffic, a successful
   reload that has to wait for an Accept in progress, a failed reload, all sinks closed at the end *)
Definition example_run : list event :=
  [ ENewBegin 0 0; ENewEnd 0; EAccBegin 0 [1%N; 2%N]; EAccEnd 0;
    ENewBegin 1 1; ENewEnd 1; EAccBegin 1 [3%N];
    ERlBegin; ERlInit true;                 (* blocked at Lock(): connection 1 is inside Accept *)
    EAccEnd 1; ERlLock; ERlStep; ERlStep;   (* close the two old sinks *)
    ERlStep; ERlStep; ERlStep; ERlStep;     (* Shutdown, completeRenewal, NewSink, NewSink *)
    EAccBegin 0 [4%N]; EAccEnd 0; ETickBegin 0; ETickEnd 0;
    ERlBegin; EAccBegin 1 [5%N]; ERlInit false; EAccEnd 1;
    ECloseBegin 0; ECloseEnd 0; ECloseBegin 1; ECloseEnd 1 ].

Lemma example_lemma :
  exists st, grun true (init 2 2) example_run = Some st /\ quiescent st /\
             NoDup (acc_of_events example_run) /\
             delivered_recs (st_log st) = [5%N; 4%N; 3%N; 2%N; 1%N] /\
             st_fails st = 1 /\ st_succs st = 1 /\ st_cur st = 1.
Proof.
  destruct (grun true (init 2 2) example_run) as [st|] eqn:E; [|vm_compute in E; discriminate].
  exists st. split; auto. vm_compute in E. inversion E; subst st; clear E.
  split; [apply quiescentb_sound; vm_compute; reflexivity|].
  split; [|repeat split; vm_compute; reflexivity].
  vm_compute. repeat constructor; simpl; intuition discriminate.
Qed.

(* defect 13, the code before the fix (lk = false): NewSink reads orc.downstream and creates the downstream
   sink before RLock(); a reload in between shuts that orchestrator down; the stale sink is stored and the
   connection's records go to pipelines that are shut down.  Client numbers are unique in this run. *)
Definition stale_sink_run : list event :=
  [ ENewBegin 0 0; ERlBegin; ERlInit true; ERlLock; ERlStep; ERlStep;
    ENewMade 0; ENewEnd 0; EAccBegin 0 [1%N]; EAccEnd 0 ].

Lemma stale_sink_refuted_lemma :
  exists st, grun false (init 1 1) stale_sink_run = Some st /\ In (OHand 0 1%N 0 0 false) (st_log st).
Proof.
  destruct (grun false (init 1 1) stale_sink_run) as [st|] eqn:E; [|vm_compute in E; discriminate].
  exists st. split; auto. vm_compute in E. inversion E; subst st; clear E. simpl. auto.
Qed.

(* the same schedule cannot happen in the current code: the reload cannot take the write lock *)
Lemma stale_sink_excluded_lemma :
  run true (init 1 1) [ENewBegin 0 0; ERlBegin; ERlInit true; ERlLock] = None.
Proof. vm_compute. reflexivity. Qed.

(* defect 14, the listener before its fix (lf = false), with the current reloadable.go: the closer goroutine closes the descriptor (number 0)
   while the connection goroutine still has its final Flush and the deferred sink Close ahead; the kernel
   gives the same number to a new connection.  The old connection's last records go into the new
   connection's sink, its Close closes that sink and nils the slot; the new connection's next Accept
   dereferences nil (panic, record 3 lost) and record 1 stays in a sink nobody will ever flush. *)
Definition slot_reuse_run : list levent :=
  [ LConnOpen 0 0; LApi (ENewEnd 0); LApi (EAccBegin 0 [1%N]); LApi (EAccEnd 0);
    LAbort 0; LFdClosed 0;
    LConnOpen 1 0; LApi (ENewEnd 1);
    LApi (EAccBegin 0 [2%N]); LApi (EAccEnd 0); LApi (ECloseBegin 0); LApi (ECloseEnd 0);
    LApi (EAccBegin 1 [3%N]) ].

Lemma slot_reuse_refuted_lemma :
  exists ls, lrun false true (linit 2 1) slot_reuse_run = Some ls /\
             In (OPanic 1 2 [3%N]) (st_log (l_st ls)) /\
             (exists d, nth_error (st_sinks (l_st ls)) 0 = Some d /\ ds_pending d = [1%N] /\ ds_closed d = false) /\
             slot (l_st ls) 0 = None /\
             ~ In 1%N (delivered_recs (st_log (l_st ls))).
Proof.
  destruct (lrun false true (linit 2 1) slot_reuse_run) as [ls|] eqn:E; [|vm_compute in E; discriminate].
  exists ls. split; auto. vm_compute in E. inversion E; subst ls; clear E. simpl.
  split; [auto|]. split; [eexists; repeat split|]. split; [reflexivity|]. intuition discriminate.
Qed.

(* the same schedule is impossible for the current listener: the descriptor is not closed before the sink *)
Lemma slot_reuse_excluded_lemma :
  lrun true true (linit 2 1)
    [LConnOpen 0 0; LApi (ENewEnd 0); LApi (EAccBegin 0 [1%N]); LApi (EAccEnd 0); LAbort 0; LFdClosed 0] = None.
Proof. vm_compute. reflexivity. Qed.

(* ================= 5. nothing waits forever for the lock ================= *)
Definition end_event (t : nat) (c : cthread) : event :=
  match ct_pc c with
  | PAccIn _ _ => EAccEnd t
  | PTickIn _ => ETickEnd t
  | PCloseIn _ => ECloseEnd t
  | _ => ENewEnd t
  end.

(* a goroutine inside a downstream call (it holds the read lock) can always complete it *)
Lemma reader_can_leave_lemma : forall st t c,
  INV st -> get_thr st t = Some c -> in_lock c = true ->
  exists st', step true st (end_event t c) = Some st'.
Proof.
  intros st t c I Ht Hin. pose proof (i_thr _ I _ _ Ht) as Hok.
  destruct c as [n h pc]. unfold thr_ok in Hok. unfold end_event. simpl in *.
  destruct pc; try discriminate Hin; destruct h; try contradiction; unfold step; rewrite Ht; eauto.
  destruct (new_sink st g n t). eauto.
Qed.

(* reload(): past Lock() it can always take its next step; at Lock() it proceeds as soon as no reader is
   left; and while readers are left, one of them can leave *)
Lemma reload_progress_lemma : forall st,
  INV st ->
  (rl_post (st_rl st) = true -> exists st', step true st ERlStep = Some st') /\
  (st_rl st = RWantLock -> st_readers st = 0 -> exists st', step true st ERlLock = Some st') /\
  (st_rl st = RWantLock -> st_readers st <> 0 ->
     exists t c st', get_thr st t = Some c /\ in_lock c = true /\ step true st (end_event t c) = Some st').
Proof.
  intros st I. split; [|split].
  - intros Hp. unfold step. destruct (st_rl st); try discriminate; eauto.
    destruct (new_sink st (st_cur st) j (nth j (st_addrs st) 0)). eauto.
  - intros Er H0. unfold step. rewrite Er. pose proof (i_wr _ I) as Hw. rewrite Er in Hw. simpl in Hw.
    rewrite Hw, H0. eauto.
  - intros Er Hn. rewrite (i_lock _ I) in Hn.
    assert (Hex : exists t c, nth_error (st_thr st) t = Some c /\ in_lock c = true).
    { clear -Hn. unfold count in Hn. induction (st_thr st) as [|c l IH]; simpl in Hn; [congruence|].
      destruct (in_lock c) eqn:E.
      - exists 0, c. auto.
      - destruct (IH Hn) as (t & c' & H1 & H2). exists (S t), c'. auto. }
    destruct Hex as (t & c & Ht & Hin). destruct (reader_can_leave_lemma st t c I Ht Hin) as [st' S].
    exists t, c, st'. auto.
Qed.

(* when reload() does not hold the lock every idle open connection can start its next call *)
Lemma reader_can_enter_lemma : forall st t n,
  INV st -> st_writer st = false -> get_thr st t = Some (mkThr n HOpen PIdle) ->
  (forall rs, exists st', step true st (EAccBegin t rs) = Some st') /\
  (exists st', step true st (ETickBegin t) = Some st') /\
  (exists st', step true st (ECloseBegin t) = Some st').
Proof.
  intros st t n I Hw Ht. destruct (open_idle_slot _ _ _ I Ht) as [s Hs].
  repeat split; intros; unfold step; rewrite Ht, Hw, Hs; eauto.
Qed.

Lemma invariant_lemma : forall (nthr maxn : nat) (evs : list event) (st : state),
  grun true (init nthr maxn) evs = Some st -> INV st.
Proof. intros nthr maxn evs st H. exact (grun_inv evs _ _ (inv_init nthr maxn) H). Qed.

Lemma progress_lemma : forall (nthr maxn : nat) (evs : list event) (st : state),
  grun true (init nthr maxn) evs = Some st ->
  (forall t c, get_thr st t = Some c -> in_lock c = true -> exists st', step true st (end_event t c) = Some st') /\
  (rl_post (st_rl st) = true -> exists st', step true st ERlStep = Some st') /\
  (st_rl st = RWantLock -> st_readers st = 0 -> exists st', step true st ERlLock = Some st') /\
  (st_rl st = RWantLock -> st_readers st <> 0 ->
     exists t c st', get_thr st t = Some c /\ in_lock c = true /\ step true st (end_event t c) = Some st') /\
  (st_writer st = false -> forall t n, get_thr st t = Some (mkThr n HOpen PIdle) ->
     (forall rs, exists st', step true st (EAccBegin t rs) = Some st') /\
     (exists st', step true st (ETickBegin t) = Some st') /\
     (exists st', step true st (ECloseBegin t) = Some st')).
Proof.
  intros nthr maxn evs st H. pose proof (invariant_lemma _ _ _ _ H) as I.
  destruct (reload_progress_lemma st I) as (P1 & P2 & P3).
  split; [intros t c; apply reader_can_leave_lemma; exact I|].
  split; [exact P1|]. split; [exact P2|]. split; [exact P3|].
  intros Hw t n Ht. apply (reader_can_enter_lemma st t n I Hw Ht).
Qed.
