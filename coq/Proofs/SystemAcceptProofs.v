(* Soundness of the trace acceptor of Model/SystemAccept.v: an accepted trace is the projection of a run
   of the LTS, and the printed at-least-once flag of an accepted Stopped state is the theorem's conclusion. *)
From Coq Require Import List Arith Bool Lia PeanoNat NArith ZArith.
From SV Require Import Model.Common Model.System Model.SystemAccept Proofs.SystemLists Proofs.SystemProofs Proofs.SystemAlo.
Import ListNotations.
Open Scope nat_scope.

(* what the boolean comparison of observations means *)
Definition entries_incl (a b : list (nat * nat * list tok)) : Prop := forall x, In x a -> In x b.

Inductive obs_equiv : obs -> obs -> Prop :=
| OeIngest t : obs_equiv (OIngest t) (OIngest t)
| OeConnect p : obs_equiv (OConnect p) (OConnect p)
| OeRecv p i ts : obs_equiv (ORecv p i ts) (ORecv p i ts)
| OeAck p i : obs_equiv (OAck p i) (OAck p i)
| OeStopped : obs_equiv OStopped OStopped
| OeDisk l m : length l = length m -> entries_incl l m -> entries_incl m l -> obs_equiv (ODisk l) (ODisk m)
| OeDrops n : obs_equiv (ODrops n) (ODrops n)
| OeRestart : obs_equiv ORestart ORestart.

Lemma entry_eqb_eq : forall a b, entry_eqb a b = true -> a = b.
Proof.
  intros [[a1 a2] a3] [[b1 b2] b3] H. unfold entry_eqb in H. cbn in H.
  rewrite !andb_true_iff, !Nat.eqb_eq, toks_eqb_eq in H. destruct H as [[-> ->] ->]. reflexivity.
Qed.

Lemma entries_sub_incl : forall a b, entries_sub a b = true -> entries_incl a b.
Proof.
  intros a b H x Hx. unfold entries_sub in H. rewrite forallb_forall in H. specialize (H x Hx).
  apply existsb_exists in H. destruct H as [y [Hy E]]. apply entry_eqb_eq in E. subst. assumption.
Qed.

Lemma obs_eqb_sound : forall a b, obs_eqb a b = true -> obs_equiv a b.
Proof.
  intros a b H. destruct a, b; cbn in H; try discriminate H.
  - apply tok_eqb_eq in H. subst. constructor.
  - apply Nat.eqb_eq in H. subst. constructor.
  - rewrite !andb_true_iff, !Nat.eqb_eq, toks_eqb_eq in H. destruct H as [[-> ->] ->]. constructor.
  - rewrite !andb_true_iff, !Nat.eqb_eq in H. destruct H as [-> ->]. constructor.
  - constructor.
  - rewrite !andb_true_iff, Nat.eqb_eq in H. destruct H as [[H1 H2] H3]. constructor; auto using entries_sub_incl.
  - apply Nat.eqb_eq in H. subst. constructor.
  - constructor.
Qed.

Lemma obs_list_eqb_sound : forall a b, obs_list_eqb a b = true -> Forall2 obs_equiv a b.
Proof.
  induction a as [|x a IH]; intros [|y b] H; cbn in H; try discriminate H; [constructor|].
  apply andb_true_iff in H. destruct H as [H1 H2]. constructor; [apply obs_eqb_sound; assumption|apply IH; assumption].
Qed.

(* accepted => there is a run of the LTS (without the channel-timeout branch) whose projection is the observed trace *)
Lemma accept_sound_lemma : forall tr s, accept tr = Some s ->
  exists es os, steps init es = Some s /\ no_timeout es = true /\ order_safe es = true /\
               trace_obs tr = Some os /\ Forall2 obs_equiv (proj_run init es) os.
Proof.
  intros tr s H. unfold accept in H. destruct (synth tr) as [es|]; [|discriminate].
  unfold accept_with in H. destruct (steps init es) as [s1|] eqn:E1; [|discriminate].
  destruct (trace_obs tr) as [os|] eqn:E2; [|discriminate].
  destruct (obs_list_eqb (proj_run init es) os && no_timeout es && order_safe es) eqn:E3; [|discriminate].
  inversion H; subst. apply andb_true_iff in E3. destruct E3 as [E3 E5]. apply andb_true_iff in E3. destruct E3 as [E3 E4].
  exists es, os. split; [exact E1|]. split; [exact E4|]. split; [exact E5|]. split; [reflexivity|]. apply obs_list_eqb_sound. exact E3.
Qed.

Lemma in_toks_spec : forall t l, in_toks t l = true <-> In t l.
Proof.
  intros. unfold in_toks. rewrite existsb_exists. split.
  - intros [x [Hx E]]. apply tok_eqb_eq in E. subst. assumption.
  - intros H. exists t. split; [assumption|apply tok_eqb_eq; reflexivity].
Qed.

(* the flag "alo=1" printed for an accepted trace that ends in a Stopped state is not a test: it follows from
   the theorem *)
Lemma accepted_stopped_alo_lemma : forall tr s, accept tr = Some s -> phase s = Stopped -> alo_check s = true.
Proof.
  intros tr s H Hp. destruct (accept_sound_lemma tr s H) as [es [os [H1 [H2 _]]]].
  unfold alo_check. apply forallb_forall. intros t Ht.
  destruct (t_keep t) eqn:K; [|reflexivity]. cbn.
  destruct (at_least_once_lemma es s H1 H2 Hp t Ht K) as [X|[X|X]]; apply in_toks_spec in X; rewrite X;
    rewrite ?orb_true_r; reflexivity.
Qed.


(* ---------- witnesses ---------- *)

Definition tw_tok : tok := mkTok 0 0 1 true 7%N.
Definition tw_run : list event :=
  [EConnOpen 0; EIngest tw_tok; EFrame 0; ESinkSend 0; EFlushTimeout 0 1; EStopReq; EConnEnd 0; EInputsStopped;
   EWorkerStop 1 1 AMem; EDestroy 1; EFeederBreak 1; EClientStop 1; EClientDone 1; EFeederEnd 1; EStopped].

Definition tw_check : bool :=
  match steps init tw_run with
  | Some s => gphase_eqb (phase s) Stopped && in_toks tw_tok (ingested s) && negb (in_toks tw_tok (safe s))
  | None => false
  end.

Lemma tw_check_true : tw_check = true.
Proof. vm_compute. reflexivity. Qed.

Lemma timeout_witness :
  exists es s t, steps init es = Some s /\ phase s = Stopped /\ In t (ingested s) /\ t_keep t = true /\ ~ In t (safe s).
Proof.
  pose proof tw_check_true as H. unfold tw_check in H.
  destruct (steps init tw_run) as [s|] eqn:E; [|discriminate H].
  apply andb_true_iff in H. destruct H as [H H3]. apply andb_true_iff in H. destruct H as [H1 H2].
  exists tw_run, s, tw_tok. split; [exact E|]. split; [apply gphase_eqb_eq; exact H1|].
  split; [apply in_toks_spec; exact H2|]. split; [reflexivity|].
  intros X. apply in_toks_spec in X. rewrite X in H3. discriminate H3.
Qed.

Definition ex_trace_z : list Z :=
 [0; 2;
  5; 1;0; 3; 0;0;1;1;77; 0;1;1;1;78; 0;2;1;0;79;
     1; 1; 1; 4;2; 0;0;0;1;  2; 1; 1;4;  0;
     1; 1; 1;4; 0;
  9; 1;1; 1; 1;0;1;1;80;
     1; 1; 1; 8;1; 1;0;  1; 4; 1;4; 2;4; 1;8; 2;8;
     1; 0; 0]%Z.

Definition ex_events : list event := Eval vm_compute in
  match decode_trace ex_trace_z with
  | Some tr => match synth tr with Some es => es | None => [] end
  | None => []
  end.

Definition ex_check : bool :=
  match steps init ex_events with
  | Some s => no_timeout ex_events && gphase_eqb (phase s) Stopped && Nat.eqb (length (ingested s)) 4
              && Nat.eqb (length (toks_of_chunks (acked s))) 3 && Nat.eqb (length (files s)) 0 && Nat.eqb (length (filtered s)) 1
  | None => false
  end.

Lemma ex_check_true : ex_check = true.
Proof. vm_compute. reflexivity. Qed.

Lemma example_run :
  exists es s, steps init es = Some s /\ no_timeout es = true /\ phase s = Stopped /\
    length (ingested s) = 4 /\ length (toks_of_chunks (acked s)) = 3 /\ files s = [] /\ length (filtered s) = 1.
Proof.
  pose proof ex_check_true as H. unfold ex_check in H.
  destruct (steps init ex_events) as [s|] eqn:E; [|discriminate H].
  repeat (apply andb_true_iff in H; let X := fresh "X" in destruct H as [H X]).
  exists ex_events, s. split; [exact E|]. split; [exact H|]. split; [apply gphase_eqb_eq; exact X3|].
  split; [apply Nat.eqb_eq; exact X2|]. split; [apply Nat.eqb_eq; exact X1|].
  split; [destruct (files s); [reflexivity|discriminate X0]|apply Nat.eqb_eq; exact X].
Qed.
