(* C08: the Gallina term GENERATED from input/syslogprotocol/recordtest.go (Gen/C08Gen.v, regenerated on
   every check) computes the same function as the hand-written model [test_record_start] of
   Model/Framing.v, for every byte string; the fuel supplied by the wrapper always suffices. *)
From SV Require Import Model.Common Model.GoSem Model.Framing Spec.FramingSpec Proofs.GoSemFacts Proofs.FramingProofs.
From SV Require Gen.C08Gen.
From Coq Require Import Lia ZifyBool ZifyN ZifyNat.

Lemma trs_gen_eq : forall s : bytes, to_outcome (C08Gen.TestRecordStart s) = test_record_start s.
Proof.
  intros s.
  unfold C08Gen.TestRecordStart, C08Gen.TestRecordStart_fuel, test_record_start, is_digit.
  destruct (Nat.ltb_spec (length s) 32) as [Hs|Hl].
  - (* short: both say false at the length guard *)
    repeat split_if; gosym_done.
  - do 7 (destruct s as [|? s]; [exfalso; cbn [length] in Hl; lia|]).
    unfold trs_loop, trs_tail, is_digit.
    gosym; gosym_done.
Qed.

Lemma trs_gen_agrees : forall s : bytes, same_result (test_record_start s) (C08Gen.TestRecordStart s).
Proof.
  intros s. apply same_result_of_eq; [apply trs_gen_eq|].
  intros e. destruct (trs_total_lemma s) as [b ->]. discriminate.
Qed.

Lemma trs_gen_fuel : forall s : bytes, is_out_of_fuel (C08Gen.TestRecordStart s) = false.
Proof.
  intros s. generalize (trs_gen_eq s). destruct (trs_total_lemma s) as [b ->].
  destruct (C08Gen.TestRecordStart s); cbn; congruence.
Qed.

(* the headline theorem about TestRecordStart, restated about the generated function *)
Lemma trs_gen_shape : forall s : bytes, C08Gen.TestRecordStart s = GOk true <-> start_shape s.
Proof.
  intros s. rewrite <- trs_shape_lemma. rewrite <- trs_gen_eq.
  destruct (C08Gen.TestRecordStart s); cbn; split; congruence.
Qed.

Lemma trs_gen_total : forall s : bytes, exists b, C08Gen.TestRecordStart s = GOk b.
Proof.
  intros s. generalize (trs_gen_eq s). destruct (trs_total_lemma s) as [b ->].
  destruct (C08Gen.TestRecordStart s); cbn; intros H; try discriminate. eauto.
Qed.
