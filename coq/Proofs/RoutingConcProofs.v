(* C06 - concurrent sinks: with one extractor scratch per sink, every interleaving of the sinks' steps routes every
   record to the pipeline of its OWN key tuple (invariant over arbitrary schedules); with a shared scratch it does not. *)
From SV Require Import Model.Common Model.Md5 Model.Routing Model.RoutingMem Model.RoutingConc
  Proofs.CommonFacts Proofs.MergedKeyProofs Proofs.RoutingProofs.
From Coq Require Import Lia.
Open Scope N_scope.

(* ---------- lists ---------- *)

Lemma set_nth_length : forall (A : Type) (l : list A) i x, length (set_nth l i x) = length l.
Proof. induction l as [|y l IH]; intros [|i] x; cbn; auto. Qed.

Lemma nth_error_set_nth_eq : forall (A : Type) (l : list A) i x y, nth_error l i = Some y -> nth_error (set_nth l i x) i = Some x.
Proof. induction l as [|z l IH]; intros [|i] x y H; cbn in *; try discriminate; [reflexivity|eapply IH; exact H]. Qed.

Lemma nth_error_set_nth_ne : forall (A : Type) (l : list A) i j x, i <> j -> nth_error (set_nth l i x) j = nth_error l j.
Proof.
  induction l as [|z l IH]; intros [|i] [|j] x H; cbn; try reflexivity; try congruence.
  apply IH. congruence.
Qed.

Lemma nth_set_nth_eq : forall (A : Type) (l : list A) i x d, (i < length l)%nat -> nth i (set_nth l i x) d = x.
Proof. induction l as [|z l IH]; intros [|i] x d H; cbn in *; try lia; [reflexivity|apply IH; lia]. Qed.

Lemma nth_set_nth_ne : forall (A : Type) (l : list A) i j x d, i <> j -> nth j (set_nth l i x) d = nth j l d.
Proof.
  induction l as [|z l IH]; intros [|i] [|j] x d H; cbn; try reflexivity; try congruence.
  apply IH. congruence.
Qed.

Lemma firstn_set_nth_S : forall (A : Type) (l : list A) j v, (j < length l)%nat -> firstn (S j) (set_nth l j v) = firstn j l ++ [v].
Proof.
  induction l as [|z l IH]; intros [|j] v H; cbn [length] in H; try lia.
  - reflexivity.
  - cbn [set_nth]. change (firstn (S (S j)) (z :: set_nth l j v)) with (z :: firstn (S j) (set_nth l j v)).
    rewrite IH by lia. reflexivity.
Qed.

Lemma firstn_S_nth : forall (A : Type) (l : list A) j d, (j < length l)%nat -> firstn (S j) l = firstn j l ++ [nth j l d].
Proof.
  induction l as [|z l IH]; intros [|j] d H; cbn [length] in H; try lia.
  - reflexivity.
  - change (firstn (S (S j)) (z :: l)) with (z :: firstn (S j) l). rewrite (IH j d) by lia. reflexivity.
Qed.

Lemma nth_error_lt : forall (A : Type) (l : list A) i x, nth_error l i = Some x -> (i < length l)%nat.
Proof. intros A l i x H. apply nth_error_Some. rewrite H. discriminate. Qed.

(* ---------- the invariant (own scratch) ---------- *)

(* what a sink knows: its scratch has n slots; the part of the record's key values already stored is the record's own;
   between Extract and the two reads of GetOrCreate the scratch holds exactly the record's own key values *)
Definition proc_ok (n : nat) (pipes : list pipeline) (p : sproc) (scr : list bytes) : Prop :=
  length scr = n /\ Forall (fun t => length t = n) (sp_todo p) /\ map_ok pipes (sp_local p) /\
  match sp_phase p with
  | PIdle => True
  | PExtract t j => length t = n /\ firstn j scr = firstn j t
  | PLookup t => scr = t
  | PCreate t mk => scr = t /\ mk = merged_key t
  end.

Record cinv (parts : list tpart) (n : nat) (g0 : gstate) (st : cstate) : Prop := {
  ci_global : map_ok (g_pipes (c_g st)) (g_map (c_g st));
  ci_pipes : pipes_ok parts (g_pipes (c_g st));
  ci_complete : complete (c_g st);
  ci_len : length (c_scr st) = length (c_procs st);
  ci_procs : forall s p, nth_error (c_procs st) s = Some p -> proc_ok n (g_pipes (c_g st)) p (nth s (c_scr st) []);
  ci_log : forall s t i, In (s, t, i) (c_log st) -> served_by parts (g_pipes (c_g st)) t i;
  ci_origin : forall p, In p (g_pipes (c_g st)) -> In p (g_pipes g0) \/ exists s i, In (s, p_keys p, i) (c_log st)
}.

Lemma proc_ok_ext : forall n pipes ext p scr, proc_ok n pipes p scr -> proc_ok n (pipes ++ ext) p scr.
Proof.
  intros n pipes ext p scr [H1 [H2 [H3 H4]]]. split; [exact H1|]. split; [exact H2|]. split; [apply map_ok_ext; exact H3|exact H4].
Qed.

(* the processes after sink s changed to pnew (scratch of the others untouched, pipelines only appended) *)
Lemma procs_update : forall n pipes ext procs scr scr' s pnew,
  (forall s' p', nth_error procs s' = Some p' -> proc_ok n pipes p' (nth s' scr [])) ->
  proc_ok n (pipes ++ ext) pnew (nth s scr' []) ->
  (forall s', s' <> s -> nth s' scr' [] = nth s' scr []) ->
  forall s' p', nth_error (set_nth procs s pnew) s' = Some p' -> proc_ok n (pipes ++ ext) p' (nth s' scr' []).
Proof.
  intros n pipes ext procs scr scr' s pnew Hall Hnew Hoth s' p' H.
  destruct (Nat.eq_dec s s') as [<-|Hne].
  - destruct (nth_error procs s) as [p0|] eqn:E.
    + rewrite (nth_error_set_nth_eq _ _ _ _ _ E) in H. inversion H; subst p'. exact Hnew.
    + assert (Hlen : (length procs <= s)%nat) by (apply nth_error_None; exact E).
      assert (Hn : nth_error (set_nth procs s pnew) s = None) by (apply nth_error_None; rewrite set_nth_length; exact Hlen).
      rewrite Hn in H. discriminate.
  - rewrite nth_error_set_nth_ne in H by exact Hne. rewrite Hoth by congruence. apply proc_ok_ext. exact (Hall _ _ H).
Qed.

Lemma global_goc_origin : forall parts g ks mk g' i,
  global_get_or_create parts g ks mk = Ok (g', i) ->
  forall p, In p (g_pipes g') -> In p (g_pipes g) \/ p_keys p = ks.
Proof.
  intros parts g ks mk g' i H p Hp. unfold global_get_or_create in H.
  destruct (lookup mk (g_map g)); [inversion H; subst; left; exact Hp|].
  unfold new_pipeline, obind in H. destruct (build_tag parts ks); try discriminate.
  inversion H; subst; clear H. cbn [g_pipes] in Hp. apply in_app_or in Hp.
  destruct Hp as [Hp|[<-|[]]]; [left; exact Hp|right; reflexivity].
Qed.

Lemma served_log_ext : forall parts pipes ext (log : list entry),
  (forall s t i, In (s, t, i) log -> served_by parts pipes t i) ->
  forall s t i, In (s, t, i) log -> served_by parts (pipes ++ ext) t i.
Proof. intros parts pipes ext log H s t i Hin. apply served_by_ext. exact (H _ _ _ Hin). Qed.

Lemma cstep_inv : forall parts n g0 st s st',
  cinv parts n g0 st -> cstep false parts n st s = Ok st' -> cinv parts n g0 st'.
Proof.
  intros parts n g0 st s st' [Hm Hp Hc Hlen Hprocs Hlog Horg] H. unfold cstep in H.
  destruct (nth_error (c_procs st) s) as [p|] eqn:Ep; [|inversion H; subst st'; constructor; assumption].
  pose proof (Hprocs _ _ Ep) as [Hscr [Htodo [Hloc Hph]]].
  assert (Hs : (s < length (c_scr st))%nat) by (rewrite Hlen; eapply nth_error_lt; exact Ep).
  cbn [slot] in H.
  (* the same pipelines, the same scratch: only the process changes *)
  assert (Hsame : forall pnew, proc_ok n (g_pipes (c_g st)) pnew (nth s (c_scr st) []) ->
                   cinv parts n g0 (with_proc st s pnew)).
  { intros pnew Hnew. constructor; cbn [with_proc c_g c_procs c_scr c_log]; try assumption.
    - rewrite set_nth_length. exact Hlen.
    - intros s' p' Hn. rewrite <- (app_nil_r (g_pipes (c_g st))).
      eapply procs_update with (scr := c_scr st); [exact Hprocs| |reflexivity|exact Hn].
      rewrite app_nil_r. exact Hnew. }
  destruct (sp_phase p) as [|t j|t|t mk] eqn:Eph.
  - (* PIdle *)
    destruct (sp_todo p) as [|t r] eqn:Et; inversion H; subst st'; clear H; [constructor; assumption|].
    apply Hsame. split; [exact Hscr|]. split; [exact (Forall_inv_tail Htodo)|]. split; [exact Hloc|].
    cbn [sp_phase]. split; [exact (Forall_inv Htodo)|reflexivity].
  - (* PExtract *)
    destruct Hph as [Ht Hpre]. destruct (Nat.ltb j n) eqn:Ej.
    + apply Nat.ltb_lt in Ej. inversion H; subst st'; clear H.
      constructor; cbn [c_g c_procs c_scr c_log]; try assumption.
      * rewrite !set_nth_length. exact Hlen.
      * intros s' p' Hn. rewrite <- (app_nil_r (g_pipes (c_g st))).
        eapply procs_update with (scr := c_scr st); [exact Hprocs| |intros s'' Hne; apply nth_set_nth_ne; intros E; apply Hne; symmetry; exact E|exact Hn].
        rewrite app_nil_r, nth_set_nth_eq by exact Hs.
        split; [rewrite set_nth_length; exact Hscr|]. split; [exact Htodo|]. split; [exact Hloc|].
        cbn [sp_phase]. split; [exact Ht|].
        rewrite firstn_set_nth_S by lia. rewrite (firstn_S_nth _ t j []) by lia. rewrite Hpre. reflexivity.
    + apply Nat.ltb_ge in Ej. inversion H; subst st'; clear H. apply Hsame.
      split; [exact Hscr|]. split; [exact Htodo|]. split; [exact Hloc|]. cbn [sp_phase].
      rewrite !firstn_all2 in Hpre by lia. exact Hpre.
  - (* PLookup *)
    subst t. destruct (lookup (merged_key (nth s (c_scr st) [])) (sp_local p)) as [i|] eqn:El.
    + inversion H; subst st'; clear H.
      constructor; cbn [c_g c_procs c_scr c_log]; try assumption.
      * rewrite set_nth_length. exact Hlen.
      * intros s' p' Hn. rewrite <- (app_nil_r (g_pipes (c_g st))).
        eapply procs_update with (scr := c_scr st); [exact Hprocs| |reflexivity|exact Hn].
        rewrite app_nil_r. split; [exact Hscr|]. split; [exact Htodo|]. split; [exact Hloc|exact I].
      * intros s' t' i' [Heq|Hin]; [|exact (Hlog _ _ _ Hin)].
        inversion Heq; subst. eapply map_ok_lookup; eassumption.
      * intros q Hq. destruct (Horg q Hq) as [H0|[s' [i' Hin]]]; [left; exact H0|right; exists s', i'; right; exact Hin].
    + inversion H; subst st'; clear H. apply Hsame.
      split; [exact Hscr|]. split; [exact Htodo|]. split; [exact Hloc|]. cbn [sp_phase]. split; reflexivity.
  - (* PCreate *)
    destruct Hph as [Ht Hmk]. subst mk. subst t. unfold obind in H.
    destruct (global_get_or_create parts (c_g st) (nth s (c_scr st) []) (merged_key (nth s (c_scr st) []))) as [[g' i]| |] eqn:Eg;
      try discriminate.
    inversion H; subst st'; clear H.
    destruct (global_goc_spec _ _ _ _ _ Hm Hp Hc Eg) as [[ext Hext] [Hm' [Hp' [Hc' Hsv]]]].
    constructor; cbn [c_g c_procs c_scr c_log]; try assumption.
    + rewrite set_nth_length. exact Hlen.
    + intros s' p' Hn. rewrite Hext.
      eapply procs_update with (scr := c_scr st); [exact Hprocs| |reflexivity|exact Hn].
      rewrite <- Hext. split; [exact Hscr|]. split; [exact Htodo|]. split; [|exact I].
      cbn [sp_local]. intros mk j [Heq|Hin].
      * inversion Heq; subst. destruct Hsv as [q [Hn' [Hk _]]]. exists q. split; [exact Hn'|]. rewrite Hk. reflexivity.
      * rewrite Hext. exact (map_ok_ext _ _ _ Hloc _ _ Hin).
    + intros s' t' i' [Heq|Hin]; [inversion Heq; subst; exact Hsv|].
      rewrite Hext. apply served_by_ext. exact (Hlog _ _ _ Hin).
    + intros q Hq. destruct (global_goc_origin _ _ _ _ _ _ Eg q Hq) as [H0|Hk].
      * destruct (Horg q H0) as [H1|[s' [i' Hin]]]; [left; exact H1|right; exists s', i'; right; exact Hin].
      * right. exists s, i. left. rewrite Hk. reflexivity.
Qed.

Lemma run_sched_inv : forall parts n g0 sched st st',
  cinv parts n g0 st -> run_sched false parts n st sched = Ok st' -> cinv parts n g0 st'.
Proof.
  induction sched as [|s r IH]; intros st st' Hinv H; cbn [run_sched] in H.
  - inversion H; subst. exact Hinv.
  - destruct (cstep false parts n st s) as [st1| |] eqn:E; try discriminate.
    eapply IH; [eapply cstep_inv; eassumption|exact H].
Qed.

Lemma nth_repeat_lt : forall (A : Type) (x d : A) k i, (i < k)%nat -> nth i (repeat x k) d = x.
Proof. induction k as [|k IH]; intros [|i] H; cbn; try lia; [reflexivity|apply IH; lia]. Qed.

Lemma cinv_init : forall parts n g0 progs,
  map_ok (g_pipes g0) (g_map g0) -> pipes_ok parts (g_pipes g0) -> complete g0 ->
  Forall (Forall (fun t => length t = n)) progs ->
  cinv parts n g0 (c_init g0 n progs).
Proof.
  intros parts n g0 progs Hm Hp Hc Har. constructor; cbn [c_init c_g c_procs c_scr c_log]; try assumption.
  - rewrite repeat_length, map_length. reflexivity.
  - intros s p Hn. rewrite nth_error_map in Hn. destruct (nth_error progs s) as [pr|] eqn:E; [|discriminate].
    cbn in Hn. inversion Hn; subst p; clear Hn.
    assert (Hs : (s < length progs)%nat) by (eapply nth_error_lt; exact E).
    rewrite nth_repeat_lt by exact Hs. split; [apply repeat_length|]. split; [|split; [apply map_ok_nil|exact I]].
    cbn [sp_todo]. rewrite Forall_forall in Har. apply Har. eapply nth_error_In. exact E.
  - intros s t i [].
  - intros p H. left. exact H.
Qed.

Lemma orch_init_inv : forall parts n ids g0, orch_init parts n ids = Ok g0 ->
  map_ok (g_pipes g0) (g_map g0) /\ pipes_ok parts (g_pipes g0) /\ complete g0.
Proof.
  intros parts n ids g0 Hinit. unfold orch_init, obind in Hinit.
  destruct (init_ids parts n g_init [] ids) as [[g1 lm1]| |] eqn:Hi; try discriminate. inversion Hinit; subst g1; clear Hinit.
  destruct (init_ids_spec _ _ _ _ _ _ _ (inv_init parts 1) Hi) as [[Hm _ Hp Hc] _]. auto.
Qed.

Lemma conc_inv : forall parts n ids g0 progs sched st,
  orch_init parts n ids = Ok g0 ->
  Forall (Forall (fun t => length t = n)) progs ->
  run_sched false parts n (c_init g0 n progs) sched = Ok st ->
  cinv parts n g0 st.
Proof.
  intros parts n ids g0 progs sched st Hinit Har Hrun.
  destruct (orch_init_inv _ _ _ _ Hinit) as [Hm [Hp Hc]].
  eapply run_sched_inv; [apply cinv_init; eassumption|exact Hrun].
Qed.

(* ---------- the theorems ---------- *)

(* every interleaving: each routed record is in the pipeline of its own key tuple *)
Lemma conc_routing_own_keys_lemma : forall parts n ids g0 progs sched st,
  orch_init parts n ids = Ok g0 ->
  Forall (Forall (fun t => length t = n)) progs ->
  run_sched false parts n (c_init g0 n progs) sched = Ok st ->
  forall s t i, In (s, t, i) (c_log st) -> served_by parts (g_pipes (c_g st)) t i.
Proof.
  intros parts n ids g0 progs sched st Hinit Har Hrun.
  exact (ci_log _ _ _ _ (conc_inv _ _ _ _ _ _ _ Hinit Har Hrun)).
Qed.

(* two records of the run, of any sinks, share a pipeline exactly when their key tuples are equal *)
Lemma conc_routing_injective_lemma : forall parts n ids g0 progs sched st,
  orch_init parts n ids = Ok g0 ->
  Forall (Forall (fun t => length t = n)) progs ->
  run_sched false parts n (c_init g0 n progs) sched = Ok st ->
  forall s t i s' t' i', In (s, t, i) (c_log st) -> In (s', t', i') (c_log st) -> (t = t' <-> i = i').
Proof.
  intros parts n ids g0 progs sched st Hinit Har Hrun s t i s' t' i' H1 H2.
  pose proof (conc_inv _ _ _ _ _ _ _ Hinit Har Hrun) as Hinv.
  destruct (ci_log _ _ _ _ Hinv _ _ _ H1) as [p [Hp [Hpk _]]].
  destruct (ci_log _ _ _ _ Hinv _ _ _ H2) as [q [Hq [Hqk _]]].
  split.
  - intros Heq. eapply complete_unique; [exact (ci_complete _ _ _ _ Hinv)|exact Hp|exact Hq|]. rewrite Hpk, Hqk. exact Heq.
  - intros Heq. subst i'. rewrite Hp in Hq. inversion Hq; subst q. rewrite <- Hpk, <- Hqk. reflexivity.
Qed.

(* no pipeline for a key tuple that no record has *)
Lemma conc_no_phantom_lemma : forall parts n ids g0 progs sched st,
  orch_init parts n ids = Ok g0 ->
  Forall (Forall (fun t => length t = n)) progs ->
  run_sched false parts n (c_init g0 n progs) sched = Ok st ->
  forall p, In p (g_pipes (c_g st)) -> In p (g_pipes g0) \/ exists s i, In (s, p_keys p, i) (c_log st).
Proof.
  intros parts n ids g0 progs sched st Hinit Har Hrun.
  exact (ci_origin _ _ _ _ (conc_inv _ _ _ _ _ _ _ Hinit Har Hrun)).
Qed.

(* ---------- the log is the programs: every sink's records are routed in order, each exactly once ---------- *)

Definition cur_of (p : sproc) : list (list bytes) :=
  match sp_phase p with PIdle => [] | PExtract t _ => [t] | PLookup t => [t] | PCreate t _ => [t] end.

(* the key tuples logged for sink s, oldest first *)
Fixpoint logged (s : nat) (log : list entry) : list (list bytes) :=
  match log with
  | [] => []
  | (s', t, _) :: r => if Nat.eqb s' s then logged s r ++ [t] else logged s r
  end.

Definition log_ok (progs : list (list (list bytes))) (st : cstate) : Prop :=
  length (c_procs st) = length progs /\
  forall s p, nth_error (c_procs st) s = Some p -> logged s (c_log st) ++ cur_of p ++ sp_todo p = nth s progs [].

Lemma log_ok_init : forall g0 n progs, log_ok progs (c_init g0 n progs).
Proof.
  intros g0 n progs. split; cbn [c_init c_procs c_log]; [apply map_length|].
  intros s p Hn. rewrite nth_error_map in Hn. destruct (nth_error progs s) as [pr|] eqn:E; [|discriminate].
  inversion Hn; subst p. cbn. symmetry. apply nth_error_nth. exact E.
Qed.

Lemma cstep_log_ok : forall shared parts n progs st s st',
  log_ok progs st -> cstep shared parts n st s = Ok st' -> log_ok progs st'.
Proof.
  intros shared parts n progs st s st' [Hlen Hall] H. unfold cstep in H.
  destruct (nth_error (c_procs st) s) as [p|] eqn:Ep; [|inversion H; subst; split; assumption].
  pose proof (Hall _ _ Ep) as Hp.
  (* process s replaced by pnew, log extended by new entries of s only *)
  assert (Hupd : forall pnew log',
            (forall s', s' <> s -> logged s' log' = logged s' (c_log st)) ->
            logged s log' ++ cur_of pnew ++ sp_todo pnew = nth s progs [] ->
            forall s' p', nth_error (set_nth (c_procs st) s pnew) s' = Some p' ->
                          logged s' log' ++ cur_of p' ++ sp_todo p' = nth s' progs []).
  { intros pnew log' Hoth Hnew s' p' Hn. destruct (Nat.eq_dec s s') as [<-|Hne].
    - rewrite (nth_error_set_nth_eq _ _ _ _ _ Ep) in Hn. inversion Hn; subst p'. exact Hnew.
    - rewrite nth_error_set_nth_ne in Hn by exact Hne. rewrite Hoth by congruence. exact (Hall _ _ Hn). }
  destruct (sp_phase p) as [|t j|t|t mk] eqn:Eph; unfold cur_of in Hp; rewrite Eph in Hp.
  - destruct (sp_todo p) as [|t r] eqn:Et; inversion H; subst; clear H; [split; assumption|].
    split; cbn [with_proc c_procs c_log]; [rewrite set_nth_length; exact Hlen|].
    apply Hupd; [reflexivity|]. cbn. exact Hp.
  - destruct (Nat.ltb j n); inversion H; subst st'; clear H; (split; cbn [with_proc c_procs c_log]; [rewrite set_nth_length; exact Hlen|]);
      (apply Hupd; [reflexivity|]; cbn; exact Hp).
  - destruct (lookup _ (sp_local p)) as [i|]; inversion H; subst st'; clear H;
      (split; cbn [with_proc c_procs c_log]; [rewrite set_nth_length; exact Hlen|]).
    + apply Hupd.
      * intros s' Hne. cbn [logged]. destruct (Nat.eqb s s') eqn:E; [apply Nat.eqb_eq in E; congruence|reflexivity].
      * cbn [logged]. rewrite Nat.eqb_refl. cbn. rewrite <- app_assoc. exact Hp.
    + apply Hupd; [reflexivity|]. cbn. exact Hp.
  - unfold obind in H. destruct (global_get_or_create _ _ _ _) as [[g' i]| |]; try discriminate.
    inversion H; subst st'; clear H. split; cbn [c_procs c_log]; [rewrite set_nth_length; exact Hlen|].
    apply Hupd.
    + intros s' Hne. cbn [logged]. destruct (Nat.eqb s s') eqn:E; [apply Nat.eqb_eq in E; congruence|reflexivity].
    + cbn [logged]. rewrite Nat.eqb_refl. cbn. rewrite <- app_assoc. exact Hp.
Qed.

Lemma run_sched_log_ok : forall shared parts n progs sched st st',
  log_ok progs st -> run_sched shared parts n st sched = Ok st' -> log_ok progs st'.
Proof.
  induction sched as [|s r IH]; intros st st' Hok H; cbn [run_sched] in H.
  - inversion H; subst. exact Hok.
  - destruct (cstep shared parts n st s) as [st1| |] eqn:E; try discriminate.
    eapply IH; [eapply cstep_log_ok; eassumption|exact H].
Qed.

(* whatever the schedule and the ownership of the scratch: what is logged for a sink, what it is working on and what it
   still has to do make up its program - no record is routed twice, skipped or invented *)
Lemma conc_log_is_program_lemma : forall shared parts n g0 progs sched st,
  run_sched shared parts n (c_init g0 n progs) sched = Ok st ->
  forall s p, nth_error (c_procs st) s = Some p -> logged s (c_log st) ++ cur_of p ++ sp_todo p = nth s progs [].
Proof.
  intros shared parts n g0 progs sched st Hrun.
  exact (proj2 (run_sched_log_ok _ _ _ _ _ _ _ (log_ok_init g0 n progs) Hrun)).
Qed.

Lemma proc_done_spec : forall p, proc_done p = true -> cur_of p = [] /\ sp_todo p = [].
Proof.
  intros p H. unfold proc_done in H. unfold cur_of. destruct (sp_phase p); try discriminate.
  destruct (sp_todo p); [split; reflexivity|discriminate].
Qed.

(* a step never logs anything for a sink number that does not exist *)
Lemma cstep_logged_other : forall shared parts n st0 x st1 s,
  cstep shared parts n st0 x = Ok st1 -> (length (c_procs st0) <= s)%nat ->
  logged s (c_log st1) = logged s (c_log st0) /\ length (c_procs st1) = length (c_procs st0).
Proof.
  intros shared parts n st0 x st1 s E Hl. unfold cstep in E.
  destruct (nth_error (c_procs st0) x) as [q|] eqn:Eq; [|inversion E; subst; split; reflexivity].
  assert (Hx : x <> s) by (apply nth_error_lt in Eq; lia).
  assert (Hxs : Nat.eqb x s = false) by (apply Nat.eqb_neq; exact Hx).
  destruct (sp_phase q).
  - destruct (sp_todo q); inversion E; subst st1; cbn [with_proc c_procs c_log]; rewrite ?set_nth_length; split; reflexivity.
  - destruct (Nat.ltb _ n); inversion E; subst st1; cbn [with_proc c_procs c_log]; rewrite ?set_nth_length; split; reflexivity.
  - destruct (lookup _ (sp_local q)); inversion E; subst st1; cbn [with_proc c_procs c_log logged]; rewrite ?set_nth_length, ?Hxs;
      split; reflexivity.
  - unfold obind in E. destruct (global_get_or_create _ _ _ _) as [[g' i]| |]; try discriminate.
    inversion E; subst st1; cbn [c_procs c_log logged]. rewrite set_nth_length, Hxs. split; reflexivity.
Qed.

(* at the end of a complete schedule every sink's log is its program *)
Lemma conc_complete_log_lemma : forall shared parts n g0 progs sched st,
  run_sched shared parts n (c_init g0 n progs) sched = Ok st -> all_done st = true ->
  forall s, logged s (c_log st) = nth s progs [].
Proof.
  intros shared parts n g0 progs sched st Hrun Hdone s.
  destruct (run_sched_log_ok _ _ _ _ _ _ _ (log_ok_init g0 n progs) Hrun) as [Hlen Hall].
  destruct (nth_error (c_procs st) s) as [p|] eqn:Ep.
  - pose proof (Hall _ _ Ep) as Hp. unfold all_done in Hdone. rewrite forallb_forall in Hdone.
    destruct (proc_done_spec p (Hdone p (nth_error_In _ _ Ep))) as [Hc Ht]. rewrite Hc, Ht, !app_nil_r in Hp. exact Hp.
  - (* no such sink: nothing is logged for it (entries are only made by existing sinks) *)
    assert (Hs : (length progs <= s)%nat) by (rewrite <- Hlen; apply nth_error_None; exact Ep).
    rewrite (nth_overflow progs [] Hs).
    clear Hall Hdone. revert Hrun.
    assert (Hgen : forall sched st0, logged s (c_log st0) = [] -> length (c_procs st0) = length progs ->
                     run_sched shared parts n st0 sched = Ok st -> logged s (c_log st) = []).
    { clear sched. induction sched as [|x r IH]; intros st0 H0 Hl Hr; cbn [run_sched] in Hr.
      - inversion Hr; subst. exact H0.
      - destruct (cstep shared parts n st0 x) as [st1| |] eqn:E; try discriminate.
        assert (Hl0 : (length (c_procs st0) <= s)%nat) by lia.
        destruct (cstep_logged_other _ _ _ _ _ _ _ E Hl0) as [Hlg Hln].
        apply (IH st1); [rewrite Hlg; exact H0|rewrite Hln; exact Hl|exact Hr]. }
    intros Hrun. apply (Hgen sched (c_init g0 n progs)); [reflexivity|cbn; apply map_length|exact Hrun].
Qed.

(* ---------- schedule independence ---------- *)

Lemma In_logged : forall s t log, In t (logged s log) <-> exists i, In (s, t, i) log.
Proof.
  intros s t log. induction log as [|[[s' t'] i'] log IH]; cbn [logged].
  - split; [intros []|intros [i []]].
  - destruct (Nat.eqb s' s) eqn:E.
    + apply Nat.eqb_eq in E. subst s'. rewrite in_app_iff, IH. split.
      * intros [[i Hi]|[<-|[]]]; [exists i; right; exact Hi|exists i'; left; reflexivity].
      * intros [i [Heq|Hi]]; [inversion Heq; subst; right; left; reflexivity|left; exists i; exact Hi].
    + rewrite IH. split.
      * intros [i Hi]. exists i. right. exact Hi.
      * intros [i [Heq|Hi]]; [inversion Heq; subst; rewrite Nat.eqb_refl in E; discriminate|exists i; exact Hi].
Qed.

Lemma served_by_same : forall parts pipes pipes' t i i' p p',
  served_by parts pipes t i -> served_by parts pipes' t i' ->
  nth_error pipes i = Some p -> nth_error pipes' i' = Some p' -> p = p'.
Proof.
  intros parts pipes pipes' t i i' p p' [q [Hq [H1 [H2 [H3 H4]]]]] [q' [Hq' [H1' [H2' [H3' H4']]]]] Hp Hp'.
  rewrite Hq in Hp. inversion Hp; subst q. rewrite Hq' in Hp'. inversion Hp'; subst q'.
  destruct p as [k d g l], p' as [k' d' g' l']. cbn in *. subst. rewrite H3 in H3'. inversion H3'; subst. reflexivity.
Qed.

(* two complete runs of the same programs under ANY two schedules: every sink routes the same records in the same
   order, the k-th record of a sink reaches a pipeline with the same keys / id / tag / labels in both runs, and the
   same pipelines exist (as a set) *)
Lemma conc_schedule_independent_lemma : forall parts n ids g0 progs sched1 sched2 st1 st2,
  orch_init parts n ids = Ok g0 ->
  Forall (Forall (fun t => length t = n)) progs ->
  run_sched false parts n (c_init g0 n progs) sched1 = Ok st1 -> all_done st1 = true ->
  run_sched false parts n (c_init g0 n progs) sched2 = Ok st2 -> all_done st2 = true ->
  (forall s, logged s (c_log st1) = logged s (c_log st2)) /\
  (forall s t i1 i2 p1 p2, In (s, t, i1) (c_log st1) -> In (s, t, i2) (c_log st2) ->
      nth_error (g_pipes (c_g st1)) i1 = Some p1 -> nth_error (g_pipes (c_g st2)) i2 = Some p2 -> p1 = p2) /\
  (forall p, In p (g_pipes (c_g st1)) <-> In p (g_pipes (c_g st2))).
Proof.
  intros parts n ids g0 progs sched1 sched2 st1 st2 Hinit Har Hr1 Hd1 Hr2 Hd2.
  pose proof (conc_inv _ _ _ _ _ _ _ Hinit Har Hr1) as I1. pose proof (conc_inv _ _ _ _ _ _ _ Hinit Har Hr2) as I2.
  pose proof (conc_complete_log_lemma _ _ _ _ _ _ _ Hr1 Hd1) as L1. pose proof (conc_complete_log_lemma _ _ _ _ _ _ _ Hr2 Hd2) as L2.
  split; [intros s; rewrite L1, L2; reflexivity|]. split.
  - intros s t i1 i2 p1 p2 H1 H2 Hp1 Hp2.
    eapply served_by_same; [exact (ci_log _ _ _ _ I1 _ _ _ H1)|exact (ci_log _ _ _ _ I2 _ _ _ H2)|exact Hp1|exact Hp2].
  - assert (Hdir : forall sta stb, cinv parts n g0 sta -> cinv parts n g0 stb ->
                     (forall s, logged s (c_log sta) = logged s (c_log stb)) ->
                     (exists ext, g_pipes (c_g stb) = g_pipes g0 ++ ext) ->
                     forall p, In p (g_pipes (c_g sta)) -> In p (g_pipes (c_g stb))).
    { intros sta stb Ia Ib Hl [ext Hext] p Hp. destruct (ci_origin _ _ _ _ Ia p Hp) as [H0|[s [i Hin]]].
      - rewrite Hext. apply in_or_app. left. exact H0.
      - assert (Hb : exists i', In (s, p_keys p, i') (c_log stb)).
        { apply In_logged. rewrite <- Hl. apply In_logged. exists i. exact Hin. }
        destruct Hb as [i' Hin'].
        pose proof (ci_log _ _ _ _ Ia _ _ _ Hin) as Sa. pose proof (ci_log _ _ _ _ Ib _ _ _ Hin') as Sb.
        destruct (In_nth_error _ _ Hp) as [k Hk].
        destruct Sa as [q [Hq [Hqk Hrest]]]. destruct Sb as [q' [Hq' Hrest']].
        assert (k = i) by (eapply complete_unique; [exact (ci_complete _ _ _ _ Ia)|exact Hk|exact Hq|rewrite Hqk; reflexivity]).
        subst k. rewrite Hk in Hq. inversion Hq; subst q.
        assert (p = q').
        { eapply served_by_same; [exists p; split; [exact Hk|split; [exact Hqk|exact Hrest]]|exists q'; split; [exact Hq'|exact Hrest']|exact Hk|exact Hq']. }
        subst q'. eapply nth_error_In. exact Hq'. }
    assert (Hext : forall sched st, run_sched false parts n (c_init g0 n progs) sched = Ok st -> exists ext, g_pipes (c_g st) = g_pipes g0 ++ ext).
    { assert (Hgen : forall sched sta st, (exists ext, g_pipes (c_g sta) = g_pipes g0 ++ ext) ->
                       run_sched false parts n sta sched = Ok st -> exists ext, g_pipes (c_g st) = g_pipes g0 ++ ext).
      { induction sched as [|x r IH]; intros sta st He Hr; cbn [run_sched] in Hr.
        - inversion Hr; subst. exact He.
        - destruct (cstep false parts n sta x) as [stb| |] eqn:E; try discriminate.
          apply (IH stb st); [|exact Hr]. unfold cstep in E.
          destruct (nth_error (c_procs sta) x) as [q|]; [|inversion E; subst; exact He].
          destruct (sp_phase q); [destruct (sp_todo q)| destruct (Nat.ltb _ n)| destruct (lookup _ (sp_local q))|];
            try (inversion E; subst stb; exact He).
          unfold obind in E. destruct (global_get_or_create parts (c_g sta) _ mk) as [[g' i]| |] eqn:Eg; try discriminate.
          inversion E; subst stb. cbn [c_g]. destruct He as [ext He].
          unfold global_get_or_create in Eg. destruct (lookup mk (g_map (c_g sta))); [inversion Eg; subst; exists ext; exact He|].
          unfold new_pipeline, obind in Eg. destruct (build_tag parts _); try discriminate.
          inversion Eg; subst g'. cbn [g_pipes]. rewrite He. eexists. rewrite <- app_assoc. reflexivity. }
      intros sched st Hr. apply (Hgen sched (c_init g0 n progs)); [exists []; cbn; rewrite app_nil_r; reflexivity|exact Hr]. }
    intros p. split.
    + apply (Hdir st1 st2 I1 I2); [intros s; rewrite L1, L2; reflexivity|exact (Hext _ _ Hr2)].
    + apply (Hdir st2 st1 I2 I1); [intros s; rewrite L1, L2; reflexivity|exact (Hext _ _ Hr1)].
Qed.

(* ---------- the runs of the correspondence are schedules ---------- *)

Lemma run_sched_app : forall shared parts n a b st,
  run_sched shared parts n st (a ++ b) =
  match run_sched shared parts n st a with Ok st' => run_sched shared parts n st' b | Err e => Err e | Panic x => Panic x end.
Proof.
  induction a as [|s a IH]; intros b st; cbn [app run_sched]; [reflexivity|].
  destruct (cstep shared parts n st s); [apply IH|reflexivity|reflexivity].
Qed.

Lemma run_sched_noop : forall shared parts n st s k,
  match nth_error (c_procs st) s with None => True | Some p => proc_done p = true end ->
  run_sched shared parts n st (repeat s k) = Ok st.
Proof.
  intros shared parts n st s k H. induction k as [|k IH]; cbn [repeat run_sched]; [reflexivity|].
  assert (E : cstep shared parts n st s = Ok st).
  { unfold cstep. destruct (nth_error (c_procs st) s) as [p|]; [|reflexivity].
    unfold proc_done in H. destruct (sp_phase p); try discriminate. destruct (sp_todo p); [reflexivity|discriminate]. }
  rewrite E. exact IH.
Qed.

Lemma run_rep_is_sched : forall shared parts n k st s, run_rep shared parts n st s k = run_sched shared parts n st (repeat s k).
Proof.
  induction k as [|k IH]; intros st s; [reflexivity|]. cbn [run_rep].
  destruct (nth_error (c_procs st) s) as [p|] eqn:Ep.
  - destruct (proc_done p) eqn:Ed.
    + symmetry. apply run_sched_noop. rewrite Ep. exact Ed.
    + cbn [repeat run_sched]. destruct (cstep shared parts n st s); [apply IH|reflexivity|reflexivity].
  - symmetry. apply run_sched_noop. rewrite Ep. exact I.
Qed.

Lemma run_lcg_is_sched : forall shared parts n nprocs burst fuel x st,
  run_lcg shared parts n nprocs burst fuel x st = run_sched shared parts n st (lcg_sched nprocs burst fuel x).
Proof.
  induction fuel as [|f IH]; intros x st; cbn [run_lcg lcg_sched run_sched]; [reflexivity|].
  rewrite run_sched_app, run_rep_is_sched.
  destruct (run_sched shared parts n st (repeat _ burst)); [apply IH|reflexivity|reflexivity].
Qed.

Lemma run_drain_is_sched : forall shared parts n count s k st,
  run_drain shared parts n st s count k = run_sched shared parts n st (drain_sched s count k).
Proof.
  induction count as [|c IH]; intros s k st; cbn [run_drain drain_sched run_sched]; [reflexivity|].
  rewrite run_sched_app, run_rep_is_sched.
  destruct (run_sched shared parts n st (repeat s k)); [apply IH|reflexivity|reflexivity].
Qed.

(* the run of correspondence kind 8 is the run of one particular schedule *)
Lemma conc_exec_is_sched : forall shared parts n progs seed burst,
  exists sched, conc_exec shared parts n progs seed burst = run_sched shared parts n (c_init g_init n progs) sched.
Proof.
  intros shared parts n progs seed burst. unfold conc_exec.
  exists (lcg_sched (N.of_nat (length progs)) burst (S (Nat.div (total_records progs * (n + 4)) burst)) seed
          ++ drain_sched O (length progs) (longest progs * (n + 4))%nat).
  rewrite run_sched_app, run_lcg_is_sched.
  destruct (run_sched shared parts n (c_init g_init n progs) _); try reflexivity.
  apply run_drain_is_sched.
Qed.

(* ---------- the shared scratch (one FieldSetExtractor copied into every sink) is refuted ---------- *)

Definition w_info : bytes := [105;110;102;111].
Definition w_warn : bytes := [119;97;114;110].
Definition w_web : bytes := [119;101;98].
Definition w_db : bytes := [100;98].
Definition w_parts : list tpart := [TVar 0; TLit [45]; TVar 1].      (* $level-$app *)
Definition w_progs : list (list (list bytes)) := [[[w_info; w_web]]; [[w_warn; w_db]]].
(* sink 0 extracts (info, web); sink 1 starts and stores its level; sink 0 looks up and creates; sink 1 finishes *)
Definition w_sched : list nat := [0; 0; 0; 0; 1; 1; 0; 0; 1; 1; 1; 1]%nat.

Lemma shared_scratch_refuted_lemma :
  exists st, run_sched true w_parts 2 (c_init g_init 2 w_progs) w_sched = Ok st /\ all_done st = true /\
    (* the record (info, web) of sink 0 is in a pipeline made for (warn, web): id "warn,web", tag "warn-web" *)
    (exists p, In (O, [w_info; w_web], O) (c_log st) /\ nth_error (g_pipes (c_g st)) O = Some p /\
               p_keys p = [w_warn; w_web] /\ p_id p = w_warn ++ [44] ++ w_web /\ p_tag p = w_warn ++ [45] ++ w_web) /\
    (* and no record of the run has the key tuple (warn, web) *)
    (forall s t i, In (s, t, i) (c_log st) -> t <> [w_warn; w_web]) /\
    (* the same programs under the same schedule with one scratch per sink: fine *)
    (exists st', run_sched false w_parts 2 (c_init g_init 2 w_progs) w_sched = Ok st' /\ all_done st' = true /\
                 map p_keys (g_pipes (c_g st')) = [[w_info; w_web]; [w_warn; w_db]]).
Proof.
  eexists. split; [vm_compute; reflexivity|]. split; [vm_compute; reflexivity|]. split; [|split].
  - eexists. split; [vm_compute; right; left; reflexivity|]. split; [vm_compute; reflexivity|]. vm_compute. auto.
  - intros s t i H. vm_compute in H. destruct H as [H|[H|[]]]; inversion H; subst; discriminate.
  - eexists. split; [vm_compute; reflexivity|]. split; vm_compute; reflexivity.
Qed.

(* satisfiability of the hypotheses: two sinks, three records, interleaved field by field *)
Definition ex_progs : list (list (list bytes)) := [[[w_info; w_web]; [w_warn; w_db]]; [[w_warn; w_db]]].
Definition ex_sched : list nat := [0; 1; 0; 1; 0; 1; 0; 1; 0; 1; 0; 0; 0; 0; 0; 0; 0; 1; 1]%nat.

Lemma conc_example_lemma :
  orch_init w_parts 2 [] = Ok g_init /\ Forall (Forall (fun t => length t = 2%nat)) ex_progs /\
  exists st, run_sched false w_parts 2 (c_init g_init 2 ex_progs) ex_sched = Ok st /\ all_done st = true /\
             length (c_log st) = 3%nat /\ map p_id (g_pipes (c_g st)) = [w_info ++ [44] ++ w_web; w_warn ++ [44] ++ w_db].
Proof.
  split; [reflexivity|]. split; [repeat constructor|].
  eexists. split; [vm_compute; reflexivity|]. repeat split; vm_compute; reflexivity.
Qed.
