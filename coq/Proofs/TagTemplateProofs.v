(* C06 - tag templates: expansion never panics for templates accepted by NewTagBuilder, substrings
   are Python slices, and a template that lists every key with a separator gives injective tags. *)
From SV Require Import Model.Common Model.Routing Spec.RoutingSpec Proofs.CommonFacts Proofs.MergedKeyProofs Proofs.QueueProofs.
From Coq Require Import Lia ZifyBool ZifyN ZifyNat.
Ltac Zify.zify_post_hook ::= Z.div_mod_to_equations.
Open Scope N_scope.

(* ---------- go_substr ---------- *)

Lemma slice_ok : forall (v : bytes) a b, (a <= b)%nat -> (b <= length v)%nat -> slice v a b = Some (firstn (b - a) (skipn a v)).
Proof.
  intros v a b H1 H2. unfold slice.
  replace (Nat.leb a b && Nat.leb b (length v))%bool with true; [reflexivity|].
  symmetry. apply andb_true_iff. split; apply Nat.leb_le; assumption.
Qed.

Lemma go_substr_never_panics : forall v s e, is_panic (go_substr v s e) = false.
Proof.
  intros v s e. unfold go_substr.
  repeat match goal with
  | |- context [if ?c then _ else _] => destruct c eqn:?
  | |- context [match slice ?v ?a ?b with _ => _ end] => rewrite (slice_ok v a b) by lia
  end; try reflexivity.
Qed.

Lemma firstn_clip : forall (A : Type) n (l : list A), firstn n l = firstn (Nat.min n (length l)) l.
Proof.
  intros A n l. destruct (Nat.le_gt_cases n (length l)) as [H|H].
  - rewrite Nat.min_l by exact H. reflexivity.
  - rewrite Nat.min_r by lia. rewrite !firstn_all2 by lia. reflexivity.
Qed.

Lemma sub_nil : forall (v : bytes) a n, (n = 0 \/ length v <= a)%nat -> firstn n (skipn a v) = [].
Proof.
  intros v a n [->|H]; [reflexivity|]. rewrite skipn_all2 by exact H. apply firstn_nil.
Qed.

Lemma sub_eq : forall (v : bytes) a a' n n', a = a' ->
  (Nat.min n (length v - a) = Nat.min n' (length v - a))%nat -> firstn n (skipn a v) = firstn n' (skipn a' v).
Proof.
  intros v a a' n n' <- H. rewrite (firstn_clip _ n), (firstn_clip _ n'), skipn_length, H. reflexivity.
Qed.

Ltac destruct_inner_if :=
  match goal with
  | |- context [if ?c then _ else _] =>
    lazymatch c with
    | context [if _ then _ else _] => fail
    | _ => destruct c eqn:?
    end
  end.

(* the closure computes the Python slice (strings shorter than 2^31, the default end being math.MaxInt32) *)
Lemma go_substr_is_slice : forall v s e, (Z.of_nat (length v) <= 2147483647)%Z ->
  go_substr v s e = Ok (ref_slice v s e).
Proof.
  intros v s e Hlen. unfold go_substr, ref_slice, clamp.
  destruct s as [s|]; destruct e as [e|]; cbv zeta;
  repeat destruct_inner_if;
  try (rewrite slice_ok by lia);
  f_equal;
  first [ symmetry; apply sub_nil; lia | apply sub_eq; lia ].
Qed.

(* ---------- templates accepted by NewTagBuilder only refer to existing keys ---------- *)

Definition part_wf (n : nat) (p : tpart) : Prop :=
  match p with TLit _ => True | TVar i => (i < n)%nat | TSub i _ _ => (i < n)%nat end.

Lemma index_of_lt : forall name names i, index_of name names = Some i -> (i < length names)%nat.
Proof.
  induction names as [|x names IH]; intros i H; cbn [index_of] in H; [discriminate|].
  destruct (bytes_eqb name x).
  - inversion H. cbn. lia.
  - destruct (index_of name names) as [j|]; cbn in H; [|discriminate]. inversion H. specialize (IH j eq_refl). cbn. lia.
Qed.

Lemma resolve_parts_wf : forall names ps parts, resolve_parts names ps = Some parts -> Forall (part_wf (length names)) parts.
Proof.
  induction ps as [|p ps IH]; intros parts H; cbn [resolve_parts] in H.
  - inversion H. constructor.
  - destruct p as [s|name|vexpr].
    + destruct (resolve_parts names ps) as [xs|]; [|discriminate]. inversion H. constructor; [exact I|apply IH; reflexivity].
    + destruct (index_of name names) as [i|] eqn:Hi; cbn in H; [|discriminate].
      destruct (resolve_parts names ps) as [xs|]; [|discriminate]. inversion H.
      constructor; [exact (index_of_lt _ _ _ Hi)|apply IH; reflexivity].
    + destruct (parse_vexpr vexpr) as [[[name s] e]|]; [|discriminate].
      destruct (index_of name names) as [i|] eqn:Hi; cbn in H; [|discriminate].
      destruct (resolve_parts names ps) as [xs|]; [|discriminate]. inversion H.
      constructor; [exact (index_of_lt _ _ _ Hi)|apply IH; reflexivity].
Qed.

Lemma parse_template_wf : forall names t parts, parse_template names t = Some parts -> Forall (part_wf (length names)) parts.
Proof.
  intros names t parts H. unfold parse_template in H.
  destruct (has_dollar_dollar t); [discriminate|].
  destruct (scan_parts (S (length t)) t) as [ps sk].
  destruct (resolve_parts names ps) as [parts'|] eqn:Hr; [|discriminate].
  destruct sk; [discriminate|]. inversion H; subst. eapply resolve_parts_wf. exact Hr.
Qed.

Lemma expand_part_ok : forall n keys p, part_wf n p -> length keys = n -> exists x, expand_part keys p = Ok x.
Proof.
  intros n keys p Hp Hl. destruct p as [s|i|i s e]; cbn [expand_part part_wf] in *.
  - eauto.
  - unfold key_at. destruct (nth_error keys i) eqn:E; [eauto|]. apply nth_error_None in E. lia.
  - unfold key_at. destruct (nth_error keys i) as [k|] eqn:E; [|apply nth_error_None in E; lia].
    cbn [obind]. pose proof (go_substr_never_panics k s e) as Hnp.
    destruct (go_substr k s e) as [x|err|site] eqn:G; [eauto| |discriminate].
    exfalso. clear Hnp. unfold go_substr in G.
    repeat match type of G with
    | context [if ?c then _ else _] => destruct c
    | context [match slice ?v ?a ?b with _ => _ end] => destruct (slice v a b)
    end; discriminate.
Qed.

Lemma expand_parts_ok : forall n keys ps buf, Forall (part_wf n) ps -> length keys = n -> exists x, expand_parts keys ps buf = Ok x.
Proof.
  induction ps as [|p ps IH]; intros buf Hall Hl; cbn [expand_parts]; [eauto|].
  inversion Hall as [|? ? Hp Hps]; subst. destruct (expand_part_ok _ _ _ Hp eq_refl) as [x Hx]. rewrite Hx. cbn [obind]. apply IH; auto.
Qed.

Lemma build_tag_ok : forall n keys parts, Forall (part_wf n) parts -> length keys = n -> exists tag, build_tag parts keys = Ok tag.
Proof.
  intros n keys parts Hall Hl. unfold build_tag. destruct parts as [|p [|q r]].
  - cbn. eauto.
  - inversion Hall as [|? ? Hp Hps]; subst. eapply expand_part_ok; eauto.
  - eapply expand_parts_ok; eauto.
Qed.

(* ---------- the orchestrator never panics on tuples of the configured arity ---------- *)

Lemma local_goc_total : forall n parts g lm ks, Forall (part_wf n) parts -> length ks = n ->
  exists r, local_get_or_create parts g lm ks = Ok r.
Proof.
  intros n parts g lm ks Hwf Hl. unfold local_get_or_create. destruct (lookup (merged_key ks) lm); [eauto|].
  unfold global_get_or_create. destruct (lookup (merged_key ks) (g_map g)); [cbn; eauto|].
  unfold new_pipeline. destruct (build_tag_ok _ _ _ Hwf Hl) as [tag Ht]. rewrite Ht. cbn. eauto.
Qed.

Lemma run_ops_total : forall n parts ops g lms, Forall (part_wf n) parts -> Forall (fun o => length (snd o) = n) ops ->
  exists r, run_ops parts g lms ops = Ok r.
Proof.
  induction ops as [|[si ks] ops IH]; intros g lms Hwf Hall; cbn [run_ops]; [eauto|].
  inversion Hall as [|? ? Hk Hrest]; subst. cbn [snd] in *. unfold step.
  destruct (local_goc_total _ _ g (nth si lms []) ks Hwf eq_refl) as [[[g1 lm1] i1] H1]. rewrite H1. cbn [obind].
  destruct (IH g1 (set_nth lms si lm1) Hwf Hrest) as [[[g2 lms2] is2] H2']. rewrite H2'. cbn. eauto.
Qed.

Lemma recover_keys_length : forall n id ks, recover_keys n id = Some ks -> length ks = n.
Proof.
  intros n id ks H. unfold recover_keys in H.
  destruct (Nat.eqb (length (split_on comma id)) n) eqn:E; [|discriminate]. inversion H; subst. apply Nat.eqb_eq. exact E.
Qed.

Lemma init_ids_total : forall n parts ids g lm, Forall (part_wf n) parts -> exists r, init_ids parts n g lm ids = Ok r.
Proof.
  induction ids as [|id ids IH]; intros g lm Hwf; cbn [init_ids]; [eauto|].
  destruct (recover_keys n id) as [ks|] eqn:Hr; [|apply IH; exact Hwf].
  destruct (local_goc_total _ _ g lm ks Hwf (recover_keys_length _ _ _ Hr)) as [[[g1 lm1] i1] H1]. rewrite H1. cbn [obind].
  apply IH. exact Hwf.
Qed.

(* no input crashes the orchestrator: any template accepted by NewTagBuilder, any initial ids, any
   sequence of records of the configured arity *)
Lemma orchestrator_total_lemma : forall names t parts ids nsinks ops,
  parse_template names t = Some parts ->
  Forall (fun o => length (snd o) = length names) ops ->
  exists g0 g lms is, orch_init parts (length names) ids = Ok g0 /\ run_ops parts g0 (repeat [] nsinks) ops = Ok (g, lms, is).
Proof.
  intros names t parts ids nsinks ops Hp Hall. apply parse_template_wf in Hp.
  unfold orch_init. destruct (init_ids_total _ _ ids g_init [] Hp) as [[g0 lm0] H0]. rewrite H0. cbn [obind].
  destruct (run_ops_total _ _ ops g0 (repeat [] nsinks) Hp Hall) as [[[g lms] is] H1].
  exists g0, g, lms, is. auto.
Qed.

(* ---------- a template naming every key, separated by a byte that no key contains ---------- *)

Fixpoint sep_parts_from (sep : N) (i n : nat) : list tpart :=
  match n with
  | O => []
  | S m => match m with O => [TVar i] | S _ => TVar i :: TLit [sep] :: sep_parts_from sep (S i) m end
  end.

Lemma nth_error_skipn_cons : forall (A : Type) (l : list A) i x, nth_error l i = Some x -> skipn i l = x :: skipn (S i) l.
Proof.
  induction l as [|y l IH]; intros [|i] x H; cbn in *; try discriminate.
  - inversion H. reflexivity.
  - apply IH. exact H.
Qed.

Lemma expand_sep_parts : forall sep n i keys buf, (i + n <= length keys)%nat ->
  expand_parts keys (sep_parts_from sep i n) buf = Ok (buf ++ join sep (firstn n (skipn i keys))).
Proof.
  induction n as [|m IH]; intros i keys buf Hl.
  - cbn. rewrite app_nil_r. reflexivity.
  - destruct (nth_error keys i) as [k|] eqn:Hk; [|apply nth_error_None in Hk; lia].
    rewrite (nth_error_skipn_cons _ _ _ _ Hk). destruct m as [|m'].
    + cbn [sep_parts_from expand_parts expand_part]. unfold key_at. rewrite Hk. cbn. reflexivity.
    + change (sep_parts_from sep i (S (S m'))) with (TVar i :: TLit [sep] :: sep_parts_from sep (S i) (S m')).
      cbn [expand_parts expand_part]. unfold key_at. rewrite Hk. cbn [obind].
      rewrite IH by lia. f_equal.
      destruct (nth_error keys (S i)) as [k2|] eqn:Hk2; [|apply nth_error_None in Hk2; lia].
      rewrite (nth_error_skipn_cons _ _ _ _ Hk2).
      change (firstn (S (S m')) (k :: k2 :: skipn (S (S i)) keys)) with (k :: k2 :: firstn m' (skipn (S (S i)) keys)).
      change (firstn (S m') (k2 :: skipn (S (S i)) keys)) with (k2 :: firstn m' (skipn (S (S i)) keys)).
      change (join sep (k :: k2 :: firstn m' (skipn (S (S i)) keys))) with (k ++ sep :: join sep (k2 :: firstn m' (skipn (S (S i)) keys))).
      rewrite <- !app_assoc. reflexivity.
Qed.

Lemma build_tag_sep_template : forall sep keys, keys <> [] ->
  build_tag (sep_parts_from sep 0 (length keys)) keys = Ok (join sep keys).
Proof.
  intros sep keys Hne. destruct keys as [|k [|k2 ks]]; [contradiction| |].
  - reflexivity.
  - change (length (k :: k2 :: ks)) with (S (S (length ks))).
    change (sep_parts_from sep 0 (S (S (length ks)))) with (TVar 0 :: TLit [sep] :: sep_parts_from sep 1 (S (length ks))).
    unfold build_tag.
    change (TVar 0 :: TLit [sep] :: sep_parts_from sep 1 (S (length ks))) with (sep_parts_from sep 0 (length (k :: k2 :: ks))).
    rewrite expand_sep_parts by (cbn; lia). cbn [skipn app]. rewrite firstn_all. reflexivity.
Qed.

(* such a template gives different tags to different key tuples *)
Lemma tag_injective_sep_template : forall sep ks ks' tag,
  ks <> [] -> length ks = length ks' ->
  Forall (no_sep sep) ks -> Forall (no_sep sep) ks' ->
  build_tag (sep_parts_from sep 0 (length ks)) ks = Ok tag ->
  build_tag (sep_parts_from sep 0 (length ks)) ks' = Ok tag -> ks = ks'.
Proof.
  intros sep ks ks' tag Hne Hlen H1 H2 T1 T2.
  assert (Hne' : ks' <> []) by (intros ->; destruct ks; [contradiction|discriminate]).
  rewrite build_tag_sep_template in T1 by exact Hne.
  rewrite Hlen, build_tag_sep_template in T2 by exact Hne'.
  inversion T1 as [E1]. inversion T2 as [E2].
  rewrite <- (split_on_join sep ks Hne H1), <- (split_on_join sep ks' Hne' H2), E1, E2. reflexivity.
Qed.
