(* Proofs about Model/Metrics.v (C19): the balance equations as invariants over arbitrary event lists. *)
From SV Require Import Model.Common Model.Metrics Proofs.CommonFacts.
From Coq Require Import Lia ZifyBool ZifyN ZifyNat Permutation.
Ltac Zify.zify_post_hook ::= Z.div_mod_to_equations.
Local Open Scope Z_scope.

(* ------------------------------------------------------------------------------------------ *)
(* generic: invariants of fold_left                                                             *)

Lemma fold_left_inv : forall (S E : Type) (step : S -> E -> S) (P : list E -> S -> Prop) (evs : list E) (done : list E) (s : S),
  P done s ->
  (forall d s e, P d s -> P (d ++ [e]) (step s e)) ->
  P (done ++ evs) (fold_left step evs s).
Proof.
  intros S E step P evs. induction evs as [|e evs IH]; intros done s H0 Hstep; simpl.
  - rewrite app_nil_r. exact H0.
  - replace (done ++ e :: evs) with ((done ++ [e]) ++ evs) by (rewrite <- app_assoc; reflexivity).
    apply IH; auto.
Qed.

(* ------------------------------------------------------------------------------------------ *)
(* A. input                                                                                      *)

(* independent specification: what happened, read off the event list *)
Definition ev_len (e : in_event) : Z := match e with InMalformed l => l | InParsed l _ _ _ => l end.
Definition ev_delivered (e : in_event) : bool :=
  match e with InParsed _ _ _ false => true | _ => false end.

Fixpoint sum_len (P : in_event -> bool) (evs : list in_event) : Z :=
  match evs with [] => 0 | e :: r => (if P e then ev_len e else 0) + sum_len P r end.
Fixpoint count_ev (P : in_event -> bool) (evs : list in_event) : Z :=
  match evs with [] => 0 | e :: r => (if P e then 1 else 0) + count_ev P r end.

Lemma sum_len_app : forall P a b, sum_len P (a ++ b) = sum_len P a + sum_len P b.
Proof. induction a; intros; simpl; [reflexivity|]. rewrite IHa. lia. Qed.
Lemma count_ev_app : forall P a b, count_ev P (a ++ b) = count_ev P a + count_ev P b.
Proof. induction a; intros; simpl; [reflexivity|]. rewrite IHa. lia. Qed.

Definition all_ev (e : in_event) : bool := true.

Definition in_inv (counted : bool) (evs : list in_event) (s : in_state) : Prop :=
  i_msgs s = count_ev all_ev evs /\ i_msgs_b s = sum_len all_ev evs /\
  i_out s = count_ev ev_delivered evs /\ i_out_b s = sum_len ev_delivered evs /\
  ic_pn (i_cnt s) + ic_dn (i_cnt s) = i_msgs s /\ ic_pb (i_cnt s) + ic_db (i_cnt s) = i_msgs_b s /\
  (counted = true -> ic_pn (i_cnt s) = i_out s /\ ic_pb (i_cnt s) = i_out_b s).

Lemma in_inv_run : forall counted evs, in_inv counted evs (in_run counted evs).
Proof.
  intros counted evs. unfold in_run.
  apply (fold_left_inv _ _ (in_step counted) (in_inv counted) evs [] in_init).
  - unfold in_inv, in_init; simpl. repeat split; intros; reflexivity.
  - intros d s e (H1 & H2 & H3 & H4 & H5 & H6 & H7).
    unfold in_inv. rewrite !count_ev_app, !sum_len_app. simpl.
    destruct e as [len | len ovf fired xdrop]; simpl.
    + repeat split; try lia. all: intros Hc; specialize (H7 Hc); lia.
    + destruct xdrop; simpl.
      * destruct counted; simpl; repeat split; try lia. all: intros Hc; try discriminate. all: specialize (H7 Hc); lia.
      * repeat split; try lia. all: intros Hc; specialize (H7 Hc); lia.
Qed.

(* input passed + dropped = messages handed to the parser (records and bytes), for both code variants *)
Lemma in_balance_lemma : forall counted evs,
  let s := in_run counted evs in
  ic_pn (i_cnt s) + ic_dn (i_cnt s) = count_ev all_ev evs /\
  ic_pb (i_cnt s) + ic_db (i_cnt s) = sum_len all_ev evs.
Proof. intros counted evs s. destruct (in_inv_run counted evs) as (H1 & H2 & _ & _ & H5 & H6 & _). fold s in H1, H2, H5, H6. lia. Qed.

(* after the repair: input passed = records returned to the receiver, input dropped = all the others *)
Lemma in_passed_is_delivered_lemma : forall evs,
  let s := in_run true evs in
  ic_pn (i_cnt s) = count_ev ev_delivered evs /\ ic_pb (i_cnt s) = sum_len ev_delivered evs /\
  ic_dn (i_cnt s) = count_ev (fun e => negb (ev_delivered e)) evs /\
  ic_db (i_cnt s) = sum_len (fun e => negb (ev_delivered e)) evs.
Proof.
  intros evs s. destruct (in_inv_run true evs) as (H1 & H2 & H3 & H4 & H5 & H6 & H7). fold s in H1, H2, H3, H4, H5, H6, H7.
  destruct (H7 eq_refl) as [Ha Hb].
  assert (Hc : forall l, count_ev all_ev l = count_ev ev_delivered l + count_ev (fun e => negb (ev_delivered e)) l).
  { induction l as [|e l IH]; [reflexivity|]. cbn [count_ev]. change (all_ev e) with true. destruct (ev_delivered e); cbn [negb]; lia. }
  assert (Hd : forall l, sum_len all_ev l = sum_len ev_delivered l + sum_len (fun e => negb (ev_delivered e)) l).
  { induction l as [|e l IH]; [reflexivity|]. cbn [sum_len]. change (all_ev e) with true. destruct (ev_delivered e); cbn [negb]; lia. }
  specialize (Hc evs). specialize (Hd evs). lia.
Qed.

(* the original code: a record dropped by an extraction transform stays counted as passed *)
Lemma in_uncounted_refuted_lemma :
  exists evs, ic_pn (i_cnt (in_run false evs)) <> count_ev ev_delivered evs.
Proof. exists [InParsed 74 false [label_xmarker] true]. vm_compute. discriminate. Qed.

(* ------------------------------------------------------------------------------------------ *)
(* B. flow                                                                                       *)

Definition flow_inv (s : flow) : Prop :=
  0 <= f_sink s /\ 0 <= f_cache s /\ 0 <= f_chan s /\ 0 <= f_worker s /\ 0 <= f_lost s /\
  f_delivered s = f_sink s + f_cache s + f_chan s + f_worker s + f_lost s.

Lemma flow_step_inv : forall s e s', flow_inv s -> flow_step s e = Some s' -> flow_inv s'.
Proof.
  intros s e s' (H1 & H2 & H3 & H4 & H5 & H6) Hs. unfold flow_inv.
  destruct e; simpl in Hs;
    try (destruct ((0 <=? n) && _)%bool eqn:G; [|discriminate]);
    inversion Hs; subst; simpl; lia.
Qed.

Lemma flow_run_inv : forall evs s s', flow_inv s -> flow_run s evs = Some s' -> flow_inv s'.
Proof.
  induction evs as [|e evs IH]; intros s s' Hi Hr; simpl in Hr.
  - inversion Hr; subst; exact Hi.
  - destruct (flow_step s e) eqn:Hs; [|discriminate]. eapply IH; [|exact Hr]. eapply flow_step_inv; eauto.
Qed.

(* at quiescence, with no batch lost by the channel timeout, every record returned by the parser has
   entered a pipeline worker *)
Lemma flow_conservation_lemma : forall evs s,
  flow_run flow_init evs = Some s ->
  f_delivered s = f_sink s + f_cache s + f_chan s + f_worker s + f_lost s /\
  (flow_quiet s = true -> f_lost s = 0 -> f_worker s = f_delivered s).
Proof.
  intros evs s Hr.
  assert (Hi : flow_inv s). { eapply flow_run_inv; [|exact Hr]. unfold flow_inv, flow_init; simpl. lia. }
  destruct Hi as (H1 & H2 & H3 & H4 & H5 & H6). split; [exact H6|].
  unfold flow_quiet. intros Hq Hl. lia.
Qed.

(* ------------------------------------------------------------------------------------------ *)
(* C. worker                                                                                     *)

Lemma bytes_eqb_false : forall a b, bytes_eqb a b = false <-> a <> b.
Proof.
  intros a b. split; intros H.
  - intros E. apply bytes_eqb_eq in E. congruence.
  - destruct (bytes_eqb a b) eqn:E; [|reflexivity]. apply bytes_eqb_eq in E. contradiction.
Qed.

Lemma bytes_eqb_sym : forall a b, bytes_eqb a b = bytes_eqb b a.
Proof.
  intros a b. destruct (bytes_eqb a b) eqn:E1, (bytes_eqb b a) eqn:E2; try reflexivity.
  - apply bytes_eqb_eq in E1. subst. rewrite bytes_eqb_refl in E2. discriminate.
  - apply bytes_eqb_eq in E2. subst. rewrite bytes_eqb_refl in E1. discriminate.
Qed.

(* label maps *)
Lemma lab_get_add : forall m l len l',
  lab_get (lab_add m l len) l' = if bytes_eqb l l' then cnt_add (lab_get m l) len else lab_get m l'.
Proof.
  induction m as [|[k c] m IH]; intros l len l'; simpl.
  - destruct (bytes_eqb l l'); reflexivity.
  - destruct (bytes_eqb k l) eqn:Ekl; simpl.
    + apply bytes_eqb_eq in Ekl. subst k. destruct (bytes_eqb l l'); reflexivity.
    + rewrite IH. destruct (bytes_eqb k l') eqn:Ekl'; [|reflexivity].
      apply bytes_eqb_eq in Ekl'. subst k. rewrite bytes_eqb_sym, Ekl. reflexivity.
Qed.

Fixpoint count_b (l : bytes) (ls : list bytes) : Z :=
  match ls with [] => 0 | x :: r => (if bytes_eqb x l then 1 else 0) + count_b l r end.

Lemma count_b_nonneg : forall l ls, 0 <= count_b l ls.
Proof. induction ls; simpl; [lia|]. destruct (bytes_eqb a l); lia. Qed.

Lemma lab_get_add_all : forall fired m len l,
  lab_get (lab_add_all m fired len) l =
  (fst (lab_get m l) + count_b l fired, snd (lab_get m l) + count_b l fired * len).
Proof.
  induction fired as [|x fired IH]; intros m len l; simpl.
  - destruct (lab_get m l); simpl. f_equal; lia.
  - rewrite IH, lab_get_add. destruct (bytes_eqb x l) eqn:E.
    + apply bytes_eqb_eq in E. subst x. unfold cnt_add; cbn [fst snd]. f_equal; lia.
    + f_equal; lia.
Qed.

(* key-set maps *)
Lemma kmap_get_upd : forall m mk ks f mk',
  kmap_get (kmap_upd m mk ks f) mk' =
  if bytes_eqb mk mk'
  then Some (f (match kmap_get m mk with Some v => v | None => KC ks ic0 [] end))
  else kmap_get m mk'.
Proof.
  induction m as [|[k v] m IH]; intros mk ks f mk'; simpl.
  - destruct (bytes_eqb mk mk'); reflexivity.
  - destruct (bytes_eqb k mk) eqn:Ek; simpl.
    + apply bytes_eqb_eq in Ek. subst k. destruct (bytes_eqb mk mk'); reflexivity.
    + rewrite IH. destruct (bytes_eqb k mk') eqn:Ek'; [|reflexivity].
      apply bytes_eqb_eq in Ek'. subst k. rewrite bytes_eqb_sym, Ek. reflexivity.
Qed.

Lemma kmap_sum_upd : forall (g : kcount -> Z) (delta : Z) m mk ks f,
  (forall kc, g (f kc) = g kc + delta) -> g (KC ks ic0 []) = 0 ->
  kmap_sum g (kmap_upd m mk ks f) = kmap_sum g m + delta.
Proof.
  intros g delta m mk ks f Hf H0. induction m as [|[k v] m IH]; simpl.
  - rewrite Hf, H0. lia.
  - destruct (bytes_eqb k mk); simpl; [rewrite Hf|rewrite IH]; lia.
Qed.

Definition g_n (kc : kcount) : Z := ic_pn (kc_in kc) + ic_dn (kc_in kc).
Definition g_b (kc : kcount) : Z := ic_pb (kc_in kc) + ic_db (kc_in kc).

(* pipeline passed + dropped = records entering the worker, records and bytes, whatever the map key *)
Lemma p_balance_lemma : forall mg nout evs,
  let s := p_run_mg mg nout evs in
  kmap_sum g_n (p_map s) = p_entered s /\ kmap_sum g_b (p_map s) = p_entered_b s.
Proof.
  intros mg nout evs. unfold p_run_mg.
  apply (fold_left_inv _ _ (p_step_mg mg)
           (fun _ s => kmap_sum g_n (p_map s) = p_entered s /\ kmap_sum g_b (p_map s) = p_entered_b s) evs [] (p_init nout)).
  - simpl. split; reflexivity.
  - intros d s e [H1 H2]. destruct e as [ks len fired drop | o size]; simpl; [|split; assumption].
    split.
    + rewrite (kmap_sum_upd g_n 1); [lia| |reflexivity].
      intros kc. unfold g_n; simpl. destruct drop; simpl; lia.
    + rewrite (kmap_sum_upd g_b len); [lia| |reflexivity].
      intros kc. unfold g_b; simpl. destruct drop; simpl; lia.
Qed.

(* the history variables are what they claim to be *)
Fixpoint psum (f : p_event -> Z) (evs : list p_event) : Z :=
  match evs with [] => 0 | e :: r => f e + psum f r end.
Lemma psum_app : forall f a b, psum f (a ++ b) = psum f a + psum f b.
Proof. induction a; intros; simpl; [reflexivity|]. rewrite IHa. lia. Qed.
Lemma psum_ext_in : forall f g evs, (forall e, In e evs -> f e = g e) -> psum f evs = psum g evs.
Proof.
  induction evs as [|e r IH]; intros H; simpl; [reflexivity|].
  rewrite H by (left; reflexivity). rewrite IH; [reflexivity|]. intros x Hx. apply H. right. exact Hx.
Qed.

Definition is_rec (e : p_event) : Z := match e with PRec _ _ _ _ => 1 | _ => 0 end.
Definition rec_len (e : p_event) : Z := match e with PRec _ len _ _ => len | _ => 0 end.

Lemma p_entered_lemma : forall mg nout evs,
  p_entered (p_run_mg mg nout evs) = psum is_rec evs /\ p_entered_b (p_run_mg mg nout evs) = psum rec_len evs.
Proof.
  intros mg nout evs. unfold p_run_mg.
  apply (fold_left_inv _ _ (p_step_mg mg)
           (fun d s => p_entered s = psum is_rec d /\ p_entered_b s = psum rec_len d) evs [] (p_init nout)).
  - simpl. split; reflexivity.
  - intros d s e [H1 H2]. rewrite !psum_app. destruct e; simpl; lia.
Qed.

(* ---- attribution: counters per merged key ---- *)

Section Attribution.
Variable mg : list bytes -> bytes.

(* events selected by a merged key *)
Definition sel (mk : bytes) (e : p_event) : bool :=
  match e with PRec ks _ _ _ => bytes_eqb (mg ks) mk | _ => false end.

Definition w_pn (e : p_event) : Z := match e with PRec _ _ _ false => 1 | _ => 0 end.
Definition w_pb (e : p_event) : Z := match e with PRec _ len _ false => len | _ => 0 end.
Definition w_dn (e : p_event) : Z := match e with PRec _ _ _ true => 1 | _ => 0 end.
Definition w_db (e : p_event) : Z := match e with PRec _ len _ true => len | _ => 0 end.
Definition w_ln (l : bytes) (e : p_event) : Z := match e with PRec _ _ fired _ => count_b l fired | _ => 0 end.
Definition w_lb (l : bytes) (e : p_event) : Z := match e with PRec _ len fired _ => count_b l fired * len | _ => 0 end.

Definition on (P : p_event -> bool) (w : p_event -> Z) (e : p_event) : Z := if P e then w e else 0.

Fixpoint first_keys (mk : bytes) (evs : list p_event) : option (list bytes) :=
  match evs with
  | [] => None
  | PRec ks _ _ _ :: r => if bytes_eqb (mg ks) mk then Some ks else first_keys mk r
  | _ :: r => first_keys mk r
  end.

Lemma first_keys_app : forall mk a b,
  first_keys mk (a ++ b) = match first_keys mk a with Some k => Some k | None => first_keys mk b end.
Proof.
  induction a as [|e a IH]; intros b; simpl; [reflexivity|].
  destruct e as [ks len fired drop|o size]; [|apply IH].
  destruct (bytes_eqb (mg ks) mk); [reflexivity|apply IH].
Qed.

Definition entry_ok (d : list p_event) (mk : bytes) (kc : kcount) : Prop :=
  first_keys mk d = Some (kc_keys kc) /\
  ic_pn (kc_in kc) = psum (on (sel mk) w_pn) d /\ ic_pb (kc_in kc) = psum (on (sel mk) w_pb) d /\
  ic_dn (kc_in kc) = psum (on (sel mk) w_dn) d /\ ic_db (kc_in kc) = psum (on (sel mk) w_db) d /\
  forall l, lab_get (kc_lab kc) l = (psum (on (sel mk) (w_ln l)) d, psum (on (sel mk) (w_lb l)) d).

Definition map_ok (d : list p_event) (s : pstate) : Prop :=
  forall mk, match kmap_get (p_map s) mk with
             | Some kc => entry_ok d mk kc
             | None => first_keys mk d = None /\ forall w, psum (on (sel mk) w) d = 0
             end.

Lemma on_true : forall P w e, P e = true -> on P w e = w e.
Proof. intros P w e H. unfold on. rewrite H. reflexivity. Qed.
Lemma on_false : forall P w e, P e = false -> on P w e = 0.
Proof. intros P w e H. unfold on. rewrite H. reflexivity. Qed.

Lemma map_ok_run : forall nout evs, map_ok evs (p_run_mg mg nout evs).
Proof.
  intros nout evs. unfold p_run_mg.
  apply (fold_left_inv _ _ (p_step_mg mg) map_ok evs [] (p_init nout)).
  - intros mk. simpl. split; [reflexivity|]. intros w. reflexivity.
  - intros d s e Hok mk. specialize (Hok mk).
    destruct e as [ks len fired drop | o size].
    + cbn [p_step_mg p_map]. rewrite kmap_get_upd.
      destruct (bytes_eqb (mg ks) mk) eqn:E.
      * (* this record belongs to mk *)
        apply bytes_eqb_eq in E. subst mk.
        assert (Hsel : sel (mg ks) (PRec ks len fired drop) = true) by (simpl; apply bytes_eqb_refl).
        unfold entry_ok. rewrite first_keys_app. rewrite !psum_app. cbn [psum]. rewrite !(on_true _ _ _ Hsel).
        destruct (kmap_get (p_map s) (mg ks)) as [kc|] eqn:G.
        -- destruct Hok as (Hk & H1 & H2 & H3 & H4 & H5). cbn [kc_keys kc_in kc_lab].
           rewrite Hk. split; [reflexivity|].
           destruct drop; cbn [w_pn w_pb w_dn w_db ic_pass ic_drop ic_pn ic_pb ic_dn ic_db];
             (repeat split; try lia);
             intros l; rewrite lab_get_add_all, H5; cbn [fst snd]; rewrite !psum_app; cbn [psum];
             rewrite !(on_true _ _ _ Hsel); cbn [w_ln w_lb]; apply f_equal2; lia.
        -- destruct Hok as (Hk & H0). cbn [kc_keys kc_in kc_lab].
           rewrite Hk. cbn [first_keys]. rewrite bytes_eqb_refl. split; [reflexivity|].
           destruct drop; cbn [w_pn w_pb w_dn w_db ic_pass ic_drop ic_pn ic_pb ic_dn ic_db ic0];
             (repeat split; try (rewrite H0; lia));
             intros l; rewrite lab_get_add_all; cbn [lab_get cnt0 fst snd]; rewrite !psum_app, !H0; cbn [psum];
             rewrite !(on_true _ _ _ Hsel); cbn [w_ln w_lb]; apply f_equal2; lia.
      * (* another merged key: nothing changes for mk *)
        assert (Hsel : sel mk (PRec ks len fired drop) = false) by (simpl; exact E).
        destruct (kmap_get (p_map s) mk) as [kc|] eqn:G.
        -- destruct Hok as (Hk & H1 & H2 & H3 & H4 & H5). unfold entry_ok.
           rewrite first_keys_app, Hk. rewrite !psum_app. cbn [psum]. rewrite !(on_false _ _ _ Hsel).
           repeat split; try lia.
           intros l. rewrite H5, !psum_app. cbn [psum]. rewrite !(on_false _ _ _ Hsel). apply f_equal2; lia.
        -- destruct Hok as (Hk & H0). rewrite first_keys_app, Hk. cbn [first_keys]. rewrite E.
           split; [reflexivity|]. intros w. rewrite psum_app, H0. cbn [psum]. rewrite (on_false _ _ _ Hsel). lia.
    + (* PChunk: the map is untouched *)
      cbn [p_step_mg p_map].
      assert (Hsel : sel mk (PChunk o size) = false) by reflexivity.
      destruct (kmap_get (p_map s) mk) as [kc|] eqn:G.
      * destruct Hok as (Hk & H1 & H2 & H3 & H4 & H5). unfold entry_ok.
        rewrite first_keys_app, Hk. rewrite !psum_app. cbn [psum]. cbn [on sel].
        repeat split; try lia.
        intros l. rewrite H5, !psum_app. cbn [psum]. cbn [on sel]. apply f_equal2; lia.
      * destruct Hok as (Hk & H0). rewrite first_keys_app, Hk. cbn [first_keys].
        split; [reflexivity|]. intros w. rewrite psum_app, H0. cbn [psum]. cbn [on sel]. lia.
Qed.

End Attribution.

(* ---- attribution by key TUPLE (what the property demands), under injectivity of the map key ---- *)

Fixpoint keys_eqb (a b : list bytes) : bool :=
  match a, b with
  | [], [] => true
  | x :: a', y :: b' => bytes_eqb x y && keys_eqb a' b'
  | _, _ => false
  end.

Lemma keys_eqb_eq : forall a b, keys_eqb a b = true <-> a = b.
Proof.
  induction a as [|x a IH]; intros [|y b]; simpl; split; intro H; try reflexivity; try discriminate.
  - apply andb_true_iff in H. destruct H as [H1 H2]. apply bytes_eqb_eq in H1. apply IH in H2. subst. reflexivity.
  - inversion H; subst. rewrite bytes_eqb_refl. simpl. apply IH. reflexivity.
Qed.

(* events caused by records whose own metric-key tuple is ks *)
Definition selk (ks : list bytes) (e : p_event) : bool :=
  match e with PRec ks' _ _ _ => keys_eqb ks' ks | _ => false end.

Definition keys_of (evs : list p_event) : list (list bytes) :=
  flat_map (fun e => match e with PRec ks _ _ _ => [ks] | _ => [] end) evs.

Definition inj_on (mg : list bytes -> bytes) (l : list (list bytes)) : Prop :=
  forall a b, In a l -> In b l -> mg a = mg b -> a = b.

Lemma keys_of_in : forall evs ks len fired drop, In (PRec ks len fired drop) evs -> In ks (keys_of evs).
Proof.
  induction evs as [|e evs IH]; intros ks len fired drop H; simpl in *; [contradiction|].
  apply in_or_app. destruct H as [H|H]; [subst e; left; left; reflexivity|right; eapply IH; eauto].
Qed.

Lemma first_keys_some : forall mg evs ks, In ks (keys_of evs) ->
  exists ks', first_keys mg (mg ks) evs = Some ks' /\ In ks' (keys_of evs) /\ mg ks' = mg ks.
Proof.
  intros mg. induction evs as [|e evs IH]; intros ks H; simpl in H; [contradiction|].
  destruct e as [ks0 len fired drop|o size]; simpl in *.
  - destruct (bytes_eqb (mg ks0) (mg ks)) eqn:E.
    + exists ks0. apply bytes_eqb_eq in E. auto.
    + destruct H as [H|H].
      * subst ks0. rewrite bytes_eqb_refl in E. discriminate.
      * destruct (IH ks H) as (k' & H1 & H2 & H3). exists k'. auto.
  - apply IH in H. destruct H as (k' & H1 & H2 & H3). exists k'. auto.
Qed.

(* the statement of the property for labelled counters: for every key tuple that occurs, the counter set
   selected for it carries exactly that tuple as label values and counts exactly the records with that tuple *)
Definition attributed (mg : list bytes -> bytes) (nout : nat) (evs : list p_event) (ks : list bytes) : Prop :=
  exists kc, kmap_get (p_map (p_run_mg mg nout evs)) (mg ks) = Some kc /\ kc_keys kc = ks /\
    ic_pn (kc_in kc) = psum (on (selk ks) w_pn) evs /\ ic_pb (kc_in kc) = psum (on (selk ks) w_pb) evs /\
    ic_dn (kc_in kc) = psum (on (selk ks) w_dn) evs /\ ic_db (kc_in kc) = psum (on (selk ks) w_db) evs /\
    forall l, lab_get (kc_lab kc) l = (psum (on (selk ks) (w_ln l)) evs, psum (on (selk ks) (w_lb l)) evs).

Lemma attribution_lemma : forall mg nout evs,
  inj_on mg (keys_of evs) -> forall ks, In ks (keys_of evs) -> attributed mg nout evs ks.
Proof.
  intros mg nout evs Hinj ks Hin.
  pose proof (map_ok_run mg nout evs (mg ks)) as Hok.
  destruct (first_keys_some mg evs ks Hin) as (ks' & Hf & Hin' & Hmg).
  assert (ks' = ks) by (apply Hinj; assumption). subst ks'.
  assert (Hext : forall w, psum (on (sel mg (mg ks)) w) evs = psum (on (selk ks) w) evs).
  { intros w. apply psum_ext_in. intros e He. unfold on.
    destruct e as [k0 len fired drop|o size]; simpl; [|reflexivity].
    assert (Hk0 : In k0 (keys_of evs)) by (eapply keys_of_in; eauto).
    destruct (keys_eqb k0 ks) eqn:E.
    - apply keys_eqb_eq in E. subst k0. rewrite bytes_eqb_refl. reflexivity.
    - destruct (bytes_eqb (mg k0) (mg ks)) eqn:E2; [|reflexivity].
      apply bytes_eqb_eq in E2. apply Hinj in E2; auto. subst k0.
      assert (keys_eqb ks ks = true) by (apply keys_eqb_eq; reflexivity). congruence. }
  destruct (kmap_get (p_map (p_run_mg mg nout evs)) (mg ks)) as [kc|] eqn:G.
  - destruct Hok as (Hk & H1 & H2 & H3 & H4 & H5). exists kc. split; [exact G|].
    rewrite Hf in Hk. assert (Hkk : kc_keys kc = ks) by congruence. split; [exact Hkk|].
    rewrite <- !Hext. repeat split; try assumption.
    intros l. rewrite H5, !Hext. reflexivity.
  - destruct Hok as [Hk _]. rewrite Hf in Hk. discriminate.
Qed.

(* the original map key (plain concatenation): two tuples with the same concatenation share a counter set *)
Lemma attribution_concat_refuted_lemma :
  exists evs ks, In ks (keys_of evs) /\ ~ attributed (merge_key false) 0 evs ks.
Proof.
  exists [PRec [[97;98];[99]]%N 10 [] false; PRec [[97];[98;99]]%N 20 [] true], [[97];[98;99]]%N.
  split; [simpl; auto|].
  intros (kc & Hg & Hk & _). vm_compute in Hg. inversion Hg; subst kc. vm_compute in Hk. discriminate.
Qed.

(* ---- the repaired map key (uvarint length prefix) is injective ---- *)

Lemma pow128_succ : forall f, (128 ^ N.of_nat (S f) = 128 * 128 ^ N.of_nat f)%N.
Proof. intros f. rewrite Nat2N.inj_succ, N.pow_succ_r'. reflexivity. Qed.

Lemma uvarint_fuel_inj : forall f1 f2 n1 n2 x1 x2,
  (n1 < 128 ^ N.of_nat (S f1))%N -> (n2 < 128 ^ N.of_nat (S f2))%N ->
  uvarint_fuel (S f1) n1 ++ x1 = uvarint_fuel (S f2) n2 ++ x2 -> n1 = n2 /\ x1 = x2.
Proof.
  induction f1 as [|f1 IH]; intros f2 n1 n2 x1 x2 H1 H2 He.
  - (* one byte *)
    change (128 ^ N.of_nat 1)%N with 128%N in H1.
    cbn [uvarint_fuel] in He. destruct (n1 <? 128)%N eqn:E1; [|lia].
    destruct (n2 <? 128)%N eqn:E2; cbn [app] in He; inversion He as [[Hh Ht]]; [auto|lia].
  - cbn [uvarint_fuel] in He. rewrite pow128_succ in H1.
    destruct (n1 <? 128)%N eqn:E1.
    + destruct (n2 <? 128)%N eqn:E2; cbn [app] in He; inversion He as [[Hh Ht]]; [auto|lia].
    + destruct (n2 <? 128)%N eqn:E2; [cbn [app] in He; inversion He as [[Hh Ht]]; lia|].
      destruct f2 as [|f2]; [change (128 ^ N.of_nat 1)%N with 128%N in H2; lia|].
      rewrite pow128_succ in H2.
      change (uvarint_fuel (S f1) (n1 / 128)%N) with (uvarint_fuel (S f1) (n1 / 128)%N) in He.
      cbn [app] in He. inversion He as [[Hh Ht]].
      destruct (IH f2 (n1 / 128)%N (n2 / 128)%N x1 x2) as [Hq Hx].
      * apply N.div_lt_upper_bound; lia.
      * apply N.div_lt_upper_bound; lia.
      * exact Ht.
      * split; [|exact Hx].
        rewrite (N.div_mod n1 128), (N.div_mod n2 128) by lia. rewrite Hq. f_equal. lia.
Qed.

Lemma uvarint_bound : forall n, (n < 128 ^ N.of_nat (S (N.to_nat (N.log2 n))))%N.
Proof.
  intros n. destruct (N.eq_dec n 0) as [->|Hn]; [simpl; lia|].
  rewrite Nat2N.inj_succ, N2Nat.id.
  assert (H : (n < 2 ^ N.succ (N.log2 n))%N) by (apply N.log2_spec; lia).
  eapply N.lt_le_trans; [exact H|]. apply N.pow_le_mono_l. lia.
Qed.

Lemma uvarint_inj : forall n1 n2 x1 x2, uvarint n1 ++ x1 = uvarint n2 ++ x2 -> n1 = n2 /\ x1 = x2.
Proof. intros n1 n2 x1 x2 H. unfold uvarint in H. eapply uvarint_fuel_inj; [apply uvarint_bound|apply uvarint_bound|exact H]. Qed.

Lemma uvarint_nonempty : forall n, uvarint n <> [].
Proof. intros n. unfold uvarint. cbn [uvarint_fuel]. destruct (n <? 128)%N; discriminate. Qed.

Lemma app_inj_len : forall (A : Type) (a b x y : list A), length a = length b -> a ++ x = b ++ y -> a = b /\ x = y.
Proof.
  induction a as [|h a IH]; intros [|h' b] x y Hl He; simpl in *; try discriminate.
  - auto.
  - inversion He; subst. destruct (IH b x y) as [-> ->]; auto.
Qed.

Lemma merge_lp_inj : forall a b, merge_lp a = merge_lp b -> a = b.
Proof.
  induction a as [|k a IH]; intros [|k' b] H; cbn [merge_lp] in H.
  - reflexivity.
  - destruct (uvarint (N.of_nat (length k'))) eqn:E; [apply uvarint_nonempty in E; contradiction|discriminate].
  - destruct (uvarint (N.of_nat (length k))) eqn:E; [apply uvarint_nonempty in E; contradiction|discriminate].
  - apply uvarint_inj in H. destruct H as [Hn Hr].
    apply Nat2N.inj in Hn. apply app_inj_len in Hr; [|exact Hn]. destruct Hr as [-> Hr].
    f_equal. apply IH. exact Hr.
Qed.

Lemma attribution_lp_lemma : forall nout evs ks, In ks (keys_of evs) -> attributed (merge_key true) nout evs ks.
Proof.
  intros nout evs ks H. apply attribution_lemma; [|exact H].
  intros a b _ _ Hm. apply merge_lp_inj. exact Hm.
Qed.

(* the original key: attribution holds as long as no two occurring tuples have the same concatenation *)
Lemma attribution_concat_lemma : forall nout evs,
  (forall a b, In a (keys_of evs) -> In b (keys_of evs) -> concat a = concat b -> a = b) ->
  forall ks, In ks (keys_of evs) -> attributed (merge_key false) nout evs ks.
Proof. intros nout evs H ks Hin. apply attribution_lemma; [exact H|exact Hin]. Qed.

(* ------------------------------------------------------------------------------------------ *)
(* input + workers over a stream of records: pipeline passed + dropped = input passed            *)

Definition p_bal (s : pstate) : Prop :=
  kmap_sum g_n (p_map s) = p_entered s /\ kmap_sum g_b (p_map s) = p_entered_b s.

Lemma p_bal_step : forall mg s e, p_bal s -> p_bal (p_step_mg mg s e).
Proof.
  intros mg s e [H1 H2]. unfold p_bal.
  destruct e as [ks len fired drop | o size]; cbn [p_step_mg p_map p_entered p_entered_b]; [|split; assumption].
  split.
  - rewrite (kmap_sum_upd g_n 1); [lia| |reflexivity].
    intros kc. unfold g_n; simpl. destruct drop; simpl; lia.
  - rewrite (kmap_sum_upd g_b len); [lia| |reflexivity].
    intros kc. unfold g_b; simpl. destruct drop; simpl; lia.
Qed.

Fixpoint pipes_sum (f : pstate -> Z) (ps : list (bytes * pstate)) : Z :=
  match ps with [] => 0 | (_, v) :: r => f v + pipes_sum f r end.

Lemma pipes_sum_upd : forall mg (f : pstate -> Z) (delta : Z) e m pk,
  (forall v, f (p_step_mg mg v e) = f v + delta) -> f (p_init 0) = 0 ->
  pipes_sum f (pipes_upd mg m pk e) = pipes_sum f m + delta.
Proof.
  intros mg f delta e m pk Hf H0. induction m as [|[k v] m IH]; simpl.
  - rewrite Hf, H0. lia.
  - destruct (bytes_eqb k pk); simpl; [rewrite Hf|rewrite IH]; lia.
Qed.

Lemma pipes_bal_upd : forall mg e m pk,
  Forall (fun pv => p_bal (snd pv)) m -> Forall (fun pv => p_bal (snd pv)) (pipes_upd mg m pk e).
Proof.
  intros mg e m pk H. induction m as [|[k v] m IH]; simpl.
  - constructor; [|constructor]. simpl. apply p_bal_step. split; reflexivity.
  - inversion H; subst. destruct (bytes_eqb k pk); constructor; auto. simpl in *. apply p_bal_step. assumption.
Qed.

(* a record is well formed when the worker event exists exactly for a record returned to the receiver, with the
   same raw length *)
Definition rr_wf (r : rec_run) : Prop :=
  match rr_in r, rr_p r with
  | InParsed len _ _ false, Some (PRec _ len' _ _) => len' = len
  | InParsed _ _ _ true, None => True
  | InMalformed _, None => True
  | _, _ => False
  end.

Definition pipes_total_n (ps : list (bytes * pstate)) : Z := pipes_sum (fun v => kmap_sum g_n (p_map v)) ps.
Definition pipes_total_b (ps : list (bytes * pstate)) : Z := pipes_sum (fun v => kmap_sum g_b (p_map v)) ps.

Lemma run_records_in : forall counted mg rs i0 ps0,
  fst (fold_left (rec_step counted mg) rs (i0, ps0)) = fold_left (in_step counted) (map rr_in rs) i0.
Proof.
  intros counted mg. induction rs as [|r rs IH]; intros i0 ps0; simpl; [reflexivity|].
  unfold rec_step at 2. simpl. destruct (rr_p r); apply IH.
Qed.

Lemma pipeline_equals_input_lemma : forall mg rs,
  Forall rr_wf rs ->
  let st := run_records true mg rs in
  pipes_total_n (snd st) = ic_pn (i_cnt (fst st)) /\ pipes_total_b (snd st) = ic_pb (i_cnt (fst st)).
Proof.
  intros mg rs Hwf st.
  assert (Hin : fst st = in_run true (map rr_in rs)) by (unfold st, run_records, in_run; apply run_records_in).
  destruct (in_passed_is_delivered_lemma (map rr_in rs)) as (Hpn & Hpb & _ & _).
  rewrite Hin, Hpn, Hpb.
  (* the workers have received exactly the delivered records *)
  assert (Hinv : pipes_sum p_entered (snd st) = count_ev ev_delivered (map rr_in rs) /\
                 pipes_sum p_entered_b (snd st) = sum_len ev_delivered (map rr_in rs) /\
                 Forall (fun pv => p_bal (snd pv)) (snd st)).
  { unfold st, run_records. clear Hin Hpn Hpb st.
    assert (G : forall rs (i0 : in_state) ps0 (n0 b0 : Z),
               Forall rr_wf rs ->
               pipes_sum p_entered ps0 = n0 -> pipes_sum p_entered_b ps0 = b0 ->
               Forall (fun pv => p_bal (snd pv)) ps0 ->
               let st := fold_left (rec_step true mg) rs (i0, ps0) in
               pipes_sum p_entered (snd st) = n0 + count_ev ev_delivered (map rr_in rs) /\
               pipes_sum p_entered_b (snd st) = b0 + sum_len ev_delivered (map rr_in rs) /\
               Forall (fun pv => p_bal (snd pv)) (snd st)).
    { induction rs0 as [|r rs0 IH]; intros i0 ps0 n0 b0 Hw Hn Hb Hbal; simpl.
      - repeat split; try lia. exact Hbal.
      - inversion Hw as [|? ? Hr Hw']; subst.
        unfold rec_step at 2 4 6. unfold rr_wf in Hr.
        destruct (rr_in r) as [len|len ovf fired xdrop] eqn:Ei; destruct (rr_p r) as [e|] eqn:Ep; try contradiction.
        + (* malformed *) cbn [fst snd]. 
          destruct (IH (in_step true i0 (InMalformed len)) ps0 (pipes_sum p_entered ps0) (pipes_sum p_entered_b ps0) Hw' eq_refl eq_refl Hbal) as (A & B & C).
          cbn [ev_delivered]. repeat split; try assumption; lia.
        + destruct xdrop; [contradiction|]. destruct e as [ks len' fired' drop'|]; [|contradiction]. subst len'.
          cbn [fst snd].
          destruct (IH (in_step true i0 (InParsed len ovf fired false)) (pipes_upd mg ps0 (keys_text (rr_pipe r)) (PRec ks len fired' drop'))
                      (pipes_sum p_entered ps0 + 1) (pipes_sum p_entered_b ps0 + len) Hw') as (A & B & C).
          * apply pipes_sum_upd; [intros v; reflexivity|reflexivity].
          * apply pipes_sum_upd; [intros v; reflexivity|reflexivity].
          * apply pipes_bal_upd. exact Hbal.
          * cbn [ev_delivered ev_len]. repeat split; try assumption; lia.
        + destruct xdrop; [|contradiction]. cbn [fst snd].
          destruct (IH (in_step true i0 (InParsed len ovf fired true)) ps0 (pipes_sum p_entered ps0) (pipes_sum p_entered_b ps0) Hw' eq_refl eq_refl Hbal) as (A & B & C).
          cbn [ev_delivered]. repeat split; try assumption; lia. }
    destruct (G rs in_init [] 0 0 Hwf eq_refl eq_refl (Forall_nil _)) as (A & B & C).
    repeat split; try assumption; lia. }
  destruct Hinv as (Hn & Hb & Hbal).
  unfold pipes_total_n, pipes_total_b. rewrite <- Hn, <- Hb.
  clear -Hbal. induction (snd st) as [|[k v] m IH]; simpl; [split; reflexivity|].
  inversion Hbal as [|? ? [H1 H2] Hr]; subst. simpl in H1, H2. destruct (IH Hr) as [I1 I2]. split; lia.
Qed.

(* ------------------------------------------------------------------------------------------ *)
(* D. buffer                                                                                     *)

Lemma zlen_app : forall (A : Type) (a b : list A), zlen (a ++ b) = zlen a + zlen b.
Proof. intros. unfold zlen. rewrite app_length. lia. Qed.
Lemma zlen_cons : forall (A : Type) (x : A) l, zlen (x :: l) = 1 + zlen l.
Proof. intros. unfold zlen. simpl length. lia. Qed.
Lemma zlen_nil : forall (A : Type), zlen (@nil A) = 0.
Proof. reflexivity. Qed.
Lemma zlen_nonneg : forall (A : Type) (l : list A), 0 <= zlen l.
Proof. intros. unfold zlen. lia. Qed.

Fixpoint nsaved (l : list chunk) : Z :=
  match l with [] => 0 | c :: r => bool_Z (ch_saved c) + nsaved r end.
Definition nsaved_opt (o : option chunk) : Z := match o with Some c => bool_Z (ch_saved c) | None => 0 end.

Lemma nsaved_app : forall a b, nsaved (a ++ b) = nsaved a + nsaved b.
Proof. induction a; intros; simpl; [reflexivity|]. rewrite IHa. lia. Qed.

Lemma take_id_spec : forall id l c r, take_id id l = Some (c, r) ->
  zlen l = zlen r + 1 /\ nsaved l = nsaved r + bool_Z (ch_saved c) /\ ch_id c = id.
Proof.
  induction l as [|x l IH]; intros c r H; simpl in H; [discriminate|].
  destruct (ch_id x =? id) eqn:E.
  - inversion H; subst. rewrite zlen_cons. cbn [nsaved]. repeat split; lia.
  - destruct (take_id id l) as [[y r']|] eqn:T; [|discriminate]. inversion H; subst.
    destruct (IH _ _ eq_refl) as (A & B & C). rewrite !zlen_cons. cbn [nsaved]. repeat split; lia.
Qed.

Definition all_saved (l : list chunk) : Prop := Forall (fun c => ch_saved c = true) l.

Lemma all_saved_snoc : forall l c, all_saved l -> ch_saved c = true -> all_saved (l ++ [c]).
Proof. intros l c H Hc. apply Forall_app. split; [exact H|]. constructor; [exact Hc|constructor]. Qed.

Record b_inv (cfg : bcfg) (n0 : Z) (s : bstate) : Prop := {
  bi_pending : m_pending (b_m s) = b_holdings s;
  bi_balance : m_in_t (b_m s) + m_in_p (b_m s) = m_consumed (b_m s) + m_leftover (b_m s) + m_dropped (b_m s) + m_pending (b_m s);
  bi_input : m_in_t (b_m s) + m_in_p (b_m s) = b_accepted s + b_recovered s;
  bi_parked : all_saved (b_parked s);
  bi_left : all_saved (b_left s);
  bi_leftover : m_leftover (b_m s) = zlen (b_left s) + zlen (b_lost s);
  bi_fix5 : bc_fix5 cfg = true -> b_lost s = [];
  bi_files : b_nfiles s = (n0 - b_recovered s) + nsaved (b_queue s) + nsaved_opt (b_hand s) + nsaved (b_window s)
                          + nsaved (b_held s) + nsaved (b_parked s) + zlen (b_left s) + b_orphans s;
  bi_done : b_phase s = BDone -> b_queue s = [] /\ b_hand s = None /\ b_window s = [] /\ b_held s = []
}.

Lemma b_init_inv : forall cfg n0, b_inv cfg n0 (b_init n0).
Proof. intros cfg n0. constructor; simpl; intros; try reflexivity; try (constructor; fail); rewrite ?zlen_nil; try lia; try discriminate. Qed.

Ltac b_crunch :=
  repeat match goal with
  | H : context [if ?c then _ else _] |- _ => destruct c eqn:?
  | H : context [match ?x with _ => _ end] |- _ => destruct x eqn:?
  | H : Some _ = Some _ |- _ => inversion H; clear H; subst
  | H : (_, _) = (_, _) |- _ => inversion H; clear H; subst
  | H : None = Some _ |- _ => discriminate H
  | H : Some _ = None |- _ => discriminate H
  end.

Lemma b_step_inv : forall cfg n0 s e s', b_inv cfg n0 s -> b_step cfg s e = Some s' -> b_inv cfg n0 s'.
Proof.
  intros cfg n0 s e s' Hi Hs.
  destruct Hi as [I1 I2 I3 I4 I5 I6 I7 I8 I9].
  unfold b_holdings in *.
  destruct s as [[mp mt mpe mc ml md mpc mpb mio] q h w held parked left lost nf orph ph acc rcv].
  cbn [b_m b_queue b_hand b_window b_held b_parked b_left b_lost b_nfiles b_orphans b_phase b_accepted b_recovered
       m_pending m_in_t m_in_p m_consumed m_leftover m_dropped m_pchunks m_pbytes m_ioerr] in *.
  destruct e; unfold b_step in Hs; unfold save_chunk, op_unload, op_remove, man_dropped, m_resolve, m_input, set_m in Hs;
    cbn [b_m b_queue b_hand b_window b_held b_parked b_left b_lost b_nfiles b_orphans b_phase b_accepted b_recovered
       m_pending m_in_t m_in_p m_consumed m_leftover m_dropped m_pchunks m_pbytes m_ioerr ch_saved ch_loaded ch_size ch_id] in Hs;
    destruct ph; cbn [running feeding] in Hs; try discriminate;
    b_crunch; try discriminate.
  all: try (match goal with H : take_id _ _ = Some _ |- _ => apply take_id_spec in H; destruct H as (? & ? & ?) end).
  all: constructor; unfold b_holdings; cbn [b_m b_queue b_hand b_window b_held b_parked b_left b_lost b_nfiles b_orphans b_phase b_accepted b_recovered
        m_pending m_in_t m_in_p m_consumed m_leftover m_dropped m_pchunks m_pbytes m_ioerr ch_saved ch_id ch_size ch_loaded];
       rewrite ?zlen_app, ?nsaved_app, ?zlen_cons, ?zlen_nil in *; cbn [nsaved nsaved_opt len_opt bool_Z ch_saved] in *;
       try assumption; try discriminate; try lia;
       try (apply all_saved_snoc; [assumption|first [assumption|reflexivity]]);
       try (intros; discriminate).
  all: repeat match goal with
       | |- context [bool_Z (ch_saved ?c)] => destruct (ch_saved c) eqn:?
       | H : context [bool_Z (ch_saved ?c)] |- _ => destruct (ch_saved c) eqn:?
       end; cbn [bool_Z negb andb] in *; try discriminate; try lia.
  all: try (intros Hf; first [congruence | apply I7; first [assumption | reflexivity | congruence]]).
  all: intros _; repeat split; reflexivity.
Qed.

Lemma b_run_inv : forall cfg n0 evs s s', b_inv cfg n0 s -> b_run cfg s evs = Some s' -> b_inv cfg n0 s'.
Proof.
  intros cfg n0. induction evs as [|e evs IH]; intros s s' Hi Hr; simpl in Hr.
  - inversion Hr; subst; exact Hi.
  - destruct (b_step cfg s e) eqn:Hs; [|discriminate]. eapply IH; [|exact Hr]. eapply b_step_inv; eauto.
Qed.

(* accepted = delivered + left on disk + dropped + still pending, in every reachable state *)
Lemma buffer_balance_lemma : forall cfg n0 evs s,
  b_run cfg (b_init n0) evs = Some s ->
  m_in_t (b_m s) + m_in_p (b_m s) = m_consumed (b_m s) + m_leftover (b_m s) + m_dropped (b_m s) + m_pending (b_m s) /\
  m_in_t (b_m s) + m_in_p (b_m s) = b_accepted s + b_recovered s /\
  m_pending (b_m s) = b_holdings s.
Proof.
  intros cfg n0 evs s Hr. destruct (b_run_inv cfg n0 evs _ _ (b_init_inv cfg n0) Hr) as [I1 I2 I3 _ _ _ _ _ _]. auto.
Qed.

Lemma nsaved_all : forall l, all_saved l -> nsaved l = zlen l.
Proof.
  induction l as [|c l IH]; intros H; [reflexivity|]. inversion H; subst.
  rewrite zlen_cons. cbn [nsaved]. rewrite H2, IH by assumption. simpl. lia.
Qed.

(* after Destroy has completed: nothing is in the queues or with the consumer; what is still counted in
   pending_chunks are exactly the chunks saved by the feeder at shutdown, each of them a file *)
Lemma buffer_done_lemma : forall cfg n0 evs s,
  b_run cfg (b_init n0) evs = Some s -> b_phase s = BDone ->
  m_pending (b_m s) = zlen (b_parked s) /\ all_saved (b_parked s) /\
  b_accepted s + b_recovered s = m_consumed (b_m s) + m_leftover (b_m s) + m_dropped (b_m s) + zlen (b_parked s) /\
  b_nfiles s = (n0 - b_recovered s) + zlen (b_parked s) + zlen (b_left s) + b_orphans s.
Proof.
  intros cfg n0 evs s Hr Hd.
  destruct (b_run_inv cfg n0 evs _ _ (b_init_inv cfg n0) Hr) as [I1 I2 I3 I4 I5 I6 I7 I8 I9].
  destruct (I9 Hd) as (Hq & Hh & Hw & Hheld). unfold b_holdings in I1. rewrite Hq, Hh, Hw, Hheld in *.
  cbn [nsaved nsaved_opt len_opt] in *. rewrite zlen_nil in *. rewrite (nsaved_all _ I4) in I8.
  repeat split; try assumption; lia.
Qed.

(* "pending = 0 after Destroy" does NOT hold: a chunk saved by the feeder at shutdown stays counted *)
Definition bcfg_std (fix5 : bool) : bcfg := BC true 1000000 8 4 fix5.

Lemma pending_zero_after_destroy_refuted_lemma :
  exists evs s, b_run (bcfg_std false) (b_init 0) evs = Some s /\ b_phase s = BDone /\ m_pending (b_m s) <> 0.
Proof.
  exists [BAccept 1 10 false true; BDestroy; BFeedTake; BFeedAbort; BSaveLast true; BFinish].
  eexists. split; [vm_compute; reflexivity|]. split; [reflexivity|]. vm_compute. discriminate.
Qed.

(* original OnChunkLeftover: a hand-back that cannot be stored is counted as leftover although the chunk is
   nowhere (finding of C03, repaired there) *)
Lemma leftover_lost_refuted_lemma :
  exists cfg evs s, bc_fix5 cfg = false /\ b_run cfg (b_init 0) evs = Some s /\
    m_leftover (b_m s) = 1 /\ b_left s = [] /\ b_nfiles s = 0 /\ b_holdings s = 0.
Proof.
  exists (BC false 1000000 8 4 false), [BAccept 1 10 false true; BFeedTake; BFeedPush; BTake; BLeftover 1 true].
  eexists. split; [reflexivity|]. split; [vm_compute; reflexivity|]. vm_compute. repeat split; reflexivity.
Qed.

(* with the repair every chunk counted as leftover is on disk *)
Lemma leftover_on_disk_lemma : forall cfg n0 evs s,
  bc_fix5 cfg = true -> b_run cfg (b_init n0) evs = Some s ->
  m_leftover (b_m s) = zlen (b_left s) /\ all_saved (b_left s).
Proof.
  intros cfg n0 evs s Hf Hr.
  destruct (b_run_inv cfg n0 evs _ _ (b_init_inv cfg n0) Hr) as [_ _ _ _ I5 I6 I7 _ _].
  rewrite (I7 Hf), zlen_nil in I6. split; [lia|exact I5].
Qed.



(* ------------------------------------------------------------------------------------------ *)
(* persistent_chunks gauge = the saved chunks the buffer knows about, as long as no unlink fails   *)

Definition unlink_ok (e : b_event) : bool :=
  match e with
  | BFeedLoad _ ul => ul
  | BConsumed _ ul => ul
  | _ => true
  end.

Lemma nsaved_nonneg : forall l, 0 <= nsaved l.
Proof. induction l as [|c l IH]; cbn [nsaved]; [lia|]. unfold bool_Z. destruct (ch_saved c); lia. Qed.

Definition pg_inv (cfg : bcfg) (s : bstate) : Prop :=
  m_pchunks (b_m s) = nsaved (b_queue s) + nsaved_opt (b_hand s) + nsaved (b_window s) + nsaved (b_held s)
                      + nsaved (b_parked s) + zlen (b_left s) /\
  (bc_dir cfg = false -> nsaved (b_queue s) + nsaved_opt (b_hand s) + nsaved (b_window s) + nsaved (b_held s) = 0) /\
  all_saved (b_left s).

Lemma pg_step : forall cfg s e s', pg_inv cfg s -> unlink_ok e = true -> b_step cfg s e = Some s' -> pg_inv cfg s'.
Proof.
  intros cfg s e s' (P1 & P2 & P3) Hu Hs. unfold pg_inv in *.
  destruct s as [[mp mt mpe mc ml md mpc mpb mio] q h w held parked left lost nf orph ph acc rcv].
  cbn [b_m b_queue b_hand b_window b_held b_parked b_left b_lost b_nfiles b_orphans b_phase b_accepted b_recovered
       m_pending m_in_t m_in_p m_consumed m_leftover m_dropped m_pchunks m_pbytes m_ioerr] in *.
  pose proof (nsaved_nonneg q). pose proof (nsaved_nonneg w). pose proof (nsaved_nonneg held).
  assert (0 <= nsaved_opt h) by (destruct h as [c0|]; unfold nsaved_opt, bool_Z; [destruct (ch_saved c0)|]; lia).
  destruct (bc_dir cfg) eqn:Hdir; [clear P2|specialize (P2 eq_refl)].
  all: destruct e; cbn [unlink_ok] in Hu; subst; unfold b_step in Hs; unfold save_chunk, op_unload, op_remove, man_dropped, m_resolve, m_input, set_m in Hs;
    cbn [b_m b_queue b_hand b_window b_held b_parked b_left b_lost b_nfiles b_orphans b_phase b_accepted b_recovered
       m_pending m_in_t m_in_p m_consumed m_leftover m_dropped m_pchunks m_pbytes m_ioerr ch_saved ch_loaded ch_size ch_id] in Hs;
    destruct ph; cbn [running feeding] in Hs; try discriminate;
    b_crunch; try discriminate.
  all: try (match goal with H : take_id _ _ = Some _ |- _ => apply take_id_spec in H; destruct H as (? & ? & ?) end).
  all: cbn [b_m b_queue b_hand b_window b_held b_parked b_left b_lost m_pchunks ch_saved];
       rewrite ?zlen_app, ?nsaved_app, ?zlen_cons, ?zlen_nil in *; cbn [nsaved nsaved_opt bool_Z ch_saved] in *.
  all: repeat match goal with
       | |- context [bool_Z (ch_saved ?c)] => destruct (ch_saved c) eqn:?
       | H : context [bool_Z (ch_saved ?c)] |- _ => destruct (ch_saved c) eqn:?
       end; cbn [bool_Z negb andb] in *; try discriminate.
  all: repeat split; try lia; try assumption;
       try (apply all_saved_snoc; [assumption|first [assumption|reflexivity]]);
       try (intros Hd; discriminate).
  all: try (intros _).
  all: repeat match goal with
       | l : list chunk |- _ => lazymatch goal with H : 0 <= nsaved l |- _ => fail | _ => pose proof (nsaved_nonneg l) end
       end; try lia.
  all: rewrite Hdir in *; cbn [negb andb] in *; try discriminate;
       repeat match goal with H : _ && false = true |- _ => rewrite andb_false_r in H; discriminate end.
  all: exfalso; rewrite !andb_false_r, ?andb_false_l in Heqb; simpl in Heqb;
       repeat rewrite andb_false_r in Heqb; discriminate.
Qed.

Lemma pg_run : forall cfg evs s s', pg_inv cfg s -> forallb unlink_ok evs = true -> b_run cfg s evs = Some s' -> pg_inv cfg s'.
Proof.
  intros cfg. induction evs as [|e evs IH]; intros s s' Hi Hu Hr; simpl in Hr, Hu.
  - inversion Hr; subst; exact Hi.
  - apply andb_true_iff in Hu. destruct Hu as [Hu1 Hu2].
    destruct (b_step cfg s e) eqn:Hs; [|discriminate]. eapply IH; [|exact Hu2|exact Hr]. eapply pg_step; eauto.
Qed.

(* persistent_chunks = the saved chunks the buffer still knows (queued, with the feeder, in the window, with the
   consumer, saved at shutdown, handed back), as long as no unlink failed; with the file count of the buffer
   invariant: persistent_chunks = files - (files never recovered) - (files of dropped chunks) *)
Lemma persistent_gauge_lemma : forall cfg n0 evs s,
  forallb unlink_ok evs = true -> b_run cfg (b_init n0) evs = Some s ->
  m_pchunks (b_m s) = b_nfiles s - (n0 - b_recovered s) - b_orphans s.
Proof.
  intros cfg n0 evs s Hu Hr.
  assert (Hpg : pg_inv cfg s).
  { eapply pg_run; [|exact Hu|exact Hr]. unfold pg_inv, b_init; simpl. repeat split; try reflexivity; constructor. }
  destruct Hpg as (P1 & _ & _).
  destruct (b_run_inv cfg n0 evs _ _ (b_init_inv cfg n0) Hr) as [_ _ _ _ _ _ _ I8 _].
  lia.
Qed.


(* ------------------------------------------------------------------------------------------ *)
(* E. client                                                                                     *)

Definition sending_Z (p : cphase) : Z := match p with CSending _ => 1 | _ => 0 end.
Definition sent_Z (p : cphase) : Z := match p with CSent _ => 1 | _ => 0 end.
Definition idle_stage (p : cphase) : bool := match p with CRecovery | CNormal => true | _ => false end.

Record c_inv (s : cstate) : Prop := {
  ci_bug : 0 <= c_bug s;
  ci_unacked_nonneg : 0 <= c_unacked_total s;
  ci_gpack : c_bug s = 0 -> k_gpack (c_m s) = zlen (c_achan s) + zlen (c_pmap s);
  ci_gleft : k_gleft (c_m s) = zlen (c_left s) + c_dups s;
  ci_fwd : c_bug s = 0 -> k_fwd_n (c_m s) = k_ack_n (c_m s) + c_unacked_total s + zlen (c_achan s) + zlen (c_pmap s);
  ci_attempts : k_attempts (c_m s) = c_completed s + c_failed s + sending_Z (c_phase s);
  ci_completed : k_fwd_n (c_m s) + sent_Z (c_phase s) <= c_completed s;
  ci_ack : k_ack_n (c_m s) = c_cb_consumed s;
  ci_taken : c_bug s = 0 -> c_taken s = c_cb_consumed s + c_cb_left s + c_holdings s + c_dups s;
  ci_snapshot : in_session (c_phase s) = true -> c_acker s = AEnded -> c_unacked s = c_pmap s;
  ci_last : idle_stage (c_phase s) = true -> c_last s = None;
  ci_outside : in_session (c_phase s) = false -> c_achan s = [] /\ c_pmap s = [] /\ c_last s = None;
  ci_stopped : c_phase s = CStopped -> c_left s = [];
  ci_failed_nonneg : 0 <= c_failed s
}.

Lemma c_init_inv : c_inv c_init.
Proof. constructor; simpl; intros; try reflexivity; try lia; try discriminate; auto. Qed.

Lemma next_phase_outside : forall n, in_session (next_phase n) = false.
Proof. intros [|[|n]]; reflexivity. Qed.
Lemma next_phase_sending : forall n, sending_Z (next_phase n) = 0 /\ sent_Z (next_phase n) = 0 /\ idle_stage (next_phase n) = false.
Proof. intros [|[|n]]; repeat split; reflexivity. Qed.

Lemma zlen_opt_list : forall (A : Type) (o : option A), zlen (opt_list o) = len_opt o.
Proof. intros A [a|]; reflexivity. Qed.

Lemma next_phase_not_stopped : forall n, next_phase n <> CStopped.
Proof. intros [|[|n]]; discriminate. Qed.

Lemma c_step_inv : forall cfg s e s', c_inv s -> c_step cfg s e = Some s' -> c_inv s'.
Proof.
  intros cfg s e s' Hi Hs.
  destruct Hi as [J1 J2 J3 J4 J5 J6 J7 J8 J9 J10 J11 J12 J13 J14].
  unfold c_holdings in *.
  destruct s as [[ka kfn kfb kan kab ko ke kgl kgp] ph ak left last achan pmap unacked stop taken completed failed utot cbc cbl dups bug].
  cbn [c_m c_phase c_acker c_left c_last c_achan c_pmap c_unacked c_stop c_taken c_completed c_failed c_unacked_total c_cb_consumed c_cb_left c_dups c_bug
       k_attempts k_fwd_n k_fwd_b k_ack_n k_ack_b k_opened k_errors k_gleft k_gpack] in *.
  destruct e; unfold c_step in Hs; unfold collect, set_phase, set_cm, set_acker, km_error, km_opening, km_forwarding, km_forwarded,
      km_acknowledged, km_popped, km_session_ended in Hs;
    cbn [c_m c_phase c_acker c_left c_last c_achan c_pmap c_unacked c_stop c_taken c_completed c_failed c_unacked_total c_cb_consumed c_cb_left c_dups c_bug
       k_attempts k_fwd_n k_fwd_b k_ack_n k_ack_b k_opened k_errors k_gleft k_gpack] in Hs;
    destruct ph; try discriminate; cbn [in_session] in Hs; b_crunch; try discriminate.
  all: try (match goal with H : take_id _ _ = Some _ |- _ => apply take_id_spec in H; destruct H as (? & _ & _) end).
  all: cbn [in_session idle_stage sending_Z sent_Z] in *.
  all: try (destruct (J12 eq_refl) as (Ha & Hp & Hl); subst).
  all: try (specialize (J11 eq_refl); subst).
  all: try (specialize (J10 eq_refl eq_refl); subst).
  all: constructor; unfold c_holdings;
       cbn [c_m c_phase c_acker c_left c_last c_achan c_pmap c_unacked c_stop c_taken c_completed c_failed c_unacked_total c_cb_consumed c_cb_left c_dups c_bug
            k_attempts k_fwd_n k_fwd_b k_ack_n k_ack_b k_opened k_errors k_gleft k_gpack in_session idle_stage sending_Z sent_Z opt_list len_opt];
       rewrite ?zlen_app, ?zlen_cons, ?zlen_nil, ?zlen_opt_list in *; cbn [len_opt] in *.
  all: try match goal with
       | |- context [next_phase ?n] =>
         let q := fresh "q" in
         pose proof (next_phase_outside n); pose proof (next_phase_not_stopped n); destruct (next_phase_sending n) as (? & ? & ?);
         remember (next_phase n) as q
       end.
  all: repeat match goal with
       | l : list chunk |- _ => lazymatch goal with H : 0 <= zlen l |- _ => fail | _ => pose proof (zlen_nonneg _ l) end
       end.
  all: intros;
       repeat match goal with H : ?b = 0 -> _ |- _ => first [ specialize (H ltac:(lia)) | clear H ] end;
       try lia; try congruence; try reflexivity; try (repeat split; (reflexivity || assumption || congruence)); auto.
Qed.

Lemma c_run_inv : forall cfg evs s s', c_inv s -> c_run cfg s evs = Some s' -> c_inv s'.
Proof.
  intros cfg. induction evs as [|e evs IH]; intros s s' Hi Hr; simpl in Hr.
  - inversion Hr; subst; exact Hi.
  - destruct (c_step cfg s e) eqn:Hs; [|discriminate]. eapply IH; [|exact Hr]. eapply c_step_inv; eauto.
Qed.

(* the client's counters in every reachable state (the acknowledger contract "Close makes pending operations
   return" is the hypothesis c_bug = 0: the BUG branch of collectLeftovers was never taken) *)
Lemma client_invariants_lemma : forall cfg evs s,
  c_run cfg c_init evs = Some s -> c_bug s = 0 ->
  k_fwd_n (c_m s) = k_ack_n (c_m s) + c_unacked_total s + zlen (c_achan s) + zlen (c_pmap s) /\
  k_gpack (c_m s) = zlen (c_achan s) + zlen (c_pmap s) /\
  k_gleft (c_m s) = zlen (c_left s) + c_dups s /\
  k_attempts (c_m s) = c_completed s + c_failed s + sending_Z (c_phase s) /\
  k_fwd_n (c_m s) <= c_completed s /\ k_ack_n (c_m s) <= k_fwd_n (c_m s) /\
  k_ack_n (c_m s) = c_cb_consumed s /\
  c_taken s = c_cb_consumed s + c_cb_left s + c_holdings s + c_dups s.
Proof.
  intros cfg evs s Hr Hb.
  destruct (c_run_inv cfg evs _ _ c_init_inv Hr) as [J1 J2 J3 J4 J5 J6 J7 J8 J9 J10 J11 J12 J13 J14].
  specialize (J3 Hb). specialize (J5 Hb). specialize (J9 Hb).
  pose proof (zlen_nonneg _ (c_achan s)). pose proof (zlen_nonneg _ (c_pmap s)).
  assert (0 <= sent_Z (c_phase s)) by (destruct (c_phase s); simpl; lia).
  repeat split; try assumption; lia.
Qed.

(* at the end of run(): nothing is held; with distinct chunk ids (no duplicate removed) the gauges are zero *)
Lemma client_final_lemma : forall cfg evs s,
  c_run cfg c_init evs = Some s -> c_phase s = CStopped -> c_bug s = 0 ->
  c_holdings s = 0 /\
  k_fwd_n (c_m s) = k_ack_n (c_m s) + c_unacked_total s /\
  k_gpack (c_m s) = 0 /\ k_gleft (c_m s) = c_dups s /\
  k_attempts (c_m s) = c_completed s + c_failed s /\
  c_taken s = c_cb_consumed s + c_cb_left s + c_dups s.
Proof.
  intros cfg evs s Hr Hp Hb.
  destruct (c_run_inv cfg evs _ _ c_init_inv Hr) as [J1 J2 J3 J4 J5 J6 J7 J8 J9 J10 J11 J12 J13 J14].
  specialize (J3 Hb). specialize (J5 Hb). specialize (J9 Hb).
  rewrite Hp in *. destruct (J12 eq_refl) as (Ha & Hpm & Hl).
  unfold c_holdings in *. rewrite Ha, Hpm, Hl in *. rewrite zlen_nil in *. cbn [len_opt sending_Z] in *.
  assert (Hleft : c_left s = []) by (apply J13; reflexivity).
  rewrite Hleft, zlen_nil in *. repeat split; lia.
Qed.


(* the acknowledger contract is needed: if the acknowledger does not end in time (BUG branch of
   collectLeftovers) the chunks it holds are forgotten and the pendingAck gauge never returns to zero *)
Lemma acker_stuck_refuted_lemma :
  exists evs s, c_run (CC 3) c_init evs = Some s /\ c_phase s = CStopped /\ c_bug s = 1 /\
                k_gpack (c_m s) = 1 /\ c_taken s = 1 /\ c_cb_consumed s + c_cb_left s = 0.
Proof.
  exists [COpen; COpenOk; CRecoveryDone; CTake (CH 1 10 false true); CSendOk; CQueue; AckerTake; CStop; CInputClosed;
          CCollectBug; CFinish].
  eexists. split; [vm_compute; reflexivity|]. vm_compute. repeat split; reflexivity.
Qed.

(* ------------------------------------------------------------------------------------------ *)
(* F. system: buffer + client                                                                    *)

Lemma b_internal_frame : forall cfg s e s', b_internal e = true -> b_step cfg s e = Some s' ->
  m_consumed (b_m s') = m_consumed (b_m s) /\ m_leftover (b_m s') = m_leftover (b_m s) /\ b_held s' = b_held s /\
  (b_phase s' = BDone -> b_phase s = BDone).
Proof.
  intros cfg s e s' Hint Hs.
  destruct s as [[mp mt mpe mc ml md mpc mpb mio] q h w held parked left lost nf orph ph acc rcv].
  destruct e; try discriminate; unfold b_step in Hs; unfold save_chunk, op_unload, op_remove, man_dropped, m_resolve, m_input, set_m in Hs;
    cbn [b_m b_queue b_hand b_window b_held b_parked b_left b_lost b_nfiles b_orphans b_phase b_accepted b_recovered
       m_pending m_in_t m_in_p m_consumed m_leftover m_dropped m_pchunks m_pbytes m_ioerr ch_saved ch_loaded ch_size ch_id] in Hs;
    destruct ph; cbn [running feeding] in Hs; try discriminate;
    b_crunch; try discriminate; cbn; repeat split; auto; try discriminate; try lia.
Qed.

Lemma c_internal_frame : forall cfg s e s', c_internal e = true -> c_step cfg s e = Some s' ->
  c_taken s' = c_taken s /\ c_cb_consumed s' = c_cb_consumed s /\ c_cb_left s' = c_cb_left s /\
  (c_phase s = CStopped -> c_phase s' = CStopped).
Proof.
  intros cfg s e s' Hint Hs.
  destruct s as [[ka kfn kfb kan kab ko ke kgl kgp] ph ak left last achan pmap unacked stop taken completed failed utot cbc cbl dups bug].
  destruct e; try discriminate; unfold c_step in Hs; unfold collect, set_phase, set_cm, set_acker in Hs;
    cbn [c_m c_phase c_acker c_left c_last c_achan c_pmap c_unacked c_stop c_taken c_completed c_failed c_unacked_total c_cb_consumed c_cb_left c_dups c_bug] in Hs;
    destruct ph; try discriminate; cbn [in_session] in Hs; b_crunch; try discriminate; cbn; repeat split; auto; try discriminate; try lia.
Qed.

Record sys_inv (bc : bcfg) (n0 : Z) (s : sys) : Prop := {
  si_b : b_inv bc n0 (s_b s);
  si_c : c_inv (s_c s);
  si_consumed : m_consumed (b_m (s_b s)) = c_cb_consumed (s_c s);
  si_held : zlen (b_held (s_b s)) = c_taken (s_c s) - c_cb_consumed (s_c s) - c_cb_left (s_c s);
  si_leftover : bc_fix5 bc = false -> m_leftover (b_m (s_b s)) = c_cb_left (s_c s);
  si_done : b_phase (s_b s) = BDone -> c_phase (s_c s) = CStopped
}.

Lemma sys_init_inv : forall bc n0, sys_inv bc n0 (sys_init n0).
Proof.
  intros bc n0. constructor; simpl; try reflexivity; try discriminate.
  - apply b_init_inv.
  - apply c_init_inv.
Qed.

Lemma sys_step_inv : forall bc cc n0 s e s', sys_inv bc n0 s -> sys_step bc cc s e = Some s' -> sys_inv bc n0 s'.
Proof.
  intros bc cc n0 [b c] e s' [Hb Hc L1 L2 L3 L4] Hs. cbn [s_b s_c] in *.
  destruct e as [be|ce| |oid ul|wr| | |]; cbn [sys_step s_b s_c] in Hs.
  - (* buffer-internal *)
    destruct (b_internal be) eqn:Hi; [|discriminate].
    destruct (b_step bc b be) as [b'|] eqn:Hbs; [|discriminate]. inversion Hs; subst s'; clear Hs.
    destruct (b_internal_frame _ _ _ _ Hi Hbs) as (F1 & F2 & F3 & F4).
    constructor; cbn [s_b s_c]; try (eapply b_step_inv; eauto); try assumption; try congruence; auto.
    intros Hf. rewrite F2. auto.
  - (* client-internal *)
    destruct (c_internal ce) eqn:Hi; [|discriminate].
    destruct (c_step cc c ce) as [c'|] eqn:Hcs; [|discriminate]. inversion Hs; subst s'; clear Hs.
    destruct (c_internal_frame _ _ _ _ Hi Hcs) as (F1 & F2 & F3 & F4).
    constructor; cbn [s_b s_c]; try (eapply c_step_inv; eauto); try assumption; try congruence; auto.
    all: try (intros Hf; rewrite F3; auto).
  - (* STake *)
    destruct (b_window b) as [|x w] eqn:Hw; [discriminate|].
    destruct (b_step bc b BTake) as [b'|] eqn:Hbs; [|discriminate].
    destruct (c_step cc c (CTake x)) as [c'|] eqn:Hcs; [|discriminate]. inversion Hs; subst s'; clear Hs.
    assert (Hb' := b_step_inv _ _ _ _ _ Hb Hbs). assert (Hc' := c_step_inv _ _ _ _ Hc Hcs).
    unfold b_step in Hbs. rewrite Hw in Hbs. destruct (b_phase b) eqn:Hph; try discriminate; inversion Hbs; subst b'; clear Hbs.
    all: unfold c_step in Hcs; destruct (c_phase c) eqn:Hcp; try discriminate; inversion Hcs; subst c'; clear Hcs.
    all: constructor; cbn [s_b s_c b_m b_held b_phase c_taken c_cb_consumed c_cb_left c_phase] in *; try assumption; try discriminate.
    all: rewrite ?zlen_app, ?zlen_cons, ?zlen_nil; lia.
  - (* SAck *)
    destruct (c_acker c) as [|cur|] eqn:Hak; try discriminate.
    set (id := match oid with Some i => i | None => ch_id cur end) in *.
    destruct (take_id id (c_pmap c)) as [[x pm]|] eqn:Ht.
    + destruct (c_step cc c (AckRead oid)) as [c'|] eqn:Hcs; [|discriminate].
      destruct (b_step bc b (BConsumed id ul)) as [b'|] eqn:Hbs; [|discriminate]. inversion Hs; subst s'; clear Hs.
      assert (Hb' := b_step_inv _ _ _ _ _ Hb Hbs). assert (Hc' := c_step_inv _ _ _ _ Hc Hcs).
      unfold c_step in Hcs. rewrite Hak in Hcs. destruct (in_session (c_phase c)) eqn:Hsess; [|discriminate].
      fold id in Hcs. rewrite Ht in Hcs. inversion Hcs; subst c'; clear Hcs.
      unfold b_step in Hbs. destruct (take_id id (b_held b)) as [[y held']|] eqn:Hth.
      * apply take_id_spec in Hth. destruct Hth as (Hlen & _ & _).
        destruct (b_phase b) eqn:Hph; try discriminate; destruct (op_remove bc (b_m b) y ul) as [[m1 rm] orph] eqn:Hrm;
          inversion Hbs; subst b'; clear Hbs.
        all: assert (Hm1 : m_consumed m1 = m_consumed (b_m b) /\ m_leftover m1 = m_leftover (b_m b))
               by (unfold op_remove in Hrm; b_crunch; split; reflexivity).
        all: destruct Hm1 as [Hm1 Hm2].
        all: constructor; cbn [s_b s_c b_m b_held b_phase c_taken c_cb_consumed c_cb_left c_phase m_resolve m_consumed m_leftover] in *;
             try assumption; try discriminate; try lia.
        all: intros Hf; specialize (L3 Hf); lia.
      * destruct (b_phase b); discriminate.
    + destruct (c_step cc c (AckRead oid)) as [c'|] eqn:Hcs; [|discriminate]. inversion Hs; subst s'; clear Hs.
      assert (Hc' := c_step_inv _ _ _ _ Hc Hcs).
      unfold c_step in Hcs. rewrite Hak in Hcs. destruct (in_session (c_phase c)) eqn:Hsess; [|discriminate].
      fold id in Hcs. rewrite Ht in Hcs. inversion Hcs; subst c'; clear Hcs.
      constructor; cbn [s_b s_c c_taken c_cb_consumed c_cb_left c_phase set_acker set_cm] in *; try assumption.
      all: try (intros Hd; specialize (L4 Hd); rewrite L4 in Hsess; discriminate).
  - (* SHandBack *)
    destruct (c_left c) as [|x l] eqn:Hl; [discriminate|].
    destruct (c_step cc c CFinalPop) as [c'|] eqn:Hcs; [|discriminate].
    destruct (b_step bc b (BLeftover (ch_id x) wr)) as [b'|] eqn:Hbs; [|discriminate]. inversion Hs; subst s'; clear Hs.
    assert (Hb' := b_step_inv _ _ _ _ _ Hb Hbs). assert (Hc' := c_step_inv _ _ _ _ Hc Hcs).
    unfold c_step in Hcs. rewrite Hl in Hcs. destruct (c_phase c) eqn:Hcp; try discriminate. inversion Hcs; subst c'; clear Hcs.
    unfold b_step in Hbs. destruct (take_id (ch_id x) (b_held b)) as [[y held']|] eqn:Hth.
    + apply take_id_spec in Hth. destruct Hth as (Hlen & _ & _).
      destruct (b_phase b) eqn:Hph; try discriminate;
        destruct (op_unload bc (b_m b) y wr) as [[[[c' m'] df]|] m''] eqn:Hun;
        assert (Hm : (forall c' m' df, fst (op_unload bc (b_m b) y wr) = Some (c', m', df) ->
                        m_consumed m' = m_consumed (b_m b) /\ m_leftover m' = m_leftover (b_m b)) /\
                     m_consumed (snd (op_unload bc (b_m b) y wr)) = m_consumed (b_m b) /\
                     m_leftover (snd (op_unload bc (b_m b) y wr)) = m_leftover (b_m b))
          by (unfold op_unload; repeat match goal with |- context [if ?c then _ else _] => destruct c end;
              cbn [fst snd]; (split; [intros ? ? ? He; inversion He; subst; split; reflexivity | split; reflexivity]));
        rewrite Hun in Hm; cbn [fst snd] in Hm; destruct Hm as (Hm1 & Hm2 & Hm3).
      all: try (destruct (Hm1 _ _ _ eq_refl) as [Hm4 Hm5]).
      all: try (destruct (bc_fix5 bc) eqn:Hfix).
      all: inversion Hbs; subst b'; clear Hbs.
      all: constructor; cbn [s_b s_c b_m b_held b_phase c_taken c_cb_consumed c_cb_left c_phase m_resolve man_dropped m_consumed m_leftover] in *;
           try assumption; try discriminate; try lia.
      all: try (intros Hf; first [congruence | (specialize (L3 Hf); lia)]).
    + destruct (b_phase b); discriminate.
  - (* SStop *)
    destruct (closed_out (b_phase b)) eqn:Hco; [|discriminate].
    destruct (c_step cc c CStop) as [c'|] eqn:Hcs; [|discriminate]. inversion Hs; subst s'; clear Hs.
    assert (Hc' := c_step_inv _ _ _ _ Hc Hcs). unfold c_step in Hcs. inversion Hcs; subst c'; clear Hcs.
    constructor; cbn [s_b s_c c_taken c_cb_consumed c_cb_left c_phase] in *; assumption.
  - (* SInputClosed *)
    destruct (b_window b) eqn:Hw; [|discriminate]. destruct (closed_out (b_phase b)) eqn:Hco; [|discriminate].
    destruct (c_step cc c CInputClosed) as [c'|] eqn:Hcs; [|discriminate]. inversion Hs; subst s'; clear Hs.
    assert (Hc' := c_step_inv _ _ _ _ Hc Hcs). unfold c_step in Hcs.
    destruct (c_phase c) eqn:Hcp; try discriminate. destruct (c_stop c); [|discriminate]. inversion Hcs; subst c'; clear Hcs.
    constructor; cbn [s_b s_c c_taken c_cb_consumed c_cb_left c_phase set_phase] in *; try assumption.
    all: try (intros Hd; specialize (L4 Hd); discriminate).
  - (* SFinish *)
    destruct (c_phase c) eqn:Hcp; try discriminate.
    destruct (b_step bc b BFinish) as [b'|] eqn:Hbs; [|discriminate]. inversion Hs; subst s'; clear Hs.
    assert (Hb' := b_step_inv _ _ _ _ _ Hb Hbs).
    unfold b_step in Hbs. destruct (b_phase b) eqn:Hph; try discriminate.
    destruct (b_queue b); try discriminate. destruct (b_hand b); try discriminate.
    destruct (b_window b); try discriminate. destruct (b_held b) eqn:Hh; try discriminate.
    inversion Hbs; subst b'; clear Hbs.
    constructor; cbn [s_b s_c b_m b_held b_phase] in *; try assumption; try reflexivity.
    all: try (rewrite zlen_nil in *; lia).
    all: intros _; exact Hcp.
Qed.

Lemma sys_run_inv : forall bc cc n0 evs s s', sys_inv bc n0 s -> sys_run bc cc s evs = Some s' -> sys_inv bc n0 s'.
Proof.
  intros bc cc n0. induction evs as [|e evs IH]; intros s s' Hi Hr; simpl in Hr.
  - inversion Hr; subst; exact Hi.
  - destruct (sys_step bc cc s e) eqn:Hs; [|discriminate]. eapply IH; [|exact Hr]. eapply sys_step_inv; eauto.
Qed.

(* the counters of one pipeline x output in every reachable state of the system *)
Lemma system_invariants_lemma : forall bc cc n0 evs s,
  sys_run bc cc (sys_init n0) evs = Some s ->
  let b := s_b s in let c := s_c s in
  m_in_t (b_m b) + m_in_p (b_m b) = m_consumed (b_m b) + m_leftover (b_m b) + m_dropped (b_m b) + m_pending (b_m b) /\
  m_in_t (b_m b) + m_in_p (b_m b) = b_accepted b + b_recovered b /\
  k_ack_n (c_m c) = m_consumed (b_m b) /\
  zlen (b_held b) = c_taken c - c_cb_consumed c - c_cb_left c /\
  k_attempts (c_m c) >= c_completed c /\ c_completed c >= k_fwd_n (c_m c).
Proof.
  intros bc cc n0 evs s Hr b c.
  destruct (sys_run_inv bc cc n0 evs _ _ (sys_init_inv bc n0) Hr) as [Hb Hc L1 L2 L3 L4].
  destruct Hb as [I1 I2 I3 _ _ _ _ _ _]. destruct Hc as [J1 J2 J3 J4 J5 J6 J7 J8 J9 J10 J11 J12 J13 J14].
  fold b in I1, I2, I3, L1, L2. fold c in J6, J7, J8, J14, L1, L2.
  assert (0 <= sending_Z (c_phase c)) by (destruct (c_phase c); simpl; lia).
  assert (0 <= sent_Z (c_phase c)) by (destruct (c_phase c); simpl; lia).
  repeat split; try assumption; lia.
Qed.

(* at quiescence (the feeder has finished, which requires the client to have returned), under the connection
   contract (no BUG branch) and with distinct chunk ids (no duplicate removed):
   accepted = acknowledged + leftover + dropped + saved-at-shutdown, every gauge of the client is zero,
   forwarded = acknowledged + unacknowledged-at-session-ends, attempts >= completed sends >= forwarded >= acknowledged *)
Lemma system_final_lemma : forall bc cc n0 evs s,
  sys_run bc cc (sys_init n0) evs = Some s ->
  let b := s_b s in let c := s_c s in
  b_phase b = BDone -> c_bug c = 0 -> c_dups c = 0 ->
  b_accepted b + b_recovered b = k_ack_n (c_m c) + m_leftover (b_m b) + m_dropped (b_m b) + zlen (b_parked b) /\
  m_pending (b_m b) = zlen (b_parked b) /\ all_saved (b_parked b) /\
  k_ack_n (c_m c) = m_consumed (b_m b) /\
  k_gpack (c_m c) = 0 /\ k_gleft (c_m c) = 0 /\
  k_fwd_n (c_m c) = k_ack_n (c_m c) + c_unacked_total c /\
  k_attempts (c_m c) = c_completed c + c_failed c /\ c_completed c >= k_fwd_n (c_m c) /\ k_fwd_n (c_m c) >= k_ack_n (c_m c) /\
  c_taken c = k_ack_n (c_m c) + c_cb_left c /\
  (bc_fix5 bc = false -> m_leftover (b_m b) = c_cb_left c).
Proof.
  intros bc cc n0 evs s Hr b c Hd Hbug Hdup.
  destruct (sys_run_inv bc cc n0 evs _ _ (sys_init_inv bc n0) Hr) as [Hb Hc L1 L2 L3 L4].
  fold b in Hb, L1, L2, L3, L4. fold c in Hc, L1, L2, L3, L4.
  specialize (L4 Hd).
  destruct Hb as [I1 I2 I3 I4 I5 I6 I7 I8 I9]. destruct Hc as [J1 J2 J3 J4 J5 J6 J7 J8 J9 J10 J11 J12 J13 J14].
  destruct (I9 Hd) as (Hq & Hh & Hw & Hheld). unfold b_holdings in I1. rewrite Hq, Hh, Hw, Hheld in *.
  specialize (J3 Hbug). specialize (J5 Hbug). specialize (J9 Hbug).
  rewrite L4 in *. destruct (J12 eq_refl) as (Ha & Hpm & Hl). specialize (J13 eq_refl).
  unfold c_holdings in J9. rewrite Ha, Hpm, Hl, J13 in *. rewrite zlen_nil in *. cbn [len_opt sending_Z sent_Z] in *.
  repeat split; try assumption; try lia.
Qed.

(* ------------------------------------------------------------------------------------------ *)
(* distinct chunk ids: newLeftoverChannel never removes anything, so c_dups stays 0              *)

Lemma insert_chunk_perm : forall c l, Permutation (insert_chunk c l) (c :: l).
Proof.
  induction l as [|x l IH]; simpl; [apply Permutation_refl|].
  destruct (ch_id c <=? ch_id x); [apply Permutation_refl|].
  eapply Permutation_trans; [apply perm_skip; exact IH|apply perm_swap].
Qed.

Lemma sort_chunks_perm : forall l, Permutation (sort_chunks l) l.
Proof.
  induction l as [|c l IH]; simpl; [apply Permutation_refl|].
  eapply Permutation_trans; [apply insert_chunk_perm|apply perm_skip; exact IH].
Qed.

Lemma dedup_adj_nodup : forall l, NoDup (map ch_id l) -> dedup_adj l = l.
Proof.
  induction l as [|c l IH]; intros H; [reflexivity|].
  cbn [dedup_adj]. destruct l as [|x l']; [reflexivity|].
  inversion H as [|? ? Hn Hr]; subst.
  destruct (ch_id c =? ch_id x) eqn:E.
  - exfalso. apply Hn. simpl. left. lia.
  - rewrite IH by exact Hr. reflexivity.
Qed.

Lemma new_leftover_channel_nodup : forall l, NoDup (map ch_id l) ->
  Permutation (new_leftover_channel l) l /\ zlen (new_leftover_channel l) = zlen l.
Proof.
  intros l H. unfold new_leftover_channel.
  assert (Hp : Permutation (sort_chunks l) l) by apply sort_chunks_perm.
  assert (Hn : NoDup (map ch_id (sort_chunks l))).
  { eapply Permutation_NoDup; [|exact H]. apply Permutation_map. apply Permutation_sym. exact Hp. }
  rewrite (dedup_adj_nodup _ Hn). split; [exact Hp|].
  unfold zlen. rewrite (Permutation_length Hp). reflexivity.
Qed.

Lemma take_id_perm : forall id l c r, take_id id l = Some (c, r) -> Permutation l (c :: r).
Proof.
  induction l as [|x l IH]; intros c r H; simpl in H; [discriminate|].
  destruct (ch_id x =? id).
  - inversion H; subst. apply Permutation_refl.
  - destruct (take_id id l) as [[y r']|] eqn:T; [|discriminate]. inversion H; subst.
    eapply Permutation_trans; [apply perm_skip; apply IH; reflexivity|apply perm_swap].
Qed.

Definition held (s : cstate) : list chunk := c_left s ++ opt_list (c_last s) ++ c_achan s ++ c_pmap s.
Definition held_ids (s : cstate) : list Z := map ch_id (held s).

(* the environment hypothesis: a chunk received from the input channel has an id the client does not hold *)
Fixpoint takes_fresh (cfg : ccfg) (s : cstate) (evs : list c_event) : Prop :=
  match evs with
  | [] => True
  | e :: r =>
    match e with CTake c => ~ In (ch_id c) (held_ids s) | _ => True end /\
    match c_step cfg s e with Some s' => takes_fresh cfg s' r | None => True end
  end.

Definition nd_inv (s : cstate) : Prop := c_bug s = 0 -> NoDup (held_ids s) /\ c_dups s = 0.

Lemma nodup_perm : forall (a b : list chunk), Permutation a b -> NoDup (map ch_id a) -> NoDup (map ch_id b).
Proof. intros a b Hp Hn. eapply Permutation_NoDup; [apply Permutation_map; exact Hp|exact Hn]. Qed.

Lemma nodup_tail : forall (c : chunk) l, NoDup (map ch_id (c :: l)) -> NoDup (map ch_id l).
Proof. intros c l H. inversion H; assumption. Qed.

Section PermLemmas.
Variable A : Type.
Implicit Types (c : A) (l a p o left : list A).

Lemma perm_pop : forall c l a p, Permutation ((c :: l) ++ [] ++ a ++ p) (l ++ [c] ++ a ++ p).
Proof. intros. simpl. apply Permutation_middle. Qed.

Lemma perm_take : forall c left a p, Permutation (c :: (left ++ [] ++ a ++ p)) (left ++ [c] ++ a ++ p).
Proof. intros. simpl. apply Permutation_middle. Qed.

Lemma perm_queue : forall c left a p, Permutation (left ++ [c] ++ a ++ p) (left ++ [] ++ (a ++ [c]) ++ p).
Proof.
  intros. simpl. apply Permutation_app_head. rewrite <- app_assoc. simpl. apply Permutation_middle.
Qed.

Lemma perm_ackertake : forall c left o l p, Permutation (left ++ o ++ (c :: l) ++ p) (left ++ o ++ l ++ p ++ [c]).
Proof.
  intros. apply Permutation_app_head. apply Permutation_app_head. simpl.
  rewrite app_assoc. apply Permutation_cons_append.
Qed.

Lemma perm_ackread : forall c left o a p l, Permutation p (c :: l) ->
  Permutation (left ++ o ++ a ++ p) (c :: (left ++ o ++ a ++ l)).
Proof.
  intros c left o a p l H.
  eapply Permutation_trans.
  - apply Permutation_app_head. apply Permutation_app_head. apply Permutation_app_head. exact H.
  - rewrite !app_assoc. apply Permutation_sym. apply Permutation_middle.
Qed.

Lemma perm_collect : forall left o a p, Permutation (left ++ o ++ a ++ p) (left ++ a ++ p ++ o).
Proof.
  intros. apply Permutation_app_head. rewrite (app_assoc a p o). apply Permutation_app_comm.
Qed.
End PermLemmas.

Lemma c_step_nd : forall cfg s e s',
  c_inv s -> nd_inv s -> c_step cfg s e = Some s' ->
  match e with CTake c => ~ In (ch_id c) (held_ids s) | _ => True end -> nd_inv s'.
Proof.
  intros cfg s e s' Hinv Hnd Hs Hfresh.
  destruct Hinv as [J1 J2 J3 J4 J5 J6 J7 J8 J9 J10 J11 J12 J13 J14].
  unfold nd_inv, held_ids, held in *.
  destruct s as [m ph ak left last achan pmap unacked stop taken completed failed utot cbc cbl dups bug].
  cbn [c_m c_phase c_acker c_left c_last c_achan c_pmap c_unacked c_stop c_taken c_completed c_failed c_unacked_total c_cb_consumed c_cb_left c_dups c_bug] in *.
  destruct e; unfold c_step in Hs; unfold collect, set_phase, set_cm, set_acker in Hs;
    cbn [c_m c_phase c_acker c_left c_last c_achan c_pmap c_unacked c_stop c_taken c_completed c_failed c_unacked_total c_cb_consumed c_cb_left c_dups c_bug] in Hs;
    destruct ph; try discriminate; cbn [in_session idle_stage] in *; b_crunch; try discriminate;
    cbn [c_m c_phase c_acker c_left c_last c_achan c_pmap c_unacked c_stop c_taken c_completed c_failed c_unacked_total c_cb_consumed c_cb_left c_dups c_bug opt_list];
    intros Hb; try (assert (Hb0 : bug = 0) by lia); try (exfalso; lia);
    try (destruct (Hnd Hb0) as [Hn Hd]); try (destruct (Hnd Hb) as [Hn Hd]);
    try (split; [exact Hn|exact Hd]).
  all: try (destruct (J12 eq_refl) as (Ha & Hp & Hl); subst).
  all: try (specialize (J11 eq_refl); subst).
  all: try (specialize (J10 eq_refl eq_refl); subst).
  all: cbn [opt_list] in *.
  all: try (match goal with H : take_id _ _ = Some _ |- _ => apply take_id_perm in H end).
  (* COpenOk / unchanged *)
  all: try (split; [exact Hn|lia]).
  (* CPopLeft *)
  all: try (split; [eapply nodup_perm; [apply perm_pop|exact Hn]|lia]).
  (* CTake *)
  all: try (split; [eapply nodup_perm; [apply perm_take|]; cbn [map]; apply NoDup_cons; [exact Hfresh|exact Hn]|lia]).
  (* CQueue *)
  all: try (split; [eapply nodup_perm; [apply perm_queue|exact Hn]|lia]).
  (* AckerTake *)
  all: try (split; [eapply nodup_perm; [apply perm_ackertake|exact Hn]|lia]).
  (* AckRead *)
  all: try (split; [eapply nodup_tail; eapply nodup_perm; [eapply perm_ackread; eassumption|exact Hn]|lia]).
  (* CFinalPop *)
  all: try (split; [eapply nodup_tail; exact Hn|lia]).
  (* CCollectDone *)
  all: try (match goal with |- context [new_leftover_channel ?l] =>
              assert (Hl2 : NoDup (map ch_id l)) by (eapply nodup_perm; [apply perm_collect|exact Hn]);
              destruct (new_leftover_channel_nodup l Hl2) as [Hp2 Hz2];
              split; [rewrite !app_nil_r; eapply nodup_perm; [apply Permutation_sym; exact Hp2|exact Hl2]|lia]
            end).
Qed.

Lemma c_run_nd : forall cfg evs s s',
  c_inv s -> nd_inv s -> c_run cfg s evs = Some s' -> takes_fresh cfg s evs -> nd_inv s'.
Proof.
  intros cfg. induction evs as [|e evs IH]; intros s s' Hi Hn Hr Hf; simpl in Hr.
  - inversion Hr; subst; exact Hn.
  - destruct (c_step cfg s e) as [s1|] eqn:Hs; [|discriminate].
    simpl in Hf. rewrite Hs in Hf. destruct Hf as [Hf1 Hf2].
    eapply IH; [eapply c_step_inv; eauto| |exact Hr|exact Hf2].
    eapply c_step_nd; eauto.
Qed.

(* with distinct chunk ids nothing is ever removed as a duplicate *)
Lemma client_no_dups_lemma : forall cfg evs s,
  c_run cfg c_init evs = Some s -> takes_fresh cfg c_init evs -> c_bug s = 0 -> c_dups s = 0.
Proof.
  intros cfg evs s Hr Hf Hb.
  assert (H : nd_inv s).
  { eapply c_run_nd; [apply c_init_inv| |exact Hr|exact Hf]. intros _. split; [constructor|reflexivity]. }
  destruct (H Hb) as [_ Hd]. exact Hd.
Qed.

(* ------------------------------------------------------------------------------------------ *)
(* non-vacuity: a concrete run of the system that reaches quiescence                             *)

Definition example_run : list sys_event :=
  [SB (BAccept 0 100 false true); SB (BAccept 1 50 true true);
   SC COpen; SC COpenOk; SC CRecoveryDone;
   SB BFeedTake; SB BFeedPush; STake; SC CSendOk; SC CQueue; SC AckerTake; SAck (Some 0) true;
   SB BFeedTake; SB (BFeedLoad true true); SB BFeedPush; STake; SC CSendFail; SC AckerEnd; SC CCollectDone;
   SB BDestroy; SB BFeedEnd; SStop; SC CRetryStop; SHandBack true; SC CFinish; SFinish].

Lemma example_run_lemma :
  exists s, sys_run (bcfg_std false) (CC 3) (sys_init 0) example_run = Some s /\
    b_phase (s_b s) = BDone /\ c_bug (s_c s) = 0 /\ c_dups (s_c s) = 0 /\
    b_accepted (s_b s) = 2 /\ k_ack_n (c_m (s_c s)) = 1 /\ m_leftover (b_m (s_b s)) = 1 /\
    k_attempts (c_m (s_c s)) = 2 /\ k_fwd_n (c_m (s_c s)) = 1.
Proof. eexists. split; [vm_compute; reflexivity|]. vm_compute. repeat split; reflexivity. Qed.

Definition example_records : list rec_run :=
  [RR (InParsed 70 false [] false) [[107;97]]%N (Some (PRec [[104;49]]%N 70 [] false));
   RR (InParsed 74 false [label_xmarker] true) [[107;97]]%N None;
   RR (InMalformed 60) [] None;
   RR (InParsed 66 false [] false) [[107;98]]%N (Some (PRec [[104;50]]%N 66 [label_marker] true))].

Lemma example_records_lemma :
  Forall rr_wf example_records /\
  ic_pn (i_cnt (fst (run_records true (merge_key false) example_records))) = 2 /\
  ic_dn (i_cnt (fst (run_records true (merge_key false) example_records))) = 2.
Proof. split; [repeat constructor|]. vm_compute. split; reflexivity. Qed.

(* used by C18 (nothing only in memory): when the feeder has finished nothing is left in the queues or with the
   consumer, and what is still pending has been saved *)
Lemma buffer_done_locations_lemma : forall cfg n0 evs s,
  b_run cfg (b_init n0) evs = Some s -> b_phase s = BDone ->
  b_queue s = [] /\ b_hand s = None /\ b_window s = [] /\ b_held s = [] /\
  all_saved (b_parked s) /\ m_pending (b_m s) = zlen (b_parked s).
Proof.
  intros cfg n0 evs s Hr Hd.
  destruct (b_run_inv cfg n0 evs _ _ (b_init_inv cfg n0) Hr) as [I1 _ _ I4 _ _ _ _ I9].
  destruct (I9 Hd) as (Hq & Hh & Hw & Hheld). unfold b_holdings in I1. rewrite Hq, Hh, Hw, Hheld in I1.
  cbn [len_opt] in I1. rewrite zlen_nil in I1. repeat split; try assumption; lia.
Qed.
