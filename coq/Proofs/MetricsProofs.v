(* Proofs about Model/Metrics.v (C19): the balance equations as invariants over arbitrary event lists. *)
From SV Require Import Model.Common Model.Metrics Proofs.CommonFacts.
From Coq Require Import Lia ZifyBool ZifyN ZifyNat Permutation.
Ltac Zify.zify_post_hook ::= Z.div_mod_to_equations.
Local Open Scope Z_scope.

(* ------------------------------------------------------------------------------------------ *)
(* generic: invariants of fold_left                                                             *)

Lemma fold_left_inv : forall (S E : Type) (step : S -> E -> S) (P : list E -> S -> Prop) (evs : list E) (done : list E) (s : S),
  P done s ->
  (forall d s e, P d s -> P (d ++ [e]) (step s e)) ->
  P (done ++ evs) (fold_left step evs s).
Proof.
  intros S E step P evs. induction evs as [|e evs IH]; intros done s H0 Hstep; simpl.
  - rewrite app_nil_r. exact H0.
  - replace (done ++ e :: evs) with ((done ++ [e]) ++ evs) by (rewrite <- app_assoc; reflexivity).
    apply IH; auto.
Qed.

(* ------------------------------------------------------------------------------------------ *)
(* A. input                                                                                      *)

(* independent specification: what happened, read off the event list *)
Definition ev_len (e : in_event) : Z := match e with InMalformed l => l | InParsed l _ _ _ => l end.
Definition ev_delivered (e : in_event) : bool :=
  match e with InParsed _ _ _ false => true | _ => false end.

Fixpoint sum_len (P : in_event -> bool) (evs : list in_event) : Z :=
  match evs with [] => 0 | e :: r => (if P e then ev_len e else 0) + sum_len P r end.
Fixpoint count_ev (P : in_event -> bool) (evs : list in_event) : Z :=
  match evs with [] => 0 | e :: r => (if P e then 1 else 0) + count_ev P r end.

Lemma sum_len_app : forall P a b, sum_len P (a ++ b) = sum_len P a + sum_len P b.
Proof. induction a; intros; simpl; [reflexivity|]. rewrite IHa. lia. Qed.
Lemma count_ev_app : forall P a b, count_ev P (a ++ b) = count_ev P a + count_ev P b.
Proof. induction a; intros; simpl; [reflexivity|]. rewrite IHa. lia. Qed.

Definition all_ev (e : in_event) : bool := true.

Definition in_inv (counted : bool) (evs : list in_event) (s : in_state) : Prop :=
  i_msgs s = count_ev all_ev evs /\ i_msgs_b s = sum_len all_ev evs /\
  i_out s = count_ev ev_delivered evs /\ i_out_b s = sum_len ev_delivered evs /\
  ic_pn (i_cnt s) + ic_dn (i_cnt s) = i_msgs s /\ ic_pb (i_cnt s) + ic_db (i_cnt s) = i_msgs_b s /\
  (counted = true -> ic_pn (i_cnt s) = i_out s /\ ic_pb (i_cnt s) = i_out_b s).

Lemma in_inv_run : forall counted evs, in_inv counted evs (in_run counted evs).
Proof.
  intros counted evs. unfold in_run.
  apply (fold_left_inv _ _ (in_step counted) (in_inv counted) evs [] in_init).
  - unfold in_inv, in_init; simpl. repeat split; intros; reflexivity.
  - intros d s e (H1 & H2 & H3 & H4 & H5 & H6 & H7).
    unfold in_inv. rewrite !count_ev_app, !sum_len_app. simpl.
    destruct e as [len | len ovf fired xdrop]; simpl.
    + repeat split; try lia. all: intros Hc; specialize (H7 Hc); lia.
    + destruct xdrop; simpl.
      * destruct counted; simpl; repeat split; try lia. all: intros Hc; try discriminate. all: specialize (H7 Hc); lia.
      * repeat split; try lia. all: intros Hc; specialize (H7 Hc); lia.
Qed.

(* input passed + dropped = messages handed to the parser (records and bytes), for both code variants *)
Lemma in_balance_lemma : forall counted evs,
  let s := in_run counted evs in
  ic_pn (i_cnt s) + ic_dn (i_cnt s) = count_ev all_ev evs /\
  ic_pb (i_cnt s) + ic_db (i_cnt s) = sum_len all_ev evs.
Proof. intros counted evs s. destruct (in_inv_run counted evs) as (H1 & H2 & _ & _ & H5 & H6 & _). fold s in H1, H2, H5, H6. lia. Qed.

(* after the repair: input passed = records returned to the receiver, input dropped = all the others *)
Lemma in_passed_is_delivered_lemma : forall evs,
  let s := in_run true evs in
  ic_pn (i_cnt s) = count_ev ev_delivered evs /\ ic_pb (i_cnt s) = sum_len ev_delivered evs /\
  ic_dn (i_cnt s) = count_ev (fun e => negb (ev_delivered e)) evs /\
  ic_db (i_cnt s) = sum_len (fun e => negb (ev_delivered e)) evs.
Proof.
  intros evs s. destruct (in_inv_run true evs) as (H1 & H2 & H3 & H4 & H5 & H6 & H7). fold s in H1, H2, H3, H4, H5, H6, H7.
  destruct (H7 eq_refl) as [Ha Hb].
  assert (Hc : forall l, count_ev all_ev l = count_ev ev_delivered l + count_ev (fun e => negb (ev_delivered e)) l).
  { induction l as [|e l IH]; [reflexivity|]. cbn [count_ev]. change (all_ev e) with true. destruct (ev_delivered e); cbn [negb]; lia. }
  assert (Hd : forall l, sum_len all_ev l = sum_len ev_delivered l + sum_len (fun e => negb (ev_delivered e)) l).
  { induction l as [|e l IH]; [reflexivity|]. cbn [sum_len]. change (all_ev e) with true. destruct (ev_delivered e); cbn [negb]; lia. }
  specialize (Hc evs). specialize (Hd evs). lia.
Qed.

(* the original code: a record dropped by an extraction transform stays counted as passed *)
Lemma in_uncounted_refuted_lemma :
  exists evs, ic_pn (i_cnt (in_run false evs)) <> count_ev ev_delivered evs.
Proof. exists [InParsed 74 false [label_xmarker] true]. vm_compute. discriminate. Qed.

(* ------------------------------------------------------------------------------------------ *)
(* B. flow                                                                                       *)

Definition flow_inv (s : flow) : Prop :=
  0 <= f_sink s /\ 0 <= f_cache s /\ 0 <= f_chan s /\ 0 <= f_worker s /\ 0 <= f_lost s /\
  f_delivered s = f_sink s + f_cache s + f_chan s + f_worker s + f_lost s.

Lemma flow_step_inv : forall s e s', flow_inv s -> flow_step s e = Some s' -> flow_inv s'.
Proof.
  intros s e s' (H1 & H2 & H3 & H4 & H5 & H6) Hs. unfold flow_inv.
  destruct e; simpl in Hs;
    try (destruct ((0 <=? n) && _)%bool eqn:G; [|discriminate]);
    inversion Hs; subst; simpl; lia.
Qed.

Lemma flow_run_inv : forall evs s s', flow_inv s -> flow_run s evs = Some s' -> flow_inv s'.
Proof.
  induction evs as [|e evs IH]; intros s s' Hi Hr; simpl in Hr.
  - inversion Hr; subst; exact Hi.
  - destruct (flow_step s e) eqn:Hs; [|discriminate]. eapply IH; [|exact Hr]. eapply flow_step_inv; eauto.
Qed.

(* at quiescence, with no batch lost by the channel timeout, every record returned by the parser has
   entered a pipeline worker *)
Lemma flow_conservation_lemma : forall evs s,
  flow_run flow_init evs = Some s ->
  f_delivered s = f_sink s + f_cache s + f_chan s + f_worker s + f_lost s /\
  (flow_quiet s = true -> f_lost s = 0 -> f_worker s = f_delivered s).
Proof.
  intros evs s Hr.
  assert (Hi : flow_inv s). { eapply flow_run_inv; [|exact Hr]. unfold flow_inv, flow_init; simpl. lia. }
  destruct Hi as (H1 & H2 & H3 & H4 & H5 & H6). split; [exact H6|].
  unfold flow_quiet. intros Hq Hl. lia.
Qed.

(* ------------------------------------------------------------------------------------------ *)
(* C. worker                                                                                     *)

Lemma bytes_eqb_false : forall a b, bytes_eqb a b = false <-> a <> b.
Proof.
  intros a b. split; intros H.
  - intros E. apply bytes_eqb_eq in E. congruence.
  - destruct (bytes_eqb a b) eqn:E; [|reflexivity]. apply bytes_eqb_eq in E. contradiction.
Qed.

Lemma bytes_eqb_sym : forall a b, bytes_eqb a b = bytes_eqb b a.
Proof.
  intros a b. destruct (bytes_eqb a b) eqn:E1, (bytes_eqb b a) eqn:E2; try reflexivity.
  - apply bytes_eqb_eq in E1. subst. rewrite bytes_eqb_refl in E2. discriminate.
  - apply bytes_eqb_eq in E2. subst. rewrite bytes_eqb_refl in E1. discriminate.
Qed.

(* label maps *)
Lemma lab_get_add : forall m l len l',
  lab_get (lab_add m l len) l' = if bytes_eqb l l' then cnt_add (lab_get m l) len else lab_get m l'.
Proof.
  induction m as [|[k c] m IH]; intros l len l'; simpl.
  - destruct (bytes_eqb l l'); reflexivity.
  - destruct (bytes_eqb k l) eqn:Ekl; simpl.
    + apply bytes_eqb_eq in Ekl. subst k. destruct (bytes_eqb l l'); reflexivity.
    + rewrite IH. destruct (bytes_eqb k l') eqn:Ekl'; [|reflexivity].
      apply bytes_eqb_eq in Ekl'. subst k. rewrite bytes_eqb_sym, Ekl. reflexivity.
Qed.

Fixpoint count_b (l : bytes) (ls : list bytes) : Z :=
  match ls with [] => 0 | x :: r => (if bytes_eqb x l then 1 else 0) + count_b l r end.

Lemma count_b_nonneg : forall l ls, 0 <= count_b l ls.
Proof. induction ls; simpl; [lia|]. destruct (bytes_eqb a l); lia. Qed.

Lemma lab_get_add_all : forall fired m len l,
  lab_get (lab_add_all m fired len) l =
  (fst (lab_get m l) + count_b l fired, snd (lab_get m l) + count_b l fired * len).
Proof.
  induction fired as [|x fired IH]; intros m len l; simpl.
  - destruct (lab_get m l); simpl. f_equal; lia.
  - rewrite IH, lab_get_add. destruct (bytes_eqb x l) eqn:E.
    + apply bytes_eqb_eq in E. subst x. unfold cnt_add; cbn [fst snd]. f_equal; lia.
    + f_equal; lia.
Qed.

(* key-set maps *)
Lemma kmap_get_upd : forall m mk ks f mk',
  kmap_get (kmap_upd m mk ks f) mk' =
  if bytes_eqb mk mk'
  then Some (f (match kmap_get m mk with Some v => v | None => KC ks ic0 [] end))
  else kmap_get m mk'.
Proof.
  induction m as [|[k v] m IH]; intros mk ks f mk'; simpl.
  - destruct (bytes_eqb mk mk'); reflexivity.
  - destruct (bytes_eqb k mk) eqn:Ek; simpl.
    + apply bytes_eqb_eq in Ek. subst k. destruct (bytes_eqb mk mk'); reflexivity.
    + rewrite IH. destruct (bytes_eqb k mk') eqn:Ek'; [|reflexivity].
      apply bytes_eqb_eq in Ek'. subst k. rewrite bytes_eqb_sym, Ek. reflexivity.
Qed.

Lemma kmap_sum_upd : forall (g : kcount -> Z) (delta : Z) m mk ks f,
  (forall kc, g (f kc) = g kc + delta) -> g (KC ks ic0 []) = 0 ->
  kmap_sum g (kmap_upd m mk ks f) = kmap_sum g m + delta.
Proof.
  intros g delta m mk ks f Hf H0. induction m as [|[k v] m IH]; simpl.
  - rewrite Hf, H0. lia.
  - destruct (bytes_eqb k mk); simpl; [rewrite Hf|rewrite IH]; lia.
Qed.

Definition g_n (kc : kcount) : Z := ic_pn (kc_in kc) + ic_dn (kc_in kc).
Definition g_b (kc : kcount) : Z := ic_pb (kc_in kc) + ic_db (kc_in kc).

(* pipeline passed + dropped = records entering the worker, records and bytes, whatever the map key *)
Lemma p_balance_lemma : forall mg nout evs,
  let s := p_run_mg mg nout evs in
  kmap_sum g_n (p_map s) = p_entered s /\ kmap_sum g_b (p_map s) = p_entered_b s.
Proof.
  intros mg nout evs. unfold p_run_mg.
  apply (fold_left_inv _ _ (p_step_mg mg)
           (fun _ s => kmap_sum g_n (p_map s) = p_entered s /\ kmap_sum g_b (p_map s) = p_entered_b s) evs [] (p_init nout)).
  - simpl. split; reflexivity.
  - intros d s e [H1 H2]. destruct e as [ks len fired drop | o size]; simpl; [|split; assumption].
    split.
    + rewrite (kmap_sum_upd g_n 1); [lia| |reflexivity].
      intros kc. unfold g_n; simpl. destruct drop; simpl; lia.
    + rewrite (kmap_sum_upd g_b len); [lia| |reflexivity].
      intros kc. unfold g_b; simpl. destruct drop; simpl; lia.
Qed.

(* the history variables are what they claim to be *)
Fixpoint psum (f : p_event -> Z) (evs : list p_event) : Z :=
  match evs with [] => 0 | e :: r => f e + psum f r end.
Lemma psum_app : forall f a b, psum f (a ++ b) = psum f a + psum f b.
Proof. induction a; intros; simpl; [reflexivity|]. rewrite IHa. lia. Qed.
Lemma psum_ext_in : forall f g evs, (forall e, In e evs -> f e = g e) -> psum f evs = psum g evs.
Proof.
  induction evs as [|e r IH]; intros H; simpl; [reflexivity|].
  rewrite H by (left; reflexivity). rewrite IH; [reflexivity|]. intros x Hx. apply H. right. exact Hx.
Qed.

Definition is_rec (e : p_event) : Z := match e with PRec _ _ _ _ => 1 | _ => 0 end.
Definition rec_len (e : p_event) : Z := match e with PRec _ len _ _ => len | _ => 0 end.

Lemma p_entered_lemma : forall mg nout evs,
  p_entered (p_run_mg mg nout evs) = psum is_rec evs /\ p_entered_b (p_run_mg mg nout evs) = psum rec_len evs.
Proof.
  intros mg nout evs. unfold p_run_mg.
  apply (fold_left_inv _ _ (p_step_mg mg)
           (fun d s => p_entered s = psum is_rec d /\ p_entered_b s = psum rec_len d) evs [] (p_init nout)).
  - simpl. split; reflexivity.
  - intros d s e [H1 H2]. rewrite !psum_app. destruct e; simpl; lia.
Qed.

(* ---- attribution: counters per merged key ---- *)

Section Attribution.
Variable mg : list bytes -> bytes.

(* events selected by a merged key *)
Definition sel (mk : bytes) (e : p_event) : bool :=
  match e with PRec ks _ _ _ => bytes_eqb (mg ks) mk | _ => false end.

Definition w_pn (e : p_event) : Z := match e with PRec _ _ _ false => 1 | _ => 0 end.
Definition w_pb (e : p_event) : Z := match e with PRec _ len _ false => len | _ => 0 end.
Definition w_dn (e : p_event) : Z := match e with PRec _ _ _ true => 1 | _ => 0 end.
Definition w_db (e : p_event) : Z := match e with PRec _ len _ true => len | _ => 0 end.
Definition w_ln (l : bytes) (e : p_event) : Z := match e with PRec _ _ fired _ => count_b l fired | _ => 0 end.
Definition w_lb (l : bytes) (e : p_event) : Z := match e with PRec _ len fired _ => count_b l fired * len | _ => 0 end.

Definition on (P : p_event -> bool) (w : p_event -> Z) (e : p_event) : Z := if P e then w e else 0.

Fixpoint first_keys (mk : bytes) (evs : list p_event) : option (list bytes) :=
  match evs with
  | [] => None
  | PRec ks _ _ _ :: r => if bytes_eqb (mg ks) mk then Some ks else first_keys mk r
  | _ :: r => first_keys mk r
  end.

Lemma first_keys_app : forall mk a b,
  first_keys mk (a ++ b) = match first_keys mk a with Some k => Some k | None => first_keys mk b end.
Proof.
  induction a as [|e a IH]; intros b; simpl; [reflexivity|].
  destruct e as [ks len fired drop|o size]; [|apply IH].
  destruct (bytes_eqb (mg ks) mk); [reflexivity|apply IH].
Qed.

Definition entry_ok (d : list p_event) (mk : bytes) (kc : kcount) : Prop :=
  first_keys mk d = Some (kc_keys kc) /\
  ic_pn (kc_in kc) = psum (on (sel mk) w_pn) d /\ ic_pb (kc_in kc) = psum (on (sel mk) w_pb) d /\
  ic_dn (kc_in kc) = psum (on (sel mk) w_dn) d /\ ic_db (kc_in kc) = psum (on (sel mk) w_db) d /\
  forall l, lab_get (kc_lab kc) l = (psum (on (sel mk) (w_ln l)) d, psum (on (sel mk) (w_lb l)) d).

Definition map_ok (d : list p_event) (s : pstate) : Prop :=
  forall mk, match kmap_get (p_map s) mk with
             | Some kc => entry_ok d mk kc
             | None => first_keys mk d = None /\ forall w, psum (on (sel mk) w) d = 0
             end.

Lemma on_true : forall P w e, P e = true -> on P w e = w e.
Proof. intros P w e H. unfold on. rewrite H. reflexivity. Qed.
Lemma on_false : forall P w e, P e = false -> on P w e = 0.
Proof. intros P w e H. unfold on. rewrite H. reflexivity. Qed.

Lemma map_ok_run : forall nout evs, map_ok evs (p_run_mg mg nout evs).
Proof.
  intros nout evs. unfold p_run_mg.
  apply (fold_left_inv _ _ (p_step_mg mg) map_ok evs [] (p_init nout)).
  - intros mk. simpl. split; [reflexivity|]. intros w. reflexivity.
  - intros d s e Hok mk. specialize (Hok mk).
    destruct e as [ks len fired drop | o size].
    + cbn [p_step_mg p_map]. rewrite kmap_get_upd.
      destruct (bytes_eqb (mg ks) mk) eqn:E.
      * (* this record belongs to mk *)
        apply bytes_eqb_eq in E. subst mk.
        assert (Hsel : sel (mg ks) (PRec ks len fired drop) = true) by (simpl; apply bytes_eqb_refl).
        unfold entry_ok. rewrite first_keys_app. rewrite !psum_app. cbn [psum]. rewrite !(on_true _ _ _ Hsel).
        destruct (kmap_get (p_map s) (mg ks)) as [kc|] eqn:G.
        -- destruct Hok as (Hk & H1 & H2 & H3 & H4 & H5). cbn [kc_keys kc_in kc_lab].
           rewrite Hk. split; [reflexivity|].
           destruct drop; cbn [w_pn w_pb w_dn w_db ic_pass ic_drop ic_pn ic_pb ic_dn ic_db];
             (repeat split; try lia);
             intros l; rewrite lab_get_add_all, H5; cbn [fst snd]; rewrite !psum_app; cbn [psum];
             rewrite !(on_true _ _ _ Hsel); cbn [w_ln w_lb]; apply f_equal2; lia.
        -- destruct Hok as (Hk & H0). cbn [kc_keys kc_in kc_lab].
           rewrite Hk. cbn [first_keys]. rewrite bytes_eqb_refl. split; [reflexivity|].
           destruct drop; cbn [w_pn w_pb w_dn w_db ic_pass ic_drop ic_pn ic_pb ic_dn ic_db ic0];
             (repeat split; try (rewrite H0; lia));
             intros l; rewrite lab_get_add_all; cbn [lab_get cnt0 fst snd]; rewrite !psum_app, !H0; cbn [psum];
             rewrite !(on_true _ _ _ Hsel); cbn [w_ln w_lb]; apply f_equal2; lia.
      * (* another merged key: nothing changes for mk *)
        assert (Hsel : sel mk (PRec ks len fired drop) = false) by (simpl; exact E).
        destruct (kmap_get (p_map s) mk) as [kc|] eqn:G.
        -- destruct Hok as (Hk & H1 & H2 & H3 & H4 & H5). unfold entry_ok.
           rewrite first_keys_app, Hk. rewrite !psum_app. cbn [psum]. rewrite !(on_false _ _ _ Hsel).
           repeat split; try lia.
           intros l. rewrite H5, !psum_app. cbn [psum]. rewrite !(on_false _ _ _ Hsel). apply f_equal2; lia.
        -- destruct Hok as (Hk & H0). rewrite first_keys_app, Hk. cbn [first_keys]. rewrite E.
           split; [reflexivity|]. intros w. rewrite psum_app, H0. cbn [psum]. rewrite (on_false _ _ _ Hsel). lia.
    + (* PChunk: the map is untouched *)
      cbn [p_step_mg p_map].
      assert (Hsel : sel mk (PChunk o size) = false) by reflexivity.
      destruct (kmap_get (p_map s) mk) as [kc|] eqn:G.
      * destruct Hok as (Hk & H1 & H2 & H3 & H4 & H5). unfold entry_ok.
        rewrite first_keys_app, Hk. rewrite !psum_app. cbn [psum]. cbn [on sel].
        repeat split; try lia.
        intros l. rewrite H5, !psum_app. cbn [psum]. cbn [on sel]. apply f_equal2; lia.
      * destruct Hok as (Hk & H0). rewrite first_keys_app, Hk. cbn [first_keys].
        split; [reflexivity|]. intros w. rewrite psum_app, H0. cbn [psum]. cbn [on sel]. lia.
Qed.

End Attribution.

(* ---- attribution by key TUPLE (what the property demands), under injectivity of the map key ---- *)

Fixpoint keys_eqb (a b : list bytes) : bool :=
  match a, b with
  | [], [] => true
  | x :: a', y :: b' => bytes_eqb x y && keys_eqb a' b'
  | _, _ => false
  end.

Lemma keys_eqb_eq : forall a b, keys_eqb a b = true <-> a = b.
Proof.
  induction a as [|x a IH]; intros [|y b]; simpl; split; intro H; try reflexivity; try discriminate.
  - apply andb_true_iff in H. destruct H as [H1 H2]. apply bytes_eqb_eq in H1. apply IH in H2. subst. reflexivity.
  - inversion H; subst. rewrite bytes_eqb_refl. simpl. apply IH. reflexivity.
Qed.

(* events caused by records whose own metric-key tuple is ks *)
Definition selk (ks : list bytes) (e : p_event) : bool :=
  match e with PRec ks' _ _ _ => keys_eqb ks' ks | _ => false end.

Definition keys_of (evs : list p_event) : list (list bytes) :=
  flat_map (fun e => match e with PRec ks _ _ _ => [ks] | _ => [] end) evs.

Definition inj_on (mg : list bytes -> bytes) (l : list (list bytes)) : Prop :=
  forall a b, In a l -> In b l -> mg a = mg b -> a = b.

Lemma keys_of_in : forall evs ks len fired drop, In (PRec ks len fired drop) evs -> In ks (keys_of evs).
Proof.
  induction evs as [|e evs IH]; intros ks len fired drop H; simpl in *; [contradiction|].
  apply in_or_app. destruct H as [H|H]; [subst e; left; left; reflexivity|right; eapply IH; eauto].
Qed.

Lemma first_keys_some : forall mg evs ks, In ks (keys_of evs) ->
  exists ks', first_keys mg (mg ks) evs = Some ks' /\ In ks' (keys_of evs) /\ mg ks' = mg ks.
Proof.
  intros mg. induction evs as [|e evs IH]; intros ks H; simpl in H; [contradiction|].
  destruct e as [ks0 len fired drop|o size]; simpl in *.
  - destruct (bytes_eqb (mg ks0) (mg ks)) eqn:E.
    + exists ks0. apply bytes_eqb_eq in E. auto.
    + destruct H as [H|H].
      * subst ks0. rewrite bytes_eqb_refl in E. discriminate.
      * destruct (IH ks H) as (k' & H1 & H2 & H3). exists k'. auto.
  - apply IH in H. destruct H as (k' & H1 & H2 & H3). exists k'. auto.
Qed.

(* the statement of the property for labelled counters: for every key tuple that occurs, the counter set
   selected for it carries exactly that tuple as label values and counts exactly the records with that tuple *)
Definition attributed (mg : list bytes -> bytes) (nout : nat) (evs : list p_event) (ks : list bytes) : Prop :=
  exists kc, kmap_get (p_map (p_run_mg mg nout evs)) (mg ks) = Some kc /\ kc_keys kc = ks /\
    ic_pn (kc_in kc) = psum (on (selk ks) w_pn) evs /\ ic_pb (kc_in kc) = psum (on (selk ks) w_pb) evs /\
    ic_dn (kc_in kc) = psum (on (selk ks) w_dn) evs /\ ic_db (kc_in kc) = psum (on (selk ks) w_db) evs /\
    forall l, lab_get (kc_lab kc) l = (psum (on (selk ks) (w_ln l)) evs, psum (on (selk ks) (w_lb l)) evs).

Lemma attribution_lemma : forall mg nout evs,
  inj_on mg (keys_of evs) -> forall ks, In ks (keys_of evs) -> attributed mg nout evs ks.
Proof.
  intros mg nout evs Hinj ks Hin.
  pose proof (map_ok_run mg nout evs (mg ks)) as Hok.
  destruct (first_keys_some mg evs ks Hin) as (ks' & Hf & Hin' & Hmg).
  assert (ks' = ks) by (apply Hinj; assumption). subst ks'.
  assert (Hext : forall w, psum (on (sel mg (mg ks)) w) evs = psum (on (selk ks) w) evs).
  { intros w. apply psum_ext_in. intros e He. unfold on.
    destruct e as [k0 len fired drop|o size]; simpl; [|reflexivity].
    assert (Hk0 : In k0 (keys_of evs)) by (eapply keys_of_in; eauto).
    destruct (keys_eqb k0 ks) eqn:E.
    - apply keys_eqb_eq in E. subst k0. rewrite bytes_eqb_refl. reflexivity.
    - destruct (bytes_eqb (mg k0) (mg ks)) eqn:E2; [|reflexivity].
      apply bytes_eqb_eq in E2. apply Hinj in E2; auto. subst k0.
      assert (keys_eqb ks ks = true) by (apply keys_eqb_eq; reflexivity). congruence. }
  destruct (kmap_get (p_map (p_run_mg mg nout evs)) (mg ks)) as [kc|] eqn:G.
  - destruct Hok as (Hk & H1 & H2 & H3 & H4 & H5). exists kc. split; [exact G|].
    rewrite Hf in Hk. assert (Hkk : kc_keys kc = ks) by congruence. split; [exact Hkk|].
    rewrite <- !Hext. repeat split; try assumption.
    intros l. rewrite H5, !Hext. reflexivity.
  - destruct Hok as [Hk _]. rewrite Hf in Hk. discriminate.
Qed.

(* the original map key (plain concatenation): two tuples with the same concatenation share a counter set *)
Lemma attribution_concat_refuted_lemma :
  exists evs ks, In ks (keys_of evs) /\ ~ attributed (merge_key false) 0 evs ks.
Proof.
  exists [PRec [[97;98];[99]]%N 10 [] false; PRec [[97];[98;99]]%N 20 [] true], [[97];[98;99]]%N.
  split; [simpl; auto|].
  intros (kc & Hg & Hk & _). vm_compute in Hg. inversion Hg; subst kc. vm_compute in Hk. discriminate.
Qed.

(* ---- the repaired map key (uvarint length prefix) is injective ---- *)

Lemma pow128_succ : forall f, (128 ^ N.of_nat (S f) = 128 * 128 ^ N.of_nat f)%N.
Proof. intros f. rewrite Nat2N.inj_succ, N.pow_succ_r'. reflexivity. Qed.

Lemma uvarint_fuel_inj : forall f1 f2 n1 n2 x1 x2,
  (n1 < 128 ^ N.of_nat (S f1))%N -> (n2 < 128 ^ N.of_nat (S f2))%N ->
  uvarint_fuel (S f1) n1 ++ x1 = uvarint_fuel (S f2) n2 ++ x2 -> n1 = n2 /\ x1 = x2.
Proof.
  induction f1 as [|f1 IH]; intros f2 n1 n2 x1 x2 H1 H2 He.
  - (* one byte *)
    change (128 ^ N.of_nat 1)%N with 128%N in H1.
    cbn [uvarint_fuel] in He. destruct (n1 <? 128)%N eqn:E1; [|lia].
    destruct (n2 <? 128)%N eqn:E2; cbn [app] in He; inversion He as [[Hh Ht]]; [auto|lia].
  - cbn [uvarint_fuel] in He. rewrite pow128_succ in H1.
    destruct (n1 <? 128)%N eqn:E1.
    + destruct (n2 <? 128)%N eqn:E2; cbn [app] in He; inversion He as [[Hh Ht]]; [auto|lia].
    + destruct (n2 <? 128)%N eqn:E2; [cbn [app] in He; inversion He as [[Hh Ht]]; lia|].
      destruct f2 as [|f2]; [change (128 ^ N.of_nat 1)%N with 128%N in H2; lia|].
      rewrite pow128_succ in H2.
      change (uvarint_fuel (S f1) (n1 / 128)%N) with (uvarint_fuel (S f1) (n1 / 128)%N) in He.
      cbn [app] in He. inversion He as [[Hh Ht]].
      destruct (IH f2 (n1 / 128)%N (n2 / 128)%N x1 x2) as [Hq Hx].
      * apply N.div_lt_upper_bound; lia.
      * apply N.div_lt_upper_bound; lia.
      * exact Ht.
      * split; [|exact Hx].
        rewrite (N.div_mod n1 128), (N.div_mod n2 128) by lia. rewrite Hq. f_equal. lia.
Qed.

Lemma uvarint_bound : forall n, (n < 128 ^ N.of_nat (S (N.to_nat (N.log2 n))))%N.
Proof.
  intros n. destruct (N.eq_dec n 0) as [->|Hn]; [simpl; lia|].
  rewrite Nat2N.inj_succ, N2Nat.id.
  assert (H : (n < 2 ^ N.succ (N.log2 n))%N) by (apply N.log2_spec; lia).
  eapply N.lt_le_trans; [exact H|]. apply N.pow_le_mono_l. lia.
Qed.

Lemma uvarint_inj : forall n1 n2 x1 x2, uvarint n1 ++ x1 = uvarint n2 ++ x2 -> n1 = n2 /\ x1 = x2.
Proof. intros n1 n2 x1 x2 H. unfold uvarint in H. eapply uvarint_fuel_inj; [apply uvarint_bound|apply uvarint_bound|exact H]. Qed.

Lemma uvarint_nonempty : forall n, uvarint n <> [].
Proof. intros n. unfold uvarint. cbn [uvarint_fuel]. destruct (n <? 128)%N; discriminate. Qed.

Lemma app_inj_len : forall (A : Type) (a b x y : list A), length a = length b -> a ++ x = b ++ y -> a = b /\ x = y.
Proof.
  induction a as [|h a IH]; intros [|h' b] x y Hl He; simpl in *; try discriminate.
  - auto.
  - inversion He; subst. destruct (IH b x y) as [-> ->]; auto.
Qed.

Lemma merge_lp_inj : forall a b, merge_lp a = merge_lp b -> a = b.
Proof.
  induction a as [|k a IH]; intros [|k' b] H; cbn [merge_lp] in H.
  - reflexivity.
  - destruct (uvarint (N.of_nat (length k'))) eqn:E; [apply uvarint_nonempty in E; contradiction|discriminate].
  - destruct (uvarint (N.of_nat (length k))) eqn:E; [apply uvarint_nonempty in E; contradiction|discriminate].
  - apply uvarint_inj in H. destruct H as [Hn Hr].
    apply Nat2N.inj in Hn. apply app_inj_len in Hr; [|exact Hn]. destruct Hr as [-> Hr].
    f_equal. apply IH. exact Hr.
Qed.

Lemma attribution_lp_lemma : forall nout evs ks, In ks (keys_of evs) -> attributed (merge_key true) nout evs ks.
Proof.
  intros nout evs ks H. apply attribution_lemma; [|exact H].
  intros a b _ _ Hm. apply merge_lp_inj. exact Hm.
Qed.

(* the original key: attribution holds as long as no two occurring tuples have the same concatenation *)
Lemma attribution_concat_lemma : forall nout evs,
  (forall a b, In a (keys_of evs) -> In b (keys_of evs) -> concat a = concat b -> a = b) ->
  forall ks, In ks (keys_of evs) -> attributed (merge_key false) nout evs ks.
Proof. intros nout evs H ks Hin. apply attribution_lemma; [exact H|exact Hin]. Qed.

(* ------------------------------------------------------------------------------------------ *)
(* input + workers over a stream of records: pipeline passed + dropped = input passed            *)

Definition p_bal (s : pstate) : Prop :=
  kmap_sum g_n (p_map s) = p_entered s /\ kmap_sum g_b (p_map s) = p_entered_b s.

Lemma p_bal_step : forall mg s e, p_bal s -> p_bal (p_step_mg mg s e).
Proof.
  intros mg s e [H1 H2]. unfold p_bal.
  destruct e as [ks len fired drop | o size]; cbn [p_step_mg p_map p_entered p_entered_b]; [|split; assumption].
  split.
  - rewrite (kmap_sum_upd g_n 1); [lia| |reflexivity].
    intros kc. unfold g_n; simpl. destruct drop; simpl; lia.
  - rewrite (kmap_sum_upd g_b len); [lia| |reflexivity].
    intros kc. unfold g_b; simpl. destruct drop; simpl; lia.
Qed.

Fixpoint pipes_sum (f : pstate -> Z) (ps : list (bytes * pstate)) : Z :=
  match ps with [] => 0 | (_, v) :: r => f v + pipes_sum f r end.

Lemma pipes_sum_upd : forall mg (f : pstate -> Z) (delta : Z) e m pk,
  (forall v, f (p_step_mg mg v e) = f v + delta) -> f (p_init 0) = 0 ->
  pipes_sum f (pipes_upd mg m pk e) = pipes_sum f m + delta.
Proof.
  intros mg f delta e m pk Hf H0. induction m as [|[k v] m IH]; simpl.
  - rewrite Hf, H0. lia.
  - destruct (bytes_eqb k pk); simpl; [rewrite Hf|rewrite IH]; lia.
Qed.

Lemma pipes_bal_upd : forall mg e m pk,
  Forall (fun pv => p_bal (snd pv)) m -> Forall (fun pv => p_bal (snd pv)) (pipes_upd mg m pk e).
Proof.
  intros mg e m pk H. induction m as [|[k v] m IH]; simpl.
  - constructor; [|constructor]. simpl. apply p_bal_step. split; reflexivity.
  - inversion H; subst. destruct (bytes_eqb k pk); constructor; auto. simpl in *. apply p_bal_step. assumption.
Qed.

(* a record is well formed when the worker event exists exactly for a record returned to the receiver, with the
   same raw length *)
Definition rr_wf (r : rec_run) : Prop :=
  match rr_in r, rr_p r with
  | InParsed len _ _ false, Some (PRec _ len' _ _) => len' = len
  | InParsed _ _ _ true, None => True
  | InMalformed _, None => True
  | _, _ => False
  end.

Definition pipes_total_n (ps : list (bytes * pstate)) : Z := pipes_sum (fun v => kmap_sum g_n (p_map v)) ps.
Definition pipes_total_b (ps : list (bytes * pstate)) : Z := pipes_sum (fun v => kmap_sum g_b (p_map v)) ps.

Lemma run_records_in : forall counted mg rs i0 ps0,
  fst (fold_left (rec_step counted mg) rs (i0, ps0)) = fold_left (in_step counted) (map rr_in rs) i0.
Proof.
  intros counted mg. induction rs as [|r rs IH]; intros i0 ps0; simpl; [reflexivity|].
  unfold rec_step at 2. simpl. destruct (rr_p r); apply IH.
Qed.

Lemma pipeline_equals_input_lemma : forall mg rs,
  Forall rr_wf rs ->
  let st := run_records true mg rs in
  pipes_total_n (snd st) = ic_pn (i_cnt (fst st)) /\ pipes_total_b (snd st) = ic_pb (i_cnt (fst st)).
Proof.
  intros mg rs Hwf st.
  assert (Hin : fst st = in_run true (map rr_in rs)) by (unfold st, run_records, in_run; apply run_records_in).
  destruct (in_passed_is_delivered_lemma (map rr_in rs)) as (Hpn & Hpb & _ & _).
  rewrite Hin, Hpn, Hpb.
  (* the workers have received exactly the delivered records *)
  assert (Hinv : pipes_sum p_entered (snd st) = count_ev ev_delivered (map rr_in rs) /\
                 pipes_sum p_entered_b (snd st) = sum_len ev_delivered (map rr_in rs) /\
                 Forall (fun pv => p_bal (snd pv)) (snd st)).
  { unfold st, run_records. clear Hin Hpn Hpb st.
    assert (G : forall rs (i0 : in_state) ps0 (n0 b0 : Z),
               Forall rr_wf rs ->
               pipes_sum p_entered ps0 = n0 -> pipes_sum p_entered_b ps0 = b0 ->
               Forall (fun pv => p_bal (snd pv)) ps0 ->
               let st := fold_left (rec_step true mg) rs (i0, ps0) in
               pipes_sum p_entered (snd st) = n0 + count_ev ev_delivered (map rr_in rs) /\
               pipes_sum p_entered_b (snd st) = b0 + sum_len ev_delivered (map rr_in rs) /\
               Forall (fun pv => p_bal (snd pv)) (snd st)).
    { induction rs0 as [|r rs0 IH]; intros i0 ps0 n0 b0 Hw Hn Hb Hbal; simpl.
      - repeat split; try lia. exact Hbal.
      - inversion Hw as [|? ? Hr Hw']; subst.
        unfold rec_step at 2 4 6. unfold rr_wf in Hr.
        destruct (rr_in r) as [len|len ovf fired xdrop] eqn:Ei; destruct (rr_p r) as [e|] eqn:Ep; try contradiction.
        + (* malformed *) cbn [fst snd]. 
          destruct (IH (in_step true i0 (InMalformed len)) ps0 (pipes_sum p_entered ps0) (pipes_sum p_entered_b ps0) Hw' eq_refl eq_refl Hbal) as (A & B & C).
          cbn [ev_delivered]. repeat split; try assumption; lia.
        + destruct xdrop; [contradiction|]. destruct e as [ks len' fired' drop'|]; [|contradiction]. subst len'.
          cbn [fst snd].
          destruct (IH (in_step true i0 (InParsed len ovf fired false)) (pipes_upd mg ps0 (keys_text (rr_pipe r)) (PRec ks len fired' drop'))
                      (pipes_sum p_entered ps0 + 1) (pipes_sum p_entered_b ps0 + len) Hw') as (A & B & C).
          * apply pipes_sum_upd; [intros v; reflexivity|reflexivity].
          * apply pipes_sum_upd; [intros v; reflexivity|reflexivity].
          * apply pipes_bal_upd. exact Hbal.
          * cbn [ev_delivered ev_len]. repeat split; try assumption; lia.
        + destruct xdrop; [|contradiction]. cbn [fst snd].
          destruct (IH (in_step true i0 (InParsed len ovf fired true)) ps0 (pipes_sum p_entered ps0) (pipes_sum p_entered_b ps0) Hw' eq_refl eq_refl Hbal) as (A & B & C).
          cbn [ev_delivered]. repeat split; try assumption; lia. }
    destruct (G rs in_init [] 0 0 Hwf eq_refl eq_refl (Forall_nil _)) as (A & B & C).
    repeat split; try assumption; lia. }
  destruct Hinv as (Hn & Hb & Hbal).
  unfold pipes_total_n, pipes_total_b. rewrite <- Hn, <- Hb.
  clear -Hbal. induction (snd st) as [|[k v] m IH]; simpl; [split; reflexivity|].
  inversion Hbal as [|? ? [H1 H2] Hr]; subst. simpl in H1, H2. destruct (IH Hr) as [I1 I2]. split; lia.
Qed.

(* ------------------------------------------------------------------------------------------ *)
(* D. buffer                                                                                     *)

Lemma zlen_app : forall (A : Type) (a b : list A), zlen (a ++ b) = zlen a + zlen b.
Proof. intros. unfold zlen. rewrite app_length. lia. Qed.
Lemma zlen_cons : forall (A : Type) (x : A) l, zlen (x :: l) = 1 + zlen l.
Proof. intros. unfold zlen. simpl length. lia. Qed.
Lemma zlen_nil : forall (A : Type), zlen (@nil A) = 0.
Proof. reflexivity. Qed.
Lemma zlen_nonneg : forall (A : Type) (l : list A), 0 <= zlen l.
Proof. intros. unfold zlen. lia. Qed.

Fixpoint nsaved (l : list chunk) : Z :=
  match l with [] => 0 | c :: r => bool_Z (ch_saved c) + nsaved r end.
Definition nsaved_opt (o : option chunk) : Z := match o with Some c => bool_Z (ch_saved c) | None => 0 end.

Lemma nsaved_app : forall a b, nsaved (a ++ b) = nsaved a + nsaved b.
Proof. induction a; intros; simpl; [reflexivity|]. rewrite IHa. lia. Qed.

Lemma take_id_spec : forall id l c r, take_id id l = Some (c, r) ->
  zlen l = zlen r + 1 /\ nsaved l = nsaved r + bool_Z (ch_saved c) /\ ch_id c = id.
Proof.
  induction l as [|x l IH]; intros c r H; simpl in H; [discriminate|].
  destruct (ch_id x =? id) eqn:E.
  - inversion H; subst. rewrite zlen_cons. cbn [nsaved]. repeat split; lia.
  - destruct (take_id id l) as [[y r']|] eqn:T; [|discriminate]. inversion H; subst.
    destruct (IH _ _ eq_refl) as (A & B & C). rewrite !zlen_cons. cbn [nsaved]. repeat split; lia.
Qed.

Definition all_saved (l : list chunk) : Prop := Forall (fun c => ch_saved c = true) l.

Lemma all_saved_snoc : forall l c, all_saved l -> ch_saved c = true -> all_saved (l ++ [c]).
Proof. intros l c H Hc. apply Forall_app. split; [exact H|]. constructor; [exact Hc|constructor]. Qed.

Record b_inv (cfg : bcfg) (n0 : Z) (s : bstate) : Prop := {
  bi_pending : m_pending (b_m s) = b_holdings s;
  bi_balance : m_in_t (b_m s) + m_in_p (b_m s) = m_consumed (b_m s) + m_leftover (b_m s) + m_dropped (b_m s) + m_pending (b_m s);
  bi_input : m_in_t (b_m s) + m_in_p (b_m s) = b_accepted s + b_recovered s;
  bi_parked : all_saved (b_parked s);
  bi_left : all_saved (b_left s);
  bi_leftover : m_leftover (b_m s) = zlen (b_left s) + zlen (b_lost s);
  bi_fix5 : bc_fix5 cfg = true -> b_lost s = [];
  bi_files : b_nfiles s = (n0 - b_recovered s) + nsaved (b_queue s) + nsaved_opt (b_hand s) + nsaved (b_window s)
                          + nsaved (b_held s) + nsaved (b_parked s) + zlen (b_left s) + b_orphans s;
  bi_done : b_phase s = BDone -> b_queue s = [] /\ b_hand s = None /\ b_window s = [] /\ b_held s = []
}.

Lemma b_init_inv : forall cfg n0, b_inv cfg n0 (b_init n0).
Proof. intros cfg n0. constructor; simpl; intros; try reflexivity; try (constructor; fail); rewrite ?zlen_nil; try lia; try discriminate. Qed.

Ltac b_crunch :=
  repeat match goal with
  | H : context [if ?c then _ else _] |- _ => destruct c eqn:?
  | H : context [match ?x with _ => _ end] |- _ => destruct x eqn:?
  | H : Some _ = Some _ |- _ => inversion H; clear H; subst
  | H : (_, _) = (_, _) |- _ => inversion H; clear H; subst
  | H : None = Some _ |- _ => discriminate H
  | H : Some _ = None |- _ => discriminate H
  end.

Lemma b_step_inv : forall cfg n0 s e s', b_inv cfg n0 s -> b_step cfg s e = Some s' -> b_inv cfg n0 s'.
Proof.
  intros cfg n0 s e s' Hi Hs.
  destruct Hi as [I1 I2 I3 I4 I5 I6 I7 I8 I9].
  unfold b_holdings in *.
  destruct s as [[mp mt mpe mc ml md mpc mpb mio] q h w held parked left lost nf orph ph acc rcv].
  cbn [b_m b_queue b_hand b_window b_held b_parked b_left b_lost b_nfiles b_orphans b_phase b_accepted b_recovered
       m_pending m_in_t m_in_p m_consumed m_leftover m_dropped m_pchunks m_pbytes m_ioerr] in *.
  destruct e; unfold b_step in Hs; unfold save_chunk, op_unload, op_remove, man_dropped, m_resolve, m_input, set_m in Hs;
    cbn [b_m b_queue b_hand b_window b_held b_parked b_left b_lost b_nfiles b_orphans b_phase b_accepted b_recovered
       m_pending m_in_t m_in_p m_consumed m_leftover m_dropped m_pchunks m_pbytes m_ioerr ch_saved ch_loaded ch_size ch_id] in Hs;
    destruct ph; cbn [running feeding] in Hs; try discriminate;
    b_crunch; try discriminate.
  all: try (match goal with H : take_id _ _ = Some _ |- _ => apply take_id_spec in H; destruct H as (? & ? & ?) end).
  all: constructor; unfold b_holdings; cbn [b_m b_queue b_hand b_window b_held b_parked b_left b_lost b_nfiles b_orphans b_phase b_accepted b_recovered
        m_pending m_in_t m_in_p m_consumed m_leftover m_dropped m_pchunks m_pbytes m_ioerr ch_saved ch_id ch_size ch_loaded];
       rewrite ?zlen_app, ?nsaved_app, ?zlen_cons, ?zlen_nil in *; cbn [nsaved nsaved_opt len_opt bool_Z ch_saved] in *;
       try assumption; try discriminate; try lia;
       try (apply all_saved_snoc; [assumption|first [assumption|reflexivity]]);
       try (intros; discriminate).
  all: repeat match goal with
       | |- context [bool_Z (ch_saved ?c)] => destruct (ch_saved c) eqn:?
       | H : context [bool_Z (ch_saved ?c)] |- _ => destruct (ch_saved c) eqn:?
       end; cbn [bool_Z negb andb] in *; try discriminate; try lia.
  all: try (intros Hf; first [congruence | apply I7; first [assumption | reflexivity | congruence]]).
  all: intros _; repeat split; reflexivity.
Qed.

Lemma b_run_inv : forall cfg n0 evs s s', b_inv cfg n0 s -> b_run cfg s evs = Some s' -> b_inv cfg n0 s'.
Proof.
  intros cfg n0. induction evs as [|e evs IH]; intros s s' Hi Hr; simpl in Hr.
  - inversion Hr; subst; exact Hi.
  - destruct (b_step cfg s e) eqn:Hs; [|discriminate]. eapply IH; [|exact Hr]. eapply b_step_inv; eauto.
Qed.

(* accepted = delivered + left on disk + dropped + still pending, in every reachable state *)
Lemma buffer_balance_lemma : forall cfg n0 evs s,
  b_run cfg (b_init n0) evs = Some s ->
  m_in_t (b_m s) + m_in_p (b_m s) = m_consumed (b_m s) + m_leftover (b_m s) + m_dropped (b_m s) + m_pending (b_m s) /\
  m_in_t (b_m s) + m_in_p (b_m s) = b_accepted s + b_recovered s /\
  m_pending (b_m s) = b_holdings s.
Proof.
  intros cfg n0 evs s Hr. destruct (b_run_inv cfg n0 evs _ _ (b_init_inv cfg n0) Hr) as [I1 I2 I3 _ _ _ _ _ _]. auto.
Qed.

Lemma nsaved_all : forall l, all_saved l -> nsaved l = zlen l.
Proof.
  induction l as [|c l IH]; intros H; [reflexivity|]. inversion H; subst.
  rewrite zlen_cons. cbn [nsaved]. rewrite H2, IH by assumption. simpl. lia.
Qed.

(* after Destroy has completed: nothing is in the queues or with the consumer; what is still counted in
   pending_chunks are exactly the chunks saved by the feeder at shutdown, each of them a file *)
Lemma buffer_done_lemma : forall cfg n0 evs s,
  b_run cfg (b_init n0) evs = Some s -> b_phase s = BDone ->
  m_pending (b_m s) = zlen (b_parked s) /\ all_saved (b_parked s) /\
  b_accepted s + b_recovered s = m_consumed (b_m s) + m_leftover (b_m s) + m_dropped (b_m s) + zlen (b_parked s) /\
  b_nfiles s = (n0 - b_recovered s) + zlen (b_parked s) + zlen (b_left s) + b_orphans s.
Proof.
  intros cfg n0 evs s Hr Hd.
  destruct (b_run_inv cfg n0 evs _ _ (b_init_inv cfg n0) Hr) as [I1 I2 I3 I4 I5 I6 I7 I8 I9].
  destruct (I9 Hd) as (Hq & Hh & Hw & Hheld). unfold b_holdings in I1. rewrite Hq, Hh, Hw, Hheld in *.
  cbn [nsaved nsaved_opt len_opt] in *. rewrite zlen_nil in *. rewrite (nsaved_all _ I4) in I8.
  repeat split; try assumption; lia.
Qed.

(* "pending = 0 after Destroy" does NOT hold: a chunk saved by the feeder at shutdown stays counted *)
Definition bcfg_std (fix5 : bool) : bcfg := BC true 1000000 8 4 fix5.

Lemma pending_zero_after_destroy_refuted_lemma :
  exists evs s, b_run (bcfg_std false) (b_init 0) evs = Some s /\ b_phase s = BDone /\ m_pending (b_m s) <> 0.
Proof.
  exists [BAccept 1 10 false true; BDestroy; BFeedTake; BFeedAbort; BSaveLast true; BFinish].
  eexists. split; [vm_compute; reflexivity|]. split; [reflexivity|]. vm_compute. discriminate.
Qed.

(* original OnChunkLeftover: a hand-back that cannot be stored is counted as leftover although the chunk is
   nowhere (finding of C03, repaired there) *)
Lemma leftover_lost_refuted_lemma :
  exists cfg evs s, bc_fix5 cfg = false /\ b_run cfg (b_init 0) evs = Some s /\
    m_leftover (b_m s) = 1 /\ b_left s = [] /\ b_nfiles s = 0 /\ b_holdings s = 0.
Proof.
  exists (BC false 1000000 8 4 false), [BAccept 1 10 false true; BFeedTake; BFeedPush; BTake; BLeftover 1 true].
  eexists. split; [reflexivity|]. split; [vm_compute; reflexivity|]. vm_compute. repeat split; reflexivity.
Qed.

(* with the repair every chunk counted as leftover is on disk *)
Lemma leftover_on_disk_lemma : forall cfg n0 evs s,
  bc_fix5 cfg = true -> b_run cfg (b_init n0) evs = Some s ->
  m_leftover (b_m s) = zlen (b_left s) /\ all_saved (b_left s).
Proof.
  intros cfg n0 evs s Hf Hr.
  destruct (b_run_inv cfg n0 evs _ _ (b_init_inv cfg n0) Hr) as [_ _ _ _ I5 I6 I7 _ _].
  rewrite (I7 Hf), zlen_nil in I6. split; [lia|exact I5].
Qed.

