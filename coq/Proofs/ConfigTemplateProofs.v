(* Facts about Model/ConfigTemplate.v: NewExpander never panics (after the fix), the parts it
   builds index inside the record, the run-time solver is total, and an accepted template is
   one of the grammar of Spec/ConfigSpec.v. *)
From SV Require Import Model.Common Model.ConfigTemplate Model.ConfigExtractor Model.Config Spec.ConfigSpec Proofs.CommonFacts.
From Coq Require Import Lia ZifyBool ZifyN ZifyNat.
Ltac Zify.zify_post_hook ::= Z.div_mod_to_equations.
Open Scope Z_scope.

(* ---------- the outcome monad ---------- *)
Definition np {A} (o : outcome A) : Prop := is_panic o = false.

Lemma obind_ok : forall A B (o : outcome A) (f : A -> outcome B) v,
  obind o f = Ok v -> exists a, o = Ok a /\ f a = Ok v.
Proof. intros A B [a|e|s] f v H; simpl in H; try discriminate. eauto. Qed.

Lemma np_bind : forall A B (o : outcome A) (f : A -> outcome B),
  np o -> (forall a, o = Ok a -> np (f a)) -> np (obind o f).
Proof. intros A B [a|e|s] f H1 H2; simpl; auto. Qed.

Lemma np_ok : forall A (a : A), np (Ok a). Proof. reflexivity. Qed.
Lemma np_err : forall A e, np (@Err A e). Proof. reflexivity. Qed.
Lemma np_check : forall b e, np (check b e). Proof. intros [|] e; reflexivity. Qed.
Lemma check_ok : forall b e u, check b e = Ok u -> b = true.
Proof. intros [|] e u H; [reflexivity|discriminate]. Qed.
Lemma check_true : forall e, check true e = Ok tt. Proof. reflexivity. Qed.

#[export] Hint Resolve np_ok np_err np_check : np.

Ltac inv_bind H :=
  let a := fresh "a" in let Ha := fresh "Ha" in
  apply obind_ok in H; destruct H as [a [Ha H]].
Tactic Notation "bind_inv" hyp(H) "as" ident(a) ident(Ha) :=
  apply obind_ok in H; destruct H as [a [Ha H]].

(* ---------- span, break_at ---------- *)
Lemma span_spec : forall p s a b, span p s = (a, b) ->
  s = a ++ b /\ Forall (fun c => p c = true) a /\ (match b with [] => True | c :: _ => p c = false end).
Proof.
  induction s as [|c s IH]; intros a b H; simpl in H.
  - inversion H; subst. repeat split; constructor.
  - destruct (p c) eqn:E.
    + destruct (span p s) as [a' b'] eqn:E2. inversion H; subst.
      destruct (IH a' b eq_refl) as [H1 [H2 H3]]. subst s. repeat split; auto.
    + inversion H; subst. repeat split; auto.
Qed.

Lemma span_length : forall p s a b, span p s = (a, b) -> (length b <= length s)%nat.
Proof.
  intros p s a b H. apply span_spec in H. destruct H as [H _]. subst. rewrite app_length. lia.
Qed.

Lemma break_at_spec : forall c s a b, break_at c s = Some (a, b) -> s = a ++ c :: b.
Proof.
  induction s as [|x s IH]; intros a b H; simpl in H; [discriminate|].
  destruct (x =? c)%N eqn:E.
  - inversion H; subst. apply N.eqb_eq in E. subst. reflexivity.
  - destruct (break_at c s) as [[a' b']|] eqn:E2; [|discriminate]. inversion H; subst.
    rewrite (IH a' b eq_refl). reflexivity.
Qed.

Lemma break_at_length : forall c s a b, break_at c s = Some (a, b) -> (length b < length s)%nat.
Proof. intros c s a b H. apply break_at_spec in H. subst. rewrite app_length. simpl. lia. Qed.

(* ---------- locate ---------- *)
Lemma locate_from_spec : forall names name pos i,
  locate_from names name pos = Some i -> In name names /\ (pos <= i < pos + length names)%nat.
Proof.
  induction names as [|x r IH]; intros name pos i H; simpl in H; [discriminate|].
  destruct (bytes_eqb x name) eqn:E.
  - inversion H; subst. apply bytes_eqb_eq in E. subst. split; [left; reflexivity|simpl; lia].
  - apply IH in H. destruct H as [H1 H2]. split; [right; assumption|simpl; lia].
Qed.

Lemma locate_spec : forall names name i, locate names name = Some i -> In name names /\ (i < length names)%nat.
Proof. intros names name i H. apply locate_from_spec in H. destruct H as [H1 H2]. split; [assumption|lia]. Qed.

Lemma locate_from_none : forall names name pos, locate_from names name pos = None -> ~ In name names.
Proof.
  induction names as [|x r IH]; intros name pos H; simpl in *; [tauto|].
  destruct (bytes_eqb x name) eqn:E; [discriminate|].
  intros [Hx|Hr]; [subst; rewrite bytes_eqb_refl in E; discriminate|]. eapply IH; eauto.
Qed.

Lemma locate_in : forall names name, In name names -> exists i, locate names name = Some i.
Proof.
  intros names name H. destruct (locate names name) eqn:E; [eauto|].
  exfalso. eapply locate_from_none; eauto.
Qed.

(* ---------- no panic in NewExpander ---------- *)
Lemma np_slice_bound : forall s d, np (slice_bound false s d).
Proof. intros [|c s] d; simpl; [reflexivity|]. destruct (atoi (c :: s)); reflexivity. Qed.

Lemma np_expander_parts : forall resolve ps, np (expander_parts false resolve ps).
Proof.
  induction ps as [|p ps IH]; simpl; [reflexivity|].
  destruct p as [s|name|body|].
  - apply np_bind; auto with np.
  - destruct (resolve name); [apply np_bind; auto with np|reflexivity].
  - destruct (parse_vexpr body) as [[name bounds]|]; [|reflexivity].
    destruct (resolve name); [|reflexivity].
    destruct bounds as [[a b]|].
    + apply np_bind; [apply np_slice_bound|intros]. apply np_bind; [apply np_slice_bound|intros].
      apply np_bind; auto with np.
    + apply np_bind; auto with np.
  - assumption.
Qed.

Lemma np_new_expander : forall resolve t, np (new_expander false resolve t).
Proof.
  intros. unfold new_expander. destruct (has_dollar2 t); [reflexivity|].
  apply np_bind; [apply np_expander_parts|intros]. destruct (has_skip _); reflexivity.
Qed.

(* ---------- the parts index inside [0, n) ---------- *)
Lemma expander_parts_safe : forall ap resolve (n : Z) ps r,
  (forall name i, resolve name = Some i -> Z.of_nat i < n) ->
  expander_parts ap resolve ps = Ok r -> forallb (rpart_safe n) r = true.
Proof.
  intros ap resolve n ps. induction ps as [|p ps IH]; intros r Hres H; simpl in H.
  - inversion H; reflexivity.
  - destruct p as [s|name|body|].
    + inv_bind H. inversion H; subst. simpl. eauto.
    + destruct (resolve name) eqn:E; [|discriminate]. inv_bind H. inversion H; subst. simpl.
      rewrite (IH a Hres Ha). apply Hres in E. destruct (Z.of_nat n0 <? n) eqn:E2; [reflexivity|lia].
    + destruct (parse_vexpr body) as [[name bounds]|]; [|discriminate].
      destruct (resolve name) eqn:E; [|discriminate]. apply Hres in E.
      destruct bounds as [[a b]|].
      * bind_inv H as z1 Hz1. bind_inv H as z2 Hz2. bind_inv H as a2 Ha2. inversion H; subst. simpl. rewrite (IH a2 Hres Ha2).
        destruct (Z.of_nat n0 <? n) eqn:E2; [reflexivity|lia].
      * inv_bind H. inversion H; subst. simpl. rewrite (IH a Hres Ha).
        destruct (Z.of_nat n0 <? n) eqn:E2; [reflexivity|lia].
    + eauto.
Qed.

Lemma new_expander_safe : forall ap scope t r,
  new_expander ap (locate scope) t = Ok r -> forallb (rpart_safe (Z.of_nat (length scope))) r = true.
Proof.
  intros ap scope t r H. unfold new_expander in H. destruct (has_dollar2 t); [discriminate|].
  inv_bind H. destruct (has_skip _); [discriminate|]. inversion H; subst.
  eapply expander_parts_safe; [|eassumption].
  intros name i Hl. apply locate_spec in Hl. lia.
Qed.

Lemma rpart_safe_mono : forall n m p, n <= m -> rpart_safe n p = true -> rpart_safe m p = true.
Proof. intros n m [s|i|i a b] H Hs; simpl in *; [reflexivity| |]; lia. Qed.

Lemma rparts_safe_mono : forall n m ps, n <= m -> forallb (rpart_safe n) ps = true -> forallb (rpart_safe m) ps = true.
Proof.
  intros n m ps H. induction ps as [|p ps IH]; simpl; [reflexivity|]. intro Hs.
  apply andb_true_iff in Hs. destruct Hs as [H1 H2]. rewrite (rpart_safe_mono _ _ _ H H1), (IH H2). reflexivity.
Qed.

(* ---------- run time: the solver is total ---------- *)
Lemma fget_ok : forall (f : list bytes) i, (i < length f)%nat -> exists v, fget f i = Ok v.
Proof.
  intros f i H. unfold fget. destruct (nth_error f i) eqn:E; [eauto|].
  apply nth_error_None in E. lia.
Qed.

Lemma slice_z_ok : forall v a b, 0 <= a -> a <= b -> b <= Z.of_nat (length v) -> exists r, slice_z v a b = Ok r.
Proof.
  intros v a b H1 H2 H3. unfold slice_z.
  destruct ((0 <=? a) && (a <=? b) && (b <=? Z.of_nat (length v))) eqn:E; [eauto|lia].
Qed.

Lemma solve_slice_ok : forall v a b, exists r, solve_slice v a b = Ok r.
Proof.
  intros v a b. unfold solve_slice.
  assert (Hlen : 0 <= Z.of_nat (length v)) by lia.
  remember (Z.of_nat (length v)) as len eqn:Elen.
  repeat match goal with
         | |- context [if ?c then _ else _] => destruct c eqn:?
         end; eauto; (apply slice_z_ok; try rewrite <- Elen; lia).
Qed.

Lemma run_part_ok : forall f p, rpart_safe (Z.of_nat (length f)) p = true -> exists v, run_part f p = Ok v.
Proof.
  intros f [s|i|i a b] H; simpl in *.
  - eauto.
  - apply fget_ok. lia.
  - destruct (fget_ok f i) as [v Hv]; [lia|]. rewrite Hv. simpl. apply solve_slice_ok.
Qed.

Lemma expand_ok : forall f ps, forallb (rpart_safe (Z.of_nat (length f))) ps = true -> exists v, expand f ps = Ok v.
Proof.
  intros f ps. induction ps as [|p ps IH]; simpl; intro H; [eauto|].
  apply andb_true_iff in H. destruct H as [H1 H2].
  destruct (run_part_ok f p H1) as [a Ha]. destruct (IH H2) as [b Hb]. rewrite Ha, Hb. simpl. eauto.
Qed.

(* ---------- an accepted template belongs to the grammar ---------- *)
Definition tpart_text (p : tpart) : bytes :=
  match p with
  | PLit s => s
  | PVar name => ch_dollar :: name
  | PExpr body => ch_dollar :: ch_lbrace :: body ++ [ch_rbrace]
  | PSkip => []
  end.

Definition tpart_wf (p : tpart) : Prop :=
  match p with
  | PLit s => s <> [] /\ Forall (fun c => c <> ch_dollar) s
  | PVar name => word name
  | PExpr _ => True
  | PSkip => False
  end.

Lemma not_dollar_neq : forall c, not_dollar c = true -> c <> ch_dollar.
Proof. intros c H. unfold not_dollar in H. intro E. subst. simpl in H. discriminate. Qed.

Lemma tokenize_sound : forall fuel s, (length s < fuel)%nat -> has_skip (tokenize fuel s) = false ->
  s = concat (map tpart_text (tokenize fuel s)) /\ Forall tpart_wf (tokenize fuel s).
Proof.
  induction fuel as [|fuel IH]; intros s Hlen Hskip; [lia|].
  destruct s as [|c rest]; [simpl; split; [reflexivity|constructor]|].
  cbn [tokenize] in *.
  destruct (c =? ch_dollar)%N eqn:Ec.
  - apply N.eqb_eq in Ec. subst c.
    destruct rest as [|w rest1]; [simpl in Hskip; discriminate|].
    destruct (is_word w) eqn:Ew.
    + destruct (span is_word (w :: rest1)) as [name after] eqn:Es.
      pose proof (span_spec _ _ _ _ Es) as [Hs1 [Hs2 Hs3]]. pose proof (span_length _ _ _ _ Es) as Hl.
      simpl in Hskip. simpl in Hlen.
      destruct (IH after ltac:(simpl in Hl; lia) Hskip) as [IH1 IH2].
      split.
      * simpl. rewrite <- IH1. rewrite Hs1. reflexivity.
      * constructor; [|assumption]. simpl. split; [|assumption].
        simpl in Es. rewrite Ew in Es. destruct (span is_word rest1). inversion Es. discriminate.
    + destruct (w =? ch_lbrace)%N eqn:Eb; [|simpl in Hskip; discriminate].
      apply N.eqb_eq in Eb. subst w.
      destruct rest1 as [|w1 rest2]; [simpl in Hskip; discriminate|].
      destruct (is_word w1) eqn:Ew1; [|simpl in Hskip; discriminate].
      destruct (break_at ch_rbrace (w1 :: rest2)) as [[body after]|] eqn:Ebr; [|simpl in Hskip; discriminate].
      pose proof (break_at_spec _ _ _ _ Ebr) as Hb. pose proof (break_at_length _ _ _ _ Ebr) as Hl.
      simpl in Hskip. simpl in Hlen.
      destruct (IH after ltac:(simpl in Hl; lia) Hskip) as [IH1 IH2].
      split.
      * simpl. rewrite <- IH1. rewrite Hb. rewrite <- app_assoc. reflexivity.
      * constructor; [exact I|assumption].
  - destruct (span not_dollar (c :: rest)) as [lit after] eqn:Es.
    pose proof (span_spec _ _ _ _ Es) as [Hs1 [Hs2 Hs3]]. pose proof (span_length _ _ _ _ Es) as Hl.
    assert (Hne : lit <> []).
    { simpl in Es. unfold not_dollar at 1 in Es. rewrite Ec in Es. simpl in Es.
      destruct (span not_dollar rest). inversion Es. discriminate. }
    simpl in Hskip.
    assert (Hl2 : (length after < length (c :: rest))%nat).
    { rewrite Hs1. rewrite app_length. destruct lit; [congruence|simpl; lia]. }
    destruct (IH after ltac:(simpl in *; lia) Hskip) as [IH1 IH2].
    split.
    + simpl. rewrite <- IH1. exact Hs1.
    + constructor; [|assumption]. simpl. split; [assumption|].
      eapply Forall_impl; [|exact Hs2]. intros a Ha. apply not_dollar_neq. exact Ha.
Qed.

(* parse_optint: nothing, or '-'? digits+ *)
Lemma parse_optint_spec : forall s a r, parse_optint s = (a, r) ->
  s = a ++ r /\ (a = [] \/ exists (neg : bool) (ds : bytes), a = (if neg then ch_minus :: ds else ds) /\ ds <> [] /\ Forall (fun c => is_digit c = true) ds).
Proof.
  intros s a r H. unfold parse_optint in H. destruct s as [|c s']; [inversion H; split; auto|].
  destruct (c =? ch_minus)%N eqn:E.
  - apply N.eqb_eq in E. subst c.
    destruct (span is_digit s') as [ds after] eqn:Es. pose proof (span_spec _ _ _ _ Es) as [H1 [H2 _]].
    destruct ds as [|d ds]; inversion H; subst a r; [split; auto|].
    split; [simpl; rewrite H1; reflexivity|]. right. exists true, (d :: ds). repeat split; [discriminate|assumption].
  - pose proof (span_spec _ _ _ _ H) as [H1 [H2 _]]. split; [assumption|].
    destruct a as [|d ds]; [left; reflexivity|]. right. exists false, (d :: ds). repeat split; [discriminate|assumption].
Qed.

Lemma N_of_dec_acc_digits : forall ds acc, Forall (fun c => is_digit c = true) ds -> exists n, N_of_dec_acc ds acc = Some n.
Proof.
  induction ds as [|d ds IH]; intros acc H; simpl; [eauto|].
  inversion H; subst. rewrite H2. apply IH. assumption.
Qed.

Lemma digit_not_sign : forall d, is_digit d = true -> (d =? ch_minus)%N = false /\ (d =? ch_plus)%N = false.
Proof. intros d H. unfold is_digit, ch_minus, ch_plus in *. lia. Qed.

Lemma atoi_bound_text : forall (neg : bool) (ds : bytes) z, ds <> [] -> Forall (fun c => is_digit c = true) ds ->
  atoi (if neg then ch_minus :: ds else ds) = Some z ->
  bound_text (Some z) (if neg then ch_minus :: ds else ds).
Proof.
  intros neg ds z Hne Hd H. destruct ds as [|d ds']; [congruence|].
  inversion Hd as [|? ? Hd1 Hd2]; subst. destruct (digit_not_sign d Hd1) as [E1 E2].
  assert (Hcore : match N_of_dec_acc (d :: ds') 0%N with
                  | Some n => let z0 := if neg then - Z.of_N n else Z.of_N n in if in_int64 z0 then Some z0 else None
                  | None => None
                  end = Some z).
  { destruct neg; unfold atoi in H.
    - rewrite N.eqb_refl in H. exact H.
    - rewrite E1, E2 in H. exact H. }
  destruct (N_of_dec_acc (d :: ds') 0%N) as [n|] eqn:En; [|discriminate]. cbv zeta in Hcore.
  destruct (in_int64 (if neg then - Z.of_N n else Z.of_N n)) eqn:Er; [|discriminate].
  inversion Hcore; subst. exists neg, (d :: ds'), n.
  repeat split; try assumption; try discriminate; unfold in_int64 in Er; lia.
Qed.

Lemma slice_bound_text : forall a d z,
  (a = [] \/ exists (neg : bool) (ds : bytes), a = (if neg then ch_minus :: ds else ds) /\ ds <> [] /\ Forall (fun c => is_digit c = true) ds) ->
  slice_bound false a d = Ok z ->
  bound_text (match a with [] => None | _ => Some z end) a.
Proof.
  intros a d z [Ha|[neg [ds [Ha [Hne Hd]]]]] H.
  - subst. simpl. reflexivity.
  - assert (Hn : a <> []) by (subst; destruct neg; [discriminate|assumption]).
    destruct a as [|c a']; [congruence|]. cbn [slice_bound] in H.
    destruct (atoi (c :: a')) as [z'|] eqn:E; [|discriminate]. inversion H; subst z'.
    rewrite Ha in *. apply atoi_bound_text; assumption.
Qed.

Lemma parse_vexpr_spec : forall body name bounds, parse_vexpr body = Some (name, bounds) ->
  word name /\
  match bounds with
  | None => body = name
  | Some (a, b) =>
    body = name ++ ch_lbracket :: a ++ ch_colon :: b ++ [ch_rbracket] /\
    (a = [] \/ exists (neg : bool) (ds : bytes), a = (if neg then ch_minus :: ds else ds) /\ ds <> [] /\ Forall (fun c => is_digit c = true) ds) /\
    (b = [] \/ exists (neg : bool) (ds : bytes), b = (if neg then ch_minus :: ds else ds) /\ ds <> [] /\ Forall (fun c => is_digit c = true) ds)
  end.
Proof.
  intros body name bounds H. unfold parse_vexpr in H.
  destruct (span is_word body) as [nm rest] eqn:Es. pose proof (span_spec _ _ _ _ Es) as [H1 [H2 _]].
  destruct nm as [|n0 nm]; [discriminate|].
  destruct rest as [|c r1].
  - inversion H; subst. split; [split; [discriminate|assumption]|]. rewrite app_nil_r. reflexivity.
  - destruct (c =? ch_lbracket)%N eqn:Ec; [|discriminate]. apply N.eqb_eq in Ec. subst c.
    destruct (parse_optint r1) as [a r2] eqn:Ea. pose proof (parse_optint_spec _ _ _ Ea) as [Ha1 Ha2].
    destruct r2 as [|c2 r3]; [discriminate|].
    destruct (c2 =? ch_colon)%N eqn:Ec2; [|discriminate]. apply N.eqb_eq in Ec2. subst c2.
    destruct (parse_optint r3) as [b r4] eqn:Eb. pose proof (parse_optint_spec _ _ _ Eb) as [Hb1 Hb2].
    destruct r4 as [|c4 [|? ?]]; try discriminate.
    destruct (c4 =? ch_rbracket)%N eqn:Ec4; [|discriminate]. apply N.eqb_eq in Ec4. subst c4.
    inversion H; subst name bounds. split; [split; [discriminate|assumption]|].
    split; [|split; assumption]. rewrite H1, Ha1, Hb1. try rewrite <- !app_assoc. reflexivity.
Qed.

Lemma expander_parts_valid : forall scope ps r,
  Forall tpart_wf ps -> expander_parts false (locate scope) ps = Ok r ->
  exists sps, Forall2 part_text sps (map tpart_text ps) /\
              Forall (fun p => match part_var p with Some n => In n scope | None => True end) sps.
Proof.
  intros scope ps. induction ps as [|p ps IH]; intros r Hwf H.
  - exists []. split; constructor.
  - inversion Hwf as [|? ? Hp Hps]; subst. simpl in H.
    destruct p as [s|name|body|]; [| | |destruct Hp].
    + inv_bind H. destruct (IH a Hps Ha) as [sps [F1 F2]].
      exists (SLit s :: sps). split; constructor; auto; simpl; try tauto. destruct Hp. auto.
    + destruct (locate scope name) eqn:E; [|discriminate]. inv_bind H.
      destruct (IH a Hps Ha) as [sps [F1 F2]]. apply locate_spec in E.
      exists (SVar name :: sps). split; constructor; auto; simpl; tauto.
    + destruct (parse_vexpr body) as [[name bounds]|] eqn:Ep; [|discriminate].
      destruct (locate scope name) eqn:E; [|discriminate]. apply locate_spec in E.
      pose proof (parse_vexpr_spec _ _ _ Ep) as [Hw Hb].
      destruct bounds as [[a b]|].
      * destruct Hb as [Hbody [Hsa Hsb]]. bind_inv H as z1 Hz1. bind_inv H as z2 Hz2. bind_inv H as a2 Ha2.
        destruct (IH a2 Hps Ha2) as [sps [F1 F2]].
        exists (SBrace name (Some (match a with [] => None | _ => Some z1 end, match b with [] => None | _ => Some z2 end)) :: sps).
        split; constructor; auto; [|simpl; tauto].
        simpl. split; [assumption|]. exists a, b.
        split; [eapply slice_bound_text; eassumption|]. split; [eapply slice_bound_text; eassumption|].
        rewrite Hbody. repeat (rewrite <- app_assoc || rewrite <- app_comm_cons). reflexivity.
      * inv_bind H. destruct (IH a Hps Ha) as [sps [F1 F2]].
        exists (SBrace name None :: sps). split; constructor; auto; [|simpl; tauto].
        simpl. subst body. split; [reflexivity|assumption].
Qed.

Theorem new_expander_valid : forall scope t r,
  new_expander false (locate scope) t = Ok r -> template_valid scope t.
Proof.
  intros scope t r H. unfold new_expander in H. destruct (has_dollar2 t); [discriminate|].
  inv_bind H. destruct (has_skip (template_parts t)) eqn:Es; [discriminate|].
  unfold template_parts in *.
  destruct (tokenize_sound (S (length t)) t ltac:(lia) Es) as [T1 T2].
  destruct (expander_parts_valid scope _ _ T2 Ha) as [sps [F1 F2]].
  exists sps, (map tpart_text (tokenize (S (length t)) t)). auto.
Qed.
