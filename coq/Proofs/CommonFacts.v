(* Small facts about Model/Common.v used by several proof files. *)
From SV Require Import Model.Common.
From Coq Require Import Lia ZifyBool ZifyN ZifyNat.
Ltac Zify.zify_post_hook ::= Z.div_mod_to_equations.

Lemma bytes_eqb_refl : forall a, bytes_eqb a a = true.
Proof. induction a as [|x a IH]; simpl; [reflexivity|]. rewrite N.eqb_refl, IH. reflexivity. Qed.

Lemma bytes_eqb_eq : forall a b, bytes_eqb a b = true <-> a = b.
Proof.
  induction a as [|x a IH]; intros [|y b]; simpl; split; intro H; try reflexivity; try discriminate.
  - apply andb_true_iff in H. destruct H as [H1 H2]. apply N.eqb_eq in H1. apply IH in H2. subst. reflexivity.
  - inversion H; subst. rewrite N.eqb_refl. simpl. apply IH. reflexivity.
Qed.

Lemma is_digit_digit_char : forall d, (d < 10)%N -> is_digit (digit_char d) = true.
Proof. intros d H. unfold is_digit, digit_char. lia. Qed.

Lemma is_digit_spec : forall c, is_digit c = true <-> (48 <= c <= 57)%N.
Proof. intros c. unfold is_digit. lia. Qed.

Lemma split_fast_acc_eq : forall sep s cur, split_fast_acc sep s cur = split_on_acc sep s cur.
Proof.
  intros sep s. induction s as [|c s IH]; intro cur; cbn [split_fast_acc split_on_acc].
  - rewrite rev_append_rev, app_nil_r. reflexivity.
  - destruct (c =? sep)%N; rewrite IH; [rewrite rev_append_rev, app_nil_r|]; reflexivity.
Qed.

Lemma split_fast_eq : forall sep s, split_fast sep s = split_on sep s.
Proof. intros sep s. apply split_fast_acc_eq. Qed.
