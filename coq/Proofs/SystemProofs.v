(* Proofs about Model/System.v: conservation of tokens, emptiness of all transit locations at Stopped,
   at-least-once.  All theorems are invariants proved by induction over arbitrary event lists. *)
From Coq Require Import List Arith Bool Lia PeanoNat NArith.
From SV Require Import Model.Common Model.System Proofs.SystemLists.
Import ListNotations.
Open Scope nat_scope.

(* ---------- destructing a step ---------- *)

Ltac step_case H :=
  repeat match type of H with
  | (match ?x with _ => _ end) = Some _ => let E := fresh "E" in destruct x eqn:E; try discriminate H
  | (if ?x then _ else _) = Some _ => let E := fresh "E" in destruct x eqn:E; try discriminate H
  | (let (_, _) := ?x in _) = Some _ => let E := fresh "E" in destruct x eqn:E; try discriminate H
  end.

(* full case analysis of [H : step s e = Some s']: one goal per event and per branch of its guards *)
Ltac step_inv H :=
  cbn [step] in H; unfold close_chunk in H;
  try match goal with o : accept_outcome |- _ => destruct o end;
  try match goal with o : where_ |- _ => destruct o end;
  step_case H;
  repeat match goal with
  | E : (let (_, _) := _ in _) = Some _ |- _ => step_case E; inversion E; subst; clear E
  | E : (match _ with _ => _ end) = Some _ |- _ => step_case E; inversion E; subst; clear E
  end;
  try (inversion H; subst; clear H).

Definition live (s : state) : list tok := transit s ++ safe s ++ lost s.
Definition anywhere (s : state) : list tok := live s ++ filtered s.

Ltac unfold_locs :=
  unfold anywhere, live, transit, safe, add_received, set_in, set_work, set_buf, set_pph, set_cph, set_phase, do_accept, new_item in *;
  cbn [phase open_conns ingested conn_buf sink_batch key_buf chans hand cur lastid pipes pph cph queue fhand window
       leftovers unacked files acked dropped filtered lost received q_chunk q_loaded q_saved c_toks c_id c_pipe] in *.

Ltac norm_in :=
  repeat (rewrite ?toks_of_batches_app, ?toks_of_items_app, ?toks_of_chunks_app, ?in_app_iff, ?singleton_batches_toks in *).

(* instantiate, at the element [t], the membership decomposition of every take_first / partition hypothesis *)
Ltac split_facts t :=
  repeat match goal with
  | E : take_first ?f ?l = Some (?x, ?r) |- _ =>
    try pose proof (take_first_in _ f l x r E t);
    try pose proof (take_first_flat _ _ (fun q => c_toks (q_chunk q)) f l x r E t);
    try pose proof (take_first_flat _ _ (@snd nat (list tok)) f l x r E t);
    try pose proof (take_first_flat _ _ c_toks f l x r E t);
    pose proof (proj1 (take_first_spec _ f l x r E));
    revert E
  | E : partition ?f ?l = (?a, ?b) |- _ =>
    try pose proof (partition_in _ f l a b E t);
    try pose proof (partition_flat _ _ (fun q => c_toks (q_chunk q)) f l a b E t);
    try pose proof (partition_flat _ _ (@snd nat (list tok)) f l a b E t);
    try pose proof (partition_fst_true _ f l a b E t);
    try pose proof (partition_snd_false _ f l a b E t);
    revert E
  end; intros.

Ltac norm_mem :=
  unfold toks_of_items, toks_of_batches, toks_of_chunks in *;
  repeat (rewrite ?sort_items_in, ?sort_items_flat, ?flat_map_app, ?in_app_iff in * );
  cbn [flat_map In snd fst app q_chunk q_loaded q_saved c_toks c_id c_pipe] in *;
  repeat (rewrite ?flat_map_app, ?in_app_iff, ?app_nil_r, ?singleton_batches_flat in * );
  cbn [flat_map In snd fst app q_chunk q_loaded q_saved c_toks c_id c_pipe] in *.

(* ---------- guards as propositions ---------- *)

Lemma gphase_eqb_eq : forall a b, gphase_eqb a b = true <-> a = b.
Proof. destruct a, b; cbn; split; intros H; try reflexivity; discriminate H. Qed.
Lemma pphase_eqb_eq : forall a b, pphase_eqb a b = true <-> a = b.
Proof. destruct a, b; cbn; split; intros H; try reflexivity; discriminate H. Qed.
Lemma cphase_eqb_eq : forall a b, cphase_eqb a b = true <-> a = b.
Proof. destruct a, b; cbn; split; intros H; try reflexivity; discriminate H. Qed.
Lemma pphase_eqb_neq : forall a b, pphase_eqb a b = false <-> a <> b.
Proof. destruct a, b; cbn; split; intros H; try congruence; try discriminate. Qed.

Lemma upd_same : forall A (f : nat -> A) p v, upd f p v p = v.
Proof. intros. unfold upd. rewrite Nat.eqb_refl. reflexivity. Qed.
Lemma upd_other : forall A (f : nat -> A) p v q, q <> p -> upd f p v q = f q.
Proof. intros. unfold upd. apply Nat.eqb_neq in H. rewrite H. reflexivity. Qed.

(* turn the boolean guards in the context into propositions *)
Ltac guards :=
  repeat match goal with
  | E : _ && _ = true |- _ => apply andb_true_iff in E; destruct E
  | E : negb _ = true |- _ => apply negb_true_iff in E
  | E : gphase_eqb _ _ = true |- _ => apply gphase_eqb_eq in E
  | E : pphase_eqb _ _ = true |- _ => apply pphase_eqb_eq in E
  | E : pphase_eqb _ _ = false |- _ => apply pphase_eqb_neq in E
  | E : cphase_eqb _ _ = true |- _ => apply cphase_eqb_eq in E
  | E : mem_nat _ _ = true |- _ => apply mem_nat_spec in E
  | E : none_of _ _ = true |- _ => rewrite none_of_spec in E
  | E : existsb (chunk_eqb _) _ = true |- _ => apply existsb_chunk_in in E
  end.

(* ---------- auxiliary invariants (control state vs. contents) ---------- *)

Definition items (s : state) : list qitem := queue s ++ fhand s ++ window s ++ leftovers s ++ unacked s.

Record aux (s : state) : Prop := mkAux {
  aA : forall t, In t (conn_buf s ++ sink_batch s ++ key_buf s) -> In (t_conn t) (open_conns s);
  aD : phase s = Draining \/ phase s = Stopped -> open_conns s = [];
  aG : forall p, pph s p <> PRun -> phase s = Draining \/ phase s = Stopped;
  aB0 : forall b t, In b (chans s) -> In t (snd b) -> t_pipe t = fst b;
  aB1 : forall t, In t (key_buf s) -> In (t_pipe t) (pipes s);
  aBc : forall b, In b (chans s) -> In (fst b) (pipes s);
  aBt : forall t, In t (hand s ++ cur s) -> In (t_pipe t) (pipes s);
  aBq : forall q, In q (items s) -> In (q_pipe q) (pipes s);
  aC : forall p, pph s p <> PRun ->
         (forall b, In b (chans s) -> fst b <> p) /\ (forall t, In t (hand s ++ cur s) -> t_pipe t <> p);
  aH : forall p, pph s p = PDone -> cph s p = CDone;
  aE : forall p q, pph s p = PDone -> In q (queue s ++ fhand s ++ window s) -> q_pipe q <> p;
  aF : forall p q, cph s p <> CSess -> In q (unacked s) -> q_pipe q <> p;
  aF2 : forall p q, cph s p = CDone -> In q (leftovers s) -> q_pipe q <> p;
  aK : forall q, In q (items s) -> q_saved q = true -> In (q_chunk q) (files s) \/ In (q_chunk q) (acked s);
  aJ : phase s = Stopped -> (forall t, ~ In t (transit s)) /\ (forall q, ~ In q (items s))
}.

Lemma on_conn_false : forall k t, on_conn k t = false -> t_conn t <> k.
Proof. unfold on_conn. intros. apply Nat.eqb_neq. assumption. Qed.
Ltac fin := intuition (auto using on_conn_false; subst; auto; try congruence;
  try (unfold on_conn, on_pipe, on_cp, item_on, batch_on in *; rewrite ?Nat.eqb_refl in *; cbn in *; congruence)).
Lemma pres_A : forall s e s', aux s -> step s e = Some s' ->
  forall t, In t (conn_buf s' ++ sink_batch s' ++ key_buf s') -> In (t_conn t) (open_conns s').
Proof.
  intros s e s' Hs H t Ht. pose proof (aA _ Hs t) as HA.
  destruct e; step_inv H; guards; unfold_locs; try (exact (HA Ht)).
  all: split_facts t; norm_mem.
  all: try tauto.
  - fin.
  - rewrite remove_nat_in. fin.
Qed.
Lemma nil_of_empty : forall A (l : list A), (forall x, In x l -> False) -> l = [].
Proof. intros A [|x l] H; [reflexivity|]. exfalso. apply (H x). left. reflexivity. Qed.
Lemma pres_D : forall s e s', aux s -> step s e = Some s' ->
  phase s' = Draining \/ phase s' = Stopped -> open_conns s' = [].
Proof.
  intros s e s' Hs H. pose proof (aD _ Hs) as HD.
  destruct e; step_inv H; guards; unfold_locs; try (exact HD).
  all: try (intros [X|X]; congruence).
  all: try (intros; reflexivity).
  - intros X. rewrite (HD X) in *. contradiction.
  - intros. destruct (open_conns s); [reflexivity|discriminate].
  - intros. apply HD. left. assumption.
Qed.
Lemma pres_G : forall s e s', aux s -> step s e = Some s' ->
  forall p, pph s' p <> PRun -> phase s' = Draining \/ phase s' = Stopped.
Proof.
  intros s e s' Hs H q. pose proof (aG _ Hs q) as HG.
  destruct e; step_inv H; guards; unfold_locs; try (exact HG).
  all: try (intros X; destruct (HG X); congruence).
  all: try (intros; left; assumption).
  all: try (intros; left; reflexivity).
  all: try (intros; right; reflexivity).
  all: try (destruct (Nat.eq_dec q p) as [->|N]; [|rewrite upd_other by assumption; exact HG]).
  all: try (intros _; apply (aG _ Hs p); congruence).
  congruence.
Qed.
Lemma on_cp_true : forall k p t, on_cp k p t = true -> t_conn t = k /\ t_pipe t = p.
Proof. unfold on_cp, on_conn, on_pipe. intros. apply andb_true_iff in H. rewrite !Nat.eqb_eq in H. assumption. Qed.
Lemma pres_B0 : forall s e s', aux s -> step s e = Some s' ->
  forall b t, In b (chans s') -> In t (snd b) -> t_pipe t = fst b.
Proof.
  intros s e s' Hs H b t Hb Ht. pose proof (aB0 _ Hs b t) as HB.
  destruct e; step_inv H; guards; unfold_locs; try (exact (HB Hb Ht)).
  all: split_facts b; norm_mem.
  all: try (apply HB; tauto).
  all: try contradiction.
  - destruct Hb as [Hb|[<-|[]]]; [auto|]. cbn in *. 
    assert (X: on_cp k p t = true) by (eapply partition_fst_true; eauto).
    apply on_cp_true in X. tauto.
  - destruct Hb as [Hb|Hb]; [auto|]. apply singleton_batches_in in Hb. destruct Hb as [u [_ ->]]. cbn in Ht. destruct Ht as [<-|[]]. reflexivity.
Qed.

Lemma pres_B1 : forall s e s', aux s -> step s e = Some s' ->
  forall t, In t (key_buf s') -> In (t_pipe t) (pipes s').
Proof.
  intros s e s' Hs H t Ht. pose proof (aB1 _ Hs t) as HB.
  destruct e; step_inv H; guards; unfold_locs; try (exact (HB Ht)).
  all: split_facts t; norm_mem.
  all: try tauto.
  all: try (rewrite add_pipes_in; cbn [In]).
  - destruct Ht as [Ht|Ht]; [right; auto|left; exists t; tauto].
  - right. apply HB. tauto.
Qed.
Lemma on_pipe_true : forall p t, on_pipe p t = true -> t_pipe t = p.
Proof. unfold on_pipe. intros. apply Nat.eqb_eq. assumption. Qed.
Lemma batch_on_true : forall p b, batch_on p b = true -> fst b = p.
Proof. unfold batch_on. intros. apply Nat.eqb_eq. assumption. Qed.
Lemma item_on_true : forall p q, item_on p q = true -> q_pipe q = p.
Proof. unfold item_on. intros. apply Nat.eqb_eq. assumption. Qed.
Lemma pres_Bc : forall s e s', aux s -> step s e = Some s' ->
  forall b, In b (chans s') -> In (fst b) (pipes s').
Proof.
  intros s e s' Hs H b Hb. pose proof (aBc _ Hs b) as HB.
  destruct e; step_inv H; guards; unfold_locs; try (exact (HB Hb)).
  all: split_facts b; norm_mem.
  all: try tauto.
  all: try (rewrite add_pipes_in; cbn [In]).
  - right; auto.
  - destruct Hb as [Hb|[<-|[]]]; [auto|]. cbn.
    assert (X: on_cp k p t = true) by (eapply partition_fst_true; [eassumption|left; reflexivity]).
    apply on_cp_true in X. destruct X as [_ <-]. apply (aB1 _ Hs).
    apply (partition_in _ _ _ _ _ E). left. left. reflexivity.
  - destruct Hb as [Hb|Hb]; [right; auto|]. apply singleton_batches_in in Hb. destruct Hb as [u [Hu ->]]. cbn. left. eauto.
Qed.
Lemma pres_Bt : forall s e s', aux s -> step s e = Some s' ->
  forall t, In t (hand s' ++ cur s') -> In (t_pipe t) (pipes s').
Proof.
  intros s e s' Hs H t Ht. pose proof (aBt _ Hs t) as HB.
  destruct e; step_inv H; guards; unfold_locs; try (exact (HB Ht)).
  all: split_facts t; norm_mem.
  all: try tauto.
  all: try (rewrite add_pipes_in; cbn [In]).
  all: try (right; tauto).
  destruct Ht as [[Ht|Ht]|Ht]; [tauto| |tauto].
  assert (Hin : In p1 (chans s)) by (apply (take_first_in _ _ _ _ _ E0); left; reflexivity).
  rewrite (aB0 _ Hs p1 t Hin Ht). apply (aBc _ Hs). assumption.
Qed.
Lemma cur_pipe_in : forall s p t l1 l0, aux s -> partition (on_pipe p) (cur s) = (t :: l1, l0) -> In p (pipes s).
Proof.
  intros s p t l1 l0 Hs E.
  assert (X: on_pipe p t = true) by (eapply partition_fst_true; [eassumption|left; reflexivity]).
  apply on_pipe_true in X. subst p. apply (aBt _ Hs). apply in_app_iff. right.
  apply (partition_in _ _ _ _ _ E). left. left. reflexivity.
Qed.
Lemma pres_Bq : forall s e s', aux s -> step s e = Some s' ->
  forall q, In q (items s') -> In (q_pipe q) (pipes s').
Proof.
  intros s e s' Hs H q Hq. pose proof (aBq _ Hs q) as HB. unfold items in *.
  destruct e; step_inv H; guards; unfold_locs; try (exact (HB Hq)).
  all: split_facts q; norm_mem.
  all: try tauto.
  all: try (rewrite add_pipes_in; cbn [In]).
  all: try (right; tauto).
  all: try (destruct Hq as [[Hq|[<-|[]]]|Hq]; [tauto| |tauto]; cbn; eapply cur_pipe_in; eassumption).
  - destruct Hq as [Hq|[[<-|Hq]|Hq]]; try tauto.
    change (In (q_pipe q0) (pipes s)). apply (aBq _ Hs). unfold items. rewrite !in_app_iff. right. left. eapply tf_head_in; eassumption.
  - apply add_pipe_list_in. left. unfold recovered_queue in Hq. norm_mem. rewrite in_map_iff in *.
    destruct Hq as [[c [<- Hc]]|Hq]; [|tauto]. cbn. exists c. tauto.
Qed.

Lemma keybuf_empty_when_draining : forall s, aux s -> phase s = Draining \/ phase s = Stopped ->
  conn_buf s = [] /\ sink_batch s = [] /\ key_buf s = [].
Proof.
  intros s Hs Hp. pose proof (aD _ Hs Hp) as HO.
  assert (X: forall t, In t (conn_buf s ++ sink_batch s ++ key_buf s) -> False).
  { intros t Ht. apply (aA _ Hs) in Ht. rewrite HO in Ht. destruct Ht. }
  apply nil_of_empty in X. apply app_eq_nil in X. destruct X as [X1 X2]. apply app_eq_nil in X2. tauto.
Qed.
Lemma batch_on_false : forall p b, batch_on p b = false -> fst b <> p.
Proof. unfold batch_on. intros. apply Nat.eqb_neq. assumption. Qed.
Lemma on_pipe_false : forall p t, on_pipe p t = false -> t_pipe t <> p.
Proof. unfold on_pipe. intros. apply Nat.eqb_neq. assumption. Qed.
Lemma item_on_false : forall p q, item_on p q = false -> q_pipe q <> p.
Proof. unfold item_on. intros. apply Nat.eqb_neq. assumption. Qed.
Lemma pres_C : forall s e s', aux s -> step s e = Some s' ->
  forall p, pph s' p <> PRun ->
    (forall b, In b (chans s') -> fst b <> p) /\ (forall t, In t (hand s' ++ cur s') -> t_pipe t <> p).
Proof.
  intros s e s' Hs H q. pose proof (aC _ Hs q) as HC.
  destruct e; step_inv H; guards; unfold_locs; try (exact HC).
  all: intros Hq.
  all: try (destruct (Nat.eq_dec q p) as [->|N]; [rewrite ?upd_same in *|rewrite ?upd_other in * by assumption]).
  all: try congruence.
  all: try (assert (Hq' : pph s p <> PRun) by congruence; specialize (HC Hq')).
  all: try (specialize (HC Hq)).
  all: try (destruct HC as [HC1 HC2]; split; [intros bb Hb; pose proof (HC1 bb) as HCb; split_facts bb|intros tt Ht; pose proof (HC2 tt) as HCt; split_facts tt]; norm_mem).
  all: try tauto.
  all: try congruence.
  (* KeyFlush / ConnEnd add batches: impossible once a worker has stopped (inputs are closed) *)
  all: try (exfalso; match goal with E : partition _ (key_buf ?s0) = (_ :: _, _), Hs0 : aux ?s0, Hq0 : pph ?s0 _ <> PRun |- _ =>
            destruct (keybuf_empty_when_draining s0 Hs0 (aG _ Hs0 _ Hq0)) as [X1 [X2 X3]]; rewrite X3 in E; discriminate E end).
  all: try (split; [intros bb Hb; apply batch_on_false; auto|intros tt Ht; apply on_pipe_false; apply in_app_iff in Ht; destruct Ht as [Ht|Ht]; auto];
            try (eapply partition_snd_false; eassumption); fail).
  - exfalso. rewrite (aD _ Hs (aG _ Hs _ Hq)) in E. destruct E.
  - destruct Ht as [[Ht|Ht]|Ht]; try tauto.
    rewrite (aB0 _ Hs p1 tt (tf_head_in _ _ _ _ _ E0) Ht). apply batch_on_true in H2. congruence.
Qed.

Ltac by_pipe q p := destruct (Nat.eq_dec q p) as [->|N]; [rewrite ?upd_same in *|rewrite ?upd_other in * by assumption].
Lemma pres_H : forall s e s', aux s -> step s e = Some s' ->
  forall p, pph s' p = PDone -> cph s' p = CDone.
Proof.
  intros s e s' Hs H q. pose proof (aH _ Hs q) as HH.
  destruct e; step_inv H; guards; unfold_locs; try (exact HH).
  all: intros Hq.
  all: try (by_pipe q p).
  all: try congruence.
  all: try (specialize (HH Hq); congruence).
Qed.
Lemma pres_E : forall s e s', aux s -> step s e = Some s' ->
  forall p q, pph s' p = PDone -> In q (queue s' ++ fhand s' ++ window s') -> q_pipe q <> p.
Proof.
  intros s e s' Hs H r q. pose proof (aE _ Hs r q) as HE.
  destruct e; step_inv H; guards; unfold_locs; try (exact HE).
  all: intros Hr Hq.
  all: try (by_pipe r p).
  all: try congruence.
  all: try (specialize (HE Hr)).
  all: split_facts q; norm_mem.
  all: try tauto.
  all: try (destruct Hq as [[Hq|[<-|[]]]|Hq]; [tauto|cbn; congruence|tauto]).
  - destruct Hq as [Hq|[[<-|Hq]|Hq]]; try tauto.
    change (q_pipe q0 <> p). apply (aE _ Hs p q0 Hr). rewrite !in_app_iff. right. left. eapply tf_head_in; eassumption.
  - destruct Hq as [Hq|[[<-|Hq]|Hq]]; try tauto.
    change (q_pipe q0 <> r). apply item_on_true in H0. congruence.
  - apply item_on_false. destruct Hq as [Hq|[Hq|Hq]]; auto.
Qed.
Lemma pres_F : forall s e s', aux s -> step s e = Some s' ->
  forall p q, cph s' p <> CSess -> In q (unacked s') -> q_pipe q <> p.
Proof.
  intros s e s' Hs H r q. pose proof (aF _ Hs r q) as HF.
  destruct e; step_inv H; guards; unfold_locs; try (exact HF).
  all: intros Hr Hq.
  all: try (by_pipe r p).
  all: try congruence.
  all: try (assert (Hr' : cph s p <> CSess) by congruence; specialize (HF Hr')).
  all: try (specialize (HF Hr)).
  all: split_facts q; norm_mem.
  all: try tauto.
  all: try (destruct Hq as [Hq|[<-|[]]]; [tauto|apply item_on_true in H0; congruence]).
  all: try (apply item_on_false; tauto).
  destruct Hq as [Hq|[<-|[]]]; [tauto|apply item_on_true in H2; congruence].
Qed.
Lemma pres_F2 : forall s e s', aux s -> step s e = Some s' ->
  forall p q, cph s' p = CDone -> In q (leftovers s') -> q_pipe q <> p.
Proof.
  intros s e s' Hs H r q. pose proof (aF2 _ Hs r q) as HF.
  destruct e; step_inv H; guards; unfold_locs; try (exact HF).
  all: intros Hr Hq.
  all: try (by_pipe r p).
  all: try congruence.
  all: try (specialize (HF Hr)).
  all: split_facts q; norm_mem.
  all: try tauto.
  - destruct Hq as [Hq|[Hq|[<-|[]]]]; [tauto| |]; [apply H4 in Hq; apply item_on_true in Hq|apply item_on_true in H2]; congruence.
  - destruct Hq as [Hq|Hq]; [tauto|]. apply H0 in Hq; apply item_on_true in Hq. congruence.
  - apply item_on_false. auto.
Qed.
Lemma persist_spec : forall q ok fl dr fl' dr', persist q ok fl dr = (fl', dr') ->
  (q_saved q = true /\ fl' = fl /\ dr' = dr) \/
  (q_saved q = false /\ ok = true /\ fl' = fl ++ [q_chunk q] /\ dr' = dr) \/
  (q_saved q = false /\ ok = false /\ fl' = fl /\ dr' = dr ++ [q_chunk q]).
Proof.
  intros q ok fl dr fl' dr' H. unfold persist in H. destruct (q_saved q); [|destruct ok]; inversion H; subst; tauto.
Qed.
Lemma chunk_eq_dec : forall a b : chunk, {a = b} + {a <> b}.
Proof.
  intros a b. destruct (chunk_eqb a b) eqn:E; [left; apply chunk_eqb_eq; assumption|right; intros ->].
  assert (chunk_eqb b b = true) by (apply chunk_eqb_eq; reflexivity). congruence.
Qed.
Lemma pres_K : forall s e s', aux s -> step s e = Some s' ->
  forall q, In q (items s') -> q_saved q = true -> In (q_chunk q) (files s') \/ In (q_chunk q) (acked s').
Proof.
  intros s e s' Hs H q Hq Hsv. pose proof (aK _ Hs q) as HK. unfold items in *.
  destruct e; step_inv H; guards; unfold_locs; try (exact (HK Hq Hsv)).
  all: split_facts q; norm_mem.
  all: try tauto.
  all: try (destruct Hq as [[Hq|[<-|[]]]|Hq]; [tauto|discriminate Hsv|tauto]).
  all: try (destruct Hq as [[Hq|[<-|[]]]|Hq]; [tauto|cbn; tauto|tauto]).
  all: try (match goal with E : persist _ _ _ _ = _ |- _ => apply persist_spec in E;
            destruct E as [[? [-> ->]]|[[? [? [-> ->]]]|[? [? [-> ->]]]]]; norm_mem; tauto end).
  - destruct Hq as [Hq|[[<-|Hq]|Hq]]; try tauto. cbn in *.
    apply (aK _ Hs q0); [|assumption]. unfold items. rewrite !in_app_iff. right. left. eapply tf_head_in; eassumption.
  - destruct (chunk_eq_dec (q_chunk q) (q_chunk q0)) as [Eq|Nq].
    + right. rewrite Eq. assumption.
    + assert (X: In (q_chunk q) (files s) \/ In (q_chunk q) (acked s)) by tauto.
      destruct X as [X|X]; [left|right; assumption]. destruct (q_saved q0); [apply remove_file_in; tauto|assumption].
  - left. unfold recovered_queue in Hq. norm_mem. rewrite in_map_iff in Hq. destruct Hq as [[c [<- Hc]]|Hq]; [assumption|tauto].
Qed.

Lemma items_empty_when_done : forall s, aux s -> (forall p, In p (pipes s) -> pph s p = PDone) -> forall q, ~ In q (items s).
Proof.
  intros s Hs Done q Hq. pose proof (Done _ (aBq _ Hs q Hq)) as HD. pose proof (aH _ Hs _ HD) as HC.
  unfold items in Hq. rewrite !in_app_iff in Hq.
  destruct Hq as [Hq|[Hq|[Hq|[Hq|Hq]]]].
  - apply (aE _ Hs _ q HD); [rewrite !in_app_iff; tauto|reflexivity].
  - apply (aE _ Hs _ q HD); [rewrite !in_app_iff; tauto|reflexivity].
  - apply (aE _ Hs _ q HD); [rewrite !in_app_iff; tauto|reflexivity].
  - apply (aF2 _ Hs _ q HC Hq). reflexivity.
  - apply (aF _ Hs (q_pipe q) q); [congruence|assumption|reflexivity].
Qed.
Lemma toks_items_in : forall t l, In t (toks_of_items l) -> exists q, In q l /\ In t (c_toks (q_chunk q)).
Proof. intros t l H. unfold toks_of_items in H. apply in_flat_map in H. exact H. Qed.
Lemma pres_J1 : forall s e s', aux s -> step s e = Some s' -> phase s' = Stopped -> forall t, ~ In t (transit s').
Proof.
  intros s e s' Hs H Hp t Ht.
  destruct e; step_inv H; guards; unfold_locs; try congruence.
  all: try (apply (proj1 (aJ _ Hs Hp) t); unfold transit; split_facts t; norm_mem; tauto).
  - rewrite (aD _ Hs (or_intror Hp)) in H. destruct H.
  - (* EStopped *)
    clear Hp. rename H into Hph. rename H0 into Hall. unfold all_done in Hall. rewrite forallb_forall in Hall.
    assert (Done : forall p, In p (pipes s) -> pph s p = PDone) by (intros p Hp; apply pphase_eqb_eq; auto).
    destruct (keybuf_empty_when_draining s Hs (or_introl Hph)) as [X1 [X2 X3]].
    unfold transit in Ht. rewrite X1, X2, X3 in Ht. norm_mem.
    assert (NR : forall p, In p (pipes s) -> pph s p <> PRun) by (intros p Hp; rewrite (Done p Hp); discriminate).
    destruct Ht as [[]|[[]|[[]|Ht]]].
    destruct Ht as [Ht|[Ht|[Ht|Ht]]].
    + apply in_flat_map in Ht. destruct Ht as [b [Hb Ht]].
      apply (proj1 (aC _ Hs (fst b) (NR _ (aBc _ Hs b Hb))) b Hb). reflexivity.
    + apply (proj2 (aC _ Hs (t_pipe t) (NR _ (aBt _ Hs t (in_or_app _ _ _ (or_introl Ht))))) t); [apply in_or_app; tauto|reflexivity].
    + apply (proj2 (aC _ Hs (t_pipe t) (NR _ (aBt _ Hs t (in_or_app _ _ _ (or_intror Ht))))) t); [apply in_or_app; tauto|reflexivity].
    + assert (X: exists q, In q (items s)).
      { unfold items. destruct Ht as [Ht|[Ht|[Ht|[Ht|Ht]]]]; apply in_flat_map in Ht; destruct Ht as [q [Hq _]]; exists q; rewrite !in_app_iff; tauto. }
      destruct X as [q Hq]. exact (items_empty_when_done s Hs Done q Hq).
Qed.
Lemma pres_J2 : forall s e s', aux s -> step s e = Some s' -> phase s' = Stopped -> forall q, ~ In q (items s').
Proof.
  intros s e s' Hs H Hp q Hq. unfold items in *.
  destruct e; step_inv H; guards; unfold_locs; try congruence.
  all: try (apply (proj2 (aJ _ Hs Hp) q); unfold items; split_facts q; norm_mem; tauto).
  all: try (apply (proj1 (aJ _ Hs Hp) t); unfold transit; rewrite !in_app_iff; do 5 right; left; eapply part_fst_in; [eassumption|left; reflexivity]).
  - apply (proj2 (aJ _ Hs Hp) q0). unfold items. rewrite !in_app_iff. right. left. eapply tf_head_in; eassumption.
  - unfold all_done in *. rewrite forallb_forall in *.
    apply (items_empty_when_done s Hs) with (q := q); [|exact Hq].
    intros p Hpp. apply pphase_eqb_eq. auto.
Qed.

Lemma aux_init : aux init.
Proof.
  constructor; cbn; try (intros; contradiction); try (intros; congruence); try tauto.
  all: try (intros [H|H]; discriminate).
  all: try (intros; split; intros; contradiction).
  all: try (intros H; discriminate).
Qed.

Lemma aux_step : forall s e s', aux s -> step s e = Some s' -> aux s'.
Proof.
  intros s e s' Hs H. constructor.
  - eapply pres_A; eauto.
  - eapply pres_D; eauto.
  - eapply pres_G; eauto.
  - eapply pres_B0; eauto.
  - eapply pres_B1; eauto.
  - eapply pres_Bc; eauto.
  - eapply pres_Bt; eauto.
  - eapply pres_Bq; eauto.
  - eapply pres_C; eauto.
  - eapply pres_H; eauto.
  - eapply pres_E; eauto.
  - eapply pres_F; eauto.
  - eapply pres_F2; eauto.
  - eapply pres_K; eauto.
  - intros Hp. split; [eapply pres_J1|eapply pres_J2]; eauto.
Qed.

Lemma steps_app : forall es1 es2 s, steps s (es1 ++ es2) = match steps s es1 with Some s1 => steps s1 es2 | None => None end.
Proof. induction es1 as [|e es1 IH]; intros es2 s; cbn; [reflexivity|]. destruct (step s e); [apply IH|reflexivity]. Qed.

Lemma aux_steps : forall es s s', aux s -> steps s es = Some s' -> aux s'.
Proof.
  induction es as [|e es IH]; intros s s' Hs H; cbn in H.
  - inversion H; subst; assumption.
  - destruct (step s e) as [s1|] eqn:E; [|discriminate]. eapply IH; [eapply aux_step; eauto|assumption].
Qed.

Lemma saved_tokens_safe : forall s q t, aux s -> In q (items s) -> q_saved q = true -> In t (c_toks (q_chunk q)) ->
  In t (flat_map c_toks (files s)) \/ In t (flat_map c_toks (acked s)).
Proof.
  intros s q t Hs Hq Hsv Ht. destruct (aK _ Hs q Hq Hsv) as [H|H]; [left|right]; apply in_flat_map; eauto.
Qed.
Ltac in_items := unfold items; rewrite !in_app_iff;
  first [ left; eapply tf_head_in; eassumption
        | right; left; eapply tf_head_in; eassumption
        | right; right; left; eapply tf_head_in; eassumption
        | right; right; right; left; eapply tf_head_in; eassumption
        | right; right; right; right; eapply tf_head_in; eassumption ].
Lemma remove_file_toks : forall c0 fl t, In t (flat_map c_toks fl) ->
  In t (flat_map c_toks (remove_file c0 fl)) \/ In t (c_toks c0).
Proof.
  intros c0 fl t H. apply in_flat_map in H. destruct H as [c [Hc Ht]].
  destruct (chunk_eq_dec c c0) as [->|N]; [right; assumption|left]. apply in_flat_map. exists c. split; [|assumption].
  apply remove_file_in. tauto.
Qed.
Lemma step_anywhere : forall s e s', aux s -> step s e = Some s' -> forall t, In t (anywhere s) -> In t (anywhere s').
Proof.
  intros s e s' Hs H t Ht. destruct e; step_inv H; guards.
  all: unfold_locs; split_facts t; norm_mem.
  all: try tauto.
  all: try (match goal with E : persist _ _ _ _ = _ |- _ => apply persist_spec in E;
            destruct E as [[? [-> ->]]|[[? [? [-> ->]]]|[? [? [-> ->]]]]]; norm_mem; try tauto end).
  all: try (match goal with Hsv : q_saved ?q = true, Hs : aux ?s |- _ =>
              assert (X : In t (c_toks (q_chunk q)) -> In t (flat_map c_toks (files s)) \/ In t (flat_map c_toks (acked s)))
                by (apply saved_tokens_safe; [assumption|in_items|assumption]); tauto end).
  - assert (X : In t (c_toks (q_chunk q)) -> In t (flat_map c_toks (acked s))) by (intros; apply in_flat_map; eauto).
    pose proof (remove_file_toks (q_chunk q) (files s) t) as Y. destruct (q_saved q); tauto.
  - destruct Ht as [[Ht|Ht]|Ht]; [exfalso|tauto|tauto].
    match goal with Hp : phase _ = Stopped |- _ => apply (proj1 (aJ _ Hs Hp) t) end. unfold transit. norm_mem. tauto.
Qed.

Lemma step_origin : forall s e s', step s e = Some s' -> forall t, In t (anywhere s') -> In t (anywhere s) \/ e = EIngest t.
Proof.
  intros s e s' H t Ht. destruct e; step_inv H; guards.
  all: unfold_locs; split_facts t; norm_mem.
  all: try tauto.
  all: try (match goal with E : persist _ _ _ _ = _ |- _ => apply persist_spec in E;
            destruct E as [[? [-> ->]]|[[? [? [-> ->]]]|[? [? [-> ->]]]]]; norm_mem; try tauto end).
  - destruct Ht as [[[[Ht|[<-|[]]]|Ht]|Ht]|Ht]; tauto.
  - assert (X : In t (flat_map c_toks (if q_saved q then remove_file (q_chunk q) (files s) else files s)) -> In t (flat_map c_toks (files s))).
    { destruct (q_saved q); [|tauto]. intros X. apply in_flat_map in X. destruct X as [c [Hc Hin]].
      apply remove_file_in in Hc. apply in_flat_map. exists c. tauto. }
    tauto.
  - assert (X : In t (flat_map (fun q : qitem => c_toks (q_chunk q)) (recovered_queue (files s))) -> In t (flat_map c_toks (files s))).
    { unfold recovered_queue. rewrite sort_items_flat. intros X. apply in_flat_map in X. destruct X as [q [Hq Hin]].
      apply in_map_iff in Hq. destruct Hq as [c [<- Hc]]. apply in_flat_map. exists c. tauto. }
    tauto.
Qed.

Lemma step_ingested : forall s e s', step s e = Some s' ->
  ingested s' = ingested s \/ exists t, e = EIngest t /\ ingested s' = t :: ingested s.
Proof.
  intros s e s' H. destruct e; step_inv H; unfold_locs; try (left; reflexivity).
  all: try (destruct o; left; reflexivity).
  right. eexists. split; reflexivity.
Qed.

Lemma step_filtered : forall s e s', step s e = Some s' ->
  (forall t, In t (filtered s) -> t_keep t = false) -> forall t, In t (filtered s') -> t_keep t = false.
Proof.
  intros s e s' H IH t Ht. destruct e; step_inv H; unfold_locs; try (apply IH; assumption).
  all: try (destruct o; apply IH; assumption).
  apply in_app_iff in Ht. destruct Ht as [Ht|[<-|[]]]; [apply IH; assumption|assumption].
Qed.

Lemma step_lost : forall s e s', step s e = Some s' -> is_flush_timeout e = false -> lost s' = lost s.
Proof.
  intros s e s' H N. destruct e; try discriminate N; step_inv H; unfold_locs; try reflexivity.
  all: destruct o; reflexivity.
Qed.

