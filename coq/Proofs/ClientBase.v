(* C02 — basic facts about runs of the client LTS and the tactics used by the invariant proofs. *)
From SV Require Import Model.Common Model.Client.
From Coq Require Import Lia Permutation Sorted.

Lemma run_app : forall P tr1 tr2 s,
  run P s (tr1 ++ tr2) = match run P s tr1 with Some s1 => run P s1 tr2 | None => None end.
Proof.
  induction tr1 as [|e tr1 IH]; intros tr2 s; simpl; [reflexivity|].
  destruct (step P s e); [apply IH|reflexivity].
Qed.

Lemma run_snoc : forall P tr e s,
  run P s (tr ++ [e]) = match run P s tr with Some s1 => step P s1 e | None => None end.
Proof.
  intros. rewrite run_app. destruct (run P s tr); [|reflexivity]. simpl. destruct (step P s0 e); reflexivity.
Qed.

(* reachable states, with the run that leads to them *)
Definition reach_by (P : params) (tr : list event) (s : state) : Prop := run P init tr = Some s.
Definition reach (P : params) (s : state) : Prop := exists tr, reach_by P tr s.

(* induction over runs: the invariant may mention the run so far *)
Lemma reach_by_ind : forall (P : params) (I : list event -> state -> Prop),
  I [] init ->
  (forall tr s e s', reach_by P tr s -> I tr s -> step P s e = Some s' -> I (tr ++ [e]) s') ->
  forall tr s, reach_by P tr s -> I tr s.
Proof.
  intros P I H0 Hs tr. induction tr as [|e tr IH] using rev_ind; intros s Hr.
  - unfold reach_by in Hr. simpl in Hr. inversion Hr; subst. exact H0.
  - unfold reach_by in Hr. rewrite run_snoc in Hr. destruct (run P init tr) as [s1|] eqn:E; [|discriminate].
    eapply Hs; [exact E | apply IH; exact E | exact Hr].
Qed.

Lemma reach_ind : forall (P : params) (I : state -> Prop),
  I init ->
  (forall s e s', reach P s -> I s -> step P s e = Some s' -> I s') ->
  forall s, reach P s -> I s.
Proof.
  intros P I H0 Hs s [tr Hr]. revert tr s Hr.
  apply (reach_by_ind P (fun _ s => I s)); [exact H0|].
  intros tr s e s' Hr HI Hst. eapply Hs; eauto. exists tr. exact Hr.
Qed.

Lemma reach_step : forall P s e s', reach P s -> step P s e = Some s' -> reach P s'.
Proof.
  intros P s e s' [tr Hr] Hs. exists (tr ++ [e]). unfold reach_by in *. rewrite run_snoc, Hr. exact Hs.
Qed.

(* ---------- case analysis of one step ---------- *)

Ltac break_hyp H :=
  match type of H with
  | context [match ?x with _ => _ end] =>
    match x with
    | context [match _ with _ => _ end] => fail 1
    | _ => destruct x eqn:?
    end
  | context [if ?x then _ else _] =>
    match x with
    | context [if _ then _ else _] => fail 1
    | _ => destruct x eqn:?
    end
  end.

Ltac step_inv H :=
  unfold step in H;
  repeat (break_hyp H; try discriminate H);
  inversion H; subst; clear H.

(* ---------- list facts ---------- *)

Lemma mem_In : forall c l, mem c l = true <-> In c l.
Proof.
  intros c l. unfold mem. rewrite existsb_exists. split.
  - intros [x [Hx He]]. apply N.eqb_eq in He. subst. exact Hx.
  - intros H. exists c. split; [exact H|apply N.eqb_refl].
Qed.

Lemma mem_false : forall c l, mem c l = false <-> ~ In c l.
Proof.
  intros c l. rewrite <- mem_In. destruct (mem c l); split; intro H; try reflexivity; try discriminate; try (intro; discriminate).
  exfalso. apply H. reflexivity.
Qed.

Lemma padd_In : forall c x l, In x (padd c l) <-> x = c \/ In x l.
Proof.
  intros c x l. unfold padd. destruct (mem c l) eqn:E.
  - apply mem_In in E. split; [auto|]. intros [->|H]; assumption.
  - simpl. split; intros [H|H]; auto.
Qed.

Lemma pdel_In : forall c x l, In x (pdel c l) <-> x <> c /\ In x l.
Proof.
  intros c x l. unfold pdel. rewrite filter_In. split.
  - intros [H1 H2]. split; [|exact H1]. intro; subst. rewrite N.eqb_refl in H2. discriminate.
  - intros [H1 H2]. split; [exact H2|]. destruct (N.eqb_spec c x); [subst; contradiction|reflexivity].
Qed.

Lemma insert_perm : forall c l, Permutation (insert c l) (c :: l).
Proof.
  induction l as [|x l IH]; simpl; [constructor; constructor|].
  destruct (c <=? x); [reflexivity|].
  rewrite IH. apply perm_swap.
Qed.

Lemma isort_perm : forall l, Permutation (isort l) l.
Proof.
  induction l as [|x l IH]; simpl; [constructor|]. rewrite insert_perm. constructor. exact IH.
Qed.

Lemma insert_In : forall c x l, In x (insert c l) <-> x = c \/ In x l.
Proof.
  intros. split; intro H.
  - apply (Permutation_in _ (insert_perm c l)) in H. destruct H; auto.
  - apply (Permutation_in _ (Permutation_sym (insert_perm c l))). destruct H; [left; auto|right; auto].
Qed.

Definition lt_sorted (l : list chunk) : Prop := StronglySorted N.lt l.
Definition le_sorted (l : list chunk) : Prop := StronglySorted N.le l.

Lemma insert_sorted : forall c l, le_sorted l -> le_sorted (insert c l).
Proof.
  induction l as [|x l IH]; intros Hs; simpl.
  - repeat constructor.
  - inversion Hs as [|? ? Hs' Hall]; subst. destruct (N.leb_spec c x).
    + constructor; [exact Hs|]. constructor; [exact H|].
      eapply Forall_impl; [|exact Hall]. intros a Ha. simpl in Ha. lia.
    + constructor; [apply IH; exact Hs'|].
      apply Forall_forall. intros y Hy. apply insert_In in Hy. destruct Hy as [->|Hy]; [lia|].
      rewrite Forall_forall in Hall. apply Hall. exact Hy.
Qed.

Lemma isort_sorted : forall l, le_sorted (isort l).
Proof. induction l; simpl; [constructor|apply insert_sorted; assumption]. Qed.

Lemma dedup_adj_In : forall x l, In x (dedup_adj l) <-> In x l.
Proof.
  intros x l. induction l as [|a l IH]; [reflexivity|].
  simpl dedup_adj. destruct l as [|b l'].
  - reflexivity.
  - destruct (N.eqb_spec a b).
    + subst. rewrite IH. simpl. tauto.
    + simpl In at 1. rewrite IH. simpl. tauto.
Qed.

Lemma dedup_adj_sorted : forall l, le_sorted l -> lt_sorted (dedup_adj l).
Proof.
  induction l as [|a l IH]; intros Hs; [constructor|].
  inversion Hs as [|? ? Hs' Hall]; subst.
  simpl dedup_adj. destruct l as [|b l'].
  - repeat constructor.
  - destruct (N.eqb_spec a b).
    + apply IH. exact Hs'.
    + constructor; [apply IH; exact Hs'|].
      apply Forall_forall. intros y Hy. rewrite dedup_adj_In in Hy.
      rewrite Forall_forall in Hall. pose proof (Hall y Hy) as H1. pose proof (Hall b (or_introl eq_refl)) as H2.
      simpl in *. destruct Hy as [->|Hy]; [lia|].
      inversion Hs' as [|? ? _ Hall']; subst. rewrite Forall_forall in Hall'. pose proof (Hall' y Hy). lia.
Qed.

Lemma dedup_adj_nodup : forall l, NoDup l -> dedup_adj l = l.
Proof.
  induction l as [|a l IH]; intros Hn; [reflexivity|].
  inversion Hn as [|? ? Hna Hn']; subst. simpl dedup_adj. destruct l as [|b l']; [reflexivity|].
  destruct (N.eqb_spec a b); [subst; exfalso; apply Hna; left; reflexivity|].
  f_equal. apply IH. exact Hn'.
Qed.

Lemma new_leftovers_sorted : forall l, lt_sorted (new_leftovers l).
Proof. intros. apply dedup_adj_sorted, isort_sorted. Qed.

Lemma new_leftovers_In : forall x l, In x (new_leftovers l) <-> In x l.
Proof.
  intros. unfold new_leftovers. rewrite dedup_adj_In. split; apply Permutation_in; [|symmetry]; apply isort_perm.
Qed.

Lemma new_leftovers_perm : forall l, NoDup l -> Permutation (new_leftovers l) l.
Proof.
  intros l Hn. unfold new_leftovers. rewrite dedup_adj_nodup; [apply isort_perm|].
  eapply Permutation_NoDup; [symmetry; apply isort_perm|exact Hn].
Qed.

Lemma lt_sorted_tail : forall a l, lt_sorted (a :: l) -> lt_sorted l.
Proof. intros a l H. inversion H; assumption. Qed.

Lemma lt_sorted_nodup : forall l, lt_sorted l -> NoDup l.
Proof.
  induction l as [|a l IH]; intros H; [constructor|]. inversion H as [|? ? Hs Hall]; subst.
  constructor; [|apply IH; exact Hs]. intro Hin. rewrite Forall_forall in Hall. apply Hall in Hin. lia.
Qed.
