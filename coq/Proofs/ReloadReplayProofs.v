(* C17 - the schedule driver of Model/ReloadReplay.v only ever takes steps of the LTS: the state a replay
   ends in (whose projection is compared with the real code) is reached by a run of [step], namely by the
   list of events the driver records. *)
From SV Require Import Model.Common Model.Reload Model.ReloadReplay.
From Coq Require Import Arith Lia.
Local Open Scope nat_scope.

Definition consistent (lk : bool) (st0 : state) (d : dstate) : Prop :=
  run lk st0 (rev (d_evs d)) = Some (d_st d).

Lemma run_snoc : forall lk evs st st1 e st2,
  run lk st evs = Some st1 -> step lk st1 e = Some st2 -> run lk st (evs ++ [e]) = Some st2.
Proof.
  induction evs as [|x evs IH]; intros st st1 e st2 H S; simpl in *.
  - inversion H; subst. rewrite S. reflexivity.
  - destruct (step lk st x) as [st'|]; try discriminate. eapply IH; eauto.
Qed.

Lemma with_st_consistent : forall lk st0 d st' e,
  consistent lk st0 d -> step lk (d_st d) e = Some st' -> consistent lk st0 (with_st d st' e).
Proof.
  intros lk st0 d st' e C S. unfold consistent in *. cbn [d_evs d_st with_st]. simpl rev. eapply run_snoc; eauto.
Qed.

(* modifications that touch neither the state nor the recorded events *)
Definition same_run (d d' : dstate) : Prop := d_st d' = d_st d /\ d_evs d' = d_evs d.

Lemma same_run_consistent : forall lk st0 d d', same_run d d' -> consistent lk st0 d -> consistent lk st0 d'.
Proof. intros lk st0 d d' [E1 E2] C. unfold consistent in *. rewrite E1, E2. exact C. Qed.

Lemma tok_consistent : forall lk st0 d t, consistent lk st0 d -> consistent lk st0 (tok d t).
Proof. intros. eapply same_run_consistent; eauto. split; reflexivity. Qed.
Lemma with_pend_consistent : forall lk st0 d x, consistent lk st0 d -> consistent lk st0 (with_pend d x).
Proof. intros. eapply same_run_consistent; eauto. split; reflexivity. Qed.
Lemma with_store_consistent : forall lk st0 d x, consistent lk st0 d -> consistent lk st0 (with_store d x).
Proof. intros. eapply same_run_consistent; eauto. split; reflexivity. Qed.
Lemma with_auto_consistent : forall lk st0 d x, consistent lk st0 d -> consistent lk st0 (with_auto d x).
Proof. intros. eapply same_run_consistent; eauto. split; reflexivity. Qed.
Lemma with_rauto_consistent : forall lk st0 d x, consistent lk st0 d -> consistent lk st0 (with_rauto d x).
Proof. intros. eapply same_run_consistent; eauto. split; reflexivity. Qed.
Lemma with_rok_consistent : forall lk st0 d x, consistent lk st0 d -> consistent lk st0 (with_rok d x).
Proof. intros. eapply same_run_consistent; eauto. split; reflexivity. Qed.
Lemma with_next_consistent : forall lk st0 d x, consistent lk st0 d -> consistent lk st0 (with_next d x).
Proof. intros. eapply same_run_consistent; eauto. split; reflexivity. Qed.

Ltac cons :=
  repeat first
    [ assumption
    | apply tok_consistent | apply with_pend_consistent | apply with_store_consistent
    | apply with_auto_consistent | apply with_rauto_consistent | apply with_rok_consistent
    | apply with_next_consistent
    | (eapply with_st_consistent; [|eassumption]) ].

Lemma do_start_consistent : forall lk st0 d t op auto,
  consistent lk st0 d -> consistent lk st0 (fst (do_start lk d t op auto)).
Proof.
  intros lk st0 d t op auto C. unfold do_start.
  destruct (get_thr (d_st d) t) as [c|]; [|simpl; cons].
  match goal with |- context [if ?b then _ else _] => destruct b end; [|simpl; cons].
  match goal with |- context [step lk ?s ?e] => destruct (step lk s e) eqn:S end; simpl; cons.
Qed.

Lemma do_reload_consistent : forall lk st0 d ok auto,
  consistent lk st0 d -> consistent lk st0 (do_reload lk d ok auto).
Proof.
  intros lk st0 d ok auto C. unfold do_reload. destruct (step lk (d_st d) ERlBegin) eqn:S; cons.
Qed.

Lemma release_conn_consistent : forall lk st0 d t d',
  consistent lk st0 d -> release_conn lk d t = Some d' -> consistent lk st0 d'.
Proof.
  intros lk st0 d t d' C H. unfold release_conn in H.
  destruct (get_thr (d_st d) t) as [c|]; try discriminate.
  destruct (ct_pc c); try discriminate.
  - destruct lk.
    + destruct (step true (d_st d) (ENewEnd t)) eqn:S; inversion H; subst. cons.
    + destruct (rl_wants (d_st d)); try discriminate.
      destruct (step false (d_st d) (ENewMade t)) as [st1|] eqn:S1; try discriminate.
      destruct (step false st1 (ENewEnd t)) as [st2|] eqn:S2; inversion H; subst.
      * apply tok_consistent. eapply with_st_consistent; [|exact S2]. eapply with_st_consistent; eauto.
      * apply tok_consistent. apply with_store_consistent. eapply with_st_consistent; eauto.
  - destruct (step lk (d_st d) (EAccEnd t)) eqn:S; inversion H; subst. cons.
  - destruct (step lk (d_st d) (ETickEnd t)) eqn:S; inversion H; subst. cons.
  - destruct (step lk (d_st d) (ECloseEnd t)) eqn:S; inversion H; subst. cons.
Qed.

Lemma release_reload_consistent : forall lk st0 d d',
  consistent lk st0 d -> release_reload lk d = Some d' -> consistent lk st0 d'.
Proof.
  intros lk st0 d d' C H. unfold release_reload in H.
  destruct (st_rl (d_st d)); try discriminate;
    match type of H with context [step lk ?s ?e] => destruct (step lk s e) eqn:S end; inversion H; subst; cons.
Qed.

Lemma fire_pend_consistent : forall lk st0 l d kept fired,
  consistent lk st0 d -> consistent lk st0 (fst (fire_pend lk d l kept fired)).
Proof.
  induction l as [|[t op] l IH]; intros d kept fired C; simpl.
  - cons.
  - destruct (step lk (d_st d) (begin_ev t op)) eqn:S; apply IH; cons.
Qed.

Lemma fire_store_consistent : forall lk st0 l d kept fired,
  consistent lk st0 d -> consistent lk st0 (fst (fire_store lk d l kept fired)).
Proof.
  induction l as [|t l IH]; intros d kept fired C; cbn [fire_store].
  - cbn [fst]. cons.
  - destruct (step lk (d_st d) (ENewEnd t)) eqn:S; apply IH; cons.
Qed.

Lemma release_first_auto_consistent : forall lk st0 ts d d',
  consistent lk st0 d -> release_first_auto lk d ts = Some d' -> consistent lk st0 d'.
Proof.
  induction ts as [|t ts IH]; intros d d' C H; simpl in H; try discriminate.
  destruct (nth t (d_auto d) false).
  - destruct (release_conn lk d t) eqn:R.
    + inversion H; subst. eapply release_conn_consistent; eauto.
    + eapply IH; eauto.
  - eapply IH; eauto.
Qed.

Lemma settle_tail_consistent : forall lk st0 d d',
  consistent lk st0 d ->
  match (if d_rauto d then release_reload lk d else None) with
  | Some d1 => Some d1
  | None => release_first_auto lk d (seq 0 (length (st_thr (d_st d))))
  end = Some d' -> consistent lk st0 d'.
Proof.
  intros lk st0 d d' C H. destruct (d_rauto d).
  - destruct (release_reload lk d) as [d1|] eqn:R.
    + injection H as <-. eapply release_reload_consistent; [exact C|exact R].
    + eapply release_first_auto_consistent; [exact C|exact H].
  - eapply release_first_auto_consistent; [exact C|exact H].
Qed.

Lemma settle_mid_consistent : forall lk st0 d d',
  consistent lk st0 d ->
  (let (d1, f1) := fire_pend lk d (d_pend d) [] false in
   let (d2, f2) := fire_store lk d1 (d_store d1) [] false in
   if f1 || f2 then Some d2
   else match (if d_rauto d then release_reload lk d else None) with
        | Some d3 => Some d3
        | None => release_first_auto lk d (seq 0 (length (st_thr (d_st d))))
        end) = Some d' -> consistent lk st0 d'.
Proof.
  intros lk st0 d d' C H.
  pose proof (fire_pend_consistent lk st0 (d_pend d) d [] false C) as C1.
  destruct (fire_pend lk d (d_pend d) [] false) as [d1 f1]. cbn [fst] in C1.
  pose proof (fire_store_consistent lk st0 (d_store d1) d1 [] false C1) as C2.
  destruct (fire_store lk d1 (d_store d1) [] false) as [d2 f2]. cbn [fst] in C2.
  destruct (f1 || f2).
  - injection H as <-. exact C2.
  - eapply settle_tail_consistent; [exact C|exact H].
Qed.

Lemma settle_once_consistent : forall lk st0 d d',
  consistent lk st0 d -> settle_once lk d = Some d' -> consistent lk st0 d'.
Proof.
  intros lk st0 d d' C H. unfold settle_once in H.
  destruct (rl_wants (d_st d)).
  - destruct (step lk (d_st d) ERlLock) eqn:S.
    + injection H as <-. cons.
    + eapply settle_mid_consistent; [exact C|exact H].
  - eapply settle_mid_consistent; [exact C|exact H].
Qed.

Lemma settle_consistent : forall lk st0 fuel d, consistent lk st0 d -> consistent lk st0 (settle fuel lk d).
Proof.
  induction fuel as [|f IH]; intros d C; simpl.
  - cons.
  - destruct (settle_once lk d) eqn:S; auto. apply IH. eapply settle_once_consistent; eauto.
Qed.

Lemma apply_op_consistent : forall lk st0 d op, consistent lk st0 d -> consistent lk st0 (apply_op lk d op).
Proof.
  intros lk st0 d op C. destruct op; simpl.
  - apply do_start_consistent; auto.
  - pose proof (do_start_consistent lk st0 d t (SAcc (fresh_recs k (d_next d))) auto C) as C1.
    destruct (do_start lk d t (SAcc (fresh_recs k (d_next d))) auto) as [d' acc]. simpl in C1.
    destruct acc; cons.
  - apply do_start_consistent; auto.
  - apply do_start_consistent; auto.
  - apply do_reload_consistent; auto.
  - destruct (who =? reload_who).
    + destruct (release_reload lk d) eqn:R; [eapply release_reload_consistent; eauto|cons].
    + destruct (release_conn lk d who) eqn:R; [eapply release_conn_consistent; eauto|cons].
  - destruct (who =? reload_who); cons.
  - cons.
Qed.

Lemma apply_ops_consistent : forall lk st0 ops d, consistent lk st0 d -> consistent lk st0 (apply_ops lk d ops).
Proof.
  induction ops as [|op ops IH]; intros d C; cbn [apply_ops]; auto.
  apply IH. apply settle_consistent. apply apply_op_consistent. cons.
Qed.

(* the state whose projection is printed for a schedule is reached by a run of the LTS *)
Theorem replay_is_run_lemma : forall lk nthr maxn ops,
  run lk (init nthr maxn) (rev (d_evs (replay lk nthr maxn ops))) = Some (d_st (replay lk nthr maxn ops)).
Proof.
  intros. unfold replay, drain. apply settle_consistent. apply tok_consistent. apply with_rauto_consistent.
  apply with_auto_consistent. apply apply_ops_consistent. unfold consistent, dinit. reflexivity.
Qed.
