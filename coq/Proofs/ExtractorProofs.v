(* C15: extractLabelAtStart / extractLabelAtEnd against head_match / tail_match. *)
From SV Require Import Model.Common Model.TfUnescape Model.Extractor Spec.TransformsSpec
     Proofs.CommonFacts Proofs.TfStringFacts.
From Coq Require Import Lia ZifyBool ZifyN ZifyNat.
Ltac Zify.zify_post_hook ::= Z.div_mod_to_equations.
Open Scope N_scope.

Lemma window_eq : forall (s : bytes) maxr, (0 <= maxr)%Z ->
  (if (Z.of_nat (length s) >? maxr)%Z then firstn (Z.to_nat maxr) s else s) = firstn (Z.to_nat maxr) s.
Proof.
  intros s maxr H. destruct (Z.of_nat (length s) >? maxr)%Z eqn:E; [reflexivity|].
  symmetry. apply firstn_all2. lia.
Qed.

Lemma within_iff : forall (s : bytes) maxr i (n : nat), (0 <= maxr)%Z -> (i + n <= length s)%nat ->
  ((i + n <= Z.to_nat maxr)%nat <-> (Z.of_nat (i + n) <= maxr \/ Z.of_nat (length s) <= maxr)%Z).
Proof. intros. lia. Qed.

Lemma hd_error_app_cons : forall (a : bytes) c b, hd_error (a ++ c :: b) = hd_error (a ++ [c]).
Proof. intros a c b. destruct a; reflexivity. Qed.

(* ---------- extractHead ---------- *)

Lemma extract_head_sound : forall l r maxr t text lab rest, (0 <= maxr)%Z ->
  head_match l r maxr t text lab rest ->
  extract_at_start text l r maxr t = Ok (trim_ref lab, rest).
Proof.
  intros l r maxr t text lab rest Hmax H. unfold extract_at_start.
  destruct H as [lab rest Hr Htext Hfirst Hwithin Hallow Hedge | tb lab rest Hr Ht Htext Hne Hall Hstop].
  - set (s := lab ++ r ++ rest) in *.
    assert (Hpre : (match l with [] => true | _ => is_prefix l text end) = true).
    { destruct l; [reflexivity|]. rewrite Htext. apply is_prefix_app. }
    rewrite Hpre. cbn [negb].
    assert (Hs : skipn (length l) text = s) by (rewrite Htext, skipn_app, Nat.sub_diag, skipn_all; reflexivity).
    rewrite Hs.
    assert (Hrej : table_rejects t (hd_error s) = false).
    { unfold table_rejects, edge_ok in *. destruct t as [tb|]; [|reflexivity]. destruct (hd_error s); [|reflexivity].
      rewrite Hedge. reflexivity. }
    rewrite Hrej. destruct r as [|r0 r']; [congruence|].
    destruct (maxr <? 0)%Z eqn:Em; [lia|].
    rewrite window_eq by assumption.
    assert (Hidx : index_of (r0 :: r') (firstn (Z.to_nat maxr) s) = Some (length lab)).
    { apply first_occurrence_index. apply first_occurrence_firstn; [discriminate|]. split; [assumption|].
      apply (within_iff s maxr); [assumption| |assumption]. unfold s. rewrite !app_length. lia. }
    rewrite Hidx. cbv zeta.
    assert (Htag : firstn (length lab) s = lab) by (unfold s; rewrite firstn_app, Nat.sub_diag, firstn_all, firstn_O, app_nil_r; reflexivity).
    rewrite Htag.
    assert (Hfin : (lbl <-- trim_blank lab;; Ok (lbl, skipn (length lab + length (r0 :: r')) s)) = Ok (trim_ref lab, rest)).
    { rewrite trim_blank_spec. cbn [obind]. do 2 f_equal.
      unfold s. rewrite skipn_app. rewrite skipn_all2 by lia.
      replace (length lab + length (r0 :: r') - length lab)%nat with (length (r0 :: r')) by lia.
      rewrite skipn_app, Nat.sub_diag, skipn_all. reflexivity. }
    destruct t as [tb|]; [|exact Hfin].
    cbn in Hallow. apply count_while_all in Hallow. rewrite Hallow, Nat.eqb_refl. cbn [negb]. exact Hfin.
  - subst r t.
    assert (Hpre : (match l with [] => true | _ => is_prefix l text end) = true).
    { destruct l; [reflexivity|]. rewrite Htext. apply is_prefix_app. }
    rewrite Hpre. cbn [negb].
    assert (Hs : skipn (length l) text = lab ++ rest) by (rewrite Htext, skipn_app, Nat.sub_diag, skipn_all; reflexivity).
    rewrite Hs. destruct lab as [|c lab']; [congruence|]. inversion Hall as [|? ? Hc Hall']; subst.
    cbn [app hd_error table_rejects]. rewrite Hc. cbn [negb match_valid_from_start obind].
    change (c :: lab' ++ rest) with ((c :: lab') ++ rest).
    rewrite (count_while_stop_at tb (c :: lab') rest Hall Hstop).
    cbn [length]. rewrite firstn_app. cbn [length]. rewrite Nat.sub_diag, firstn_O, app_nil_r.
    change (S (length lab')) with (length (c :: lab')). rewrite firstn_all.
    rewrite trim_blank_spec. cbn [obind]. do 2 f_equal.
    rewrite skipn_app, Nat.sub_diag, skipn_all. reflexivity.
Qed.

Lemma prefix_split : forall l text, (match l with [] => true | _ => is_prefix l text end) = true ->
  text = l ++ skipn (length l) text.
Proof.
  intros l text H. destruct l as [|a l']; [reflexivity|].
  apply is_prefix_iff in H. destruct H as [x ->]. rewrite skipn_app, Nat.sub_diag, skipn_all. reflexivity.
Qed.

Lemma extract_head_cases : forall l r maxr t text, (0 <= maxr)%Z -> (r <> [] \/ t <> None) ->
  (exists lab rest, head_match l r maxr t text lab rest) \/
  ((forall lab rest, ~ head_match l r maxr t text lab rest) /\
   extract_at_start text l r maxr t = Ok ([], text)).
Proof.
  intros l r maxr t text Hmax Hrt. unfold extract_at_start.
  destruct (match l with [] => true | _ => is_prefix l text end) eqn:Hpre; cbn [negb].
  2:{ right. split; [|reflexivity]. intros lab rest H.
      assert (Htext : exists x, text = l ++ x) by (destruct H; eexists; eassumption).
      destruct l as [|a l']; [discriminate|]. apply is_prefix_iff in Htext. congruence. }
  pose proof (prefix_split l text Hpre) as Htext. set (s := skipn (length l) text) in *.
  assert (Hs : forall x, text = l ++ x -> x = s) by (intros x Hx; rewrite Htext in Hx; apply app_inv_head in Hx; congruence).
  clearbody s.
  destruct (table_rejects t (hd_error s)) eqn:Hrej.
  { right. split; [|reflexivity]. intros lab rest H. unfold table_rejects in Hrej.
    destruct t as [tb|]; [|discriminate]. destruct (hd_error s) as [c|] eqn:Ehd; [|discriminate].
    destruct H as [lab rest Hr Ht Hfirst Hwithin Hallow Hedge | tb' lab rest Hr Ht' Ht Hne Hall Hstop].
    - apply Hs in Ht. rewrite Ht in Hedge. rewrite Ehd in Hedge. cbn in Hedge. rewrite Hedge in Hrej. discriminate.
    - inversion Ht'; subst tb'. apply Hs in Ht. destruct lab as [|c' lab']; [congruence|].
      rewrite <- Ht in Ehd. cbn in Ehd. inversion Ehd; subst c'. inversion Hall; subst.
      rewrite H1 in Hrej. discriminate. }
  destruct r as [|r0 r'].
  - (* no right boundary: the longest run of class bytes *)
    destruct t as [tb|]; [|destruct Hrt; congruence].
    cbn [match_valid_from_start obind].
    destruct (count_while tb s) as [|n] eqn:En.
    + right. split; [|reflexivity]. intros lab rest H.
      destruct H as [lab rest Hr Ht Hfirst Hwithin Hallow Hedge | tb' lab rest Hr Ht' Ht Hne Hall Hstop]; [congruence|].
      inversion Ht'; subst tb'. apply Hs in Ht. rewrite <- Ht in En.
      rewrite count_while_app in En by assumption. destruct lab; [congruence|cbn in En; lia].
    + left. exists (firstn (S n) s), (skipn (S n) s).
      apply (HM_open l [] maxr (Some tb) text tb); try reflexivity.
      * rewrite firstn_skipn. exact Htext.
      * intro Hc. apply (f_equal (@length N)) in Hc. rewrite firstn_length in Hc.
        pose proof (count_while_le tb s). cbn [length] in Hc. lia.
      * rewrite <- En. apply count_while_prefix.
      * rewrite <- En. apply count_while_stop.
  - (* right boundary *)
    destruct (maxr <? 0)%Z eqn:Em; [lia|]. rewrite window_eq by assumption.
    destruct (index_of (r0 :: r') (firstn (Z.to_nat maxr) s)) as [iend|] eqn:Eidx.
    2:{ right. split; [|reflexivity]. intros lab rest H.
        destruct H as [lab rest Hr Ht Hfirst Hwithin Hallow Hedge | tb' lab rest Hr Ht' Ht Hne Hall Hstop]; [|congruence].
        apply Hs in Ht. rewrite Ht in *.
        assert (Hin : first_occurrence (r0 :: r') (firstn (Z.to_nat maxr) s) (length lab)).
        { apply first_occurrence_firstn; [discriminate|]. split; [assumption|].
          apply (within_iff s maxr); [assumption| |assumption]. rewrite <- Ht, !app_length. lia. }
        apply first_occurrence_index in Hin. congruence. }
    apply index_of_first in Eidx; [|discriminate].
    apply first_occurrence_firstn in Eidx; [|discriminate]. destruct Eidx as [Hfirst Hin].
    assert (Hlen : (iend + length (r0 :: r') <= length s)%nat) by (destruct Hfirst as (_ & Hl & _); exact Hl).
    cbv zeta.
    assert (Hdecomp : s = firstn iend s ++ (r0 :: r') ++ skipn (iend + length (r0 :: r')) s).
    { destruct Hfirst as ((b & Hb) & _ & _). rewrite Hb at 1. f_equal. f_equal.
      rewrite Hb at 1. rewrite skipn_app. rewrite skipn_all2 by (rewrite firstn_length; lia).
      rewrite firstn_length. replace (iend + length (r0 :: r') - Nat.min iend (length s))%nat with (length (r0 :: r')) by lia.
      rewrite skipn_app, Nat.sub_diag, skipn_all. reflexivity. }
    assert (Hli : length (firstn iend s) = iend) by (rewrite firstn_length; lia).
    assert (Hcases : (exists tb, t = Some tb /\ count_while tb (firstn iend s) <> length (firstn iend s)) \/
                     allowed t (firstn iend s)).
    { destruct t as [tb|]; [|right; exact I].
      destruct (Nat.eq_dec (count_while tb (firstn iend s)) (length (firstn iend s))) as [E|E].
      - right. cbn. apply count_while_all. assumption.
      - left. exists tb. split; [reflexivity|assumption]. }
    destruct Hcases as [(tb & -> & Hbad)|Hallow].
    + right. split.
      * intros lab rest H.
        destruct H as [lab rest Hr Ht Hf' Hwithin Hallow Hedge | tb' lab rest Hr Ht' Ht Hne Hall Hstop]; [|congruence].
        apply Hs in Ht. rewrite Ht in Hf'.
        pose proof (first_occurrence_unique _ _ _ _ Hfirst Hf') as Hi. subst iend.
        assert (Hlab : firstn (length lab) s = lab) by (rewrite <- Ht, firstn_app, Nat.sub_diag, firstn_all, firstn_O, app_nil_r; reflexivity).
        rewrite Hlab in Hbad. cbn in Hallow. apply count_while_all in Hallow. congruence.
      * apply Nat.eqb_neq in Hbad. rewrite Hbad. reflexivity.
    + left. exists (firstn iend s), (skipn (iend + length (r0 :: r')) s).
      apply HM_bounded; [discriminate| | | | |].
      * rewrite <- Hdecomp. exact Htext.
      * rewrite <- Hdecomp, Hli. exact Hfirst.
      * rewrite <- Hdecomp, Hli. apply (within_iff s maxr); assumption.
      * exact Hallow.
      * rewrite <- Hdecomp. unfold edge_ok, table_rejects in *. destruct t as [tb|]; [|exact I].
        destruct (hd_error s); [|exact I]. destruct (tb n); [reflexivity|discriminate].
Qed.

(* the full characterisation: a match exists -> it is unique and is the result; none -> ("", text) *)
Lemma extract_head_spec : forall l r maxr t text, (0 <= maxr)%Z -> (r <> [] \/ t <> None) ->
  (exists lab rest, head_match l r maxr t text lab rest /\
                    extract_at_start text l r maxr t = Ok (trim_ref lab, rest)) \/
  ((forall lab rest, ~ head_match l r maxr t text lab rest) /\
   extract_at_start text l r maxr t = Ok ([], text)).
Proof.
  intros l r maxr t text Hmax Hrt.
  destruct (extract_head_cases l r maxr t text Hmax Hrt) as [(lab & rest & H)|H]; [left|right; assumption].
  exists lab, rest. split; [assumption|]. apply extract_head_sound; assumption.
Qed.

(* the boundary exactly at the edge of the search range: still found ... *)
Lemma extract_head_edge_in : forall l lab r rest t, r <> [] ->
  first_occurrence r (lab ++ r ++ rest) (length lab) -> allowed t lab ->
  edge_ok t (hd_error (lab ++ r ++ rest)) ->
  extract_at_start (l ++ lab ++ r ++ rest) l r (Z.of_nat (length lab + length r)) t = Ok (trim_ref lab, rest).
Proof.
  intros l lab r rest t Hr Hf Ha He. apply extract_head_sound; [lia|].
  apply HM_bounded; try assumption; try reflexivity. left. lia.
Qed.

(* ... one byte further and it is not *)
Lemma extract_head_edge_out : forall l lab r rest t maxr, r <> [] ->
  first_occurrence r (lab ++ r ++ rest) (length lab) ->
  (0 <= maxr)%Z -> maxr = (Z.of_nat (length lab + length r) - 1)%Z ->
  extract_at_start (l ++ lab ++ r ++ rest) l r maxr t = Ok ([], l ++ lab ++ r ++ rest).
Proof.
  intros l lab r rest t maxr Hr Hf Hmax Hm.
  destruct (extract_head_spec l r maxr t (l ++ lab ++ r ++ rest) Hmax (or_introl Hr)) as [(lab' & rest' & H & _)|[_ H]]; [|assumption].
  exfalso. destruct H as [lab' rest' _ Ht Hf' Hw _ _ | tb lab' rest' Hr' _ _ _ _ _]; [|congruence].
  apply app_inv_head in Ht. rewrite <- Ht in Hf', Hw.
  pose proof (first_occurrence_unique _ _ _ _ Hf Hf') as Hi. rewrite !app_length in Hw. lia.
Qed.

(* ---------- extractTail ---------- *)

Lemma suffix_split : forall r text, (match r with [] => true | _ => is_suffix r text end) = true ->
  text = firstn (length text - length r) text ++ r.
Proof.
  intros r text H. destruct r as [|a r'].
  - cbn [length]. rewrite Nat.sub_0_r, firstn_all, app_nil_r. reflexivity.
  - apply is_suffix_iff in H. destruct H as [x ->]. rewrite app_length.
    replace (length x + length (a :: r') - length (a :: r'))%nat with (length x) by lia.
    rewrite firstn_app, Nat.sub_diag, firstn_all, firstn_O, app_nil_r. reflexivity.
Qed.

Lemma count_while_rev_all : forall p (s : bytes), count_while p (rev s) = length s <-> Forall (fun c => p c = true) s.
Proof.
  intros p s. rewrite <- (rev_length s) at 1. rewrite count_while_all. split; intro H.
  - rewrite <- (rev_involutive s). apply Forall_rev. assumption.
  - apply Forall_rev. assumption.
Qed.

Definition tail_off (s : bytes) (maxr : Z) : nat :=
  if (Z.of_nat (length s) >? maxr)%Z then (length s - Z.to_nat maxr)%nat else O.

Lemma tail_off_le : forall s maxr, (tail_off s maxr <= length s)%nat.
Proof. intros. unfold tail_off. destruct (Z.of_nat (length s) >? maxr)%Z; lia. Qed.

Lemma tail_within_iff : forall (s : bytes) maxr j (n : nat), (0 <= maxr)%Z -> (j + n = length s)%nat ->
  ((tail_off s maxr <= j)%nat <-> (Z.of_nat n <= maxr \/ Z.of_nat (length s) <= maxr)%Z).
Proof. intros s maxr j n H Hj. unfold tail_off. destruct (Z.of_nat (length s) >? maxr)%Z eqn:E; lia. Qed.

Lemma extract_tail_sound : forall l r maxr t text lab rest, (0 <= maxr)%Z ->
  tail_match l r maxr t text lab rest ->
  extract_at_end text l r maxr t = Ok (trim_ref lab, rest).
Proof.
  intros l r maxr t text lab rest Hmax H. unfold extract_at_end.
  destruct H as [lab rest Hl Htext Hlast Hwithin Hallow Hedge | tb lab rest Hl Ht Htext Hne Hall Hstop].
  - set (s := rest ++ l ++ lab) in *.
    assert (Hts : text = s ++ r) by (rewrite Htext; unfold s; rewrite <- !app_assoc; reflexivity).
    assert (Hsuf : (match r with [] => true | _ => is_suffix r text end) = true).
    { destruct r; [reflexivity|]. apply is_suffix_iff. exists s. assumption. }
    rewrite Hsuf. cbn [negb].
    assert (Hs : firstn (length text - length r) text = s).
    { rewrite Hts, app_length. replace (length s + length r - length r)%nat with (length s) by lia.
      rewrite firstn_app, Nat.sub_diag, firstn_all, firstn_O, app_nil_r. reflexivity. }
    rewrite Hs.
    assert (Hrej : table_rejects t (hd_error (rev s)) = false).
    { unfold table_rejects, edge_ok in *. destruct t as [tb|]; [|reflexivity]. destruct (hd_error (rev s)); [|reflexivity].
      rewrite Hedge. reflexivity. }
    rewrite Hrej. destruct l as [|l0 l']; [congruence|].
    destruct (maxr <? 0)%Z eqn:Em; [lia|].
    fold (tail_off s maxr). set (off := tail_off s maxr).
    assert (Hoff : (off <= length rest)%nat).
    { apply (tail_within_iff s maxr (length rest) (length (l0 :: l') + length lab)); [assumption| |assumption].
      unfold s. rewrite !app_length. lia. }
    assert (Hidx : last_index_of (l0 :: l') (skipn off s) = Some (length rest - off)%nat).
    { apply last_occurrence_index. apply last_occurrence_skipn; [discriminate|apply tail_off_le|].
      replace (length rest - off + off)%nat with (length rest) by lia. assumption. }
    rewrite Hidx. cbv zeta. replace (length rest - off + off)%nat with (length rest) by lia.
    assert (Htag : skipn (length rest + length (l0 :: l')) s = lab).
    { unfold s. rewrite skipn_app. rewrite skipn_all2 by lia.
      replace (length rest + length (l0 :: l') - length rest)%nat with (length (l0 :: l')) by lia.
      rewrite skipn_app, Nat.sub_diag, skipn_all. reflexivity. }
    rewrite Htag.
    assert (Hfin : (lbl <-- trim_blank lab;; Ok (lbl, firstn (length rest) s)) = Ok (trim_ref lab, rest)).
    { rewrite trim_blank_spec. cbn [obind]. do 2 f_equal.
      unfold s. rewrite firstn_app, Nat.sub_diag, firstn_all, firstn_O, app_nil_r. reflexivity. }
    destruct t as [tb|]; [|exact Hfin].
    cbn in Hallow. apply count_while_rev_all in Hallow. rewrite Hallow, Nat.eqb_refl. cbn [negb]. exact Hfin.
  - subst l t.
    assert (Hts : text = (rest ++ lab) ++ r) by (rewrite Htext, <- app_assoc; reflexivity).
    assert (Hsuf : (match r with [] => true | _ => is_suffix r text end) = true).
    { destruct r; [reflexivity|]. apply is_suffix_iff. exists (rest ++ lab). assumption. }
    rewrite Hsuf. cbn [negb].
    assert (Hs : firstn (length text - length r) text = rest ++ lab).
    { rewrite Hts, app_length. replace (length (rest ++ lab) + length r - length r)%nat with (length (rest ++ lab)) by lia.
      rewrite firstn_app, Nat.sub_diag, firstn_all, firstn_O, app_nil_r. reflexivity. }
    rewrite Hs.
    assert (Hrev : rev (rest ++ lab) = rev lab ++ rev rest) by apply rev_app_distr.
    assert (Hrl : Forall (fun c => tb c = true) (rev lab)) by (apply Forall_rev; assumption).
    assert (Hrej : table_rejects (Some tb) (hd_error (rev (rest ++ lab))) = false).
    { rewrite Hrev. destruct (rev lab) as [|c x] eqn:E.
      - apply (f_equal (@length N)) in E. rewrite rev_length in E. destruct lab; [congruence|discriminate].
      - inversion Hrl; subst. cbn. rewrite H1. reflexivity. }
    rewrite Hrej. cbn [match_valid_from_end obind].
    assert (Hcnt : count_while tb (rev (rest ++ lab)) = length lab).
    { rewrite Hrev. rewrite (count_while_stop_at tb (rev lab) (rev rest) Hrl Hstop). apply rev_length. }
    rewrite Hcnt, app_length.
    replace (length rest + length lab - length lab)%nat with (length rest) by lia.
    destruct (length rest =? length rest + length lab)%nat eqn:E.
    { apply Nat.eqb_eq in E. destruct lab; [congruence|cbn in E; lia]. }
    rewrite skipn_app, Nat.sub_diag, skipn_all. cbn [skipn app].
    rewrite trim_blank_spec. cbn [obind]. do 2 f_equal.
    rewrite firstn_app, Nat.sub_diag, firstn_all, firstn_O, app_nil_r. reflexivity.
Qed.

Lemma extract_tail_cases : forall l r maxr t text, (0 <= maxr)%Z -> (l <> [] \/ t <> None) ->
  (exists lab rest, tail_match l r maxr t text lab rest) \/
  ((forall lab rest, ~ tail_match l r maxr t text lab rest) /\
   extract_at_end text l r maxr t = Ok ([], text)).
Proof.
  intros l r maxr t text Hmax Hlt. unfold extract_at_end.
  destruct (match r with [] => true | _ => is_suffix r text end) eqn:Hsuf; cbn [negb].
  2:{ right. split; [|reflexivity]. intros lab rest H.
      assert (Htext : exists x, text = x ++ r).
      { destruct H as [lab rest _ Ht _ _ _ _ | tb lab rest _ _ Ht _ _ _].
        - exists (rest ++ l ++ lab). rewrite Ht, <- !app_assoc. reflexivity.
        - exists (rest ++ lab). rewrite Ht, <- !app_assoc. reflexivity. }
      destruct r as [|a r']; [discriminate|]. apply is_suffix_iff in Htext. congruence. }
  pose proof (suffix_split r text Hsuf) as Htext. set (s := firstn (length text - length r) text) in *.
  assert (Hs : forall x, text = x ++ r -> x = s) by (intros x Hx; rewrite Htext in Hx; apply app_inv_tail in Hx; congruence).
  clearbody s.
  destruct (table_rejects t (hd_error (rev s))) eqn:Hrej.
  { right. split; [|reflexivity]. intros lab rest H. unfold table_rejects in Hrej.
    destruct t as [tb|]; [|discriminate]. destruct (hd_error (rev s)) as [c|] eqn:Ehd; [|discriminate].
    destruct H as [lab rest Hl Ht Hlast Hwithin Hallow Hedge | tb' lab rest Hl Ht' Ht Hne Hall Hstop].
    - assert (Hx : rest ++ l ++ lab = s) by (apply Hs; rewrite Ht, <- !app_assoc; reflexivity).
      rewrite Hx in Hedge. rewrite Ehd in Hedge. cbn in Hedge. rewrite Hedge in Hrej. discriminate.
    - inversion Ht'; subst tb'.
      assert (Hx : rest ++ lab = s) by (apply Hs; rewrite Ht, <- !app_assoc; reflexivity).
      rewrite <- Hx, rev_app_distr in Ehd.
      assert (Hrl : Forall (fun c => tb c = true) (rev lab)) by (apply Forall_rev; assumption).
      destruct (rev lab) as [|c' x] eqn:E.
      + apply (f_equal (@length N)) in E. rewrite rev_length in E. destruct lab; [congruence|discriminate].
      + cbn in Ehd. inversion Ehd; subst c'. inversion Hrl; subst. rewrite H1 in Hrej. discriminate. }
  destruct l as [|l0 l'].
  - (* no left boundary: the longest run of class bytes at the end *)
    destruct t as [tb|]; [|destruct Hlt; congruence].
    cbn [match_valid_from_end obind].
    set (k := count_while tb (rev s)).
    assert (Hk : (k <= length s)%nat) by (unfold k; rewrite <- rev_length; apply count_while_le).
    destruct (length s - k =? length s)%nat eqn:E.
    + right. split; [|reflexivity]. apply Nat.eqb_eq in E. intros lab rest H.
      destruct H as [lab rest Hl Ht Hlast Hwithin Hallow Hedge | tb' lab rest Hl Ht' Ht Hne Hall Hstop]; [congruence|].
      inversion Ht'; subst tb'.
      assert (Hx : rest ++ lab = s) by (apply Hs; rewrite Ht, <- !app_assoc; reflexivity).
      assert (Hk' : (length lab <= k)%nat).
      { unfold k. rewrite <- Hx, rev_app_distr. rewrite count_while_app by (apply Forall_rev; assumption).
        rewrite rev_length. lia. }
      destruct lab; [congruence|cbn in Hk'; lia].
    + left. apply Nat.eqb_neq in E. exists (skipn (length s - k) s), (firstn (length s - k) s).
      apply (TM_open [] r maxr (Some tb) text tb); try reflexivity.
      * cbn [app]. rewrite app_assoc, firstn_skipn. exact Htext.
      * intro Hc. apply (f_equal (@length N)) in Hc. rewrite skipn_length in Hc. cbn [length] in Hc. lia.
      * (* the last k bytes are the reversed prefix of rev s *)
        pose proof (count_while_prefix tb (rev s)) as Hp. fold k in Hp.
        rewrite firstn_rev in Hp. apply Forall_rev in Hp. rewrite rev_involutive in Hp. exact Hp.
      * pose proof (count_while_stop tb (rev s)) as Hp. fold k in Hp.
        rewrite skipn_rev in Hp. exact Hp.
  - (* left boundary *)
    destruct (maxr <? 0)%Z eqn:Em; [lia|].
    fold (tail_off s maxr). set (off := tail_off s maxr).
    pose proof (tail_off_le s maxr) as Hoffl. fold off in Hoffl.
    destruct (last_index_of (l0 :: l') (skipn off s)) as [i|] eqn:Eidx.
    2:{ right. split; [|reflexivity]. intros lab rest H.
        destruct H as [lab rest Hl Ht Hlast Hwithin Hallow Hedge | tb' lab rest Hl Ht' Ht Hne Hall Hstop]; [|congruence].
        assert (Hx : rest ++ (l0 :: l') ++ lab = s) by (apply Hs; rewrite Ht, <- !app_assoc; reflexivity).
        rewrite Hx in *.
        assert (Hoff : (off <= length rest)%nat).
        { apply (tail_within_iff s maxr (length rest) (length (l0 :: l') + length lab)); [assumption| |assumption].
          rewrite <- Hx, !app_length. lia. }
        assert (Hin : last_occurrence (l0 :: l') (skipn off s) (length rest - off)).
        { apply last_occurrence_skipn; [discriminate|assumption|].
          replace (length rest - off + off)%nat with (length rest) by lia. assumption. }
        apply last_occurrence_index in Hin. congruence. }
    apply last_index_of_last in Eidx; [|discriminate].
    apply last_occurrence_skipn in Eidx; [|discriminate|assumption].
    set (iend := (i + off)%nat) in *. cbv zeta.
    assert (Hlen : (iend + length (l0 :: l') <= length s)%nat) by (destruct Eidx as (_ & Hl & _); exact Hl).
    assert (Hdecomp : s = firstn iend s ++ (l0 :: l') ++ skipn (iend + length (l0 :: l')) s).
    { destruct Eidx as ((b & Hb) & _ & _). rewrite Hb at 1. f_equal. f_equal.
      rewrite Hb at 1. rewrite skipn_app. rewrite skipn_all2 by (rewrite firstn_length; lia).
      rewrite firstn_length. replace (iend + length (l0 :: l') - Nat.min iend (length s))%nat with (length (l0 :: l')) by lia.
      rewrite skipn_app, Nat.sub_diag, skipn_all. reflexivity. }
    assert (Hli : length (firstn iend s) = iend) by (rewrite firstn_length; lia).
    set (tag := skipn (iend + length (l0 :: l')) s) in *.
    assert (Hcases : (exists tb, t = Some tb /\ count_while tb (rev tag) <> length tag) \/ allowed t tag).
    { destruct t as [tb|]; [|right; exact I].
      destruct (Nat.eq_dec (count_while tb (rev tag)) (length tag)) as [E|E].
      - right. cbn. apply count_while_rev_all. assumption.
      - left. exists tb. split; [reflexivity|assumption]. }
    destruct Hcases as [(tb & -> & Hbad)|Hallow].
    + right. split.
      * intros lab rest H.
        destruct H as [lab rest Hl Ht Hlast Hwithin Hallow Hedge | tb' lab rest Hl Ht' Ht Hne Hall Hstop]; [|congruence].
        assert (Hx : rest ++ (l0 :: l') ++ lab = s) by (apply Hs; rewrite Ht, <- !app_assoc; reflexivity).
        rewrite Hx in Hlast.
        pose proof (last_occurrence_unique _ _ _ _ Eidx Hlast) as Hi.
        assert (Hlab : tag = lab).
        { unfold tag. rewrite Hi, <- Hx. rewrite skipn_app. rewrite skipn_all2 by lia.
          replace (length rest + length (l0 :: l') - length rest)%nat with (length (l0 :: l')) by lia.
          rewrite skipn_app, Nat.sub_diag, skipn_all. reflexivity. }
        rewrite Hlab in Hbad. cbn in Hallow. apply count_while_rev_all in Hallow. congruence.
      * apply Nat.eqb_neq in Hbad. rewrite Hbad. reflexivity.
    + left. exists tag, (firstn iend s).
      apply TM_bounded; [discriminate| | | | |].
      * rewrite Htext at 1. rewrite Hdecomp at 1. rewrite <- !app_assoc. reflexivity.
      * rewrite <- Hdecomp, Hli. exact Eidx.
      * rewrite <- Hdecomp.
        apply (tail_within_iff s maxr iend (length (l0 :: l') + length tag)); [assumption| |fold off; unfold iend; lia].
        unfold tag. rewrite skipn_length. lia.
      * exact Hallow.
      * rewrite <- Hdecomp. unfold edge_ok, table_rejects in *. destruct t as [tb|]; [|exact I].
        destruct (hd_error (rev s)); [|exact I]. destruct (tb n); [reflexivity|discriminate].
Qed.

Lemma extract_tail_spec : forall l r maxr t text, (0 <= maxr)%Z -> (l <> [] \/ t <> None) ->
  (exists lab rest, tail_match l r maxr t text lab rest /\
                    extract_at_end text l r maxr t = Ok (trim_ref lab, rest)) \/
  ((forall lab rest, ~ tail_match l r maxr t text lab rest) /\
   extract_at_end text l r maxr t = Ok ([], text)).
Proof.
  intros l r maxr t text Hmax Hlt.
  destruct (extract_tail_cases l r maxr t text Hmax Hlt) as [(lab & rest & H)|H]; [left|right; assumption].
  exists lab, rest. split; [assumption|]. apply extract_tail_sound; assumption.
Qed.

Lemma extract_tail_edge_in : forall l lab r rest t, l <> [] ->
  last_occurrence l (rest ++ l ++ lab) (length rest) -> allowed t lab ->
  edge_ok t (hd_error (rev (rest ++ l ++ lab))) ->
  extract_at_end (rest ++ l ++ lab ++ r) l r (Z.of_nat (length l + length lab)) t = Ok (trim_ref lab, rest).
Proof.
  intros l lab r rest t Hl Hf Ha He. apply extract_tail_sound; [lia|].
  apply TM_bounded; try assumption; try reflexivity. left. lia.
Qed.

Lemma extract_tail_edge_out : forall l lab r rest t maxr, l <> [] ->
  last_occurrence l (rest ++ l ++ lab) (length rest) ->
  (0 <= maxr)%Z -> maxr = (Z.of_nat (length l + length lab) - 1)%Z ->
  extract_at_end (rest ++ l ++ lab ++ r) l r maxr t = Ok ([], rest ++ l ++ lab ++ r).
Proof.
  intros l lab r rest t maxr Hl Hf Hmax Hm.
  destruct (extract_tail_spec l r maxr t (rest ++ l ++ lab ++ r) Hmax (or_introl Hl)) as [(lab' & rest' & H & _)|[_ H]]; [|assumption].
  exfalso. destruct H as [lab' rest' _ Ht Hf' Hw _ _ | tb lab' rest' Hl' _ _ _ _ _]; [|congruence].
  assert (Hx : rest ++ l ++ lab = rest' ++ l ++ lab').
  { apply (app_inv_tail r). rewrite <- !app_assoc. exact Ht. }
  rewrite <- Hx in Hf', Hw.
  pose proof (last_occurrence_unique _ _ _ _ Hf Hf') as Hi.
  assert (Hll : (length rest + (length l + length lab) = length rest' + (length l + length lab'))%nat).
  { rewrite <- !app_length. rewrite Hx. reflexivity. }
  rewrite !app_length in Hw. lia.
Qed.

(* no panic: with a non-negative range and a boundary or a class where the code needs one *)
Lemma extract_no_panic : forall ex text, (0 <= ex_max ex)%Z ->
  (if ex_head ex then ex_right ex <> [] \/ ex_table ex <> None else ex_left ex <> [] \/ ex_table ex <> None) ->
  exists p, extract ex text = Ok p.
Proof.
  intros ex text Hmax Hb. unfold extract. destruct (ex_head ex).
  - destruct (extract_head_spec (ex_left ex) (ex_right ex) (ex_max ex) (ex_table ex) text Hmax Hb)
      as [(lab & rest & _ & H)|[_ H]]; eexists; exact H.
  - destruct (extract_tail_spec (ex_left ex) (ex_right ex) (ex_max ex) (ex_table ex) text Hmax Hb)
      as [(lab & rest & _ & H)|[_ H]]; eexists; exact H.
Qed.
