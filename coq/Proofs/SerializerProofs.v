(* Model/Serializer.v against Spec/SerializerSpec.v:
   - names: locators, masks and the rewriter table built by NewEventSerializer mean what the names say;
   - rewriters: a verified chain is constructible, reserves at least what it writes, writes [rewrite_spec];
   - the buffer model of encodeRecord returns exactly [encode_spec] whenever that fits the buffer;
   - [decode_all (encode_spec ...)] is the expected event, for every record, schema and configuration. *)
From SV Require Import Model.Common Model.Msgpack Model.Unescape Model.Serializer
     Spec.MsgpackSpec Spec.SerializerSpec Proofs.CommonFacts Proofs.MsgpackProofs Proofs.UnescapeProofs.
From Coq Require Import Lia ZifyBool ZifyN ZifyNat.
Ltac Zify.zify_post_hook ::= Z.div_mod_to_equations.
Open Scope N_scope.

(* ------------------------------------------------------------------ *)
(* names                                                               *)

Lemma bytes_eqb_sym : forall a b, bytes_eqb a b = bytes_eqb b a.
Proof.
  intros a b. destruct (bytes_eqb a b) eqn:E1; destruct (bytes_eqb b a) eqn:E2; try reflexivity.
  - apply bytes_eqb_eq in E1. subst. rewrite bytes_eqb_refl in E2. discriminate.
  - apply bytes_eqb_eq in E2. subst. rewrite bytes_eqb_refl in E1. discriminate.
Qed.

Lemma bytes_eqb_neq : forall a b, a <> b -> bytes_eqb a b = false.
Proof. intros a b H. destruct (bytes_eqb a b) eqn:E; [|reflexivity]. apply bytes_eqb_eq in E. contradiction. Qed.

Lemma has_name_mem : forall l n, has_name l n = mem n l.
Proof.
  unfold has_name, mem. induction l as [|x l IH]; intros n; cbn [index_of existsb].
  - reflexivity.
  - rewrite (bytes_eqb_sym n x). destruct (bytes_eqb x n); [reflexivity|].
    cbn [orb]. rewrite <- IH. destruct (index_of l n); reflexivity.
Qed.

Lemma has_name_In : forall l n, has_name l n = true <-> In n l.
Proof.
  unfold has_name. induction l as [|x l IH]; intros n; cbn [index_of In].
  - split; [discriminate|contradiction].
  - destruct (bytes_eqb x n) eqn:E.
    + apply bytes_eqb_eq in E. subst. split; auto.
    + specialize (IH n). destruct (index_of l n); cbn [option_map].
      * split; [intros _; right; apply IH; reflexivity | reflexivity].
      * split; [discriminate|]. intros [->|H]; [rewrite bytes_eqb_refl in E; discriminate|].
        apply IH in H. discriminate.
Qed.

Lemma index_of_In : forall l n, In n l -> exists i, index_of l n = Some i.
Proof.
  intros l n H. apply has_name_In in H. unfold has_name in H. destruct (index_of l n); [eexists; reflexivity|discriminate].
Qed.

Lemma index_of_nth : forall l n i, index_of l n = Some i -> nth i l [] = n /\ (i < length l)%nat.
Proof.
  induction l as [|x l IH]; intros n i H; cbn [index_of] in H; [discriminate|].
  destruct (bytes_eqb x n) eqn:E.
  - inversion H; subst. apply bytes_eqb_eq in E. subst. cbn. split; [reflexivity|lia].
  - destruct (index_of l n) as [j|] eqn:Ej; [|discriminate]. inversion H; subst.
    destruct (IH n j Ej) as [A B]. cbn [nth length]. split; [assumption|lia].
Qed.

(* a locator reads the value of the field of that name *)
Lemma index_of_field_value : forall schema fields name i,
  index_of schema name = Some i -> (length schema <= length fields)%nat ->
  nth_error fields i = Some (field_value schema fields name).
Proof.
  unfold field_value. induction schema as [|x schema IH]; intros fields name i H L; cbn [index_of] in H; [discriminate|].
  destruct fields as [|v fields]; cbn [length] in L; [lia|].
  cbn [combine find fst snd]. destruct (bytes_eqb x name) eqn:E.
  - inversion H; subst. reflexivity.
  - destruct (index_of schema name) as [j|] eqn:Ej; [|discriminate]. inversion H; subst.
    cbn [nth_error]. apply IH; [assumption|lia].
Qed.

Lemma get_field_value : forall schema fields name i,
  index_of schema name = Some i -> (length schema <= length fields)%nat ->
  get_field fields i = Ok (field_value schema fields name).
Proof. intros. unfold get_field. erewrite index_of_field_value by eassumption. reflexivity. Qed.

Lemma combine_firstn_l : forall {A B} (l : list A) (l' : list B),
  combine l (firstn (length l) l') = combine l l'.
Proof.
  induction l as [|x l IH]; intros l'; [reflexivity|].
  destruct l' as [|y l']; [reflexivity|]. cbn [length firstn combine]. rewrite IH. reflexivity.
Qed.

Lemma field_value_firstn : forall schema fields name,
  field_value schema (firstn (length schema) fields) name = field_value schema fields name.
Proof. intros. unfold field_value. rewrite combine_firstn_l. reflexivity. Qed.

(* RewriteFields[name] as the specification reads it *)
Lemma chain_of_lookup : forall cfg name,
  chain_of cfg name = match lookup_rewrite (c_rewrite cfg) name with
                      | Some (rc :: ch) => Some (rc :: ch)
                      | _ => None
                      end.
Proof.
  intros cfg name. unfold chain_of. induction (c_rewrite cfg) as [|[k v] m IH]; cbn [find lookup_rewrite fst].
  - reflexivity.
  - destruct (bytes_eqb k name); [destruct v; reflexivity | exact IH].
Qed.

Lemma lookup_rewrite_In : forall m name ch, lookup_rewrite m name = Some ch -> exists k, In (k, ch) m.
Proof.
  induction m as [|[k v] m IH]; intros name ch H; cbn [lookup_rewrite] in H; [discriminate|].
  destruct (bytes_eqb k name).
  - inversion H; subst. exists k. left. reflexivity.
  - destruct (IH name ch H) as [k' Hk]. exists k'. right. exact Hk.
Qed.

Lemma verified_chain : forall schema cfg,
  verify_config schema cfg = true -> chains_ok schema cfg.
Proof.
  intros schema cfg V name ch L. unfold verify_config in V. apply andb_true_iff in V. destruct V as [_ V].
  rewrite forallb_forall in V. destruct (lookup_rewrite_In _ _ _ L) as [k Hk].
  specialize (V _ Hk). cbn [fst snd] in V. apply andb_true_iff in V. apply V.
Qed.

Lemma verified_env : forall schema cfg,
  verify_config schema cfg = true -> Forall (fun n => In n schema) (c_env cfg).
Proof.
  intros schema cfg V. unfold verify_config in V.
  apply andb_true_iff in V. destruct V as [V _]. apply andb_true_iff in V. destruct V as [V _].
  apply andb_true_iff in V. destruct V as [_ V]. rewrite forallb_forall in V.
  apply Forall_forall. intros n Hn. apply has_name_In. apply V. exact Hn.
Qed.

Lemma verified_hidden : forall schema cfg,
  verify_config schema cfg = true -> Forall (fun n => In n schema) (c_hidden cfg).
Proof.
  intros schema cfg V. unfold verify_config in V.
  apply andb_true_iff in V. destruct V as [V _]. apply andb_true_iff in V. destruct V as [_ V].
  rewrite forallb_forall in V. apply Forall_forall. intros n Hn. apply has_name_In. apply V. exact Hn.
Qed.

(* ------------------------------------------------------------------ *)
(* windows                                                             *)

Lemma window_app : forall a b n, n = length a -> window (a ++ b) n = Ok b.
Proof.
  intros a b n ->. unfold window. replace (length a <=? length (a ++ b))%nat with true by (rewrite app_length; lia).
  rewrite skipn_app. rewrite skipn_all. rewrite Nat.sub_diag. reflexivity.
Qed.

Lemma unwindow_app : forall a b w n, n = length a -> unwindow (a ++ b) n w = a ++ w.
Proof.
  intros a b w n ->. unfold unwindow. rewrite firstn_app. rewrite firstn_all. rewrite Nat.sub_diag.
  cbn [firstn]. rewrite app_nil_r. reflexivity.
Qed.

(* ------------------------------------------------------------------ *)
(* rewriters                                                           *)

Section Rewriters.
  Variable schema : list bytes.

  (* what a constructed rewriter does, for a record with a slot for every schema field *)
  Definition rewriter_meets (rw : rewriter) (ch : list rewriter_cfg) : Prop :=
    forall rec value, (length schema <= length (r_fields rec))%nat ->
      max_field_length rw value rec = Ok (rewrite_max schema (r_fields rec) ch value) /\
      forall old tail,
        length old = length (rewrite_spec schema (r_fields rec) (r_unescaped rec) ch value) ->
        write_field_body rw value rec (old ++ tail)
        = Ok (rewrite_spec schema (r_fields rec) (r_unescaped rec) ch value ++ tail,
              length (rewrite_spec schema (r_fields rec) (r_unescaped rec) ch value)).

  Lemma verified_rewriters_spec : forall ch,
    ch <> [] -> verify_rewriters schema ch = true ->
    exists rw, new_rewriters schema ch = Ok (Some rw) /\ rewriter_meets rw ch.
  Proof.
    induction ch as [|rc rest IH]; intros Hne V; [contradiction|].
    cbn [verify_rewriters] in V. apply andb_true_iff in V. destruct V as [V1 V2].
    destruct rc as [| |f]; cbn [verify_rewriter] in V1.
    - (* copy: must be last *)
      destruct rest as [|? ?]; [|discriminate]. exists RwCopy. split; [reflexivity|].
      intros rec value L. split; [reflexivity|]. intros old tail Hold. cbn [rewrite_spec write_field_body] in *.
      apply copy_at_0. exact Hold.
    - (* unescape: must be last *)
      destruct rest as [|? ?]; [|discriminate]. exists RwUnescape. split; [reflexivity|].
      intros rec value L. split; [reflexivity|]. intros old tail Hold. cbn [rewrite_spec write_field_body] in *.
      destruct (r_unescaped rec).
      + apply copy_at_0. exact Hold.
      + rewrite <- unescape_syslog_eq in *.
        destruct (find_first syslog_unescaper value) as [first|] eqn:F.
        * apply run_to_buffer_spec; assumption.
        * rewrite find_first_none_ref in * by assumption. apply copy_at_0. exact Hold.
    - (* inline: needs a next rewriter and a known field *)
      apply andb_true_iff in V1. destruct V1 as [V1 Vf]. apply andb_true_iff in V1. destruct V1 as [Vn Ve].
      assert (Hrest : rest <> []) by (destruct rest; [discriminate|discriminate]).
      destruct (IH Hrest V2) as (nx & Hnx & Mnx).
      unfold has_name in Vf. destruct (index_of schema f) as [loc|] eqn:Eloc; [|discriminate].
      destruct (index_of_nth _ _ _ Eloc) as [Hnth Hlt].
      exists (RwInline (f ++ [61]) loc nx). split.
      { cbn [new_rewriters]. rewrite Hnx. cbn [obind]. rewrite Eloc. rewrite Hnth. reflexivity. }
      intros rec value L. destruct (Mnx rec value L) as [Mmax Mwrite].
      cbn [max_field_length write_field_body rewrite_max rewrite_spec].
      rewrite (get_field_value schema (r_fields rec) f loc Eloc L). cbn [obind].
      rewrite Mmax. cbn [obind].
      destruct (is_nil (field_value schema (r_fields rec) f)) eqn:En.
      + split; [reflexivity|]. exact Mwrite.
      + split.
        { rewrite app_length. cbn [length]. f_equal; try lia. }
        intros old tail Hold.
        set (fv := field_value schema (r_fields rec) f) in *.
        set (out := rewrite_spec schema (r_fields rec) (r_unescaped rec) rest value) in *.
        rewrite !app_length in Hold. cbn [length] in Hold.
        destruct (split_len old (length f + 1) (length fv + (1 + length out)) ltac:(lia)) as (o1 & o234 & -> & Ho1 & Ho234).
        destruct (split_len o234 (length fv) (1 + length out) ltac:(lia)) as (o2 & o34 & -> & Ho2 & Ho34).
        destruct (split_len o34 1 (length out) ltac:(lia)) as (o3 & o4 & -> & Ho3 & Ho4).
        rewrite <- !app_assoc.
        rewrite (copy_at_0 o1 (f ++ [61])) by (rewrite app_length; cbn [length]; lia). cbn [obind].
        rewrite (copy_at_at (f ++ [61]) o2 fv (o3 ++ o4 ++ tail)) by (reflexivity || lia). cbn [obind].
        replace ((f ++ [61]) ++ fv ++ o3 ++ o4 ++ tail) with (((f ++ [61]) ++ fv) ++ o3 ++ o4 ++ tail)
          by (rewrite <- !app_assoc; reflexivity).
        rewrite (copy_at_at ((f ++ [61]) ++ fv) o3 [32] (o4 ++ tail))
          by (rewrite ?app_length; cbn [length]; lia). cbn [obind].
        replace (((f ++ [61]) ++ fv) ++ [32] ++ o4 ++ tail) with ((((f ++ [61]) ++ fv) ++ [32]) ++ o4 ++ tail)
          by (rewrite <- !app_assoc; reflexivity).
        rewrite window_app by (rewrite !app_length; cbn [length]; lia). cbn [obind].
        rewrite (Mwrite o4 tail Ho4). cbn [obind].
        rewrite unwindow_app by (rewrite !app_length; cbn [length]; lia).
        f_equal. f_equal.
        * rewrite <- !app_assoc. reflexivity.
        * rewrite !app_length. cbn [length]. lia.
  Qed.

  (* what is written never exceeds what was reserved *)
  Lemma rewrite_spec_le_max : forall fields unescaped ch value,
    (length (rewrite_spec schema fields unescaped ch value) <= rewrite_max schema fields ch value)%nat.
  Proof.
    induction ch as [|rc rest IH]; intros value; cbn [rewrite_spec rewrite_max]; [lia|].
    destruct rc as [| |f].
    - lia.
    - destruct unescaped; [lia|]. apply unescape_ref_length.
    - destruct (is_nil (field_value schema fields f)); [apply IH|].
      specialize (IH value). rewrite !app_length. cbn [length]. lia.
  Qed.
End Rewriters.

(* ------------------------------------------------------------------ *)
(* one rewritten value: reserve, write, patch                          *)

Lemma encode_rewritten_spec : forall schema head ch value rec pre old tail,
  rewriter_meets schema head ch -> (length schema <= length (r_fields rec))%nat ->
  let out := rewrite_spec schema (r_fields rec) (r_unescaped rec) ch value in
  let data := rw_header (rewrite_max schema (r_fields rec) ch value) (length out) ++ out in
  length old = length data ->
  encode_rewritten head value rec (pre ++ old ++ tail) (length pre)
  = Ok (pre ++ data ++ tail, (length pre + length data)%nat).
Proof.
  intros schema head ch value rec pre old tail M L out data Hold.
  destruct (M rec value L) as [Mmax Mwrite]. fold out in Mwrite.
  pose proof (rewrite_spec_le_max schema (r_fields rec) (r_unescaped rec) ch value) as Hle. fold out in Hle.
  set (maxlen := rewrite_max schema (r_fields rec) ch value) in *.
  subst data. rewrite app_length in Hold. rewrite rw_header_length in Hold.
  destruct (split_len old _ _ Hold) as (oh & ob & -> & Hoh & Hob).
  unfold encode_rewritten. rewrite Mmax. cbn [obind]. unfold rw_header.
  destruct (N.of_nat maxlen <? 65536) eqn:Esmall.
  - destruct oh as [|x [|a [|b [|? ?]]]]; try discriminate. cbn [app].
    rewrite string_len16_at. cbn [obind].
    set (hmax := 218 :: be16 (N.of_nat maxlen mod 65536)).
    replace (pre ++ 218 :: be16 (N.of_nat maxlen mod 65536) ++ ob ++ tail) with ((pre ++ hmax) ++ ob ++ tail)
      by (subst hmax; rewrite <- app_assoc; reflexivity).
    rewrite window_app by (subst hmax; rewrite app_length; cbn [length be16]; lia). cbn [obind].
    rewrite (Mwrite ob tail Hob). cbn [obind].
    rewrite unwindow_app by (subst hmax; rewrite app_length; cbn [length be16]; lia).
    destruct (Nat.eqb_spec (length out) maxlen) as [Eq|Ne].
    + cbn [obind]. subst hmax. rewrite Eq. rewrite <- ?app_assoc. cbn [app length be16].
      f_equal. f_equal. lia.
    + subst hmax. rewrite <- app_assoc. cbn [app be16].
      rewrite string_len16_at. cbn [obind]. rewrite <- ?app_assoc. cbn [app length be16].
      f_equal. f_equal. lia.
  - destruct oh as [|x [|a [|b [|c [|d [|? ?]]]]]]; try discriminate. cbn [app].
    rewrite string_len32_at. cbn [obind].
    set (hmax := 219 :: be32 (N.of_nat maxlen mod 4294967296)).
    replace (pre ++ 219 :: be32 (N.of_nat maxlen mod 4294967296) ++ ob ++ tail) with ((pre ++ hmax) ++ ob ++ tail)
      by (subst hmax; rewrite <- app_assoc; reflexivity).
    rewrite window_app by (subst hmax; rewrite app_length; cbn [length be32]; lia). cbn [obind].
    rewrite (Mwrite ob tail Hob). cbn [obind].
    rewrite unwindow_app by (subst hmax; rewrite app_length; cbn [length be32]; lia).
    destruct (Nat.eqb_spec (length out) maxlen) as [Eq|Ne].
    + cbn [obind]. subst hmax. rewrite Eq. rewrite <- ?app_assoc. cbn [app length be32].
      f_equal. f_equal. lia.
    + subst hmax. rewrite <- app_assoc. cbn [app be32].
      rewrite string_len32_at. cbn [obind]. rewrite <- ?app_assoc. cbn [app length be32].
      f_equal. f_equal. lia.
Qed.

(* ------------------------------------------------------------------ *)
(* the field loop and the environment loop                             *)

Section Loops.
  Variables (schema : list bytes) (cfg : ser_config) (rec : record).
  Hypothesis Hlen : (length schema <= length (r_fields rec))%nat.
  Hypothesis Hver : forall name ch,
    lookup_rewrite (c_rewrite cfg) name = Some ch -> verify_rewriters schema ch = true.

  Definition field_bytes (kv : bytes * bytes) : bytes :=
    if is_hidden cfg (fst kv) || is_nil (snd kv) then []
    else enc_str (fst kv) ++ enc_value schema cfg rec (fst kv) (snd kv).

  Definition field_item (kv : bytes * bytes) : list (bytes * bytes) :=
    if is_hidden cfg (fst kv) || is_nil (snd kv) then []
    else [(fst kv, out_value schema cfg rec (fst kv) (snd kv))].

  Lemma field_bytes_pair : forall n v, field_bytes (n, v) =
    if is_hidden cfg n || is_nil v then [] else enc_str n ++ enc_value schema cfg rec n v.
  Proof. reflexivity. Qed.
  Lemma field_item_pair : forall n v, field_item (n, v) =
    if is_hidden cfg n || is_nil v then [] else [(n, out_value schema cfg rec n v)].
  Proof. reflexivity. Qed.

  Definition mask_of (n : bytes) : bool := has_name (c_env cfg) n || has_name (c_hidden cfg) n.

  Lemma mask_of_hidden : forall n, mask_of n = is_hidden cfg n.
  Proof. intros n. unfold mask_of, is_hidden. rewrite !has_name_mem. reflexivity. Qed.

  (* the value of one visible field *)
  Lemma encode_value_spec : forall n v rwopt pre old tail,
    match lookup_rewrite (c_rewrite cfg) n with
    | None => Ok None
    | Some chain => new_rewriters schema chain
    end = Ok rwopt ->
    length old = length (enc_value schema cfg rec n v) ->
    match rwopt with
    | Some head => encode_rewritten head v rec (pre ++ old ++ tail) (length pre)
    | None => encode_string_auto (pre ++ old ++ tail) (length pre) v
    end = Ok (pre ++ enc_value schema cfg rec n v ++ tail, (length pre + length (enc_value schema cfg rec n v))%nat).
  Proof.
    intros n v rwopt pre old tail Hrw Hold. unfold enc_value in *. rewrite chain_of_lookup in *.
    destruct (lookup_rewrite (c_rewrite cfg) n) as [[|rc ch]|] eqn:EL.
    - cbn [new_rewriters] in Hrw. inversion Hrw; subst. apply encode_string_auto_at. exact Hold.
    - destruct (verified_rewriters_spec schema (rc :: ch) ltac:(discriminate) (Hver _ _ EL)) as (rw & Hnew & M).
      rewrite Hnew in Hrw. inversion Hrw; subst.
      apply (encode_rewritten_spec schema rw (rc :: ch) v rec pre old tail M Hlen). exact Hold.
    - inversion Hrw; subst. apply encode_string_auto_at. exact Hold.
  Qed.

  Lemma encode_fields_spec : forall names fields rws pre old tail cnt,
    length fields = length names ->
    build_rewriters schema cfg names = Ok rws ->
    length old = length (flat_map field_bytes (combine names fields)) ->
    encode_fields (map mask_of names) (map enc_str names) rws fields rec (pre ++ old ++ tail) (length pre) cnt
    = Ok (pre ++ flat_map field_bytes (combine names fields) ++ tail,
          (length pre + length (flat_map field_bytes (combine names fields)))%nat,
          (cnt + length (flat_map field_item (combine names fields)))%nat).
  Proof.
    induction names as [|n names IH]; intros fields rws pre old tail cnt Hl Hb Hold.
    - destruct fields; [|discriminate]. cbn [combine flat_map length] in *. apply length_zero_nil in Hold. subst old.
      cbn [encode_fields app length]. rewrite !Nat.add_0_r. reflexivity.
    - destruct fields as [|v fields]; [discriminate|]. cbn [length] in Hl.
      cbn [build_rewriters] in Hb.
      destruct (match lookup_rewrite (c_rewrite cfg) n with
                | Some chain => new_rewriters schema chain
                | None => Ok None
                end) as [rwopt| |] eqn:Erw; cbn [obind] in Hb; try discriminate.
      destruct (build_rewriters schema cfg names) as [rws'| |] eqn:Eb; cbn [obind] in Hb; try discriminate.
      inversion Hb; subst rws. clear Hb.
      cbn [combine flat_map map encode_fields] in *.
      rewrite field_bytes_pair in *. rewrite field_item_pair.
      rewrite mask_of_hidden.
      destruct (is_hidden cfg n || is_nil v) eqn:Emask.
      + cbn [app length] in *. rewrite (IH fields rws' pre old tail cnt) by (assumption || reflexivity || lia). reflexivity.
      + rewrite !app_length in Hold.
        destruct (split_len old _ _ Hold) as (okv & orest & -> & Hokv & Horest).
        rewrite ?app_length in Hokv.
        destruct (split_len okv _ _ Hokv) as (ok & ov & -> & Hok & Hov).
        rewrite <- !app_assoc.
        rewrite (copy_at_at pre ok (enc_str n) (ov ++ orest ++ tail)) by (reflexivity || assumption).
        cbn [obind].
        replace (pre ++ enc_str n ++ ov ++ orest ++ tail) with ((pre ++ enc_str n) ++ ov ++ (orest ++ tail))
          by (rewrite <- !app_assoc; reflexivity).
        replace (length pre + length (enc_str n))%nat with (length (pre ++ enc_str n)) by (rewrite app_length; reflexivity).
        rewrite (encode_value_spec n v rwopt (pre ++ enc_str n) ov (orest ++ tail)) by assumption.
        cbn [obind].
        replace ((pre ++ enc_str n) ++ enc_value schema cfg rec n v ++ orest ++ tail)
          with ((pre ++ enc_str n ++ enc_value schema cfg rec n v) ++ orest ++ tail)
          by (rewrite <- !app_assoc; reflexivity).
        replace (length (pre ++ enc_str n) + length (enc_value schema cfg rec n v))%nat
          with (length (pre ++ enc_str n ++ enc_value schema cfg rec n v)) by (rewrite !app_length; lia).
        rewrite (IH fields rws' _ orest tail (S cnt)) by (assumption || reflexivity || lia).
        rewrite <- !app_assoc. cbn [length app]. f_equal. f_equal; [f_equal|].
        * rewrite !app_length. lia.
        * lia.
  Qed.

  Definition env_bytes (fields : list bytes) (name : bytes) : bytes :=
    enc_str name ++ enc_str (field_value schema fields name).

  Lemma encode_env_spec : forall names locs fields pre old tail,
    (length schema <= length fields)%nat ->
    locate_all schema names = Ok locs ->
    length old = length (flat_map (env_bytes fields) names) ->
    encode_env locs (map enc_str names) fields (pre ++ old ++ tail) (length pre)
    = Ok (pre ++ flat_map (env_bytes fields) names ++ tail,
          (length pre + length (flat_map (env_bytes fields) names))%nat).
  Proof.
    induction names as [|n names IH]; intros locs fields pre old tail Hf Hloc Hold.
    - cbn [locate_all] in Hloc. inversion Hloc; subst. cbn [flat_map length] in *. apply length_zero_nil in Hold.
      subst old. cbn [encode_env app length]. rewrite !Nat.add_0_r. reflexivity.
    - cbn [locate_all] in Hloc. destruct (index_of schema n) as [loc|] eqn:Eloc; [|discriminate].
      destruct (locate_all schema names) as [locs'| |] eqn:El; cbn [obind] in Hloc; try discriminate.
      inversion Hloc; subst locs. clear Hloc.
      cbn [flat_map map encode_env] in *.
      change (env_bytes fields n) with (enc_str n ++ enc_str (field_value schema fields n)) in *.
      rewrite !app_length in Hold.
      destruct (split_len old _ _ Hold) as (okv & orest & -> & Hokv & Horest).
      destruct (split_len okv _ _ Hokv) as (ok & ov & -> & Hok & Hov).
      rewrite <- !app_assoc.
      rewrite (copy_at_at pre ok (enc_str n) (ov ++ orest ++ tail)) by (reflexivity || assumption).
      cbn [obind].
      rewrite (get_field_value schema fields n loc Eloc Hf). cbn [obind].
      replace (pre ++ enc_str n ++ ov ++ orest ++ tail) with ((pre ++ enc_str n) ++ ov ++ (orest ++ tail))
        by (rewrite <- !app_assoc; reflexivity).
      replace (length pre + length (enc_str n))%nat with (length (pre ++ enc_str n)) by (rewrite app_length; reflexivity).
      rewrite (encode_string_auto_at (pre ++ enc_str n) ov (orest ++ tail)) by assumption.
      cbn [obind].
      set (ev := enc_str (field_value schema fields n)) in *.
      replace ((pre ++ enc_str n) ++ ev ++ orest ++ tail) with ((pre ++ enc_str n ++ ev) ++ orest ++ tail)
        by (rewrite <- !app_assoc; reflexivity).
      replace (length (pre ++ enc_str n) + length ev)%nat with (length (pre ++ enc_str n ++ ev))
        by (rewrite !app_length; lia).
      rewrite (IH locs' fields _ orest tail) by (assumption || reflexivity).
      rewrite <- !app_assoc. f_equal. f_equal. rewrite !app_length. lia.
  Qed.
End Loops.

(* ------------------------------------------------------------------ *)
(* NewEventSerializer                                                  *)

Lemma enc_str_length_le : forall s, (length (enc_str s) <= 5 + length s)%nat.
Proof.
  intros s. unfold enc_str. rewrite app_length. rewrite str_header_length.
  destruct (N.of_nat (length s) <? 16); [lia|]. destruct (N.of_nat (length s) <? 65536); lia.
Qed.

Lemma encode_string_auto_0 : forall old tail s,
  length old = length (enc_str s) ->
  encode_string_auto (old ++ tail) 0 s = Ok (enc_str s ++ tail, length (enc_str s)).
Proof. intros old tail s H. exact (encode_string_auto_at [] old tail s H). Qed.

Lemma src_slice_0 : forall mid post, src_slice (mid ++ post) 0 (length mid) = Ok mid.
Proof. intros. exact (src_slice_mid [] mid post 0%nat (length mid) eq_refl eq_refl). Qed.

Lemma serialize_string_spec : forall key, serialize_string key = Ok (enc_str key).
Proof.
  intros key. unfold serialize_string.
  destruct (split_le (repeat 0 (5 + length key)) (length (enc_str key))) as (old & tail & E & Hold).
  { rewrite repeat_length. apply enc_str_length_le. }
  rewrite E. rewrite (encode_string_auto_0 old tail key Hold). cbn [obind].
  apply src_slice_0.
Qed.

Lemma serialize_strings_spec : forall keys, serialize_strings keys = Ok (map enc_str keys).
Proof.
  induction keys as [|k keys IH]; [reflexivity|].
  cbn [serialize_strings map]. rewrite serialize_string_spec. cbn [obind]. rewrite IH. reflexivity.
Qed.

Lemma locate_all_ok : forall schema names,
  Forall (fun n => In n schema) names -> exists locs, locate_all schema names = Ok locs /\ length locs = length names.
Proof.
  intros schema names H. induction H as [|n names Hn H IH].
  - exists []. split; reflexivity.
  - destruct IH as (locs & E & L). destruct (index_of_In _ _ Hn) as [i Ei].
    exists (i :: locs). cbn [locate_all]. rewrite Ei. rewrite E. cbn [obind length]. split; [reflexivity|lia].
Qed.

Lemma locate_all_length : forall schema names locs, locate_all schema names = Ok locs -> length locs = length names.
Proof.
  induction names as [|n names IH]; intros locs H; cbn [locate_all] in H.
  - inversion H; reflexivity.
  - destruct (index_of schema n); [|discriminate].
    destruct (locate_all schema names) as [l| |]; cbn [obind] in H; try discriminate.
    inversion H; subst. cbn [length]. f_equal. apply IH. reflexivity.
Qed.

Lemma new_rewriters_verified : forall schema ch,
  verify_rewriters schema ch = true -> exists r, new_rewriters schema ch = Ok r.
Proof.
  intros schema ch V. destruct ch as [|rc ch].
  - exists None. reflexivity.
  - destruct (verified_rewriters_spec schema (rc :: ch) ltac:(discriminate) V) as (rw & E & _).
    exists (Some rw). exact E.
Qed.

Lemma build_rewriters_ok : forall schema cfg names,
  (forall name ch, lookup_rewrite (c_rewrite cfg) name = Some ch -> verify_rewriters schema ch = true) ->
  exists rws, build_rewriters schema cfg names = Ok rws.
Proof.
  intros schema cfg names V. induction names as [|n names [rws IH]].
  - exists []. reflexivity.
  - cbn [build_rewriters]. destruct (lookup_rewrite (c_rewrite cfg) n) as [ch|] eqn:EL.
    + destruct (new_rewriters_verified schema ch (V _ _ EL)) as [r Er]. rewrite Er. cbn [obind].
      rewrite IH. cbn [obind]. eexists. reflexivity.
    + cbn [obind]. rewrite IH. cbn [obind]. eexists. reflexivity.
Qed.

(* what NewEventSerializer leaves in the serializer *)
Lemma new_serializer_inv : forall schema cfg B ser,
  new_serializer schema cfg B = Ok ser ->
  s_masks ser = map (mask_of cfg) schema /\ s_keys ser = map enc_str schema /\
  s_env_keys ser = map enc_str (c_env cfg) /\ locate_all schema (c_env cfg) = Ok (s_env_locs ser) /\
  build_rewriters schema cfg schema = Ok (s_rewriters ser) /\ s_buflen ser = B.
Proof.
  intros schema cfg B ser H. unfold new_serializer in H.
  destruct (locate_all schema (c_env cfg)) as [locs| |]; cbn [obind] in H; try discriminate.
  destruct (build_rewriters schema cfg schema) as [rws| |]; cbn [obind] in H; try discriminate.
  rewrite !serialize_strings_spec in H. cbn [obind] in H. inversion H; subst. cbn.
  repeat split; reflexivity.
Qed.

(* constructible: the environment fields exist and the chains are valid *)
Theorem new_serializer_ok_gen : forall schema cfg B,
  Forall (fun n => In n schema) (c_env cfg) -> chains_ok schema cfg ->
  exists ser, new_serializer schema cfg B = Ok ser.
Proof.
  intros schema cfg B E V. unfold new_serializer.
  destruct (locate_all_ok schema (c_env cfg) E) as (locs & El & _). rewrite El. cbn [obind].
  destruct (build_rewriters_ok schema cfg schema V) as [rws Er].
  rewrite Er. cbn [obind]. rewrite !serialize_strings_spec. cbn [obind]. eexists. reflexivity.
Qed.

(* every configuration accepted by VerifyConfig is constructible: no error, no panic *)
Theorem new_serializer_ok : forall schema cfg B,
  verify_config schema cfg = true -> exists ser, new_serializer schema cfg B = Ok ser.
Proof.
  intros schema cfg B V. apply new_serializer_ok_gen; [apply verified_env; exact V | apply verified_chain; exact V].
Qed.

(* ------------------------------------------------------------------ *)
(* encodeRecord = encode_spec when it fits                             *)

Lemma enc_fields_as_loop : forall schema cfg rec,
  enc_fields schema cfg rec
  = flat_map (field_bytes schema cfg rec) (combine schema (firstn (length schema) (r_fields rec))).
Proof. intros. rewrite combine_firstn_l. reflexivity. Qed.

Lemma visible_as_loop : forall schema cfg rec,
  visible schema cfg rec
  = flat_map (field_item schema cfg rec) (combine schema (firstn (length schema) (r_fields rec))).
Proof. intros. rewrite combine_firstn_l. reflexivity. Qed.

Lemma enc_env_as_loop : forall schema cfg rec,
  enc_env schema cfg rec
  = flat_map (env_bytes schema (firstn (length schema) (r_fields rec))) (c_env cfg).
Proof.
  intros. unfold enc_env, env_bytes. apply flat_map_ext. intros n. rewrite field_value_firstn. reflexivity.
Qed.

Lemma flat_map_filter_length : forall {A B} (c : A -> bool) (g : A -> B) (l : list A),
  (length (flat_map (fun x => if c x then [] else [g x]) l) <= length l)%nat.
Proof.
  intros A B c g l. induction l as [|x l IH]; [cbn; lia|].
  cbn [flat_map]. rewrite app_length. destruct (c x); cbn [length]; lia.
Qed.

Lemma visible_count_le : forall schema cfg rec, (length (visible schema cfg rec) <= length schema)%nat.
Proof.
  intros schema cfg rec. unfold visible.
  pose proof (flat_map_filter_length (fun kv : bytes * bytes => is_hidden cfg (fst kv) || is_nil (snd kv))
                (fun kv => (fst kv, out_value schema cfg rec (fst kv) (snd kv))) (combine schema (r_fields rec))) as H.
  rewrite combine_length in H. pose proof (Nat.le_min_l (length schema) (length (r_fields rec))). eapply Nat.le_trans; [exact H | exact H0].
Qed.

Lemma array_len2_0 : forall x tail, encode_array_len4 (x :: tail) 0 2 = Ok (146 :: tail, 1%nat).
Proof. intros. exact (array_len4_at [] x tail 2 ltac:(cbn; lia)). Qed.

Lemma event_time_at1 : forall a old tail unix nsec,
  length old = 10%nat ->
  encode_event_time (a :: old ++ tail) 1 unix nsec
  = Ok (a :: [215; 0] ++ event_time_bytes {| r_fields := []; r_unix := unix; r_nsec := nsec; r_unescaped := false |} ++ tail, 11%nat).
Proof.
  intros a old tail unix nsec H. pose proof (event_time_at [a] old tail unix nsec H) as E.
  unfold event_time_bytes. cbn [r_unix r_nsec]. rewrite <- app_assoc. exact E.
Qed.

(* encodeRecord on ANY buffer longer than the event (the preallocated one or a one-off one; the serializer's own
   buffer length plays no role) *)
Theorem serialize_on_spec : forall schema cfg rec B ser buffer,
  chains_ok schema cfg ->
  (length schema <= length (r_fields rec))%nat ->
  new_serializer schema cfg B = Ok ser ->
  (length (encode_spec schema cfg rec) < length buffer)%nat ->
  serialize_on ser rec buffer = Ok (encode_spec schema cfg rec).
Proof.
  intros schema cfg rec B ser buffer V L Hnew Hfit.
  destruct (new_serializer_inv _ _ _ _ Hnew) as (Hm & Hk & Hek & Hloc & Hrw & Hb).
  pose proof V as Hver.
  pose proof (locate_all_length _ _ _ Hloc) as Hnloc.
  unfold serialize_on, encode_record_on. rewrite Hm, Hk, Hek, Hnloc. rewrite map_length.
  replace (length schema <=? length (r_fields rec))%nat with true by lia. cbn [obind].
  set (fields := firstn (length schema) (r_fields rec)).
  assert (Hfl : length fields = length schema) by (subst fields; rewrite firstn_length; lia).
  rewrite Hfl.
  (* the pieces of the event *)
  set (tm := event_time_bytes rec).
  set (mh := map_header (length schema + 1) (1 + length (visible schema cfg rec))).
  set (F := flat_map (field_bytes schema cfg rec) (combine schema fields)).
  set (ek := enc_str str_environment).
  set (eh := map_header (length (c_env cfg)) (length (c_env cfg))).
  set (E := flat_map (env_bytes schema fields) (c_env cfg)).
  assert (Hspec : encode_spec schema cfg rec = [146] ++ ([215; 0] ++ tm) ++ mh ++ F ++ ek ++ eh ++ E).
  { unfold encode_spec. rewrite enc_fields_as_loop, enc_env_as_loop. subst tm mh F ek eh E fields.
    rewrite <- !app_assoc. reflexivity. }
  rewrite Hspec in *. clear Hspec.
  (* the buffer: room for the event and at least one byte more *)
  destruct (split_le buffer (length ([146] ++ ([215; 0] ++ tm) ++ mh ++ F ++ ek ++ eh ++ E))) as (oall & tail & Erep & Hoall).
  { lia. }
  assert (Htail : (0 < length tail)%nat).
  { pose proof (f_equal (@length N) Erep) as EL. rewrite app_length in EL. lia. }
  rewrite Erep. clear Erep.
  rewrite app_length in Hoall. destruct (split_len oall _ _ Hoall) as (o1 & oall2 & -> & Ho1 & Hoall2).
  rewrite app_length in Hoall2. destruct (split_len oall2 _ _ Hoall2) as (o2 & oall3 & -> & Ho2 & Hoall3).
  rewrite app_length in Hoall3. destruct (split_len oall3 _ _ Hoall3) as (o3 & oall4 & -> & Ho3 & Hoall4).
  rewrite app_length in Hoall4. destruct (split_len oall4 _ _ Hoall4) as (o4 & oall5 & -> & Ho4 & Hoall5).
  rewrite app_length in Hoall5. destruct (split_len oall5 _ _ Hoall5) as (o5 & oall6 & -> & Ho5 & Hoall6).
  rewrite app_length in Hoall6. destruct (split_len oall6 _ _ Hoall6) as (o6 & o7 & -> & Ho6 & Ho7).
  clear Hoall Hoall2 Hoall3 Hoall4 Hoall5 Hoall6.
  (* root array *)
  destruct o1 as [|x1 [|? ?]]; try discriminate. rewrite <- !app_assoc. cbn [app].
  rewrite array_len2_0. cbn [obind].
  assert (Htm : length ([215; 0] ++ tm) = 10%nat) by (subst tm; reflexivity).
  rewrite (event_time_at1 146 o2 _ (r_unix rec) (r_nsec rec)) by (rewrite Ho2; exact Htm).
  cbn [obind]. change (event_time_bytes _) with tm.
  set (pre0 := 146 :: [215; 0] ++ tm).
  assert (Hpre0 : length pre0 = 11%nat) by (subst pre0 tm; reflexivity).
  (* the reserved slot of the root map header *)
  assert (Hres : (if N.of_nat (length schema + 1) <? 16 then reserve_len4 11 else reserve_len16 11)
                 = length (pre0 ++ o3)).
  { rewrite app_length, Hpre0, Ho3. subst mh. rewrite map_header_length.
    destruct (N.of_nat (length schema + 1) <? 16); reflexivity. }
  rewrite Hres. clear Hres.
  replace (146 :: [215; 0] ++ tm ++ o3 ++ o4 ++ o5 ++ o6 ++ o7 ++ tail)
    with ((pre0 ++ o3) ++ o4 ++ (o5 ++ o6 ++ o7 ++ tail)) by (subst pre0; rewrite <- !app_assoc; reflexivity).
  (* the fields *)
  rewrite (encode_fields_spec schema cfg rec L Hver schema fields (s_rewriters ser) (pre0 ++ o3) o4
             (o5 ++ o6 ++ o7 ++ tail) 1 Hfl Hrw Ho4).
  cbn [obind]. fold F. rewrite <- visible_as_loop.
  (* the root map header, written where it was reserved *)
  rewrite <- Hpre0.
  replace ((pre0 ++ o3) ++ F ++ o5 ++ o6 ++ o7 ++ tail) with (pre0 ++ o3 ++ (F ++ o5 ++ o6 ++ o7 ++ tail))
    by (rewrite <- !app_assoc; reflexivity).
  pose proof (visible_count_le schema cfg rec) as Hvis.
  rewrite (map_header_at pre0 o3 (F ++ o5 ++ o6 ++ o7 ++ tail) (length schema + 1) (1 + length (visible schema cfg rec)))
    by (lia || exact Ho3).
  cbn [obind]. fold mh.
  (* "environment" *)
  replace (pre0 ++ mh ++ F ++ o5 ++ o6 ++ o7 ++ tail) with ((pre0 ++ mh ++ F) ++ o5 ++ (o6 ++ o7 ++ tail))
    by (rewrite <- !app_assoc; reflexivity).
  replace (length (pre0 ++ o3) + length F)%nat with (length (pre0 ++ mh ++ F)) by (rewrite !app_length; lia).
  rewrite (encode_string4_at (pre0 ++ mh ++ F) o5 (o6 ++ o7 ++ tail) str_environment) by (cbn; lia || exact Ho5).
  cbn [obind]. fold ek.
  (* the nested map header *)
  replace ((pre0 ++ mh ++ F) ++ ek ++ o6 ++ o7 ++ tail) with ((pre0 ++ mh ++ F ++ ek) ++ o6 ++ (o7 ++ tail))
    by (rewrite <- !app_assoc; reflexivity).
  replace (length (pre0 ++ mh ++ F) + length ek)%nat with (length (pre0 ++ mh ++ F ++ ek)) by (rewrite !app_length; lia).
  rewrite (map_header_at (pre0 ++ mh ++ F ++ ek) o6 (o7 ++ tail) (length (c_env cfg)) (length (c_env cfg)))
    by (lia || exact Ho6).
  cbn [obind]. fold eh.
  (* the environment fields *)
  replace ((pre0 ++ mh ++ F ++ ek) ++ eh ++ o7 ++ tail) with ((pre0 ++ mh ++ F ++ ek ++ eh) ++ o7 ++ tail)
    by (rewrite <- !app_assoc; reflexivity).
  replace (length (pre0 ++ mh ++ F ++ ek) + length eh)%nat with (length (pre0 ++ mh ++ F ++ ek ++ eh))
    by (rewrite !app_length; lia).
  rewrite (encode_env_spec schema cfg rec L Hver (c_env cfg) (s_env_locs ser) fields (pre0 ++ mh ++ F ++ ek ++ eh) o7 tail)
    by (lia || assumption).
  cbn [obind]. fold E.
  (* position < len(buffer): the stream is buffer[:position] *)
  replace ((pre0 ++ mh ++ F ++ ek ++ eh) ++ E ++ tail) with ((pre0 ++ mh ++ F ++ ek ++ eh ++ E) ++ tail)
    by (rewrite <- !app_assoc; reflexivity).
  replace (length (pre0 ++ mh ++ F ++ ek ++ eh) + length E)%nat with (length (pre0 ++ mh ++ F ++ ek ++ eh ++ E))
    by (rewrite !app_length; lia).
  replace (length (pre0 ++ mh ++ F ++ ek ++ eh ++ E) =? length ((pre0 ++ mh ++ F ++ ek ++ eh ++ E) ++ tail))%nat
    with false by (rewrite (app_length _ tail); lia).
  cbn [obind]. rewrite src_slice_0. subst pre0. rewrite <- ?app_assoc. reflexivity.
Qed.

(* ------------------------------------------------------------------ *)
(* maxEncodedLength bounds the event (fix 413c995)                      *)

Lemma rw_header_length_le : forall m a, (length (rw_header m a) <= 5)%nat.
Proof. intros. rewrite rw_header_length. destruct (N.of_nat m <? 65536)%N; lia. Qed.

Lemma map_header_length_le : forall c n, (length (map_header c n) <= 3)%nat.
Proof. intros. rewrite map_header_length. destruct (N.of_nat c <? 16)%N; lia. Qed.

Section Bound.
  Variables (schema : list bytes) (cfg : ser_config) (rec : record).
  Hypothesis Hlen : (length schema <= length (r_fields rec))%nat.
  Hypothesis Hver : chains_ok schema cfg.

  (* one visible value: header (at most 5 bytes) + at most what MaxFieldLength reports / the value *)
  Lemma value_bound : forall n v rwopt,
    match lookup_rewrite (c_rewrite cfg) n with
    | None => Ok None
    | Some chain => new_rewriters schema chain
    end = Ok rwopt ->
    exists k, match rwopt with
              | Some head => max_field_length head v rec
              | None => Ok (length v)
              end = Ok k /\ (length (enc_value schema cfg rec n v) <= 5 + k)%nat.
  Proof.
    intros n v rwopt Hrw. unfold enc_value. rewrite chain_of_lookup.
    destruct (lookup_rewrite (c_rewrite cfg) n) as [[|rc ch]|] eqn:EL.
    - cbn [new_rewriters] in Hrw. inversion Hrw; subst. exists (length v). split; [reflexivity|apply enc_str_length_le].
    - destruct (verified_rewriters_spec schema (rc :: ch) ltac:(discriminate) (Hver _ _ EL)) as (rw & Hnew & M).
      rewrite Hnew in Hrw. inversion Hrw; subst.
      destruct (M rec v Hlen) as [Mmax _]. exists (rewrite_max schema (r_fields rec) (rc :: ch) v).
      split; [exact Mmax|]. rewrite app_length.
      pose proof (rw_header_length_le (rewrite_max schema (r_fields rec) (rc :: ch) v)
                    (length (rewrite_spec schema (r_fields rec) (r_unescaped rec) (rc :: ch) v))).
      pose proof (rewrite_spec_le_max schema (r_fields rec) (r_unescaped rec) (rc :: ch) v). lia.
    - inversion Hrw; subst. exists (length v). split; [reflexivity|apply enc_str_length_le].
  Qed.

  Lemma max_fields_len_bound : forall names fields rws acc,
    length fields = length names ->
    build_rewriters schema cfg names = Ok rws ->
    exists m, max_fields_len (map (mask_of cfg) names) (map enc_str names) rws fields rec acc = Ok m /\
              (acc + length (flat_map (field_bytes schema cfg rec) (combine names fields)) <= m)%nat.
  Proof.
    induction names as [|n names IH]; intros fields rws acc Hl Hb.
    - destruct fields; [|discriminate]. cbn. exists acc. split; [reflexivity|lia].
    - destruct fields as [|v fields]; [discriminate|]. cbn [length] in Hl.
      cbn [build_rewriters] in Hb.
      destruct (match lookup_rewrite (c_rewrite cfg) n with
                | Some chain => new_rewriters schema chain
                | None => Ok None
                end) as [rwopt| |] eqn:Erw; cbn [obind] in Hb; try discriminate.
      destruct (build_rewriters schema cfg names) as [rws'| |] eqn:Eb; cbn [obind] in Hb; try discriminate.
      inversion Hb; subst rws. clear Hb.
      cbn [combine flat_map map max_fields_len].
      rewrite field_bytes_pair. rewrite mask_of_hidden.
      destruct (is_hidden cfg n || is_nil v) eqn:Emask.
      + cbn [app]. apply IH; [lia|reflexivity].
      + destruct (value_bound n v rwopt) as (k & Hk & Hle).
        { destruct (lookup_rewrite (c_rewrite cfg) n); exact Erw. }
        rewrite Hk. cbn [obind].
        destruct (IH fields rws' (acc + length (enc_str n) + 5 + k)%nat ltac:(lia) eq_refl) as (m & Hm & Hmle).
        exists m. split; [exact Hm|]. rewrite !app_length. lia.
  Qed.
End Bound.

Lemma max_env_len_bound : forall schema names locs fields acc,
  (length schema <= length fields)%nat ->
  locate_all schema names = Ok locs ->
  exists m, max_env_len locs (map enc_str names) fields acc = Ok m /\
            (acc + length (flat_map (env_bytes schema fields) names) <= m)%nat.
Proof.
  intros schema names. induction names as [|n names IH]; intros locs fields acc Hf Hloc.
  - cbn [locate_all] in Hloc. inversion Hloc; subst. cbn. exists acc. split; [reflexivity|lia].
  - cbn [locate_all] in Hloc. destruct (index_of schema n) as [loc|] eqn:Eloc; [|discriminate].
    destruct (locate_all schema names) as [locs'| |] eqn:El; cbn [obind] in Hloc; try discriminate.
    inversion Hloc; subst locs. clear Hloc.
    cbn [flat_map map max_env_len].
    rewrite (get_field_value schema fields n loc Eloc Hf). cbn [obind].
    destruct (IH locs' fields (acc + length (enc_str n) + 5 + length (field_value schema fields n))%nat Hf eq_refl)
      as (m & Hm & Hmle).
    exists m. split; [exact Hm|]. unfold env_bytes at 1. rewrite !app_length.
    pose proof (enc_str_length_le (field_value schema fields n)). lia.
Qed.

(* maxEncodedLength never panics and is an upper bound of the length of the event: for every configuration with
   valid chains, every schema, every record *)
Theorem max_encoded_length_bound : forall schema cfg rec B ser,
  chains_ok schema cfg ->
  (length schema <= length (r_fields rec))%nat ->
  new_serializer schema cfg B = Ok ser ->
  exists m, max_encoded_length ser rec = Ok m /\ (length (encode_spec schema cfg rec) <= m)%nat.
Proof.
  intros schema cfg rec B ser V L Hnew.
  destruct (new_serializer_inv _ _ _ _ Hnew) as (Hm & Hk & Hek & Hloc & Hrw & Hb).
  unfold max_encoded_length. rewrite Hm, Hk, Hek. rewrite map_length.
  replace (length schema <=? length (r_fields rec))%nat with true by lia. cbn [obind].
  set (fields := firstn (length schema) (r_fields rec)).
  assert (Hfl : length fields = length schema) by (subst fields; rewrite firstn_length; lia).
  destruct (max_fields_len_bound schema cfg rec L V schema fields (s_rewriters ser) fixed_overhead Hfl Hrw)
    as (m1 & Hm1 & Hle1).
  rewrite Hm1. cbn [obind].
  destruct (max_env_len_bound schema (c_env cfg) (s_env_locs ser) fields m1 ltac:(lia) Hloc) as (m2 & Hm2 & Hle2).
  exists m2. split; [exact Hm2|].
  unfold encode_spec. rewrite enc_fields_as_loop, enc_env_as_loop. fold fields.
  rewrite !app_length.
  pose proof (map_header_length_le (length schema + 1) (1 + length (visible schema cfg rec))).
  pose proof (map_header_length_le (length (c_env cfg)) (length (c_env cfg))).
  assert (length (event_time_bytes rec) = 8%nat) by reflexivity.
  assert (length (enc_str str_environment) = 12%nat) by reflexivity.
  unfold fixed_overhead in Hle1. cbn [length]. lia.
Qed.

(* the buffer SerializeRecord chooses is longer than the bound *)
Lemma choose_buffer_length : forall buffer m, (m < length (choose_buffer buffer m))%nat.
Proof.
  intros buffer m. unfold choose_buffer. destruct (Nat.leb_spec (length buffer) m); [rewrite repeat_length|]; lia.
Qed.

(* ... hence strictly longer than the event, whatever the preallocated buffer is *)
Theorem max_length_bounds_event_lemma : forall schema cfg rec B ser,
  chains_ok schema cfg ->
  (length schema <= length (r_fields rec))%nat ->
  new_serializer schema cfg B = Ok ser ->
  exists m, max_encoded_length ser rec = Ok m /\
            (length (encode_spec schema cfg rec) <= m)%nat /\
            forall buffer, (length (encode_spec schema cfg rec) < length (choose_buffer buffer m))%nat.
Proof.
  intros schema cfg rec B ser V L Hnew.
  destruct (max_encoded_length_bound schema cfg rec B ser V L Hnew) as (m & Hm & Hle).
  exists m. split; [exact Hm|]. split; [exact Hle|]. intros buffer. pose proof (choose_buffer_length buffer m). lia.
Qed.

(* SerializeRecord after the fix: for EVERY record and EVERY preallocated buffer (any length, any contents) the
   complete event - no panic, no dropped record *)
Theorem serialize_record_from_total : forall schema cfg rec B ser buffer,
  chains_ok schema cfg ->
  (length schema <= length (r_fields rec))%nat ->
  new_serializer schema cfg B = Ok ser ->
  serialize_record_from ser rec buffer = Ok (encode_spec schema cfg rec).
Proof.
  intros schema cfg rec B ser buffer V L Hnew. unfold serialize_record_from.
  destruct (max_length_bounds_event_lemma schema cfg rec B ser V L Hnew) as (m & Hm & _ & Hfit).
  rewrite Hm. cbn [obind]. apply (serialize_on_spec schema cfg rec B ser _ V L Hnew). apply Hfit.
Qed.

Theorem encode_buf_spec_lemma : forall schema cfg rec B ser,
  chains_ok schema cfg ->
  (length schema <= length (r_fields rec))%nat ->
  new_serializer schema cfg B = Ok ser ->
  serialize_record ser rec = Ok (encode_spec schema cfg rec).
Proof.
  intros schema cfg rec B ser V L Hnew. unfold serialize_record.
  apply (serialize_record_from_total schema cfg rec B ser _ V L Hnew).
Qed.

(* ------------------------------------------------------------------ *)
(* decode (encode_spec) = the expected event                           *)

Lemma decode_fixarray_byte : forall f b r, 144 <= b < 160 ->
  decode (S f) (b :: r) = wrap_arr (dec_seq (decode f) (N.to_nat (b - 144)) r).
Proof.
  intros f b r H. cbn [decode].
  replace (b <? 128) with false by lia. replace (b <? 144) with false by lia.
  replace (b <? 160) with true by lia. reflexivity.
Qed.

Lemma decode_fixext8 : forall f ty r, decode (S f) (215 :: ty :: r) = read_body (VExt ty) 8 r.
Proof. reflexivity. Qed.

Definition small_pair (kv : bytes * bytes) : Prop :=
  N.of_nat (length (fst kv)) < 4294967296 /\ N.of_nat (length (snd kv)) < 4294967296.

Section Decode.
  Variables (schema : list bytes) (cfg : ser_config) (rec : record).

  (* one visible field's value, whatever header class the encoder chose *)
  Lemma decode_enc_value : forall f n v rest,
    N.of_nat (length (out_value schema cfg rec n v)) < 4294967296 ->
    decode (S f) (enc_value schema cfg rec n v ++ rest) = Some (VStr (out_value schema cfg rec n v), rest).
  Proof.
    intros f n v rest H. unfold enc_value, out_value in *. destruct (chain_of cfg n) as [ch|].
    - apply decode_rw_str; [apply rewrite_spec_le_max | exact H].
    - apply decode_enc_str. exact H.
  Qed.

  (* the visible fields, followed by whatever pairs come next *)
  Lemma dec_pairs_fields : forall f l m rest,
    Forall small_pair (flat_map (field_item schema cfg rec) l) ->
    dec_pairs (decode (S f)) (length (flat_map (field_item schema cfg rec) l) + m)
              (flat_map (field_bytes schema cfg rec) l ++ rest)
    = match dec_pairs (decode (S f)) m rest with
      | Some (kvs, r) => Some (map str_pair (flat_map (field_item schema cfg rec) l) ++ kvs, r)
      | None => None
      end.
  Proof.
    intros f l m rest. induction l as [|[n v] l IH]; intros Hs.
    - cbn [flat_map length map app Nat.add]. destruct (dec_pairs (decode (S f)) m rest) as [[kvs r]|]; reflexivity.
    - cbn [flat_map] in *. rewrite field_bytes_pair, field_item_pair in *.
      destruct (is_hidden cfg n || is_nil v).
      + cbn [app] in *. apply IH. exact Hs.
      + cbn [app length map Nat.add] in *. inversion Hs as [|? ? [Hk Hv] Hs']; subst. cbn [fst snd] in *.
        cbn [dec_pairs]. rewrite <- !app_assoc.
        rewrite decode_enc_str by exact Hk. rewrite decode_enc_value by exact Hv.
        rewrite IH by exact Hs'.
        destruct (dec_pairs (decode (S f)) m rest) as [[kvs r]|]; reflexivity.
  Qed.

  Lemma dec_pairs_env : forall f names rest,
    Forall small_pair (map (fun name => (name, field_value schema (r_fields rec) name)) names) ->
    dec_pairs (decode (S f)) (length names)
              (flat_map (fun name => enc_str name ++ enc_str (field_value schema (r_fields rec) name)) names ++ rest)
    = Some (map str_pair (map (fun name => (name, field_value schema (r_fields rec) name)) names), rest).
  Proof.
    intros f names rest. induction names as [|n names IH]; intros Hs.
    - reflexivity.
    - cbn [map flat_map length dec_pairs] in *. inversion Hs as [|? ? [Hk Hv] Hs']; subst. cbn [fst snd] in *.
      rewrite <- !app_assoc. rewrite decode_enc_str by exact Hk. rewrite decode_enc_str by exact Hv.
      rewrite IH by exact Hs'. reflexivity.
  Qed.

  Lemma event_time_bytes_length : length (event_time_bytes rec) = 8%nat.
  Proof. reflexivity. Qed.

  Theorem decode_encode_lemma :
    strings_small schema cfg rec ->
    N.of_nat (length schema) < 65535 ->
    N.of_nat (length (c_env cfg)) < 65536 ->
    decode_all (encode_spec schema cfg rec) = Some (event_tree schema cfg rec, []).
  Proof.
    intros Hs Hns Hne. unfold strings_small in Hs. apply Forall_app in Hs. destruct Hs as [Hvis Henv].
    unfold decode_all.
    assert (Hfuel : exists f, length (encode_spec schema cfg rec) = S (S (S (S f)))).
    { unfold encode_spec. rewrite !app_length. rewrite event_time_bytes_length. cbn [length].
      eexists. cbn [Nat.add]. reflexivity. }
    destruct Hfuel as [f ->].
    unfold encode_spec, event_tree.
    set (tm := event_time_bytes rec).
    set (vis := visible schema cfg rec).
    (* root: fixarray of two *)
    cbn [app]. rewrite decode_fixarray_byte by lia. change (N.to_nat (146 - 144)) with 2%nat.
    cbn [dec_seq].
    (* the event time: fixext8, type 0 *)
    rewrite decode_fixext8.
    assert (Htm : N.of_nat (length tm) = 8) by reflexivity.
    rewrite <- Htm. rewrite read_body_app.
    (* the root map *)
    pose proof (visible_count_le schema cfg rec) as Hcnt. fold vis in Hcnt.
    match goal with
    | |- context [decode (S (S (S f))) ?arg] =>
        replace arg with ((map_header (length schema + 1) (1 + length vis)
                           ++ (enc_fields schema cfg rec ++ enc_str str_environment
                               ++ map_header (length (c_env cfg)) (length (c_env cfg)) ++ enc_env schema cfg rec)) ++ [])
          by (rewrite app_nil_r; reflexivity)
    end.
    rewrite (decode_map (S (S f)) (length schema + 1) (1 + length vis) _ []
               (map str_pair vis ++ [(VStr str_environment, VMap (map str_pair (env_pairs schema cfg rec)))])).
    - reflexivity.
    - lia.
    - lia.
    - (* the pairs: visible fields, then "environment" *)
      replace (1 + length vis)%nat with (length vis + 1)%nat by lia.
      unfold enc_fields, vis, visible. rewrite <- !app_assoc.
      rewrite (dec_pairs_fields (S f) (combine schema (r_fields rec)) 1) by exact Hvis.
      cbn [dec_pairs]. rewrite decode_enc_str by (cbn; lia).
      (* the nested map *)
      match goal with
      | |- context [decode (S (S f)) ?arg] =>
          replace arg with ((map_header (length (c_env cfg)) (length (c_env cfg)) ++ enc_env schema cfg rec) ++ [])
            by (rewrite ?app_nil_r; reflexivity)
      end.
      rewrite (decode_map (S f) (length (c_env cfg)) (length (c_env cfg)) _ [] (map str_pair (env_pairs schema cfg rec))).
      + reflexivity.
      + lia.
      + lia.
      + unfold enc_env, env_pairs. apply dec_pairs_env. exact Henv.
  Qed.
End Decode.

(* ------------------------------------------------------------------ *)
(* side conditions from the size of the event                          *)

Lemma enc_str_length_ge : forall s, (length s <= length (enc_str s))%nat.
Proof. intros s. unfold enc_str. rewrite app_length. lia. Qed.

Lemma enc_value_length_ge : forall schema cfg rec n v,
  (length (out_value schema cfg rec n v) <= length (enc_value schema cfg rec n v))%nat.
Proof.
  intros. unfold out_value, enc_value. destruct (chain_of cfg n); [rewrite app_length; lia | apply enc_str_length_ge].
Qed.

Lemma fields_within : forall schema cfg rec l,
  Forall (fun kv => (length (fst kv) + length (snd kv) <= length (flat_map (field_bytes schema cfg rec) l))%nat)
         (flat_map (field_item schema cfg rec) l).
Proof.
  intros schema cfg rec. induction l as [|[n v] l IH]; [constructor|].
  cbn [flat_map]. rewrite field_bytes_pair, field_item_pair.
  destruct (is_hidden cfg n || is_nil v).
  - cbn [app]. exact IH.
  - cbn [app]. constructor.
    + cbn [fst snd]. rewrite !app_length.
      pose proof (enc_str_length_ge n). pose proof (enc_value_length_ge schema cfg rec n v). lia.
    + eapply Forall_impl; [|exact IH]. cbn beta. intros kv H. rewrite !app_length. lia.
Qed.

Lemma env_within : forall schema fields names,
  Forall (fun kv => (length (fst kv) + length (snd kv)
                     <= length (flat_map (fun name => enc_str name ++ enc_str (field_value schema fields name)) names))%nat)
         (map (fun name => (name, field_value schema fields name)) names).
Proof.
  intros schema fields. induction names as [|n names IH]; [constructor|].
  cbn [map flat_map]. constructor.
  - cbn [fst snd]. rewrite !app_length.
    pose proof (enc_str_length_ge n). pose proof (enc_str_length_ge (field_value schema fields n)). lia.
  - eapply Forall_impl; [|exact IH]. cbn beta. intros kv H. rewrite !app_length. lia.
Qed.

(* an event shorter than 2^32 bytes has only strings shorter than 2^32 bytes *)
Lemma strings_small_of_size : forall schema cfg rec,
  N.of_nat (length (encode_spec schema cfg rec)) < 4294967296 -> strings_small schema cfg rec.
Proof.
  intros schema cfg rec H. unfold strings_small. apply Forall_app. split.
  - pose proof (fields_within schema cfg rec (combine schema (r_fields rec))) as W.
    eapply Forall_impl; [|exact W]. cbn beta. intros kv Hkv.
    assert ((length (flat_map (field_bytes schema cfg rec) (combine schema (r_fields rec)))
             <= length (encode_spec schema cfg rec))%nat).
    { change (flat_map (field_bytes schema cfg rec) (combine schema (r_fields rec))) with (enc_fields schema cfg rec).
      unfold encode_spec; rewrite !app_length; lia. }
    split; lia.
  - pose proof (env_within schema (r_fields rec) (c_env cfg)) as W.
    eapply Forall_impl; [|exact W]. cbn beta. intros kv Hkv.
    assert ((length (flat_map (fun name => enc_str name ++ enc_str (field_value schema (r_fields rec) name)) (c_env cfg))
             <= length (encode_spec schema cfg rec))%nat).
    { change (flat_map _ (c_env cfg)) with (enc_env schema cfg rec).
      unfold encode_spec; rewrite !app_length; lia. }
    split; lia.
Qed.

(* ------------------------------------------------------------------ *)
(* the headline: what the serializer emits decodes to the record       *)

Theorem decode_serialized_lemma : forall schema cfg rec B ser buffer,
  chains_ok schema cfg ->
  (length schema <= length (r_fields rec))%nat ->
  N.of_nat (length schema) < 65535 ->
  N.of_nat (length (c_env cfg)) < 65536 ->
  strings_small schema cfg rec ->
  new_serializer schema cfg B = Ok ser ->
  exists stream,
    serialize_record_from ser rec buffer = Ok stream /\ stream <> [] /\
    decode_all stream = Some (event_tree schema cfg rec, []).
Proof.
  intros schema cfg rec B ser buffer V L Hns Hne Hsm Hnew.
  exists (encode_spec schema cfg rec). split; [|split].
  - eapply serialize_record_from_total; eassumption.
  - unfold encode_spec. discriminate.
  - apply decode_encode_lemma; assumption.
Qed.

(* ------------------------------------------------------------------ *)
(* the event time                                                      *)

Lemma be32_length : forall n, length (be32 n) = 4%nat.
Proof. reflexivity. Qed.

Theorem event_time_lemma : forall rec,
  event_time_of (VExt 0 (event_time_bytes rec))
  = Some (Z.to_N (r_unix rec mod 4294967296), Z.to_N (r_nsec rec mod 4294967296)).
Proof.
  intros rec. unfold event_time_of, event_time_bytes.
  set (a := Z.to_N (r_unix rec mod 4294967296)). set (b := Z.to_N (r_nsec rec mod 4294967296)).
  assert (Ha : a < 4294967296) by (subst a; lia). assert (Hb : b < 4294967296) by (subst b; lia).
  change 4 with (N.of_nat (length (be32 a))). rewrite take_app.
  change (length (be32 b) =? 4)%nat with true. cbv iota.
  rewrite !be_val_be32 by assumption. reflexivity.
Qed.

(* inside the range of the EventTime format the timestamp is exact *)
Corollary event_time_exact_lemma : forall rec,
  (0 <= r_unix rec < 4294967296)%Z -> (0 <= r_nsec rec < 4294967296)%Z ->
  event_time_of (VExt 0 (event_time_bytes rec)) = Some (Z.to_N (r_unix rec), Z.to_N (r_nsec rec)).
Proof.
  intros rec Hu Hn. rewrite event_time_lemma. rewrite !Z.mod_small by lia. reflexivity.
Qed.

(* outside it the seconds wrap modulo 2^32: two records 2^32 s apart get the same event time *)
Corollary event_time_wraps_lemma : forall rec rec',
  r_unix rec' = (r_unix rec + 4294967296)%Z -> r_nsec rec' = r_nsec rec ->
  event_time_bytes rec' = event_time_bytes rec.
Proof.
  intros rec rec' Hu Hn. unfold event_time_bytes. rewrite Hu, Hn.
  replace ((r_unix rec + 4294967296) mod 4294967296)%Z with (r_unix rec mod 4294967296)%Z; [reflexivity|].
  rewrite <- (Z.mod_add (r_unix rec) 1 4294967296) by lia. f_equal; lia.
Qed.

(* ------------------------------------------------------------------ *)
(* a concrete instance (test of the statements, not a proof of them):  *)
(* schema vhost app message extra comp; environment vhost, app; hidden comp;               *)
(* message rewritten by inline(comp) -> unescape; record bar, myapp, "T\n1\", Y, K2        *)

Definition ex_schema : list bytes :=
  [[118;104;111;115;116]; [97;112;112]; [109;101;115;115;97;103;101]; [101;120;116;114;97]; [99;111;109;112]].
Definition ex_cfg : ser_config :=
  {| c_env := [[118;104;111;115;116]; [97;112;112]];
     c_hidden := [[99;111;109;112]];
     c_rewrite := [([109;101;115;115;97;103;101], [RcInline [99;111;109;112]; RcUnescape])] |}.
Definition ex_rec : record :=
  {| r_fields := [[98;97;114]; [109;121;97;112;112]; [84;92;110;49;92]; [89]; [75;50]];
     r_unix := 1606818640; r_nsec := 60; r_unescaped := false |}.

Lemma example_lemma :
  verify_config ex_schema ex_cfg = true /\
  (exists ser, new_serializer ex_schema ex_cfg 200 = Ok ser /\
               serialize_record ser ex_rec = Ok (encode_spec ex_schema ex_cfg ex_rec)) /\
  (length (encode_spec ex_schema ex_cfg ex_rec) < 200)%nat /\
  visible ex_schema ex_cfg ex_rec
  = [([109;101;115;115;97;103;101], [99;111;109;112;61;75;50;32;84;10;49;92]); ([101;120;116;114;97], [89])] /\
  decode_all (encode_spec ex_schema ex_cfg ex_rec) = Some (event_tree ex_schema ex_cfg ex_rec, []).
Proof.
  split; [reflexivity|]. split.
  - destruct (new_serializer ex_schema ex_cfg 200) as [ser| |] eqn:E; try (vm_compute in E; discriminate).
    exists ser. split; [reflexivity|]. vm_compute in E. inversion E; subst. vm_compute. reflexivity.
  - split; [vm_compute; lia|]. split; vm_compute; reflexivity.
Qed.

(* ------------------------------------------------------------------ *)
(* keys are distinct: reading the event into a map loses nothing       *)

Lemma visible_keys_in : forall schema cfg rec names fields k,
  In k (map fst (flat_map (field_item schema cfg rec) (combine names fields))) -> In k names.
Proof.
  intros schema cfg rec. induction names as [|n names IH]; intros fields k H; [destruct H|].
  destruct fields as [|v fields]; [destruct H|].
  cbn [combine flat_map] in H. rewrite field_item_pair in H. rewrite map_app in H. apply in_app_or in H.
  destruct H as [H|H].
  - destruct (is_hidden cfg n || is_nil v); [destruct H|]. cbn in H. destruct H as [<-|[]]. left. reflexivity.
  - right. eapply IH. exact H.
Qed.

Lemma visible_keys_nodup : forall schema cfg rec names fields,
  NoDup names -> NoDup (map fst (flat_map (field_item schema cfg rec) (combine names fields))).
Proof.
  intros schema cfg rec. induction names as [|n names IH]; intros fields Hn; [constructor|].
  destruct fields as [|v fields]; [constructor|].
  inversion Hn as [|? ? Hnot Hn']; subst.
  cbn [combine flat_map]. rewrite field_item_pair. rewrite map_app.
  destruct (is_hidden cfg n || is_nil v).
  - cbn [map app]. apply IH. exact Hn'.
  - cbn [map app fst]. constructor; [|apply IH; exact Hn'].
    intros Hin. apply Hnot. eapply visible_keys_in. exact Hin.
Qed.

Theorem keys_distinct_lemma : forall schema cfg rec,
  NoDup schema -> NoDup (c_env cfg) ->
  ~ In str_environment (map fst (visible schema cfg rec)) ->
  NoDup (map fst (visible schema cfg rec) ++ [str_environment]) /\
  NoDup (map fst (env_pairs schema cfg rec)).
Proof.
  intros schema cfg rec Hs He Hne. split.
  - apply (NoDup_Add (Add_app str_environment (map fst (visible schema cfg rec)) [])).
    rewrite app_nil_r. split; [|exact Hne].
    unfold visible. apply (visible_keys_nodup schema cfg rec schema (r_fields rec) Hs).
  - unfold env_pairs. rewrite map_map. cbn [fst]. rewrite map_id. exact He.
Qed.

(* ------------------------------------------------------------------ *)
(* which chains VerifyRewriterConfigs accepts                          *)

Definition is_last (rc : rewriter_cfg) : Prop := rc = RcCopy \/ rc = RcUnescape.

Theorem accepted_chains_lemma : forall schema ch,
  verify_rewriters schema ch = true <->
  ch = [] \/ exists fs last, ch = map RcInline fs ++ [last] /\ is_last last /\
                             Forall (fun f => f <> [] /\ In f schema) fs.
Proof.
  intros schema ch. split.
  - induction ch as [|rc rest IH]; intros V; [left; reflexivity|]. right.
    cbn [verify_rewriters] in V. apply andb_true_iff in V. destruct V as [V1 V2].
    destruct rc as [| |f]; cbn [verify_rewriter] in V1.
    + destruct rest; [|discriminate]. exists [], RcCopy. repeat split; [left; reflexivity | constructor].
    + destruct rest; [|discriminate]. exists [], RcUnescape. repeat split; [right; reflexivity | constructor].
    + apply andb_true_iff in V1. destruct V1 as [V1 Vf]. apply andb_true_iff in V1. destruct V1 as [Vn Ve].
      destruct (IH V2) as [->|(fs & last & -> & Hl & Hfs)]; [discriminate|].
      exists (f :: fs), last. split; [reflexivity|]. split; [exact Hl|]. constructor; [|exact Hfs].
      split; [destruct f; [discriminate|discriminate] | apply has_name_In; exact Vf].
  - intros [->|(fs & last & -> & Hl & Hfs)]; [reflexivity|].
    induction Hfs as [|f fs [Hne Hin] Hfs IH].
    + destruct Hl as [->| ->]; reflexivity.
    + cbn [map app verify_rewriters verify_rewriter]. rewrite IH.
      apply has_name_In in Hin. rewrite Hin.
      destruct f; [contradiction|]. destruct (map RcInline fs ++ [last]) eqn:E.
      * destruct fs; discriminate.
      * reflexivity.
Qed.

(* the inline rewriter, spelled out (an unfolding of [rewrite_spec], for the record) *)
Lemma inline_spec_lemma : forall schema fields unescaped f rest value,
  rewrite_spec schema fields unescaped (RcInline f :: rest) value
  = if is_nil (field_value schema fields f) then rewrite_spec schema fields unescaped rest value
    else f ++ [61] ++ field_value schema fields f ++ [32] ++ rewrite_spec schema fields unescaped rest value.
Proof. reflexivity. Qed.
