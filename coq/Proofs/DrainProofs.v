(* C04, "a damaged or partial file found at startup never blocks recovery of the other chunks":
   there is a schedule (the feeder runs, a consumer takes and confirms) on which, after a start-up, every
   recovered chunk whose file is a non-empty regular file is delivered with its content, in name order,
   whatever damaged entries (empty files, directories, names that vanished) lie between them. *)
From SV Require Import Model.Common Model.FileWrite Model.Buffer Spec.BufferSpec
     Proofs.CommonFacts Proofs.FileWriteProofs Proofs.BufferInv Proofs.BufferProofs Proofs.BufferTheorems.
From Coq Require Import Lia Sorting.Sorted.

Definition unloaded_chunk (n : name) : chunk := {| c_id := n; c_data := None; c_saved := true |}.

Definition good_content (d : dirT) (n : name) : option bytes :=
  match dir_get d n with
  | Some (EFile (b :: r)) => Some (b :: r)
  | _ => None
  end.

(* what must reach the consumer: the good files, in the order of the names *)
Fixpoint delivered (d : dirT) (names : list name) : list (name * option bytes) :=
  match names with
  | [] => []
  | n :: r => match good_content d n with
              | Some c => (n, Some c) :: delivered d r
              | None => delivered d r
              end
  end.

Definition received (s : state) : list (name * option bytes) :=
  map (fun c => (c_id c, c_data c)) (taken (st_gh s)).

Section Drain.
Variable matchf : name -> bool.
Variable dirsize : Z.
Notation step := (step matchf dirsize).
Notation run := (run matchf dirsize).

(* the feeder waits at the queue, the window and the consumer's hands are empty *)
Definition ready (s : state) : Prop :=
  st_up s = true /\ st_fpc s = FRecv /\ st_win s = [] /\ st_hold s = [] /\ st_cons s = 1%nat /\
  st_dirok s = true /\ (1 <= st_M s)%nat.

Lemma run_cons : forall s e evs s1, step s e = Some s1 -> run s (e :: evs) = run s1 evs.
Proof. intros s e evs s1 H. cbn [Buffer.run]. rewrite H. reflexivity. Qed.

Lemma delivered_ext : forall d d' names,
  (forall m, In m names -> dir_get d' m = dir_get d m) -> delivered d' names = delivered d names.
Proof.
  induction names as [|n r IH]; intros H; cbn [delivered]; [reflexivity|].
  unfold good_content. rewrite H by (left; reflexivity).
  rewrite IH by (intros m Hm; apply H; right; exact Hm). reflexivity.
Qed.

Lemma drain : forall names s,
  ready s -> NoDup names -> st_queue s = map unloaded_chunk names ->
  exists evs s', run s evs = Some s' /\ ready s' /\ st_queue s' = [] /\
    received s' = received s ++ delivered (st_dir s) names /\
    (forall m, ~ In m names -> dir_get (st_dir s') m = dir_get (st_dir s) m).
Proof.
  induction names as [|n names IH]; intros s Hready Hnd Hq.
  - exists [], s. cbn [Buffer.run delivered]. rewrite app_nil_r.
    split; [reflexivity|]. split; [exact Hready|]. split; [exact Hq|]. split; [reflexivity|intros; reflexivity].
  - destruct Hready as (Hup & Hf & Hw & Hh & Hc & Hok & HM).
    inversion Hnd as [|? ? Hnin Hnd']; subst.
    cbn [map] in Hq. set (c := unloaded_chunk n) in *.
    (* the feeder receives the chunk *)
    assert (S1 : step s EFeedTake = Some (set_fpc (FLoad c) (set_met (add_q_p (-1) (st_met s)) (set_queue (map unloaded_chunk names) s)))).
    { unfold Buffer.step. rewrite Hup. unfold do_feed_take. rewrite Hf, Hq. reflexivity. }
    set (s1 := set_fpc (FLoad c) (set_met (add_q_p (-1) (st_met s)) (set_queue (map unloaded_chunk names) s))) in *.
    destruct (dir_get (st_dir s) n) as [[[|b r]|]|] eqn:Ed.
    + (* an empty file: corrupted, removed, counted *)
      set (s2 := gh (fun g => g_drop n (g_process n false g))
                    (set_fpc FRecv (set_met (add_dropped 1 (add_pending (-1) (add_pbytes (- 0) (add_pchunks (-1) (st_met s1)))))
                                           (set_dir (dir_del (st_dir s) n) s1)))).
      assert (S2 : step s1 (EFeedLoad false) = Some s2).
      { unfold Buffer.step. subst s1. simp_state. rewrite Hup. unfold do_feed_load. simp_state.
        unfold op_load, c, unloaded_chunk. cbn [c_data c_saved c_id negb]. rewrite ?Hok. cbn [negb].
        unfold read_file_at. rewrite Ed. cbn [zero_length c_data].
        unfold op_remove. cbn [c_saved c_id negb]. rewrite ?Hok. cbn [negb].
        unfold unlink_file_at. rewrite Ed. reflexivity. }
      assert (R2 : ready s2) by (subst s2 s1; unfold ready; simp_state; repeat split; assumption).
      destruct (IH s2 R2 Hnd') as (evs & s' & Hr & Hrd & Hq' & Hrec & Hfr); [subst s2 s1; reflexivity|].
      exists (EFeedTake :: EFeedLoad false :: evs), s'.
      split; [rewrite (run_cons _ _ _ _ S1), (run_cons _ _ _ _ S2); exact Hr|].
      split; [exact Hrd|]. split; [exact Hq'|]. split.
      * rewrite Hrec. cbn [delivered]. unfold good_content. rewrite Ed.
        replace (received s2) with (received s) by (subst s2 s1; reflexivity).
        f_equal. apply delivered_ext. intros m Hm. subst s2 s1. simp_state.
        apply dir_get_del_other. intros E. subst m. contradiction.
      * intros m Hm. rewrite Hfr by (intros Hin; apply Hm; right; exact Hin).
        subst s2 s1. simp_state. apply dir_get_del_other. intros E. subst m. apply Hm. left. reflexivity.
    + (* a good file: loaded, offered, taken, confirmed *)
      set (data := b :: r) in *.
      set (c' := {| c_id := n; c_data := Some data; c_saved := true |}).
      set (s2 := set_fpc (FPush c c') s1).
      assert (S2 : step s1 (EFeedLoad false) = Some s2).
      { unfold Buffer.step. subst s1. simp_state. rewrite Hup. unfold do_feed_load. simp_state.
        unfold op_load, c, unloaded_chunk. cbn [c_data c_saved c_id negb]. rewrite ?Hok. cbn [negb].
        unfold read_file_at. rewrite Ed. cbn [zero_length c_data]. subst s2 c' data. simp_state.
        f_equal. }
      set (s3 := gh (fun g => g_offer c' (g_process n true g)) (set_fpc FRecv (set_win [c'] s2))).
      assert (S3 : step s2 EFeedPush = Some s3).
      { unfold Buffer.step. subst s2 s1. simp_state. rewrite Hup. unfold do_feed_push. simp_state. rewrite Hw.
        cbn [length]. destruct (Nat.ltb 0 (st_M s)) eqn:El; [reflexivity|]. apply Nat.ltb_ge in El. lia. }
      set (s4 := gh (g_outadd c' true) (set_hold [c'] (set_win [] s3))).
      assert (S4 : step s3 EConsTake = Some s4).
      { unfold Buffer.step. subst s3 s2 s1. simp_state. rewrite Hup. unfold do_cons_take. simp_state. rewrite Hc, Hh. reflexivity. }
      set (s5 := gh (g_confirm n)
                    (set_met (add_consumed 1 (add_pending (-1) (add_pbytes (- dlen c') (add_pchunks (-1) (st_met s4)))))
                             (set_dir (dir_del (st_dir s) n) (set_hold [] s4)))).
      assert (S5 : step s4 (EConsumed 0) = Some s5).
      { unfold Buffer.step. subst s4 s3 s2 s1. simp_state. rewrite Hup. unfold do_consumed. simp_state.
        cbn [nth_error]. rewrite Hc. cbn [Nat.ltb Nat.leb].
        unfold op_remove. cbn [c' c_saved c_id negb]. rewrite ?Hok. cbn [negb].
        unfold unlink_file_at. rewrite Ed. reflexivity. }
      assert (R5 : ready s5) by (subst s5 s4 s3 s2 s1; unfold ready; simp_state; repeat split; assumption).
      destruct (IH s5 R5 Hnd') as (evs & s' & Hr & Hrd & Hq' & Hrec & Hfr); [subst s5 s4 s3 s2 s1; reflexivity|].
      exists (EFeedTake :: EFeedLoad false :: EFeedPush :: EConsTake :: EConsumed 0 :: evs), s'.
      split; [rewrite (run_cons _ _ _ _ S1), (run_cons _ _ _ _ S2), (run_cons _ _ _ _ S3), (run_cons _ _ _ _ S4), (run_cons _ _ _ _ S5); exact Hr|].
      split; [exact Hrd|]. split; [exact Hq'|]. split.
      * rewrite Hrec. cbn [delivered]. unfold good_content. rewrite Ed.
        assert (E5 : received s5 = received s ++ [(n, Some data)]).
        { subst s5 s4 s3 s2 s1. unfold received, taken. simp_state.
          rewrite filter_app, !map_app. reflexivity. }
        rewrite E5, <- app_assoc. cbn [app]. unfold data. f_equal. f_equal.
        apply delivered_ext. intros m Hm. subst s5 s4 s3 s2 s1. simp_state.
        apply dir_get_del_other. intros E. subst m. contradiction.
      * intros m Hm. rewrite Hfr by (intros Hin; apply Hm; right; exact Hin).
        subst s5 s4 s3 s2 s1. simp_state. apply dir_get_del_other. intros E. subst m. apply Hm. left. reflexivity.
    + (* a directory under a chunk name: cannot be read, dropped and counted *)
      set (s2 := gh (fun g => g_drop n (g_process n false g))
                    (set_fpc FRecv (set_met (man_on_dropped (add_ioerr 1 (st_met s1)) c) s1))).
      assert (S2 : step s1 (EFeedLoad false) = Some s2).
      { unfold Buffer.step. subst s1. simp_state. rewrite Hup. unfold do_feed_load. simp_state.
        unfold op_load, c, unloaded_chunk. cbn [c_data c_saved c_id negb]. rewrite ?Hok. cbn [negb].
        unfold read_file_at. rewrite Ed. reflexivity. }
      assert (R2 : ready s2) by (subst s2 s1; unfold ready; simp_state; repeat split; assumption).
      destruct (IH s2 R2 Hnd') as (evs & s' & Hr & Hrd & Hq' & Hrec & Hfr); [subst s2 s1; reflexivity|].
      exists (EFeedTake :: EFeedLoad false :: evs), s'.
      split; [rewrite (run_cons _ _ _ _ S1), (run_cons _ _ _ _ S2); exact Hr|].
      split; [exact Hrd|]. split; [exact Hq'|]. split.
      * rewrite Hrec. cbn [delivered]. unfold good_content. rewrite Ed.
        replace (received s2) with (received s) by (subst s2 s1; reflexivity).
        f_equal.
      * intros m Hm. rewrite Hfr by (intros Hin; apply Hm; right; exact Hin). subst s2 s1. reflexivity.
    + (* the file has vanished: dropped and counted *)
      set (s2 := gh (fun g => g_drop n (g_process n false g))
                    (set_fpc FRecv (set_met (man_on_dropped (add_ioerr 1 (st_met s1)) c) s1))).
      assert (S2 : step s1 (EFeedLoad false) = Some s2).
      { unfold Buffer.step. subst s1. simp_state. rewrite Hup. unfold do_feed_load. simp_state.
        unfold op_load, c, unloaded_chunk. cbn [c_data c_saved c_id negb]. rewrite ?Hok. cbn [negb].
        unfold read_file_at. rewrite Ed. reflexivity. }
      assert (R2 : ready s2) by (subst s2 s1; unfold ready; simp_state; repeat split; assumption).
      destruct (IH s2 R2 Hnd') as (evs & s' & Hr & Hrd & Hq' & Hrec & Hfr); [subst s2 s1; reflexivity|].
      exists (EFeedTake :: EFeedLoad false :: evs), s'.
      split; [rewrite (run_cons _ _ _ _ S1), (run_cons _ _ _ _ S2); exact Hr|].
      split; [exact Hrd|]. split; [exact Hq'|]. split.
      * rewrite Hrec. cbn [delivered]. unfold good_content. rewrite Ed.
        replace (received s2) with (received s) by (subst s2 s1; reflexivity).
        f_equal.
      * intros m Hm. rewrite Hfr by (intros Hin; apply Hm; right; exact Hin). subst s2 s1. reflexivity.
Qed.

(* the names start-up recovers *)
Definition recovered_names (Q : nat) (d : dirT) : list name :=
  firstn Q (filter (fun n => negb (name_eqb n id_file_name) && matchf n) (dir_names d)).

Theorem recovery_delivers_good : forall s Q M maxb,
  dir_sorted (st_dir s) -> down s = true -> (1 <= Q)%nat -> (1 <= M)%nat ->
  exists evs s',
    run s (ERestart Q M maxb true :: ERegister :: evs) = Some s' /\
    st_queue s' = [] /\ st_win s' = [] /\ st_hold s' = [] /\
    received s' = delivered (st_dir s) (recovered_names Q (st_dir s)).
Proof.
  intros s Q M maxb Hs Hdown HQ HM.
  set (s1 := restart matchf dirsize Q M maxb true s).
  assert (S1 : step s (ERestart Q M maxb true) = Some s1).
  { unfold Buffer.step. rewrite Hdown. destruct Q; [lia|]. destruct M; [lia|]. reflexivity. }
  set (s2 := set_cons 1 s1).
  assert (S2 : step s1 ERegister = Some s2) by reflexivity.
  assert (R2 : ready s2) by (unfold ready, s2, s1, restart; simp_state; repeat split; try reflexivity; lia).
  assert (Hq : st_queue s2 = map unloaded_chunk (recovered_names Q (st_dir s))).
  { unfold s2, s1, restart, scan, recovered_names. simp_state. rewrite firstn_map. reflexivity. }
  assert (Hnd : NoDup (recovered_names Q (st_dir s))).
  { apply sorted_nodup. unfold recovered_names. apply sorted_firstn. apply sorted_filter. exact Hs. }
  destruct (drain _ s2 R2 Hnd Hq) as (evs & s' & Hr & (Hup & Hf & Hw & Hh & _) & Hq' & Hrec & _).
  exists evs, s'. split; [rewrite (run_cons _ _ _ _ S1), (run_cons _ _ _ _ S2); exact Hr|].
  repeat split; assumption.
Qed.

End Drain.

(* for every state the system can reach (the directory is then sorted) *)
Theorem recovery_delivers_good_reachable : forall matchf dirsize, matcher_ok matchf ->
  forall s Q M maxb, reachable matchf dirsize s -> down s = true -> (1 <= Q)%nat -> (1 <= M)%nat ->
  exists evs s',
    Buffer.run matchf dirsize s (ERestart Q M maxb true :: ERegister :: evs) = Some s' /\
    st_queue s' = [] /\ st_win s' = [] /\ st_hold s' = [] /\
    received s' = delivered (st_dir s) (recovered_names matchf Q (st_dir s)).
Proof.
  intros matchf dirsize Hm s Q M maxb Hr Hd HQ HM.
  destruct (reachable_good matchf dirsize Hm s Hr) as [Hp _].
  apply recovery_delivers_good; try assumption. apply (p_sorted _ _ Hp).
Qed.

(* ---------- across a restart: what was retained is delivered ---------- *)
Lemma delivered_in : forall d names x c,
  In x names -> good_content d x = Some c -> In (x, Some c) (delivered d names).
Proof.
  induction names as [|n r IH]; intros x c Hin Hg; [contradiction|]. cbn [delivered].
  destruct Hin as [Hin|Hin].
  - subst n. rewrite Hg. left. reflexivity.
  - destruct (good_content d n); [right|]; apply IH; assumption.
Qed.

Lemma firstn_all_in : forall {A} n (l : list A) x, (length l <= n)%nat -> In x l -> In x (firstn n l).
Proof. intros A n l x Hl Hin. rewrite firstn_all2 by exact Hl. exact Hin. Qed.

(* After Destroy has completed, a chunk of the class "retained" that was given to Accept with non-empty bytes d
   is - with exactly those bytes - among what a consumer receives after the next start-up (on the delivering
   schedule of recovery_delivers_good), provided the queue is large enough for all chunk files. *)
Theorem retained_is_delivered_after_restart : forall matchf dirsize, matcher_ok matchf ->
  matchf id_file_name = false ->
  forall s Q M maxb x b0 d b, reachable matchf dirsize s -> settled s ->
  In x (g_retained (st_gh s)) -> In (x, b0 :: d, b) (g_acc (st_gh s)) ->
  (length (dir_names (st_dir s)) <= Q)%nat -> (1 <= Q)%nat -> (1 <= M)%nat ->
  exists evs s',
    Buffer.run matchf dirsize s (ERestart Q M maxb true :: ERegister :: evs) = Some s' /\
    In (x, Some (b0 :: d)) (received s').
Proof.
  intros matchf dirsize Hm Hid s Q M maxb x b0 d b Hr Hs Hret Hacc HQ HQ1 HM1.
  destruct Hs as (Hup & Hf & Hh).
  pose proof (reachable_inv matchf dirsize Hm s Hr Hup) as Hinv.
  assert (Hdown : down s = true) by (unfold down; rewrite Hf; cbn; apply Bool.orb_true_r).
  destruct (recovery_delivers_good_reachable matchf dirsize Hm s Q M maxb Hr Hdown HQ1 HM1) as (evs & s' & Hrun & _ & _ & _ & Hrec).
  exists evs, s'. split; [exact Hrun|]. rewrite Hrec.
  (* the file of x holds b0 :: d *)
  destruct (i_ret _ _ _ Hinv x Hret) as (e & He & Ho).
  assert (Hent : In x (entered (st_gh s))) by (apply (class_entered matchf dirsize (proj1 Hm)); [exact Hinv|tauto]).
  assert (Hin2 : In x (acc_ids (st_gh s))).
  { unfold acc_ids. apply in_map_iff. exists (x, b0 :: d, b). split; [reflexivity|exact Hacc]. }
  pose proof (proj1 (nodup_cnt _) (i_nodup _ _ _ Hinv)) as Hle. unfold entered in Hle.
  assert (Hnd : NoDup (acc_ids (st_gh s))).
  { apply nodup_cnt. intros y. specialize (Hle y). rewrite cnt_app in Hle. lia. }
  assert (He' : e = EFile (b0 :: d)).
  { destruct Ho as [(d' & b' & Hin' & Ee)|[Hrec' _]].
    - (* accepted: the data is unique per ID *)
      subst e. f_equal. unfold acc_ids in Hnd. clear - Hnd Hacc Hin'.
      induction (g_acc (st_gh s)) as [|[[k v] f] l IH]; [contradiction|].
      cbn [map fst] in Hnd. inversion Hnd as [|? ? Hn Hnd']; subst.
      destruct Hacc as [Ha|Ha]; destruct Hin' as [Hi|Hi].
      + congruence.
      + inversion Ha; subst. exfalso. apply Hn. apply in_map_iff. exists (x, d', b'). split; [reflexivity|exact Hi].
      + inversion Hi; subst. exfalso. apply Hn. apply in_map_iff. exists (x, b0 :: d, b). split; [reflexivity|exact Ha].
      + apply IH; assumption.
    - (* recovered and accepted at once: impossible, the IDs that entered are distinct *)
      exfalso. specialize (Hle x). rewrite cnt_app in Hle. apply cnt_in in Hrec'. apply cnt_in in Hin2. lia. }
  subst e.
  apply delivered_in.
  - unfold recovered_names. apply firstn_all_in.
    + etransitivity; [apply filter_length_le|exact HQ].
    + apply filter_In. split; [eapply dir_get_in; exact He|].
      rewrite (i_match _ _ _ Hinv x Hent). rewrite Bool.andb_true_r.
      apply Bool.negb_true_iff. apply name_eqb_neq. intros E. subst x.
      rewrite (i_match _ _ _ Hinv _ Hent) in Hid. discriminate.
  - unfold good_content. rewrite He. reflexivity.
Qed.
