(* Order invariants of Model/System.v (C05): chunks are transmitted, recovered and retransmitted in creation
   (= id) order; the first deliveries of the records of a stream (connection, pipeline) are in arrival order. *)
From Coq Require Import List Arith Bool Lia PeanoNat NArith Permutation.
From SV Require Import Model.Common Model.System Proofs.SystemLists Proofs.SystemProofs Proofs.SystemAlo Proofs.SystemOrderLists.
Import ListNotations.
Open Scope nat_scope.

Definition all_chunks (s : state) : list chunk :=
  map q_chunk (items s) ++ files s ++ acked s ++ dropped s ++ received s.

Fixpoint ro (l : list chunk) : Prop :=   (* l newest first: every first receipt has an id above all earlier ones *)
  match l with
  | [] => True
  | c :: r => (In c r \/ forall a, In a r -> c_id a < c_id c) /\ ro r
  end.

Section Pipe.
Variable p : nat.

Definition chunk_on (c : chunk) : bool := Nat.eqb (c_pipe c) p.
Definition idsp (l : list qitem) : list nat := map q_id (filter (item_on p) l).
Definition chain (s : state) : list nat :=
  idsp (unacked s) ++ idsp (leftovers s) ++ idsp (window s) ++ idsp (fhand s) ++ idsp (queue s).
Definition recvp (s : state) : list chunk := filter chunk_on (received s).
Definition filesp (s : state) : list chunk := filter chunk_on (files s).
Definition itemsp (s : state) : list qitem := filter (item_on p) (items s).
Definition sendable (s : state) : list qitem := filter (item_on p) (unacked s ++ leftovers s ++ window s).

Record ordp (s : state) : Prop := mkOrdp {
  P4 : forall c, In c (all_chunks s) -> c_id c <= lastid s;
  P5 : incr (chain s);
  P6 : forall q, In q (filter (item_on p) (unacked s)) -> In (q_chunk q) (received s);
  P7 : forall c, (In c (map q_chunk (itemsp s)) \/ In c (filesp s)) -> ~ In c (received s) ->
                 forall a, In a (recvp s) -> c_id a < c_id c;
  P8 : forall c, In c (filesp s) -> ~ In c (map q_chunk (itemsp s)) -> ~ In c (received s) ->
                 cph s p = CHanding \/ cph s p = CDone \/ (forall q, In q (sendable s) -> q_id q < c_id c);
  P9 : forall c, In c (filesp s) -> ~ In c (map q_chunk (itemsp s)) -> ~ In c (received s) ->
                 pph s p = PSaving \/ pph s p = PDone;
  P10 : ro (recvp s);
  P11 : NoDup (map c_id (filesp s));
  P12 : forall q, In q (itemsp s) -> q_saved q = false -> forall c, In c (filesp s) -> c_id c <> q_id q;
  P13 : cph s p = CHanding \/ cph s p = CDone -> pph s p = PSaving \/ pph s p = PDone
}.

(* ---------- idsp under the list operations of [step] ---------- *)

Lemma idsp_app : forall a b, idsp (a ++ b) = idsp a ++ idsp b.
Proof. intros. unfold idsp. rewrite filter_app, map_app. reflexivity. Qed.

Lemma item_on_eq : forall q x, item_on q x = true <-> q_pipe x = q.
Proof. intros. unfold item_on. apply Nat.eqb_eq. Qed.

Lemma idsp_take_same : forall l q r, take_first (item_on p) l = Some (q, r) -> idsp l = q_id q :: idsp r.
Proof.
  intros l q r H. unfold idsp.
  rewrite (take_first_filter_hit _ (item_on p) (item_on p) l q r H); [reflexivity|auto|].
  apply (proj1 (take_first_spec _ _ _ _ _ H)).
Qed.

Lemma idsp_take_other : forall p0 l q r, p0 <> p -> take_first (item_on p0) l = Some (q, r) -> idsp l = idsp r.
Proof.
  intros p0 l q r N H. unfold idsp. f_equal. apply (take_first_filter_miss _ (item_on p0) (item_on p) l q r H).
  pose proof (proj1 (take_first_spec _ _ _ _ _ H)) as F. apply item_on_eq in F.
  destruct (item_on p q) eqn:E; [apply item_on_eq in E; congruence|reflexivity].
Qed.

Lemma idsp_single_same : forall q, item_on p q = true -> idsp [q] = [q_id q].
Proof. intros q H. unfold idsp. cbn. rewrite H. reflexivity. Qed.

Lemma idsp_single_other : forall q, item_on p q = false -> idsp [q] = [].
Proof. intros q H. unfold idsp. cbn. rewrite H. reflexivity. Qed.

Lemma idsp_none : forall l, (forall y, In y l -> item_on p y = false) -> idsp l = [].
Proof.
  intros l H. unfold idsp. induction l as [|x l IH]; cbn; [reflexivity|].
  rewrite (H x (or_introl eq_refl)). apply IH. intros y Hy. apply H. right. assumption.
Qed.

Lemma idsp_sublist : forall a b, sublist a b -> sublist (idsp a) (idsp b).
Proof. intros. unfold idsp. apply sublist_map. apply sublist_filter_mono. assumption. Qed.

Lemma idsp_in : forall l x, In x (idsp l) <-> exists q, In q l /\ item_on p q = true /\ q_id q = x.
Proof.
  intros. unfold idsp. rewrite in_map_iff. split.
  - intros [q [E H]]. apply filter_In in H. exists q. tauto.
  - intros [q [H1 [H2 H3]]]. exists q. split; [assumption|]. apply filter_In. tauto.
Qed.

End Pipe.


Ltac unfold_ord :=
  unfold all_chunks, items, add_received, set_in, set_work, set_buf, set_pph, set_cph, set_phase, do_accept, new_item in *;
  cbn [phase open_conns ingested conn_buf sink_batch key_buf chans hand cur lastid pipes pph cph queue fhand window
       leftovers unacked files acked dropped filtered lost received q_chunk q_loaded q_saved c_toks c_id c_pipe] in *.

Ltac norm_chunks :=
  repeat (rewrite ?map_app, ?in_app_iff, ?sort_items_in in * );
  cbn [map In q_chunk q_loaded q_saved c_toks c_id c_pipe] in *.

Lemma in_map_chunk_tf : forall f l q r c, take_first f l = Some (q, r) ->
  (In c (map q_chunk l) <-> q_chunk q = c \/ In c (map q_chunk r)).
Proof.
  intros f l q r c H. destruct (take_first_spec _ _ _ _ _ H) as [_ [a [b [-> [-> _]]]]].
  rewrite !map_app. cbn. rewrite !in_app_iff. cbn. tauto.
Qed.
Lemma in_map_chunk_part : forall f l a b c, partition f l = (a, b) ->
  (In c (map q_chunk l) <-> In c (map q_chunk a) \/ In c (map q_chunk b)).
Proof.
  intros f l a b c H. rewrite !in_map_iff. split.
  - intros [q [E Hq]]. apply (partition_in _ _ _ _ _ H) in Hq. destruct Hq; [left|right]; eauto.
  - intros [[q [E Hq]]|[q [E Hq]]]; exists q; split; auto; apply (partition_in _ _ _ _ _ H); auto.
Qed.
Lemma in_map_chunk_sort : forall l c, In c (map q_chunk (sort_items l)) <-> In c (map q_chunk l).
Proof.
  intros. rewrite !in_map_iff. split; intros [q [E Hq]]; exists q; split; auto; apply sort_items_in; auto.
Qed.

(* membership facts of chunks of items for every take_first / partition hypothesis, at chunk c *)
Ltac chunk_facts c :=
  repeat match goal with
  | E : take_first ?f ?l = Some (?x, ?r) |- _ =>
    try pose proof (in_map_chunk_tf f l x r c E);
    revert E
  | E : partition ?f ?l = (?a, ?b) |- _ =>
    try pose proof (in_map_chunk_part f l a b c E);
    revert E
  end; intros.

Ltac persist_cases :=
  match goal with E : persist _ _ _ _ = _ |- _ => apply persist_spec in E;
    destruct E as [[? [-> ->]]|[[? [? [-> ->]]]|[? [? [-> ->]]]]] end.

Lemma pres_P4 : forall s e s', (forall c, In c (all_chunks s) -> c_id c <= lastid s) -> step s e = Some s' ->
  forall c, In c (all_chunks s') -> c_id c <= lastid s'.
Proof.
  intros s e s' IH H c Hc. pose proof (IH c) as IHc.
  destruct e; step_inv H; guards; unfold_ord; try (exact (IHc Hc)).
  all: chunk_facts c; norm_chunks; rewrite ?in_map_chunk_sort in *; norm_chunks.
  all: try tauto.
  all: repeat match goal with E : (_ <? _) = true |- _ => apply Nat.ltb_lt in E end.
  all: try (assert (X : c_id c <= lastid s \/ c_id c = id) by (intuition (subst; cbn; auto)); lia).
  all: try (persist_cases; norm_chunks; apply IHc; tauto).
  - apply IHc. destruct (q_saved q); [|tauto]. rewrite remove_file_in in Hc. tauto.
  - apply IHc. unfold recovered_queue in Hc. rewrite in_map_chunk_sort in Hc. rewrite map_map in Hc. cbn in Hc. rewrite map_id in Hc. tauto.
Qed.


Lemma pres_P13 : forall p s e s', ordp p s -> step s e = Some s' ->
  cph s' p = CHanding \/ cph s' p = CDone -> pph s' p = PSaving \/ pph s' p = PDone.
Proof.
  intros p s e s' Ho H. pose proof (P13 _ _ Ho) as IH.
  destruct e; step_inv H; guards; unfold_ord; try (exact IH).
  all: try (by_pipe p p0).
  all: try (intros X; destruct X; congruence).
  all: try (intros X; specialize (IH X); destruct IH; congruence).
  all: try tauto.
Qed.

Lemma filter_item_on_in : forall p l q, In q (filter (item_on p) l) <-> In q l /\ q_pipe q = p.
Proof. intros. rewrite filter_In, item_on_eq. tauto. Qed.

Lemma pres_P6 : forall p s e s', ordp p s -> step s e = Some s' ->
  forall q, In q (filter (item_on p) (unacked s')) -> In (q_chunk q) (received s').
Proof.
  intros p s e s' Ho H q Hq. pose proof (P6 _ _ Ho q) as IH. rewrite filter_item_on_in in *.
  destruct e; step_inv H; guards; unfold_ord; try (exact (IH Hq)).
  all: split_facts q; norm_mem.
  all: try tauto.
  all: intuition (subst; auto).
Qed.

Lemma chunk_on_eq : forall p c, chunk_on p c = true <-> c_pipe c = p.
Proof. intros. unfold chunk_on. apply Nat.eqb_eq. Qed.
Lemma filesp_in : forall p s c, In c (filesp p s) <-> In c (files s) /\ c_pipe c = p.
Proof. intros. unfold filesp. rewrite filter_In, chunk_on_eq. tauto. Qed.
Lemma itemsp_in : forall p s q, In q (itemsp p s) <-> In q (items s) /\ q_pipe q = p.
Proof. intros. unfold itemsp. apply filter_item_on_in. Qed.
Lemma recvp_in : forall p s c, In c (recvp p s) <-> In c (received s) /\ c_pipe c = p.
Proof. intros. unfold recvp. rewrite filter_In, chunk_on_eq. tauto. Qed.

Lemma chain_ids_of_items : forall p s q, In q (itemsp p s) -> In (q_id q) (chain p s).
Proof.
  intros p s q H. apply itemsp_in in H. destruct H as [H E]. unfold items in H. unfold chain.
  rewrite !in_app_iff in *. rewrite !idsp_in.
  assert (X : item_on p q = true) by (apply item_on_eq; assumption).
  destruct H as [H|[H|[H|[H|H]]]]; [do 4 right|do 3 right; left|do 2 right; left|right; left|left]; exists q; auto.
Qed.

Lemma NoDup_sublist : forall A (a b : list A), sublist a b -> NoDup b -> NoDup a.
Proof.
  induction 1; intros Hb; auto.
  - inversion Hb; subst. auto.
  - inversion Hb; subst. constructor; auto. intros Hx. apply H2. eapply sublist_in; eauto.
Qed.

Lemma NoDup_snoc : forall A (l : list A) x, NoDup l -> ~ In x l -> NoDup (l ++ [x]).
Proof.
  induction l as [|y l IH]; intros x Hn Hx; cbn; [constructor; [intros []|constructor]|].
  inversion Hn; subst. constructor.
  - rewrite in_app_iff. cbn. intros [H|[H|[]]]; [contradiction|subst; apply Hx; left; reflexivity].
  - apply IH; [assumption|]. intros H. apply Hx. right. assumption.
Qed.

Lemma filesp_snoc_nodup : forall p fl c,
  NoDup (map c_id (filter (chunk_on p) fl)) ->
  (c_pipe c = p -> forall c', In c' fl -> c_pipe c' = p -> c_id c' <> c_id c) ->
  NoDup (map c_id (filter (chunk_on p) (fl ++ [c]))).
Proof.
  intros p fl c Hn Hc. rewrite filter_app, map_app. cbn. destruct (chunk_on p c) eqn:E; cbn; [|rewrite app_nil_r; assumption].
  apply chunk_on_eq in E. apply NoDup_snoc; [assumption|].
  intros H. apply in_map_iff in H. destruct H as [c' [E' H]]. apply filter_In in H. destruct H as [H1 H2].
  apply chunk_on_eq in H2. exact (Hc E c' H1 H2 E').
Qed.

Lemma P4_files : forall p s c, ordp p s -> In c (files s) -> c_id c <= lastid s.
Proof. intros p s c Ho H. apply (P4 _ _ Ho). unfold all_chunks. rewrite !in_app_iff. tauto. Qed.
Lemma P4_items : forall p s q, ordp p s -> In q (items s) -> q_id q <= lastid s.
Proof. intros p s q Ho H. apply (P4 _ _ Ho (q_chunk q)). unfold all_chunks. rewrite !in_app_iff. left. apply in_map. assumption. Qed.
Lemma P4_received : forall p s c, ordp p s -> In c (received s) -> c_id c <= lastid s.
Proof. intros p s c Ho H. apply (P4 _ _ Ho). unfold all_chunks. rewrite !in_app_iff. tauto. Qed.

Ltac ltb_facts := repeat match goal with E : (_ <? _) = true |- _ => apply Nat.ltb_lt in E end.

(* the item taken from one of the item lists belongs to items *)
Ltac in_items_tf :=
  unfold items; rewrite !in_app_iff;
  first [ left; eapply tf_head_in; eassumption
        | right; left; eapply tf_head_in; eassumption
        | right; right; left; eapply tf_head_in; eassumption
        | right; right; right; left; eapply tf_head_in; eassumption
        | right; right; right; right; eapply tf_head_in; eassumption ].

Lemma pres_P11 : forall p s e s', ordp p s -> order_safe_event e = true -> step s e = Some s' ->
  NoDup (map c_id (filesp p s')).
Proof.
  intros p s e s' Ho Hs H. pose proof (P11 _ _ Ho) as IH. unfold filesp in *.
  destruct e; try discriminate Hs; step_inv H; guards; unfold_ord; try (exact IH).
  all: try discriminate Hs.
  all: ltb_facts.
  all: try (apply filesp_snoc_nodup; [exact IH|]; intros _ c' Hc' _; cbn; pose proof (P4_files _ _ _ Ho Hc'); lia).
  all: try (persist_cases; try (exact IH);
            apply filesp_snoc_nodup; [exact IH|]; intros Ep c' Hc' Ep';
            apply (P12 _ _ Ho q); [apply itemsp_in; split; [in_items_tf|exact Ep]|assumption|apply filesp_in; tauto]).
  - destruct (q_saved q); [|exact IH]. eapply NoDup_sublist; [|exact IH].
    apply sublist_map. apply sublist_filter_mono. unfold remove_file. apply sublist_filter.
Qed.

Lemma incr_mid : forall pre x post, incr (pre ++ x :: post) -> forall y, In y (pre ++ post) -> y <> x.
Proof.
  intros pre x post H y Hy. apply incr_NoDup in H. apply NoDup_remove_2 in H. intros ->. contradiction.
Qed.

Lemma idsp_intro : forall p l q, In q l -> q_pipe q = p -> In (q_id q) (idsp p l).
Proof. intros. apply idsp_in. exists q. rewrite item_on_eq. auto. Qed.

(* an item taken from one of the five stages has an id different from every other item of the pipeline *)
Section Distinct.
Variables (p : nat) (s : state) (x : qitem) (r : list qitem) (f : qitem -> bool).
Hypothesis Ho : ordp p s.
Hypothesis Hx : q_pipe x = p.

Lemma take_split : forall l, take_first f l = Some (x, r) -> exists a b, l = a ++ x :: b /\ r = a ++ b.
Proof. intros l H. destruct (take_first_spec _ _ _ _ _ H) as [_ [a [b [E1 [E2 _]]]]]. eauto. Qed.

Lemma idsp_split : forall a b, idsp p (a ++ x :: b) = idsp p a ++ q_id x :: idsp p b.
Proof.
  intros. rewrite idsp_app. unfold idsp at 2. cbn. assert (E : item_on p x = true) by (apply item_on_eq; assumption).
  rewrite E. reflexivity.
Qed.

Lemma distinct_queue : take_first f (queue s) = Some (x, r) ->
  forall q, In q (unacked s ++ leftovers s ++ window s ++ fhand s ++ r) -> q_pipe q = p -> q_id q <> q_id x.
Proof.
  intros H q Hq Ep. destruct (take_split _ H) as [a [b [E1 E2]]]. pose proof (P5 _ _ Ho) as C. unfold chain in C.
  rewrite E1, idsp_split in C. subst r.
  apply (incr_mid (idsp p (unacked s) ++ idsp p (leftovers s) ++ idsp p (window s) ++ idsp p (fhand s) ++ idsp p a) (q_id x) (idsp p b)).
  - rewrite <- ?app_assoc. exact C.
  - rewrite <- ?app_assoc. rewrite <- ?idsp_app. apply idsp_intro; [|assumption]. rewrite <- ?app_assoc in Hq. exact Hq.
Qed.

Lemma distinct_fhand : take_first f (fhand s) = Some (x, r) ->
  forall q, In q (unacked s ++ leftovers s ++ window s ++ r ++ queue s) -> q_pipe q = p -> q_id q <> q_id x.
Proof.
  intros H q Hq Ep. destruct (take_split _ H) as [a [b [E1 E2]]]. pose proof (P5 _ _ Ho) as C. unfold chain in C.
  rewrite E1, idsp_split in C. subst r.
  apply (incr_mid (idsp p (unacked s) ++ idsp p (leftovers s) ++ idsp p (window s) ++ idsp p a) (q_id x) (idsp p b ++ idsp p (queue s))).
  - rewrite <- ?app_assoc. cbn. rewrite <- ?app_assoc in C. exact C.
  - rewrite <- ?app_assoc. rewrite <- ?idsp_app. apply idsp_intro; [|assumption]. rewrite <- ?app_assoc in Hq. exact Hq.
Qed.

Lemma distinct_window : take_first f (window s) = Some (x, r) ->
  forall q, In q (unacked s ++ leftovers s ++ r ++ fhand s ++ queue s) -> q_pipe q = p -> q_id q <> q_id x.
Proof.
  intros H q Hq Ep. destruct (take_split _ H) as [a [b [E1 E2]]]. pose proof (P5 _ _ Ho) as C. unfold chain in C.
  rewrite E1, idsp_split in C. subst r.
  apply (incr_mid (idsp p (unacked s) ++ idsp p (leftovers s) ++ idsp p a) (q_id x) (idsp p b ++ idsp p (fhand s) ++ idsp p (queue s))).
  - rewrite <- ?app_assoc. cbn. rewrite <- ?app_assoc in C. exact C.
  - rewrite <- ?app_assoc. rewrite <- ?idsp_app. apply idsp_intro; [|assumption]. rewrite <- ?app_assoc in Hq. exact Hq.
Qed.

Lemma distinct_leftovers : take_first f (leftovers s) = Some (x, r) ->
  forall q, In q (unacked s ++ r ++ window s ++ fhand s ++ queue s) -> q_pipe q = p -> q_id q <> q_id x.
Proof.
  intros H q Hq Ep. destruct (take_split _ H) as [a [b [E1 E2]]]. pose proof (P5 _ _ Ho) as C. unfold chain in C.
  rewrite E1, idsp_split in C. subst r.
  apply (incr_mid (idsp p (unacked s) ++ idsp p a) (q_id x) (idsp p b ++ idsp p (window s) ++ idsp p (fhand s) ++ idsp p (queue s))).
  - rewrite <- ?app_assoc. cbn. rewrite <- ?app_assoc in C. exact C.
  - rewrite <- ?app_assoc. rewrite <- ?idsp_app. apply idsp_intro; [|assumption]. rewrite <- ?app_assoc in Hq. exact Hq.
Qed.

Lemma distinct_unacked : take_first f (unacked s) = Some (x, r) ->
  forall q, In q (r ++ leftovers s ++ window s ++ fhand s ++ queue s) -> q_pipe q = p -> q_id q <> q_id x.
Proof.
  intros H q Hq Ep. destruct (take_split _ H) as [a [b [E1 E2]]]. pose proof (P5 _ _ Ho) as C. unfold chain in C.
  rewrite E1, idsp_split in C. subst r.
  apply (incr_mid (idsp p a) (q_id x) (idsp p b ++ idsp p (leftovers s) ++ idsp p (window s) ++ idsp p (fhand s) ++ idsp p (queue s))).
  - rewrite <- ?app_assoc. cbn. rewrite <- ?app_assoc in C. exact C.
  - rewrite <- ?app_assoc. rewrite <- ?idsp_app. apply idsp_intro; [|assumption]. rewrite <- ?app_assoc in Hq. exact Hq.
Qed.
End Distinct.


Lemma pres_P12 : forall p s e s', ordp p s -> order_safe_event e = true -> step s e = Some s' ->
  forall q, In q (itemsp p s') -> q_saved q = false -> forall c, In c (filesp p s') -> c_id c <> q_id q.
Proof.
  intros p s e s' Ho Hs H q Hq Hu c Hc. pose proof (P12 _ _ Ho q) as IH.
  rewrite itemsp_in in Hq. rewrite filesp_in in Hc. setoid_rewrite filesp_in in IH. rewrite itemsp_in in IH.
  destruct e; try discriminate Hs; step_inv H; guards; unfold_ord; try (exact (IH Hq Hu c Hc)).
  all: try discriminate Hs.
  all: ltb_facts.
  all: split_facts q; norm_mem.
  all: try (apply IH; tauto).
  (* AMem: the new unsaved item has an id above every file; ADisk: the new file has an id above every item *)
  all: try (destruct Hc as [Hc Ec]; pose proof (P4_files _ _ _ Ho Hc);
            destruct Hq as [[[Hq|[<-|[]]]|Hq] Ep]; [apply IH; tauto|cbn; lia|apply IH; tauto]; fail).
  all: try (destruct Hc as [Hc Ec]; rewrite in_app_iff in Hc; cbn in Hc; destruct Hc as [Hc|[<-|[]]];
            [destruct Hq as [[[Hq|[<-|[]]]|Hq] Ep]; [apply IH; tauto|discriminate Hu|apply IH; tauto]
            |destruct Hq as [[[Hq|[<-|[]]]|Hq] Ep]; [|discriminate Hu|];
             match goal with |- _ <> q_id ?qq => assert (X : q_id qq <= lastid s) by (apply (P4_items _ _ _ Ho); unfold items; rewrite !in_app_iff; tauto) end; cbn; lia]; fail).
  (* ADisk *)
  all: try (destruct Hc as [[Hc|[<-|[]]] Ec];
            [destruct Hq as [[[Hq|[<-|[]]]|Hq] Ep]; [apply IH; tauto|discriminate Hu|apply IH; tauto]
            |destruct Hq as [[[Hq|[<-|[]]]|Hq] Ep]; [|discriminate Hu|];
             match goal with |- _ <> q_id ?qq => assert (X : q_id qq <= lastid s) by (apply (P4_items _ _ _ Ho); unfold items; rewrite !in_app_iff; tauto) end; cbn; lia]; fail).
  - (* FeederLoad ok *)
    destruct Hq as [[Hq|[[<-|Hq]|Hq]] Ep]; try (apply IH; tauto).
    cbn in *. apply (P12 _ _ Ho q0); [apply itemsp_in; split; [in_items_tf|exact Ep]|exact Hu|apply filesp_in; exact Hc].
  - persist_cases; norm_mem; try (apply IH; tauto).
    destruct Hc as [[Hc|[<-|[]]] Ec]; [apply IH; tauto|]. apply not_eq_sym.
    eapply (distinct_queue p s q0 l _ Ho Ec E0); [rewrite !in_app_iff; tauto|tauto].
  - persist_cases; norm_mem; try (apply IH; tauto).
    destruct Hc as [[Hc|[<-|[]]] Ec]; [apply IH; tauto|]. apply not_eq_sym.
    eapply (distinct_fhand p s q0 l _ Ho Ec E0); [rewrite !in_app_iff; tauto|tauto].
  - persist_cases; norm_mem; try (apply IH; tauto).
    destruct Hc as [[Hc|[<-|[]]] Ec]; [apply IH; tauto|]. apply not_eq_sym.
    eapply (distinct_window p s q0 l _ Ho Ec E0); [rewrite !in_app_iff; tauto|tauto].
  - apply IH; [tauto|assumption|]. destruct (q_saved q0); [|tauto]. destruct Hc as [Hc Ec]. apply remove_file_in in Hc. tauto.
  - persist_cases; norm_mem; try (apply IH; tauto).
    destruct Hc as [[Hc|[<-|[]]] Ec]; [apply IH; tauto|]. apply not_eq_sym.
    eapply (distinct_leftovers p s q0 l _ Ho Ec E0); [rewrite !in_app_iff; tauto|tauto].
  - (* Restart: every recovered item is saved *)
    exfalso. destruct Hq as [Hq _]. unfold recovered_queue in Hq. norm_mem. rewrite in_map_iff in Hq.
    destruct Hq as [[c0 [<- _]]|Hq]; [discriminate Hu|tauto].
Qed.


Lemma idsp_snoc : forall p l x, idsp p (l ++ [x]) = idsp p l ++ (if item_on p x then [q_id x] else []).
Proof. intros. rewrite idsp_app. unfold idsp at 2. cbn. destruct (item_on p x); reflexivity. Qed.
Lemma idsp_cons : forall p l x, idsp p (x :: l) = (if item_on p x then [q_id x] else []) ++ idsp p l.
Proof. intros. unfold idsp. cbn. destruct (item_on p x); reflexivity. Qed.

Lemma item_on_diff : forall p p0 x, p0 <> p -> item_on p0 x = true -> item_on p x = false.
Proof. intros p p0 x N H. apply item_on_eq in H. destruct (item_on p x) eqn:E; [apply item_on_eq in E; congruence|reflexivity]. Qed.

Lemma idsp_part_other : forall p p0 l a b, p0 <> p -> partition (item_on p0) l = (a, b) -> idsp p l = idsp p b /\ idsp p a = [].
Proof.
  intros p p0 l a b N H. unfold idsp.
  destruct (partition_filter_out _ (item_on p0) (item_on p) l a b H) as [E1 E2].
  - intros y Hy. destruct (item_on p0 y) eqn:E; [|reflexivity]. rewrite (item_on_diff p p0 y N E) in Hy. discriminate.
  - rewrite E1, E2. split; reflexivity.
Qed.
Lemma idsp_part_same : forall p l a b, partition (item_on p) l = (a, b) -> idsp p l = idsp p a /\ idsp p b = [].
Proof.
  intros p l a b H. unfold idsp.
  destruct (partition_filter_in _ (item_on p) (item_on p) l a b H) as [E1 E2]; [auto|]. rewrite E1, E2. split; reflexivity.
Qed.

Lemma chain_le_lastid : forall p s x, ordp p s -> In x (chain p s) -> x <= lastid s.
Proof.
  intros p s x Ho H. unfold chain in H. rewrite !in_app_iff in H. rewrite !idsp_in in H.
  assert (X : exists q, In q (items s) /\ q_id q = x).
  { unfold items. destruct H as [H|[H|[H|[H|H]]]]; destruct H as [q [H1 [_ H3]]]; exists q; rewrite !in_app_iff; tauto. }
  destruct X as [q [Hq <-]]. eapply P4_items; eauto.
Qed.

Lemma incr_snoc_chain : forall a b c d e x, incr (a ++ b ++ c ++ d ++ e) ->
  (forall y, In y (a ++ b ++ c ++ d ++ e) -> y < x) -> incr (a ++ b ++ c ++ d ++ e ++ [x]).
Proof.
  intros a b c d e x H Hx.
  replace (a ++ b ++ c ++ d ++ e ++ [x]) with ((a ++ b ++ c ++ d ++ e) ++ [x]) by (rewrite <- !app_assoc; reflexivity).
  apply incr_app. split; [assumption|]. split; [apply incr_single|]. intros u v Hu [<-|[]]. auto.
Qed.

Lemma idsp_sort : forall p L, NoDup (idsp p L) ->
  incr (idsp p (sort_items L)) /\ (forall z, In z (idsp p (sort_items L)) <-> In z (idsp p L)).
Proof.
  intros p L Hn. split; [apply sorted_ids_incr; exact Hn|].
  intros z. rewrite !idsp_in. split; intros [q [H1 H2]]; exists q; (split; [|exact H2]); apply sort_items_in; assumption.
Qed.

Lemma chain_resort : forall ua lo rest ua' lo',
  incr (ua ++ lo ++ rest) -> incr lo' -> incr ua' ->
  (forall z, In z ua' -> In z ua) -> (forall z, In z lo' -> In z ua \/ In z lo) ->
  (forall x y, In x ua' -> In y lo' -> x < y) ->
  incr (ua' ++ lo' ++ rest).
Proof.
  intros ua lo rest ua' lo' H Hl Hu Mu Ml Hc. rewrite !incr_app in *.
  destruct H as [H1 [[H2 [H3 H4]] H5]]. repeat split; auto.
  - intros x y Hx Hy. destruct (Ml x Hx) as [X|X]; [apply H5; [assumption|apply in_or_app; auto]|apply H4; assumption].
  - intros x y Hx Hy. apply in_app_or in Hy. destruct Hy as [Hy|Hy]; [apply Hc; assumption|].
    apply H5; [apply Mu; assumption|apply in_or_app; auto].
Qed.

Lemma recovered_ids : forall p fl, idsp p (map (fun c => new_item c false true) fl) = map c_id (filter (chunk_on p) fl).
Proof.
  intros p fl. unfold idsp. induction fl as [|c fl IH]; cbn; [reflexivity|].
  unfold item_on at 1, q_pipe at 1, chunk_on at 1. cbn. destruct (Nat.eqb (c_pipe c) p); cbn; [f_equal|]; exact IH.
Qed.

Lemma NoDup_app_comm : forall A (a b : list A), NoDup (a ++ b) -> NoDup (b ++ a).
Proof. intros. eapply Permutation_NoDup; [apply Permutation_app_comm|assumption]. Qed.

Lemma pres_P5 : forall p s e s', ordp p s -> order_safe_event e = true -> step s e = Some s' -> incr (chain p s').
Proof.
  intros p s e s' Ho Hs H. pose proof (P5 _ _ Ho) as IH. unfold chain in *.
  destruct e; try discriminate Hs; step_inv H; guards; unfold_ord; try (exact IH).
  all: try discriminate Hs.
  all: ltb_facts.
  (* removals: the new chain is a sublist of the old one *)
  all: try (eapply incr_sublist; [|exact IH];
            repeat (apply sublist_app; [first [apply sublist_refl|apply idsp_sublist; eapply take_first_sublist; eassumption]|]);
            first [apply sublist_refl|apply idsp_sublist; eapply take_first_sublist; eassumption]; fail).
  (* a new chunk enters the queue with an id above every existing one *)
  all: try (rewrite idsp_snoc; match goal with |- context [item_on ?pp ?q] => destruct (item_on pp q) end;
            [apply incr_snoc_chain; [exact IH|]; intros y Hy; pose proof (chain_le_lastid _ _ y Ho Hy); cbn; lia
            |rewrite app_nil_r; exact IH]; fail).
  (* moves between adjacent stages keep the sequence *)
  all: try (match goal with E0 : take_first (item_on ?p0) ?L = Some (?q, ?l) |- _ =>
    let Fq := fresh "Fq" in
    pose proof (proj1 (take_first_spec _ _ _ _ _ E0)) as Fq;
    destruct (Nat.eq_dec p0 p) as [->|N];
    [ rewrite (idsp_take_same _ _ _ _ E0) in IH;
      rewrite ?idsp_snoc, ?idsp_cons; unfold item_on at 1, q_pipe at 1; cbn [q_chunk];
      fold (q_pipe q); fold (item_on p q); rewrite ?Fq;
      try match goal with H0 : forall y, In y (fhand _) -> item_on _ y = false |- _ => rewrite (idsp_none _ _ H0) in * end;
      try match goal with H0 : forall y, In y (leftovers _) -> item_on _ y = false |- _ => rewrite (idsp_none _ _ H0) in * end;
      rewrite <- ?app_assoc in *; cbn [app] in *; cbn [q_id q_chunk c_id] in *; exact IH
    | rewrite (idsp_take_other _ _ _ _ _ N E0) in IH;
      rewrite ?idsp_snoc, ?idsp_cons; unfold item_on at 1, q_pipe at 1; cbn [q_chunk];
      fold (q_pipe q); fold (item_on p q); rewrite (item_on_diff _ _ _ N Fq);
      rewrite ?app_nil_r; cbn [app]; exact IH ] end; fail).
  - (* SendNewFail *)
    pose proof (proj1 (take_first_spec _ _ _ _ _ E0)) as Fq.
    destruct (Nat.eq_dec p0 p) as [->|N].
    + destruct (idsp_part_same _ _ _ _ E2) as [Eu El]. rewrite Eu, (idsp_none _ _ H0), (idsp_take_same _ _ _ _ E0) in IH. rewrite El.
      cbn [app] in IH.
      assert (IH' : incr (idsp p l0 ++ [q_id q] ++ idsp p l ++ idsp p (fhand s) ++ idsp p (queue s))) by (cbn [app]; exact IH).
      assert (Hn : NoDup (idsp p (leftovers s ++ l0 ++ [q]))).
      { rewrite !idsp_app, (idsp_none _ _ H0), (idsp_single_same _ _ Fq). cbn [app].
        apply incr_NoDup. rewrite incr_app in IH'. destruct IH' as [A [B C]]. rewrite incr_app in B. destruct B as [B1 [B2 B3]].
        apply incr_app. split; [assumption|]. split; [apply incr_single|]. intros x y Hx [<-|[]].
        apply C; [assumption|left; reflexivity]. }
      destruct (idsp_sort _ _ Hn) as [S1 S2].
      apply (chain_resort (idsp p l0) [q_id q] _ [] _ IH' S1 I).
      * intros ? [].
      * intros z Hz. apply S2 in Hz. rewrite !idsp_app, (idsp_none _ _ H0), (idsp_single_same _ _ Fq) in Hz. cbn [app] in Hz.
        apply in_app_or in Hz. tauto.
      * intros ? ? [].
    + destruct (idsp_part_other _ _ _ _ _ N E2) as [Eu El]. rewrite Eu, (idsp_take_other _ _ _ _ _ N E0) in IH.
      assert (Hn : NoDup (idsp p (leftovers s ++ l0 ++ [q]))).
      { rewrite !idsp_app, El, (idsp_single_other _ _ (item_on_diff _ _ _ N Fq)). rewrite !app_nil_r.
        apply incr_NoDup. rewrite !incr_app in IH. tauto. }
      destruct (idsp_sort _ _ Hn) as [S1 S2].
      apply (chain_resort (idsp p l1) (idsp p (leftovers s))); auto.
      * rewrite !incr_app in IH. tauto.
      * intros z Hz. apply S2 in Hz. rewrite !idsp_app, El, (idsp_single_other _ _ (item_on_diff _ _ _ N Fq)) in Hz.
        rewrite !app_nil_r in Hz. tauto.
      * intros x y Hx Hy. apply S2 in Hy. rewrite !idsp_app, El, (idsp_single_other _ _ (item_on_diff _ _ _ N Fq)) in Hy.
        rewrite !app_nil_r in Hy. rewrite !incr_app in IH. destruct IH as [_ [_ C]]. apply C; [assumption|apply in_or_app; auto].
  - (* SessionEnd *)
    destruct (Nat.eq_dec p0 p) as [->|N].
    + destruct (idsp_part_same _ _ _ _ E0) as [Eu El]. rewrite Eu in IH. rewrite El.
      assert (Hn : NoDup (idsp p (leftovers s ++ l))).
      { rewrite idsp_app. apply NoDup_app_comm. apply incr_NoDup. rewrite app_assoc in IH. rewrite incr_app in IH. tauto. }
      destruct (idsp_sort _ _ Hn) as [S1 S2].
      apply (chain_resort (idsp p l) (idsp p (leftovers s)) _ [] _ IH S1 I).
      * intros ? [].
      * intros z Hz. apply S2 in Hz. rewrite idsp_app in Hz. apply in_app_or in Hz. tauto.
      * intros ? ? [].
    + destruct (idsp_part_other _ _ _ _ _ N E0) as [Eu El]. rewrite Eu in IH.
      assert (Hn : NoDup (idsp p (leftovers s ++ l))).
      { rewrite idsp_app, El, app_nil_r. apply incr_NoDup. rewrite !incr_app in IH. tauto. }
      destruct (idsp_sort _ _ Hn) as [S1 S2].
      apply (chain_resort (idsp p l0) (idsp p (leftovers s)) _ _ _ IH S1).
      * rewrite !incr_app in IH. tauto.
      * auto.
      * intros z Hz. apply S2 in Hz. rewrite idsp_app, El, app_nil_r in Hz. tauto.
      * intros x y Hx Hy. apply S2 in Hy. rewrite idsp_app, El, app_nil_r in Hy.
        rewrite !incr_app in IH. destruct IH as [_ [_ C]]. apply C; [assumption|apply in_or_app; auto].
  - (* Restart *)
    unfold idsp at 1 2 3 4. cbn [filter map app]. unfold recovered_queue.
    apply sorted_ids_incr. fold (idsp p (map (fun c => new_item c false true) (files s))).
    rewrite recovered_ids. exact (P11 _ _ Ho).
Qed.


Lemma itemchunk_in : forall p s c, In c (map q_chunk (itemsp p s)) <-> In c (map q_chunk (items s)) /\ c_pipe c = p.
Proof.
  intros. rewrite !in_map_iff. split.
  - intros [q [E H]]. apply itemsp_in in H. destruct H as [H1 H2]. subst c. split; [eauto|exact H2].
  - intros [[q [E H]] Ep]. exists q. split; [assumption|]. apply itemsp_in. subst c. auto.
Qed.

Lemma in_dec_chunk : forall (c : chunk) l, {In c l} + {~ In c l}.
Proof. intros. apply in_dec. apply chunk_eq_dec. Qed.

Lemma pres_P9 : forall p s e s', ordp p s -> order_safe_event e = true -> step s e = Some s' ->
  forall c, In c (filesp p s') -> ~ In c (map q_chunk (itemsp p s')) -> ~ In c (received s') ->
  pph s' p = PSaving \/ pph s' p = PDone.
Proof.
  intros p s e s' Ho Hs H c Hf Hi Hr. pose proof (P9 _ _ Ho c) as IH. pose proof (P13 _ _ Ho) as IH13.
  rewrite filesp_in in Hf. rewrite itemchunk_in in Hi. rewrite filesp_in, itemchunk_in in IH.
  destruct e; try discriminate Hs; step_inv H; guards; unfold_ord; try (exact (IH Hf Hi Hr)).
  all: try discriminate Hs.
  all: ltb_facts.
  all: chunk_facts c; norm_chunks; rewrite ?in_map_chunk_sort in *; norm_chunks.
  all: try (apply IH; tauto).
  all: try (by_pipe p p0).
  all: try (apply IH; tauto).
  all: try (assert (X : pph s p0 = PSaving \/ pph s p0 = PDone) by (apply IH; tauto); destruct X; congruence).
  all: try tauto.
  (* an item of another pipeline is persisted: irrelevant for pipeline p *)
  all: try (assert (Fq : c_pipe (q_chunk q) = p0) by (apply (item_on_eq p0 q); eapply take_first_spec; eassumption);
            assert (Nq : q_chunk q <> c) by (intros <-; destruct Hf; congruence);
            persist_cases; norm_chunks; apply IH; tauto).
  (* AckRead: the confirmed chunk was received; every other file keeps its status *)
  1,2: assert (Hfs : In c (files s)) by (destruct Hf as [Hf _]; destruct (q_saved q); [apply remove_file_in in Hf|]; tauto);
       destruct (chunk_eq_dec (q_chunk q) c) as [Eq|Nq];
       [ exfalso; apply Hr; rewrite <- Eq; apply (P6 _ _ Ho q); apply filter_item_on_in; split;
         [eapply tf_head_in; eassumption|unfold q_pipe; rewrite Eq; tauto]
       | apply IH; tauto ].
  (* Restart: every file has an item again *)
  exfalso. apply Hi. split; [|tauto]. left. unfold recovered_queue. rewrite in_map_chunk_sort, map_map. cbn. rewrite map_id. tauto.
Qed.

Lemma sendable_in : forall p s q, In q (sendable p s) <-> (In q (unacked s) \/ In q (leftovers s) \/ In q (window s)) /\ q_pipe q = p.
Proof. intros. unfold sendable. rewrite filter_item_on_in, !in_app_iff. tauto. Qed.

Lemma sendable_lt_back : forall p s q q', ordp p s -> In q (sendable p s) ->
  (In q' (fhand s) \/ In q' (queue s)) -> q_pipe q' = p -> q_id q < q_id q'.
Proof.
  intros p s q q' Ho Hq Hq' Ep'. apply sendable_in in Hq. destruct Hq as [Hq Ep].
  pose proof (P5 _ _ Ho) as C. unfold chain in C.
  assert (A : In (q_id q) (idsp p (unacked s) ++ idsp p (leftovers s) ++ idsp p (window s))).
  { rewrite !in_app_iff. destruct Hq as [Hq|[Hq|Hq]]; [left|right; left|right; right]; apply idsp_intro; assumption. }
  assert (B : In (q_id q') (idsp p (fhand s) ++ idsp p (queue s))).
  { rewrite in_app_iff. destruct Hq' as [Hq'|Hq']; [left|right]; apply idsp_intro; assumption. }
  replace (idsp p (unacked s) ++ idsp p (leftovers s) ++ idsp p (window s) ++ idsp p (fhand s) ++ idsp p (queue s))
    with ((idsp p (unacked s) ++ idsp p (leftovers s) ++ idsp p (window s)) ++ idsp p (fhand s) ++ idsp p (queue s)) in C
    by (rewrite <- !app_assoc; reflexivity).
  apply incr_app in C. destruct C as [_ [_ C]]. apply C; assumption.
Qed.

Lemma pres_P8 : forall p s e s', ordp p s -> order_safe_event e = true -> step s e = Some s' ->
  forall c, In c (filesp p s') -> ~ In c (map q_chunk (itemsp p s')) -> ~ In c (received s') ->
  cph s' p = CHanding \/ cph s' p = CDone \/ (forall q, In q (sendable p s') -> q_id q < c_id c).
Proof.
  intros p s e s' Ho Hs H c Hf Hi Hr. pose proof (P8 _ _ Ho c) as IH. pose proof (P9 _ _ Ho c) as IH9.
  rewrite filesp_in in Hf. rewrite itemchunk_in in Hi. rewrite filesp_in, itemchunk_in in IH, IH9.
  setoid_rewrite sendable_in. setoid_rewrite sendable_in in IH.
  destruct e; try discriminate Hs; step_inv H; guards; unfold_ord; try (exact (IH Hf Hi Hr)).
  all: try discriminate Hs.
  all: ltb_facts.
  all: chunk_facts c; norm_chunks; rewrite ?in_map_chunk_sort in *; norm_chunks.
  all: try (apply IH; tauto).
  - (* FeederPush *)
    assert (X : cph s p = CHanding \/ cph s p = CDone \/
                (forall q, (In q (unacked s) \/ In q (leftovers s) \/ In q (window s)) /\ q_pipe q = p -> q_id q < c_id c)) by (apply IH; tauto).
    destruct X as [X|[X|X]]; [tauto|tauto|]. right. right. intros q0 [Hq0 Ep]. rewrite in_app_iff in Hq0. cbn in Hq0.
    destruct Hq0 as [Hq0|[Hq0|[Hq0|[<-|[]]]]]; try (apply X; tauto).
    exfalso. assert (Y : pph s p = PSaving \/ pph s p = PDone) by (apply IH9; tauto).
    pose proof (proj1 (take_first_spec _ _ _ _ _ E)) as Fq. apply item_on_eq in Fq. rewrite Fq in Ep. subst p0.
    destruct Y as [Y|Y]; rewrite Y in H0; discriminate H0.
  - (* ESave WQueue *)
    destruct (chunk_eq_dec (q_chunk q) c) as [Eq|Nq].
    + assert (Ep : q_pipe q = p) by (unfold q_pipe; rewrite Eq; tauto).
      right. right. intros q0 Hq0. rewrite <- Eq. change (q_id q0 < q_id q).
      apply (sendable_lt_back p s q0 q Ho); [apply sendable_in; exact Hq0| |exact Ep]. right. eapply tf_head_in; eassumption.
    + assert (Hfs : In c (files s)) by (destruct Hf as [Hf _]; persist_cases; norm_chunks; tauto).
      apply IH; tauto.
  - (* ESave WHand *)
    destruct (chunk_eq_dec (q_chunk q) c) as [Eq|Nq].
    + assert (Ep : q_pipe q = p) by (unfold q_pipe; rewrite Eq; tauto).
      right. right. intros q0 Hq0. rewrite <- Eq. change (q_id q0 < q_id q).
      apply (sendable_lt_back p s q0 q Ho); [apply sendable_in; exact Hq0| |exact Ep]. left. eapply tf_head_in; eassumption.
    + assert (Hfs : In c (files s)) by (destruct Hf as [Hf _]; persist_cases; norm_chunks; tauto).
      apply IH; tauto.
  - (* ESave WWindow: only after the client has finished *)
    pose proof (proj1 (take_first_spec _ _ _ _ _ E0)) as Fq. apply item_on_eq in Fq.
    destruct (chunk_eq_dec (q_chunk q) c) as [Eq|Nq].
    + assert (Ep : q_pipe q = p) by (unfold q_pipe; rewrite Eq; tauto). right. left. congruence.
    + assert (Hfs : In c (files s)) by (destruct Hf as [Hf _]; persist_cases; norm_chunks; tauto).
      assert (X : cph s p = CHanding \/ cph s p = CDone \/
                (forall q, (In q (unacked s) \/ In q (leftovers s) \/ In q (window s)) /\ q_pipe q = p -> q_id q < c_id c)) by (apply IH; tauto).
      destruct X as [X|[X|X]]; [tauto|tauto|]. right. right. intros q0 [Hq0 Ep]. apply X. split; [|exact Ep].
      destruct Hq0 as [Hq0|[Hq0|Hq0]]; [tauto|tauto|]. right. right. eapply tf_rest_in; eassumption.
  - (* Connect *)
    assert (X : cph s p = CHanding \/ cph s p = CDone \/
                (forall q, (In q (unacked s) \/ In q (leftovers s) \/ In q (window s)) /\ q_pipe q = p -> q_id q < c_id c)) by (apply IH; tauto).
    by_pipe p p0; [destruct X as [X|[X|X]]; [congruence|congruence|tauto]|exact X].
  - (* SendLeft *)
    assert (X : cph s p = CHanding \/ cph s p = CDone \/
                (forall q, (In q (unacked s) \/ In q (leftovers s) \/ In q (window s)) /\ q_pipe q = p -> q_id q < c_id c)) by (apply IH; tauto).
    destruct X as [X|[X|X]]; [tauto|tauto|]. right. right. intros q0 [Hq0 Ep]. apply X. split; [|exact Ep].
    split_facts q0; norm_mem; intuition (subst; tauto).
  - (* SendNew *)
    assert (X : cph s p = CHanding \/ cph s p = CDone \/
                (forall q, (In q (unacked s) \/ In q (leftovers s) \/ In q (window s)) /\ q_pipe q = p -> q_id q < c_id c)) by (apply IH; tauto).
    destruct X as [X|[X|X]]; [tauto|tauto|]. right. right. intros q0 [Hq0 Ep]. apply X. split; [|exact Ep].
    split_facts q0; norm_mem; intuition (subst; tauto).
  - (* SendNewFail *)
    assert (X : cph s p = CHanding \/ cph s p = CDone \/
                (forall q, (In q (unacked s) \/ In q (leftovers s) \/ In q (window s)) /\ q_pipe q = p -> q_id q < c_id c)) by (apply IH; tauto).
    assert (Y : forall q0, (In q0 l1 \/ In q0 (sort_items (leftovers s ++ l0 ++ [q])) \/ In q0 l) /\ q_pipe q0 = p ->
                (In q0 (unacked s) \/ In q0 (leftovers s) \/ In q0 (window s)) /\ q_pipe q0 = p).
    { intros q0 [Hq0 Ep]. split; [|exact Ep]. split_facts q0; norm_mem; intuition (subst; tauto). }
    by_pipe p p0.
    + destruct X as [X|[X|X]]; [congruence|congruence|]. right. right. intros q0 Hq0. apply X. apply Y. exact Hq0.
    + destruct X as [X|[X|X]]; [tauto|tauto|]. right. right. intros q0 Hq0. apply X. apply Y. exact Hq0.
  - (* AckRead *)
    assert (Hfs : In c (files s)) by (destruct Hf as [Hf _]; destruct (q_saved q); [apply remove_file_in in Hf|]; tauto).
    destruct (chunk_eq_dec (q_chunk q) c) as [Eq|Nq].
    + exfalso. apply Hr. rewrite <- Eq. apply (P6 _ _ Ho q). apply filter_item_on_in. split;
        [eapply tf_head_in; eassumption|unfold q_pipe; rewrite Eq; tauto].
    + assert (X : cph s p = CHanding \/ cph s p = CDone \/
                (forall q, (In q (unacked s) \/ In q (leftovers s) \/ In q (window s)) /\ q_pipe q = p -> q_id q < c_id c)) by (apply IH; tauto).
      destruct X as [X|[X|X]]; [tauto|tauto|]. right. right. intros q0 [Hq0 Ep]. apply X. split; [|exact Ep].
      split_facts q0; norm_mem; intuition (subst; tauto).
  - (* SessionEnd *)
    assert (X : cph s p = CHanding \/ cph s p = CDone \/
                (forall q, (In q (unacked s) \/ In q (leftovers s) \/ In q (window s)) /\ q_pipe q = p -> q_id q < c_id c)) by (apply IH; tauto).
    assert (Y : forall q0, (In q0 l0 \/ In q0 (sort_items (leftovers s ++ l)) \/ In q0 (window s)) /\ q_pipe q0 = p ->
                (In q0 (unacked s) \/ In q0 (leftovers s) \/ In q0 (window s)) /\ q_pipe q0 = p).
    { intros q0 [Hq0 Ep]. split; [|exact Ep]. split_facts q0; norm_mem; intuition (subst; tauto). }
    by_pipe p p0.
    + destruct X as [X|[X|X]]; [congruence|congruence|]. right. right. intros q0 Hq0. apply X. apply Y. exact Hq0.
    + destruct X as [X|[X|X]]; [tauto|tauto|]. right. right. intros q0 Hq0. apply X. apply Y. exact Hq0.
  - (* ClientStop *)
    by_pipe p p0; [tauto|apply IH; tauto].
  - (* Handback: the client is in its final loop *)
    pose proof (proj1 (take_first_spec _ _ _ _ _ E0)) as Fq. apply item_on_eq in Fq.
    destruct (chunk_eq_dec (q_chunk q) c) as [Eq|Nq].
    + assert (Ep : q_pipe q = p) by (unfold q_pipe; rewrite Eq; tauto). left. congruence.
    + assert (Hfs : In c (files s)) by (destruct Hf as [Hf _]; persist_cases; norm_chunks; tauto).
      assert (X : cph s p = CHanding \/ cph s p = CDone \/
                (forall q, (In q (unacked s) \/ In q (leftovers s) \/ In q (window s)) /\ q_pipe q = p -> q_id q < c_id c)) by (apply IH; tauto).
      destruct X as [X|[X|X]]; [tauto|tauto|]. right. right. intros q0 [Hq0 Ep]. apply X. split; [|exact Ep].
      split_facts q0; norm_mem; intuition (subst; tauto).
  - (* ClientDone *)
    by_pipe p p0; [tauto|apply IH; tauto].
  - (* Restart: every file has an item *)
    exfalso. apply Hi. split; [|tauto]. left. unfold recovered_queue. rewrite in_map_chunk_sort, map_map. cbn. rewrite map_id. tauto.
Qed.

Lemma send_left_lt : forall p s q l, ordp p s -> take_first (item_on p) (leftovers s) = Some (q, l) ->
  forall q', (In q' l \/ In q' (window s) \/ In q' (fhand s) \/ In q' (queue s)) -> q_pipe q' = p -> q_id q < q_id q'.
Proof.
  intros p s q l Ho E q' Hq' Ep. pose proof (P5 _ _ Ho) as C. unfold chain in C.
  rewrite (idsp_take_same _ _ _ _ E) in C. apply incr_app in C. destruct C as [_ [C _]].
  cbn [app] in C. destruct C as [C _]. apply C. rewrite !in_app_iff.
  destruct Hq' as [H|[H|[H|H]]]; [left|right; left|right; right; left|right; right; right]; apply idsp_intro; assumption.
Qed.

Lemma send_new_lt : forall p s q l, ordp p s -> take_first (item_on p) (window s) = Some (q, l) ->
  forall q', (In q' l \/ In q' (fhand s) \/ In q' (queue s)) -> q_pipe q' = p -> q_id q < q_id q'.
Proof.
  intros p s q l Ho E q' Hq' Ep. pose proof (P5 _ _ Ho) as C. unfold chain in C.
  rewrite (idsp_take_same _ _ _ _ E) in C. apply incr_app in C. destruct C as [_ [C _]].
  apply incr_app in C. destruct C as [_ [C _]].
  cbn [app] in C. destruct C as [C _]. apply C. rewrite !in_app_iff.
  destruct Hq' as [H|[H|H]]; [left|right; left|right; right]; apply idsp_intro; assumption.
Qed.


Lemma q_id_chunk : forall q c, q_chunk q = c -> q_id q = c_id c.
Proof. intros q c <-. reflexivity. Qed.

(* the chunk transmitted now is older than every other surviving chunk of the pipeline that was never received *)
Lemma send_is_oldest : forall p s q c,
  ordp p s -> cph s p = CSess -> q_pipe q = p ->
  (In q (leftovers s) \/ In q (window s)) ->
  (forall q', In q' (items s) -> q_pipe q' = p -> q_chunk q' = c -> In q' (unacked s) \/ q_id q < q_id q') ->
  (In c (map q_chunk (items s)) /\ c_pipe c = p) \/ (In c (files s) /\ c_pipe c = p) ->
  ~ In c (received s) -> q_id q < c_id c.
Proof.
  intros p s q c Ho Hc Ep Hq Hlt Hs Hr.
  destruct (in_dec_chunk c (map q_chunk (items s))) as [Hi|Hi].
  - apply in_map_iff in Hi. destruct Hi as [q' [Eq' Hq']].
    assert (Ep' : q_pipe q' = p) by (unfold q_pipe; rewrite Eq'; tauto).
    destruct (Hlt q' Hq' Ep' Eq') as [Hu|Hl].
    + exfalso. apply Hr. rewrite <- Eq'. apply (P6 _ _ Ho q'). apply filter_item_on_in. tauto.
    + rewrite <- (q_id_chunk _ _ Eq'). exact Hl.
  - assert (Hf : In c (files s) /\ c_pipe c = p) by tauto.
    destruct (P8 _ _ Ho c) as [X|[X|X]]; [apply filesp_in; exact Hf|rewrite itemchunk_in; tauto|exact Hr|congruence|congruence|].
    apply X. apply sendable_in. tauto.
Qed.

Lemma pres_P7 : forall p s e s', ordp p s -> order_safe_event e = true -> step s e = Some s' ->
  forall c, (In c (map q_chunk (itemsp p s')) \/ In c (filesp p s')) -> ~ In c (received s') ->
  forall a, In a (recvp p s') -> c_id a < c_id c.
Proof.
  intros p s e s' Ho Hs H c Hc Hr a Ha. pose proof (P7 _ _ Ho c) as IH.
  rewrite filesp_in, itemchunk_in in Hc. rewrite recvp_in in Ha.
  rewrite filesp_in, itemchunk_in in IH. setoid_rewrite recvp_in in IH.
  destruct e; try discriminate Hs; step_inv H; guards; unfold_ord; try (exact (IH Hc Hr a Ha)).
  all: try discriminate Hs.
  all: ltb_facts.
  all: chunk_facts c; norm_chunks; rewrite ?in_map_chunk_sort in *; norm_chunks.
  all: try (apply IH; tauto).
  (* a new chunk has an id above every received one *)
  all: try (pose proof (P4_received _ _ _ Ho (proj1 Ha)) as X;
            match goal with Hc : context [mkChunk ?id ?pp ?ts] |- _ =>
              destruct (chunk_eq_dec (mkChunk id pp ts) c) as [<-|Nc]; [cbn; lia|apply IH; tauto] end; fail).
  (* a persisted chunk was an item's chunk before *)
  all: try (persist_cases; norm_chunks; apply IH; try tauto;
            match goal with E0 : take_first _ _ = Some (?q, _) |- _ =>
              destruct (chunk_eq_dec (q_chunk q) c) as [Eq|Nq]; [left; split; [|tauto]; tauto|tauto] end; fail).
  - (* SendLeft *)
    destruct Ha as [[<-|Ha] Ea]; [|apply IH; tauto].
    pose proof (proj1 (take_first_spec _ _ _ _ _ E0)) as Fq. apply item_on_eq in Fq.
    assert (Ep0 : p0 = p) by (unfold q_pipe in Fq; congruence). rewrite Ep0 in *. clear Ep0.
    destruct (in_dec_chunk (q_chunk q) (received s)) as [Rq|NRq]; [apply IH; tauto|].
    change (q_id q < c_id c). apply (send_is_oldest p s q c Ho E Fq); try tauto.
    + left. eapply tf_head_in; eassumption.
    + intros q' Hq' Ep' Eq'. unfold items in Hq'. rewrite !in_app_iff in Hq'.
      destruct Hq' as [Hq'|[Hq'|[Hq'|[Hq'|Hq']]]]; [right|right|right|right|left; assumption];
        apply (send_left_lt p s q l Ho E0); try tauto.
      apply (take_first_in _ _ _ _ _ E0) in Hq'. destruct Hq' as [<-|Hq']; [exfalso; tauto|tauto].
    + unfold items. rewrite !map_app, !in_app_iff. tauto.
  - (* SendNew *)
    destruct Ha as [[<-|Ha] Ea]; [|apply IH; tauto].
    pose proof (proj1 (take_first_spec _ _ _ _ _ E0)) as Fq. apply item_on_eq in Fq.
    assert (Ep0 : p0 = p) by (unfold q_pipe in Fq; congruence). rewrite Ep0 in *. clear Ep0.
    destruct (in_dec_chunk (q_chunk q) (received s)) as [Rq|NRq]; [apply IH; tauto|].
    change (q_id q < c_id c). apply (send_is_oldest p s q c Ho H Fq); try tauto.
    + right. eapply tf_head_in; eassumption.
    + intros q' Hq' Ep' Eq'. unfold items in Hq'. rewrite !in_app_iff in Hq'.
      destruct Hq' as [Hq'|[Hq'|[Hq'|[Hq'|Hq']]]]; [right|right|right| |left; assumption].
      * apply (send_new_lt p s q l Ho E0); tauto.
      * apply (send_new_lt p s q l Ho E0); tauto.
      * apply (send_new_lt p s q l Ho E0); [|tauto].
        apply (take_first_in _ _ _ _ _ E0) in Hq'. destruct Hq' as [<-|Hq']; [exfalso; tauto|tauto].
      * exfalso. specialize (H0 q' Hq'). apply item_on_eq in Ep'. congruence.
    + unfold items. rewrite !map_app, !in_app_iff. tauto.
  - (* AckRead *)
    apply IH; try tauto. destruct Hc as [Hc|[Hc Ec]]; [tauto|]. right. split; [|exact Ec].
    destruct (q_saved q); [apply remove_file_in in Hc|]; tauto.
  - (* Restart: the items are the files *)
    apply IH; try tauto. right. destruct Hc as [[Hc Ec]|Hc]; [|exact Hc]. split; [|exact Ec].
    destruct Hc as [Hc|Hc]; [|tauto]. unfold recovered_queue in Hc. rewrite in_map_chunk_sort, map_map in Hc. cbn in Hc. rewrite map_id in Hc. exact Hc.
Qed.

Lemma pres_P10 : forall p s e s', ordp p s -> order_safe_event e = true -> step s e = Some s' -> ro (recvp p s').
Proof.
  intros p s e s' Ho Hs H. pose proof (P10 _ _ Ho) as IH. unfold recvp in *.
  destruct e; try discriminate Hs; step_inv H; guards; unfold_ord; try (exact IH).
  all: try discriminate Hs.
  all: cbn [filter]; destruct (chunk_on p (q_chunk q)) eqn:Ec; [|exact IH]; cbn [ro]; split; [|exact IH];
       apply chunk_on_eq in Ec;
       (destruct (in_dec_chunk (q_chunk q) (received s)) as [Rq|NRq];
        [left; apply filter_In; split; [exact Rq|apply chunk_on_eq; exact Ec]
        |right; intros a Ha; apply (P7 _ _ Ho (q_chunk q)); [|exact NRq|exact Ha];
         left; apply in_map; apply itemsp_in; split; [in_items_tf|exact Ec]]).
Qed.

(* ---------- the chunk-level order invariant holds in every reachable state ---------- *)

Lemma ordp_init : forall p, ordp p init.
Proof.
  intros p. constructor; cbn; try (intros; contradiction); try tauto.
  - constructor.
  - intros [H|H]; discriminate H.
Qed.

Lemma ordp_step : forall p s e s', ordp p s -> order_safe_event e = true -> step s e = Some s' -> ordp p s'.
Proof.
  intros p s e s' Ho Hs H. constructor.
  - eapply pres_P4; [exact (P4 _ _ Ho)|exact H].
  - eapply pres_P5; eauto.
  - eapply pres_P6; eauto.
  - eapply pres_P7; eauto.
  - eapply pres_P8; eauto.
  - eapply pres_P9; eauto.
  - eapply pres_P10; eauto.
  - eapply pres_P11; eauto.
  - eapply pres_P12; eauto.
  - eapply pres_P13; eauto.
Qed.

Lemma ordp_steps : forall p es s s', ordp p s -> order_safe es = true -> steps s es = Some s' -> ordp p s'.
Proof.
  induction es as [|e es IH]; intros s s' Ho Hs H; cbn in H.
  - inversion H; subst; assumption.
  - destruct (step s e) as [s1|] eqn:E; [|discriminate]. cbn in Hs. apply andb_true_iff in Hs. destruct Hs as [Hs1 Hs2].
    eapply IH; [eapply ordp_step; eauto|assumption|assumption].
Qed.
