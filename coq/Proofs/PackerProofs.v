(* Proofs about the message packer (Model/Packer.v) against Spec/ChunkSpec.v:
   conservation and order of records, count field, no empty chunk, limits, roll-over
   exactly when the next record does not fit, chunk ids, and decoding under the
   round-trip assumptions on gzip and the msgpack wrapper. *)
From SV Require Import Model.Common Model.ChunkId Model.Packer Spec.ChunkSpec
                       Proofs.CommonFacts Proofs.ChunkIdProofs.
From Coq Require Import Lia ZifyBool ZifyN ZifyNat Sorted.
Ltac Zify.zify_post_hook ::= Z.div_mod_to_equations.
Local Open Scope Z_scope.

Section PackerProofs.
Variable R : Type.
Variable rlen : R -> Z.

Notation piece := (piece R).
Notation chunk := (chunk R).
Notation echunk := (echunk R).
Notation pstate := (pstate R).
Notation op := (op R).
Notation sum_len := (sum_len R rlen).
Notation body_size := (body_size R rlen).
Notation pieces_len := (pieces_len R rlen).
Notation fits := (fits R rlen).
Notation fits_records := (fits_records R).
Notation fits_bytes := (fits_bytes R rlen).
Notation new_chunk := (new_chunk R).
Notation chunk_write := (chunk_write R rlen).
Notation can_append := (can_append R).
Notation finalize := (finalize R).
Notation flush_buffer := (flush_buffer R).
Notation write_stream := (write_stream R rlen).
Notation step := (step R rlen).
Notation run_trace := (run_trace R rlen).
Notation run := (run R rlen).
Notation emitted_of := (emitted_of R).

(* ------------------------------------------------------------------ *)
(* bodies                                                              *)

Lemma recs_of_app : forall a b : list piece, recs_of (a ++ b) = recs_of a ++ recs_of b.
Proof.
  induction a as [|p a IH]; intro b; cbn [app recs_of]; [reflexivity|].
  destruct p; cbn [app]; rewrite IH; reflexivity.
Qed.

Lemma dd_items_snoc : forall (g : list R) r, g <> [] -> dd_items (g ++ [r]) = dd_items g ++ [PComma; PRec r].
Proof.
  induction g as [|a g IH]; intros r Hne; [congruence|].
  destruct g as [|b g].
  - reflexivity.
  - change ((a :: b :: g) ++ [r]) with (a :: ((b :: g) ++ [r])).
    change (dd_items (a :: b :: g)) with (PRec a :: PComma :: dd_items (b :: g)).
    assert (Hs : dd_items (a :: (b :: g) ++ [r]) = PRec a :: PComma :: dd_items ((b :: g) ++ [r])) by reflexivity.
    rewrite Hs, IH by discriminate. reflexivity.
Qed.

Lemma recs_of_forward : forall g : list R, recs_of (forward_body g) = g.
Proof. induction g as [|r g IH]; cbn [forward_body map recs_of]; [reflexivity|]. unfold forward_body in IH. rewrite IH. reflexivity. Qed.

Lemma recs_of_dd_items : forall g : list R, recs_of (dd_items g) = g.
Proof.
  induction g as [|r g IH]; [reflexivity|].
  destruct g as [|b g]; [reflexivity|].
  change (dd_items (r :: b :: g)) with (PRec r :: PComma :: dd_items (b :: g)).
  cbn [recs_of]. rewrite IH. reflexivity.
Qed.

Lemma recs_of_body_spec : forall k (g : list R), recs_of (body_spec k g) = g.
Proof.
  intros [|] g; cbn [body_spec].
  - apply recs_of_forward.
  - unfold datadog_body. cbn [recs_of]. rewrite recs_of_app, recs_of_dd_items. cbn [recs_of]. apply app_nil_r.
Qed.

Lemma pieces_len_app : forall a b : list piece, pieces_len (a ++ b) = pieces_len a + pieces_len b.
Proof. induction a as [|p a IH]; intro b; cbn [app Packer.pieces_len]; [reflexivity|]. rewrite IH. lia. Qed.

Lemma sum_len_app : forall a b : list R, sum_len (a ++ b) = sum_len a + sum_len b.
Proof. induction a as [|r a IH]; intro b; cbn [app ChunkSpec.sum_len]; [reflexivity|]. rewrite IH. lia. Qed.

Lemma pieces_len_forward : forall g : list R, pieces_len (forward_body g) = sum_len g.
Proof.
  induction g as [|r g IH]; [reflexivity|].
  unfold forward_body in *. cbn [map Packer.pieces_len piece_len ChunkSpec.sum_len]. rewrite IH. reflexivity.
Qed.

Lemma pieces_len_dd_items : forall g : list R, g <> [] ->
  pieces_len (dd_items g) = sum_len g + Z.of_nat (length g) - 1.
Proof.
  induction g as [|r g IH]; intro Hne; [congruence|].
  destruct g as [|b g].
  - cbn [dd_items Packer.pieces_len piece_len ChunkSpec.sum_len length]. lia.
  - change (dd_items (r :: b :: g)) with (PRec r :: PComma :: dd_items (b :: g)).
    cbn [Packer.pieces_len piece_len]. rewrite IH by discriminate.
    cbn [ChunkSpec.sum_len length]. lia.
Qed.

(* the closed-form size of the specification is the length of the specified body *)
Lemma body_size_spec : forall k (g : list R), pieces_len (body_spec k g) = body_size k g.
Proof.
  intros [|] g; cbn [body_spec ChunkSpec.body_size].
  - apply pieces_len_forward.
  - unfold datadog_body. cbn [Packer.pieces_len piece_len]. rewrite pieces_len_app.
    cbn [Packer.pieces_len piece_len].
    destruct g as [|r g].
    + cbn [dd_items Packer.pieces_len ChunkSpec.sum_len length]. lia.
    + rewrite pieces_len_dd_items by discriminate. cbn [length]. lia.
Qed.

(* ------------------------------------------------------------------ *)
(* a chunk in progress holding the records g                           *)

Definition open_body (k : okind) (g : list R) : list piece :=
  match k with KForward => forward_body g | KDatadog => POpen :: dd_items g end.

Definition acct (k : okind) (g : list R) : Z :=
  match k with KForward => sum_len g | KDatadog => 1 + sum_len g + Z.of_nat (length g) end.

Definition chunk_inv (cfg : config) (ck : chunk) (g : list R) : Prop :=
  ck_written ck = open_body (cf_kind cfg) g /\
  ck_num_records ck = Z.of_nat (length g) /\
  ck_num_bytes ck = acct (cf_kind cfg) g.

Lemma chunk_inv_recs : forall cfg ck g, chunk_inv cfg ck g -> recs_of (ck_written ck) = g.
Proof.
  intros cfg ck g [Hw _]. rewrite Hw. destruct (cf_kind cfg); cbn [open_body].
  - apply recs_of_forward.
  - cbn [recs_of]. apply recs_of_dd_items.
Qed.

Lemma new_chunk_inv : forall cfg id, chunk_inv cfg (new_chunk cfg id) [].
Proof. intros cfg id. unfold chunk_inv, Packer.new_chunk. destruct (cf_kind cfg); cbn; repeat split; reflexivity. Qed.

Lemma new_chunk_id : forall cfg id, ck_id (new_chunk cfg id) = id.
Proof. intros cfg id. unfold Packer.new_chunk. destruct (cf_kind cfg); reflexivity. Qed.

Lemma chunk_write_id : forall cfg ck r, ck_id (chunk_write cfg ck r) = ck_id ck.
Proof. intros cfg ck r. unfold Packer.chunk_write. destruct (cf_kind cfg); reflexivity. Qed.

Lemma finalize_id : forall cfg ck, e_id (finalize cfg ck) = ck_id ck.
Proof. intros cfg ck. unfold Packer.finalize. destruct (cf_kind cfg); reflexivity. Qed.

Lemma chunk_write_inv : forall cfg ck g r,
  chunk_inv cfg ck g -> chunk_inv cfg (chunk_write cfg ck r) (g ++ [r]).
Proof.
  intros cfg ck g r [Hw [Hn Hb]]. unfold chunk_inv, Packer.chunk_write.
  destruct (cf_kind cfg) eqn:Hk; cbn [ck_written ck_num_records ck_num_bytes open_body acct] in *.
  - rewrite Hw, Hn, Hb. unfold forward_body. rewrite map_app, app_length, sum_len_app.
    cbn [map length ChunkSpec.sum_len]. repeat split; lia.
  - rewrite Hn, Hb, app_length, sum_len_app. cbn [length ChunkSpec.sum_len].
    repeat split; try lia.
    destruct g as [|a g].
    + cbn [length]. change (Z.of_nat 0 =? 0) with true. cbn iota. rewrite Hw. reflexivity.
    + destruct (Z.eqb_spec (Z.of_nat (length (a :: g))) 0) as [Hz|_]; [cbn [length] in Hz; lia|].
      rewrite Hw. rewrite dd_items_snoc by discriminate.
      cbn [app]. rewrite <- !app_assoc. reflexivity.
Qed.

Lemma finalize_holds : forall cfg ck g,
  chunk_inv cfg ck g -> g <> [] -> chunk_holds cfg (finalize cfg ck) g.
Proof.
  intros cfg ck g [Hw [Hn Hb]] Hne. unfold chunk_holds, Packer.finalize, expected_compressed.
  destruct (cf_kind cfg) eqn:Hk; cbn [e_body e_size e_opt_chunk e_id e_compressed e_tag e_as_array body_spec open_body] in *.
  - repeat split; try assumption; try reflexivity.
  - repeat split; try assumption; try reflexivity; try discriminate.
    rewrite Hw. reflexivity.
Qed.

(* CanAppendData says exactly whether the chunk with one more record still fits *)
Lemma can_append_fits : forall cfg ck g r,
  chunk_inv cfg ck g -> (can_append cfg ck (rlen r) = true <-> fits cfg (g ++ [r])).
Proof.
  intros cfg ck g r [Hw [Hn Hb]].
  unfold Packer.can_append, ChunkSpec.fits, ChunkSpec.fits_records, ChunkSpec.fits_bytes.
  rewrite Hn, Hb.
  assert (Hl : Z.of_nat (length (g ++ [r])) = Z.of_nat (length g) + 1) by (rewrite app_length; cbn [length]; lia).
  destruct (cf_kind cfg) eqn:Hk; cbn [acct ChunkSpec.body_size]; rewrite Hl, sum_len_app; cbn [ChunkSpec.sum_len].
  - destruct (cf_max_records cfg >? 0) eqn:E1, (Z.of_nat (length g) >=? cf_max_records cfg) eqn:E2,
             (cf_max_bytes cfg >? 0) eqn:E3, (sum_len g + rlen r >? cf_max_bytes cfg) eqn:E4;
      cbn [andb]; split; intro Hx; try discriminate; try reflexivity;
      try (split; intro; lia); try (destruct Hx as [Hx1 Hx2]; lia).
  - destruct (cf_max_records cfg >? 0) eqn:E1, (Z.of_nat (length g) >=? cf_max_records cfg) eqn:E2,
             (cf_max_bytes cfg >? 0) eqn:E3,
             (1 + sum_len g + Z.of_nat (length g) + rlen r + 1 >? cf_max_bytes cfg) eqn:E4;
      cbn [andb]; split; intro Hx; try discriminate; try reflexivity;
      try (split; intro; lia); try (destruct Hx as [Hx1 Hx2]; lia).
Qed.

(* ------------------------------------------------------------------ *)
(* state invariant and one step                                        *)

Definition state_inv (cfg : config) (st : pstate) : Prop :=
  match pk_cur st with
  | None => True
  | Some ck => let g := recs_of (ck_written ck) in
               g <> [] /\ chunk_inv cfg ck g /\ fits_records cfg g /\ (fits_bytes cfg g \/ length g = 1%nat)
  end.

Definition num_bytes_spec (cfg : config) (g : list R) : Z :=
  match cf_kind cfg with KForward => body_size KForward g | KDatadog => body_size KDatadog g + 1 end.

Definition good_chunk (cfg : config) (e : echunk) : Prop :=
  chunk_holds cfg e (e_records e) /\
  fits_records cfg (e_records e) /\
  (fits_bytes cfg (e_records e) \/ length (e_records e) = 1%nat) /\
  e_num_bytes e = num_bytes_spec cfg (e_records e).

Definition op_records (o : op) : list R := match o with OWrite _ r => [r] | OFlush => [] end.

Definition out_records (out : option echunk) : list R :=
  match out with Some e => e_records e | None => [] end.

Lemma state_inv_init : forall cfg, state_inv cfg pstate_init.
Proof. intro cfg. exact I. Qed.

Lemma fits_records_single : forall cfg (r : R), fits_records cfg [r].
Proof. intros cfg r H. cbn [length]. lia. Qed.

Lemma e_records_finalize : forall cfg ck g, chunk_inv cfg ck g -> g <> [] -> e_records (finalize cfg ck) = g.
Proof.
  intros cfg ck g Hinv Hne. unfold e_records.
  destruct (finalize_holds cfg ck g Hinv Hne) as [_ [Hb _]]. rewrite Hb. apply recs_of_body_spec.
Qed.

(* the byte counter handed to the encoder (NumBytes): exact for the Forward modes; for Datadog it is one more than
   the body (the first record is counted with a comma it does not have) *)
Lemma finalize_num_bytes : forall cfg ck g, chunk_inv cfg ck g -> g <> [] ->
  e_num_bytes (finalize cfg ck) = num_bytes_spec cfg g.
Proof.
  intros cfg ck g [Hw [Hn Hb]] Hne. unfold Packer.finalize, num_bytes_spec.
  destruct (cf_kind cfg); cbn [e_num_bytes acct ChunkSpec.body_size] in *; rewrite Hb; [reflexivity|].
  destruct g as [|r g]; [congruence|]. cbn [length]. lia.
Qed.

Lemma finalize_good : forall cfg ck g,
  chunk_inv cfg ck g -> g <> [] -> fits_records cfg g -> (fits_bytes cfg g \/ length g = 1%nat) ->
  good_chunk cfg (finalize cfg ck).
Proof.
  intros cfg ck g Hci Hne Hfr Hfb. unfold good_chunk.
  rewrite (e_records_finalize cfg ck g Hci Hne).
  split; [apply finalize_holds; assumption|]. split; [assumption|]. split; [assumption|].
  apply finalize_num_bytes; assumption.
Qed.

Lemma flush_spec : forall cfg st st' out,
  state_inv cfg st -> flush_buffer cfg st = (st', out) ->
  pk_cur st' = None /\ pk_gen st' = pk_gen st /\
  out_records out = cur_records st /\
  (cur_records st = [] <-> out = None) /\
  (forall e, out = Some e -> good_chunk cfg e /\ [e_id e] = cur_ids st).
Proof.
  intros cfg st st' out Hinv H. unfold Packer.flush_buffer in H. unfold state_inv, cur_records, cur_ids in *.
  destruct (pk_cur st) as [ck|] eqn:Hc.
  - inversion H; subst; clear H. cbn [pk_cur pk_gen out_records].
    destruct Hinv as [Hne [Hci [Hfr Hfb]]].
    pose proof (e_records_finalize cfg ck _ Hci Hne) as Her.
    split; [reflexivity|]. split; [reflexivity|]. split; [assumption|]. split.
    + split; intro Hn; [contradiction|discriminate].
    + intros e He. inversion He; subst. split.
      * apply (finalize_good cfg ck _ Hci Hne Hfr Hfb).
      * rewrite finalize_id. reflexivity.
  - inversion H; subst; clear H. rewrite Hc. cbn [out_records].
    split; [reflexivity|]. split; [reflexivity|]. split; [reflexivity|]. split.
    + split; reflexivity.
    + intros e He. discriminate.
Qed.

(* the core step lemma for WriteStream *)
Lemma write_spec : forall cfg now st r st' out,
  state_inv cfg st -> write_stream cfg now st r = (st', out) ->
  state_inv cfg st' /\
  out_records out ++ cur_records st' = cur_records st ++ [r] /\
  (out = None <-> (cur_records st = [] \/ fits cfg (cur_records st ++ [r]))) /\
  (forall e, out = Some e -> good_chunk cfg e /\ e_records e = cur_records st /\ cur_records st' = [r]).
Proof.
  intros cfg now st r st' out Hinv H. unfold Packer.write_stream in H.
  destruct (pk_cur st) as [ck|] eqn:Hc.
  - (* a chunk is open *)
    pose proof Hinv as Hinv0. unfold state_inv in Hinv. rewrite Hc in Hinv.
    destruct Hinv as [Hne [Hci [Hfr Hfb]]]. set (g := recs_of (ck_written ck)) in *.
    assert (Hcur : cur_records st = g) by (unfold cur_records; rewrite Hc; reflexivity).
    pose proof (can_append_fits cfg ck g r Hci) as Hcf.
    destruct (can_append cfg ck (rlen r)) eqn:Hca.
    + (* appended *)
      rewrite Hc in H. inversion H; subst; clear H.
      pose proof (chunk_write_inv cfg ck g r Hci) as Hw.
      pose proof (chunk_inv_recs _ _ _ Hw) as Hrec.
      assert (Hfit : fits cfg (g ++ [r])) by (apply Hcf; reflexivity).
      split; [|split; [|split]].
      * unfold state_inv. cbn [pk_cur]. cbv zeta. rewrite Hrec.
        destruct Hfit as [F1 F2].
        split; [intro Hn; apply app_eq_nil in Hn; destruct Hn; discriminate|].
        split; [assumption|]. split; [assumption|left; assumption].
      * unfold cur_records at 1. cbn [pk_cur out_records app]. rewrite Hrec, Hcur. reflexivity.
      * split; [intros _; right; rewrite Hcur; assumption|reflexivity].
      * intros e He. discriminate.
    + (* rolled over *)
      unfold Packer.flush_buffer in H. rewrite Hc in H. cbn [pk_cur pk_gen] in H.
      destruct (generate_id (cf_suffix cfg) now (pk_gen st)) as [g' id] eqn:Hg.
      inversion H; subst; clear H.
      pose proof (chunk_write_inv cfg _ [] r (new_chunk_inv cfg id)) as Hw. cbn [app] in Hw.
      pose proof (chunk_inv_recs _ _ _ Hw) as Hrec.
      pose proof (e_records_finalize cfg ck g Hci Hne) as Her.
      assert (Hst' : cur_records {| pk_cur := Some (chunk_write cfg (new_chunk cfg id) r); pk_gen := g' |} = [r])
        by (unfold cur_records; cbn [pk_cur]; exact Hrec).
      split; [|split; [|split]].
      * unfold state_inv. cbn [pk_cur]. cbv zeta. rewrite Hrec.
        split; [discriminate|]. split; [assumption|]. split; [apply fits_records_single|right; reflexivity].
      * rewrite Hst'. cbn [out_records]. rewrite Her, Hcur. reflexivity.
      * split; [discriminate|].
        intros [Hn|Hf]; [rewrite Hcur in Hn; contradiction|].
        rewrite Hcur in Hf. apply Hcf in Hf. discriminate.
      * intros e He. inversion He; subst. split; [|split].
        -- apply (finalize_good cfg ck g Hci Hne Hfr Hfb).
        -- rewrite Her, Hcur. reflexivity.
        -- exact Hst'.
  - (* no chunk yet *)
    rewrite Hc in H.
    destruct (generate_id (cf_suffix cfg) now (pk_gen st)) as [g' id] eqn:Hg.
    inversion H; subst; clear H.
    pose proof (chunk_write_inv cfg _ [] r (new_chunk_inv cfg id)) as Hw. cbn [app] in Hw.
    pose proof (chunk_inv_recs _ _ _ Hw) as Hrec.
    assert (Hcur : cur_records st = []) by (unfold cur_records; rewrite Hc; reflexivity).
    split; [|split; [|split]].
    + unfold state_inv. cbn [pk_cur]. cbv zeta. rewrite Hrec.
      split; [discriminate|]. split; [assumption|]. split; [apply fits_records_single|right; reflexivity].
    + unfold cur_records at 1. cbn [pk_cur out_records app]. rewrite Hrec, Hcur. reflexivity.
    + split; [intros _; left; assumption|reflexivity].
    + intros e He. discriminate.
Qed.

Lemma step_spec : forall cfg st o st' out,
  state_inv cfg st -> step cfg st o = (st', out) ->
  state_inv cfg st' /\
  out_records out ++ cur_records st' = cur_records st ++ op_records o /\
  (forall e, out = Some e -> good_chunk cfg e).
Proof.
  intros cfg st o st' out Hinv H. destruct o as [now r|]; cbn [Packer.step] in H.
  - destruct (write_spec cfg now st r st' out Hinv H) as [H1 [H2 [_ H4]]].
    split; [assumption|]. split; [assumption|]. intros e He. apply (H4 e He).
  - destruct (flush_spec cfg st st' out Hinv H) as [Hn [_ [Hr [_ Hg]]]].
    split; [|split].
    + unfold state_inv. rewrite Hn. exact I.
    + unfold cur_records at 1. rewrite Hn. cbn [op_records]. rewrite !app_nil_r. assumption.
    + intros e He. apply (Hg e He).
Qed.

(* ------------------------------------------------------------------ *)
(* whole runs                                                          *)

Lemma run_nil : forall cfg st, run cfg st [] = (st, []).
Proof. reflexivity. Qed.

Lemma run_cons : forall cfg st o ops,
  run cfg st (o :: ops) =
  let (st1, out) := step cfg st o in
  let (st2, em) := run cfg st1 ops in (st2, opt_list out ++ em).
Proof.
  intros cfg st o ops. unfold Packer.run. cbn [Packer.run_trace].
  destruct (step cfg st o) as [st1 out]. destruct (run_trace cfg st1 ops) as [st2 outs].
  reflexivity.
Qed.

Lemma run_app : forall cfg ops1 ops2 st,
  run cfg st (ops1 ++ ops2) =
  let (st1, em1) := run cfg st ops1 in
  let (st2, em2) := run cfg st1 ops2 in (st2, em1 ++ em2).
Proof.
  intros cfg ops1. induction ops1 as [|o ops1 IH]; intros ops2 st.
  - cbn [app]. rewrite run_nil. destruct (run cfg st ops2). reflexivity.
  - cbn [app]. rewrite !run_cons. destruct (step cfg st o) as [st1 out].
    rewrite IH. destruct (run cfg st1 ops1) as [st2 em1]. destruct (run cfg st2 ops2) as [st3 em2].
    rewrite app_assoc. reflexivity.
Qed.

Lemma out_records_opt : forall out : option echunk, concat (map e_records (opt_list out)) = out_records out.
Proof. intros [e|]; cbn; [apply app_nil_r|reflexivity]. Qed.

(* conservation + order + well-formedness + limits, from any state satisfying the invariant *)
Lemma run_spec : forall cfg ops st,
  state_inv cfg st ->
  let (st', em) := run cfg st ops in
  state_inv cfg st' /\
  concat (map e_records em) ++ cur_records st' = cur_records st ++ written_of ops /\
  Forall (good_chunk cfg) em.
Proof.
  intros cfg ops. induction ops as [|o ops IH]; intros st Hinv.
  - rewrite run_nil. cbn [map concat written_of app]. rewrite app_nil_r. repeat split; [assumption|constructor].
  - rewrite run_cons. destruct (step cfg st o) as [st1 out] eqn:Hs.
    destruct (step_spec cfg st o st1 out Hinv Hs) as [Hinv1 [Hcons Hgood]].
    specialize (IH st1 Hinv1). destruct (run cfg st1 ops) as [st2 em].
    destruct IH as [Hinv2 [Hc2 Hg2]].
    repeat split; [assumption| |].
    + rewrite map_app, concat_app, out_records_opt, <- app_assoc, Hc2, app_assoc, Hcons.
      rewrite <- app_assoc. f_equal. destruct o; reflexivity.
    + apply Forall_app. split; [|assumption].
      destruct out as [e|]; cbn [opt_list]; constructor; [apply Hgood; reflexivity|constructor].
Qed.

(* C11 conservation_order *)
Lemma conservation_order_lemma : forall cfg ops,
  let (st', em) := run cfg pstate_init ops in
  concat (map e_records em) ++ cur_records st' = written_of ops /\
  Forall (fun e => chunk_holds cfg e (e_records e)) em.
Proof.
  intros cfg ops. pose proof (run_spec cfg ops pstate_init (state_inv_init cfg)) as H.
  destruct (run cfg pstate_init ops) as [st' em]. destruct H as [_ [Hc Hg]].
  split; [exact Hc|]. eapply Forall_impl; [|exact Hg]. intros e He. apply He.
Qed.

(* C11 limits *)
Lemma limits_lemma : forall cfg ops,
  let (st', em) := run cfg pstate_init ops in
  Forall (fun e => let g := e_records e in
                   (cf_max_records cfg > 0 -> Z.of_nat (length g) <= cf_max_records cfg) /\
                   (cf_max_bytes cfg > 0 -> pieces_len (e_body e) <= cf_max_bytes cfg \/ length g = 1%nat)) em.
Proof.
  intros cfg ops. pose proof (run_spec cfg ops pstate_init (state_inv_init cfg)) as H.
  destruct (run cfg pstate_init ops) as [st' em]. destruct H as [_ [_ Hg]].
  eapply Forall_impl; [|exact Hg]. intros e [Hh [Hr [Hb _]]]. cbv zeta. split; [exact Hr|].
  intro Hpos. destruct Hb as [Hb|Hb]; [left|right; assumption].
  destruct Hh as [_ [Hbody _]]. rewrite Hbody, body_size_spec. apply Hb. assumption.
Qed.

(* the NumBytes counter of every emitted chunk *)
Lemma num_bytes_lemma : forall cfg ops,
  let (st', em) := run cfg pstate_init ops in
  Forall (fun e => e_num_bytes e = num_bytes_spec cfg (e_records e)) em.
Proof.
  intros cfg ops. pose proof (run_spec cfg ops pstate_init (state_inv_init cfg)) as H.
  destruct (run cfg pstate_init ops) as [st' em]. destruct H as [_ [_ Hg]].
  eapply Forall_impl; [|exact Hg]. intros e [_ [_ [_ Hn]]]. exact Hn.
Qed.

(* after a flush nothing is buffered: every record written so far is in an emitted chunk *)
Lemma flush_completes_lemma : forall cfg ops,
  let (st', em) := run cfg pstate_init (ops ++ [OFlush]) in
  pk_cur st' = None /\ concat (map e_records em) = written_of ops.
Proof.
  intros cfg ops. rewrite run_app.
  pose proof (run_spec cfg ops pstate_init (state_inv_init cfg)) as H.
  destruct (run cfg pstate_init ops) as [st1 em1]. destruct H as [Hinv [Hc _]].
  rewrite run_cons. cbn [Packer.step].
  destruct (flush_buffer cfg st1) as [st2 out] eqn:Hf. rewrite run_nil.
  destruct (flush_spec cfg st1 st2 out Hinv Hf) as [Hn [_ [Hr _]]].
  split; [assumption|].
  rewrite app_nil_r, map_app, concat_app, out_records_opt, Hr. exact Hc.
Qed.

(* roll-over happens exactly when the next record does not fit into a non-empty chunk, the emitted chunk is
   the whole buffer and the record starts the new chunk *)
Lemma rollover_lemma : forall cfg ops now r,
  let (st, _) := run cfg pstate_init ops in
  let (st', out) := write_stream cfg now st r in
  (out = None <-> (cur_records st = [] \/ fits cfg (cur_records st ++ [r]))) /\
  (forall e, out = Some e -> e_records e = cur_records st /\ cur_records st' = [r]) /\
  (out = None -> cur_records st' = cur_records st ++ [r]).
Proof.
  intros cfg ops now r. pose proof (run_spec cfg ops pstate_init (state_inv_init cfg)) as H.
  destruct (run cfg pstate_init ops) as [st em]. destruct H as [Hinv _].
  destruct (write_stream cfg now st r) as [st' out] eqn:Hw.
  destruct (write_spec cfg now st r st' out Hinv Hw) as [_ [Hc [Hiff Hsome]]].
  repeat split.
  - apply Hiff.
  - apply Hiff.
  - apply (Hsome e H).
  - apply (Hsome e H).
  - intro Hn. subst out. cbn [out_records app] in Hc. exact Hc.
Qed.

(* a flush emits exactly when something is buffered *)
Lemma flush_lemma : forall cfg ops,
  let (st, _) := run cfg pstate_init ops in
  let (st', out) := flush_buffer cfg st in
  pk_cur st' = None /\ (out = None <-> cur_records st = []) /\ out_records out = cur_records st.
Proof.
  intros cfg ops. pose proof (run_spec cfg ops pstate_init (state_inv_init cfg)) as H.
  destruct (run cfg pstate_init ops) as [st em]. destruct H as [Hinv _].
  destruct (flush_buffer cfg st) as [st' out] eqn:Hf.
  destruct (flush_spec cfg st st' out Hinv Hf) as [Hn [_ [Hr [Hiff _]]]].
  repeat split; try assumption; apply Hiff.
Qed.

(* ------------------------------------------------------------------ *)
(* chunk ids                                                           *)

Definition op_now (o : op) : list Z := match o with OWrite now _ => [now] | OFlush => [] end.

(* does this call make a new chunk (and read the clock)? *)
Definition creates (cfg : config) (st : pstate) (o : op) : bool :=
  match o with
  | OFlush => false
  | OWrite _ r => match pk_cur st with
                  | None => true
                  | Some ck => negb (can_append cfg ck (rlen r))
                  end
  end.

Fixpoint created_nows (cfg : config) (st : pstate) (ops : list op) : list Z :=
  match ops with
  | [] => []
  | o :: ops' => (if creates cfg st o then op_now o else []) ++ created_nows cfg (fst (step cfg st o)) ops'
  end.

Lemma gen_ids_cons : forall suffix g now rest,
  gen_ids suffix g (now :: rest) =
  snd (generate_id suffix now g) :: gen_ids suffix (fst (generate_id suffix now g)) rest.
Proof.
  intros suffix g now rest. unfold gen_ids, generate_id. cbn [gen_pairs].
  destruct (generate now g) as [g' p]. reflexivity.
Qed.

Lemma step_ids : forall cfg st o st' out,
  step cfg st o = (st', out) ->
  map e_id (opt_list out) ++ cur_ids st' ++ gen_ids (cf_suffix cfg) (pk_gen st') [] =
  cur_ids st ++ gen_ids (cf_suffix cfg) (pk_gen st) (if creates cfg st o then op_now o else []) /\
  (forall rest, gen_ids (cf_suffix cfg) (pk_gen st) ((if creates cfg st o then op_now o else []) ++ rest) =
                gen_ids (cf_suffix cfg) (pk_gen st) (if creates cfg st o then op_now o else []) ++
                gen_ids (cf_suffix cfg) (pk_gen st') rest).
Proof.
  intros cfg st o st' out H. destruct o as [now r|]; cbn [Packer.step creates op_now] in *.
  - unfold Packer.write_stream in H. unfold cur_ids.
    destruct (pk_cur st) as [ck|] eqn:Hc.
    + destruct (can_append cfg ck (rlen r)) eqn:Hca; cbn [negb].
      * rewrite Hc in H. inversion H; subst; clear H. cbn [pk_cur pk_gen opt_list map app].
        rewrite chunk_write_id. split; [reflexivity|]. intro rest. reflexivity.
      * unfold Packer.flush_buffer in H. rewrite Hc in H. cbn [pk_cur pk_gen] in H.
        destruct (generate_id (cf_suffix cfg) now (pk_gen st)) as [g' id] eqn:Hg.
        inversion H; subst; clear H. cbn [pk_cur pk_gen opt_list map app].
        rewrite chunk_write_id, new_chunk_id, finalize_id.
        split.
        -- rewrite gen_ids_cons, Hg. reflexivity.
        -- intro rest. cbn [app]. rewrite !gen_ids_cons, Hg. reflexivity.
    + rewrite Hc in H.
      destruct (generate_id (cf_suffix cfg) now (pk_gen st)) as [g' id] eqn:Hg.
      inversion H; subst; clear H. cbn [pk_cur pk_gen opt_list map app].
      rewrite chunk_write_id, new_chunk_id.
      split.
      * rewrite gen_ids_cons, Hg. reflexivity.
      * intro rest. cbn [app]. rewrite !gen_ids_cons, Hg. reflexivity.
  - unfold Packer.flush_buffer in H. unfold cur_ids.
    destruct (pk_cur st) as [ck|] eqn:Hc; inversion H; subst; clear H; cbn [pk_cur pk_gen opt_list map app].
    + rewrite finalize_id. split; [reflexivity|]. intro rest. reflexivity.
    + rewrite Hc. split; [reflexivity|]. intro rest. reflexivity.
Qed.

(* the ids of the emitted chunks followed by the id of the open chunk are exactly the ids the
   generator produced for the clock readings taken when chunks were created *)
Lemma run_ids : forall cfg ops st,
  let (st', em) := run cfg st ops in
  map e_id em ++ cur_ids st' = cur_ids st ++ gen_ids (cf_suffix cfg) (pk_gen st) (created_nows cfg st ops).
Proof.
  intros cfg ops. induction ops as [|o ops IH]; intro st.
  - rewrite run_nil. cbn [map app created_nows]. unfold gen_ids. cbn. rewrite app_nil_r. reflexivity.
  - rewrite run_cons. cbn [created_nows]. destruct (step cfg st o) as [st1 out] eqn:Hs. cbn [fst].
    destruct (step_ids cfg st o st1 out Hs) as [H1 H2].
    specialize (IH st1). destruct (run cfg st1 ops) as [st2 em].
    rewrite map_app, <- app_assoc, IH. rewrite H2.
    unfold gen_ids at 1 in H1. cbn [gen_pairs map] in H1. rewrite app_nil_r in H1.
    rewrite !app_assoc. f_equal. exact H1.
Qed.

Lemma created_nows_nondecreasing : forall cfg ops st lo,
  nondecreasing lo (nows_of ops) -> nondecreasing lo (created_nows cfg st ops).
Proof.
  intros cfg ops. induction ops as [|o ops IH]; intros st lo H; [exact I|].
  cbn [created_nows]. destruct o as [now r|]; cbn [nows_of op_now] in *.
  - cbn [nondecreasing] in H. destruct H as [Hle H].
    destruct (creates cfg st (OWrite now r)); cbn [app].
    + cbn [nondecreasing]. split; [assumption|]. apply IH. assumption.
    + apply IH. apply (nondecreasing_weaken _ now lo Hle). assumption.
  - destruct (creates cfg st OFlush); cbn [app]; apply IH; assumption.
Qed.

Lemma created_nows_Forall : forall (P : Z -> Prop) cfg ops st,
  Forall P (nows_of ops) -> Forall P (created_nows cfg st ops).
Proof.
  intros P cfg ops. induction ops as [|o ops IH]; intros st H; [constructor|].
  cbn [created_nows]. destruct o as [now r|]; cbn [nows_of op_now] in *.
  - inversion H; subst. destruct (creates cfg st (OWrite now r)); cbn [app]; [constructor; [assumption|]|]; apply IH; assumption.
  - destruct (creates cfg st OFlush); cbn [app]; apply IH; assumption.
Qed.

Lemma created_nows_length : forall cfg ops st, (length (created_nows cfg st ops) <= length ops)%nat.
Proof.
  intros cfg ops. induction ops as [|o ops IH]; intro st; [apply le_n|].
  cbn [created_nows length]. rewrite app_length.
  specialize (IH (fst (step cfg st o))).
  destruct (creates cfg st o); destruct o; cbn [op_now length]; lia.
Qed.

Lemma gen_ids_shape : forall suffix g nows,
  Forall pair_ok (gen_pairs g nows) -> Forall (fun id => id_shape_ok suffix id = true) (gen_ids suffix g nows).
Proof.
  intros suffix g nows H. unfold gen_ids. rewrite Forall_map.
  eapply Forall_impl; [|exact H]. intros p Hp. apply format_id_shape. assumption.
Qed.

(* C11 ids at the level of the packer *)
Lemma packer_ids_lemma : forall cfg ops,
  nondecreasing 0 (nows_of ops) ->
  Forall (fun t => t < 10 ^ 19) (nows_of ops) ->
  Z.of_nat (length ops) < 10 ^ 8 ->
  let (st', em) := run cfg pstate_init ops in
  ids_ordered (map e_id em ++ cur_ids st') /\
  NoDup (map e_id em ++ cur_ids st') /\
  Forall (fun id => id_shape_ok (cf_suffix cfg) id = true) (map e_id em ++ cur_ids st').
Proof.
  intros cfg ops Hmono Hts Hlen.
  pose proof (run_ids cfg ops pstate_init) as H.
  destruct (run cfg pstate_init ops) as [st' em].
  cbn [cur_ids pstate_init pk_cur pk_gen app] in H. rewrite H.
  set (nows := created_nows cfg pstate_init ops).
  assert (Hm : nondecreasing 0 nows) by (apply created_nows_nondecreasing; assumption).
  assert (Ht : Forall (fun t => t < 10 ^ 19) nows) by (apply created_nows_Forall; assumption).
  assert (Hl : Z.of_nat (length nows) < 10 ^ 8).
  { pose proof (created_nows_length cfg ops pstate_init). fold nows in H0. lia. }
  destruct (ids_unique_ordered_count_lemma (cf_suffix cfg) nows Hm Ht Hl) as [Ho Hn].
  repeat split; try assumption.
  apply gen_ids_shape.
  pose proof (gen_pairs_seq_bound nows idgen_init) as Hb. cbn [idgen_init g_seq] in Hb.
  assert (Hb' := Hb ltac:(lia) ltac:(pow_consts; lia)).
  pose proof (ts_ok_of_bounds nows Hm Ht) as Hok.
  rewrite Forall_forall in *. intros p Hp. split.
  - apply Hok. rewrite <- (gen_pairs_fst nows idgen_init). apply in_map. assumption.
  - specialize (Hb' p Hp). unfold seq_ok. pow_consts. cbn beta in Hb'. lia.
Qed.

(* ------------------------------------------------------------------ *)
(* bytes: rendering, gzip and msgpack wrapper as oracles               *)

Section Bytes.
Variable rbytes : R -> bytes.
Notation render := (render R rbytes).

Lemma render_app : forall a b : list piece, render (a ++ b) = render a ++ render b.
Proof. intros a b. unfold Packer.render. rewrite map_app, concat_app. reflexivity. Qed.

Lemma render_forward : forall g : list R, render (forward_body g) = concat (map rbytes g).
Proof.
  induction g as [|r g IH]; [reflexivity|].
  unfold Packer.render, forward_body in *. cbn [map concat render_piece]. rewrite IH. reflexivity.
Qed.

Lemma render_dd_items : forall g : list R, render (dd_items g) = join 44%N (map rbytes g).
Proof.
  induction g as [|r g IH]; [reflexivity|].
  destruct g as [|b g].
  - cbn. apply app_nil_r.
  - change (dd_items (r :: b :: g)) with (PRec r :: PComma :: dd_items (b :: g)).
    change (render (PRec r :: PComma :: dd_items (b :: g))) with (rbytes r ++ [44%N] ++ render (dd_items (b :: g))).
    rewrite IH. reflexivity.
Qed.

Lemma render_datadog : forall g : list R, render (datadog_body g) = json_array_bytes (map rbytes g).
Proof.
  intro g. unfold datadog_body, json_array_bytes.
  change (POpen :: dd_items g ++ [PClose]) with ([POpen] ++ dd_items g ++ [PClose]).
  rewrite !render_app, render_dd_items. reflexivity.
Qed.

Lemma render_length : (forall r, rlen r = Z.of_nat (length (rbytes r))) ->
  forall l : list piece, Z.of_nat (length (render l)) = pieces_len l.
Proof.
  intros Hlen l. induction l as [|p l IH]; [reflexivity|].
  change (render (p :: l)) with (render_piece R rbytes p ++ render l).
  rewrite app_length, Nat2Z.inj_add, IH. cbn [Packer.pieces_len]. f_equal.
  destruct p; cbn [render_piece piece_len length]; try reflexivity. symmetry. apply Hlen.
Qed.

Variable gz gunz : bytes -> bytes.
Variable mp_wrap : bytes -> bool -> Z -> bytes -> bool -> bytes -> bytes.
Variable mp_unwrap : bytes -> option (bytes * bool * Z * bytes * bool * bytes).
Hypothesis gunz_gz : forall b, gunz (gz b) = b.
Hypothesis unwrap_wrap : forall tag arr n id c d,
  mp_unwrap (mp_wrap tag arr n id c d) = Some (tag, arr, n, id, c, d).

Notation chunk_data := (chunk_data R rbytes gz mp_wrap).

(* what a receiver gets out of LogChunk.Data *)
Lemma chunk_decodes : forall cfg e g,
  chunk_holds cfg e g ->
  match cf_kind cfg with
  | KForward =>
      exists payload,
        mp_unwrap (chunk_data cfg e) =
          Some (cf_tag cfg, cf_as_array cfg, Z.of_nat (length g), e_id e, cf_compress cfg, payload) /\
        (if cf_compress cfg then gunz payload else payload) = concat (map rbytes g)
  | KDatadog => gunz (chunk_data cfg e) = json_array_bytes (map rbytes g)
  end.
Proof.
  intros cfg e g [Hne [Hb [Hs [Hid [Hc Ht]]]]]. unfold Packer.chunk_data, expected_compressed in *.
  destruct (cf_kind cfg) eqn:Hk; cbn [body_spec] in *.
  - destruct (Ht eq_refl) as [Htag Harr]. rewrite Hc, Hb, Hs, Hid, Htag, Harr, unwrap_wrap.
    eexists. split; [reflexivity|].
    destruct (cf_compress cfg); [rewrite gunz_gz|]; apply render_forward.
  - rewrite Hc, Hb, gunz_gz. apply render_datadog.
Qed.

Lemma run_decodes : forall cfg ops,
  let (st', em) := run cfg pstate_init ops in
  Forall (fun e =>
    match cf_kind cfg with
    | KForward =>
        exists payload,
          mp_unwrap (chunk_data cfg e) =
            Some (cf_tag cfg, cf_as_array cfg, Z.of_nat (length (e_records e)), e_id e, cf_compress cfg, payload) /\
          (if cf_compress cfg then gunz payload else payload) = concat (map rbytes (e_records e))
    | KDatadog => gunz (chunk_data cfg e) = json_array_bytes (map rbytes (e_records e))
    end) em.
Proof.
  intros cfg ops. pose proof (conservation_order_lemma cfg ops) as H.
  destruct (run cfg pstate_init ops) as [st' em]. destruct H as [_ Hg].
  eapply Forall_impl; [|exact Hg]. intros e He. apply chunk_decodes. assumption.
Qed.

(* the byte limit, on real bytes *)
Lemma limits_bytes_lemma : (forall r, rlen r = Z.of_nat (length (rbytes r))) ->
  forall cfg ops,
  let (st', em) := run cfg pstate_init ops in
  Forall (fun e => cf_max_bytes cfg > 0 ->
                   Z.of_nat (length (render (e_body e))) <= cf_max_bytes cfg \/ length (e_records e) = 1%nat) em.
Proof.
  intros Hlen cfg ops. pose proof (limits_lemma cfg ops) as H.
  destruct (run cfg pstate_init ops) as [st' em].
  eapply Forall_impl; [|exact H]. intros e [_ Hb] Hpos. cbv zeta in Hb.
  rewrite (render_length Hlen). apply Hb. assumption.
Qed.
(* the receiving side: unwrap, gunzip if flagged, split the payload into records.  The record splitters are
   oracles too (a msgpack stream decoder / a JSON array parser): serialized records are self-delimiting. *)
Variable parse_forward : bytes -> option (list R).
Variable parse_json_array : bytes -> option (list R).
Hypothesis parse_forward_concat : forall g, parse_forward (concat (map rbytes g)) = Some g.
Hypothesis parse_json_array_spec : forall g, parse_json_array (json_array_bytes (map rbytes g)) = Some g.

Notation receive := (receive R gunz mp_unwrap parse_forward parse_json_array).
Notation all_received := (all_received R).

Lemma receive_chunk : forall cfg e g, chunk_holds cfg e g -> receive cfg (chunk_data cfg e) = Some g.
Proof.
  intros cfg e g Hh. pose proof (chunk_decodes cfg e g Hh) as Hd. unfold ChunkSpec.receive.
  destruct (cf_kind cfg).
  - destruct Hd as [payload [Hu Hp]]. rewrite Hu, Hp. apply parse_forward_concat.
  - rewrite Hd. apply parse_json_array_spec.
Qed.

Lemma all_received_holds : forall cfg em,
  Forall (fun e => chunk_holds cfg e (e_records e)) em ->
  all_received (map (fun e => receive cfg (chunk_data cfg e)) em) = Some (concat (map e_records em)).
Proof.
  intros cfg em H. induction H as [|e em He _ IH]; [reflexivity|].
  cbn [map ChunkSpec.all_received concat]. rewrite (receive_chunk cfg e _ He), IH. reflexivity.
Qed.

(* end to end, on bytes: a receiver that decodes the chunks emitted up to a flush, in emission order, obtains
   exactly the written records in order *)
Lemma receiver_reconstructs_lemma : forall cfg ops,
  let (st', em) := run cfg pstate_init (ops ++ [OFlush]) in
  all_received (map (fun e => receive cfg (chunk_data cfg e)) em) = Some (written_of ops).
Proof.
  intros cfg ops.
  pose proof (flush_completes_lemma cfg ops) as Hf.
  pose proof (conservation_order_lemma cfg (ops ++ [OFlush])) as Hc.
  destruct (run cfg pstate_init (ops ++ [OFlush])) as [st' em].
  destruct Hf as [_ Hw]. destruct Hc as [_ Hg].
  rewrite (all_received_holds cfg em Hg), Hw. reflexivity.
Qed.
End Bytes.
End PackerProofs.

(* ------------------------------------------------------------------ *)
(* a concrete run: the hypotheses of the theorems are satisfiable       *)

Definition example_cfg : config := fluentd_config 2 2 100 [116; 97; 103]%N.   (* CompressedPackedForward, 2 records, 100 bytes, tag "tag" *)

Definition example_ops : list (op bytes) :=
  [ OWrite 1700000000000000001 [1; 2; 3]%N;
    OWrite 1700000000000000001 [4; 5]%N;
    OWrite 1700000000000000001 [6]%N;         (* third record: rolls over (record limit 2), same clock reading *)
    OFlush;
    OFlush;                                   (* nothing buffered: no chunk *)
    OWrite 1700000000000000002 [7]%N ].

Definition blen (s : bytes) : Z := Z.of_nat (length s).

Lemma example_run :
  nondecreasing 0 (nows_of example_ops) /\
  Forall (fun t => t < 10 ^ 19) (nows_of example_ops) /\
  Z.of_nat (length example_ops) < 10 ^ 8 /\
  let (st', em) := run bytes blen example_cfg pstate_init example_ops in
  map e_records em = [ [[1; 2; 3]; [4; 5]]; [[6]] ]%N /\
  map e_size em = [2; 1] /\
  map e_id em = [ [49;55;48;48;48;48;48;48;48;48;48;48;48;48;48;48;48;48;49;45;48;48;48;48;48;48;48;48;46;102;102];
                  [49;55;48;48;48;48;48;48;48;48;48;48;48;48;48;48;48;48;49;45;48;48;48;48;48;48;48;49;46;102;102] ]%N /\
  cur_records st' = [[7]]%N.
Proof.
  split; [|split; [|split]].
  - cbn. lia.
  - cbn. repeat constructor.
  - cbn. lia.
  - vm_compute. repeat split; reflexivity.
Qed.
