(* Proofs about the chunk id generator (Model/ChunkId.v): fixed-width decimal formatting
   preserves order, ids are ordered and distinct under a clock that never goes back, and
   the witness that a backwards step of the clock breaks uniqueness. *)
From SV Require Import Model.Common Model.ChunkId Model.Packer Spec.ChunkSpec Proofs.CommonFacts.
From Coq Require Import Lia ZifyBool ZifyN ZifyNat Sorted.
Ltac Zify.zify_post_hook ::= Z.div_mod_to_equations.

(* ------------------------------------------------------------------ *)
(* byte-wise order                                                     *)

Lemma lex_lt_irrefl : forall a, ~ lex_lt a a.
Proof.
  induction a as [|x a IH]; intro H; inversion H; subst.
  - lia.
  - auto.
Qed.

Lemma lex_lt_trans : forall a b c, lex_lt a b -> lex_lt b c -> lex_lt a c.
Proof.
  intros a b c Hab. revert c.
  induction Hab as [y b|x y a b Hxy|x a b Hab IH]; intros c Hbc; inversion Hbc; subst.
  - constructor.
  - constructor.
  - apply lex_head. lia.
  - apply lex_head. assumption.
  - apply lex_head. assumption.
  - apply lex_tail. apply IH. assumption.
Qed.

Lemma lex_lt_asym : forall a b, lex_lt a b -> ~ lex_lt b a.
Proof. intros a b H1 H2. exact (lex_lt_irrefl a (lex_lt_trans _ _ _ H1 H2)). Qed.

Lemma bytes_ltb_spec : forall a b, bytes_ltb a b = true <-> lex_lt a b.
Proof.
  induction a as [|x a IH]; intros [|y b]; cbn [bytes_ltb]; split; intro H.
  - discriminate.
  - inversion H.
  - constructor.
  - reflexivity.
  - discriminate.
  - inversion H.
  - destruct (N.ltb_spec x y) as [Hxy|Hxy]; [now apply lex_head|].
    destruct (N.ltb_spec y x) as [Hyx|Hyx]; [discriminate|].
    assert (x = y) by lia. subst y. apply lex_tail. apply IH. assumption.
  - inversion H; subst.
    + destruct (N.ltb_spec x y); [reflexivity|lia].
    + rewrite N.ltb_irrefl. apply IH. assumption.
Qed.

Lemma lex_lt_app_l : forall a b b', lex_lt b b' -> lex_lt (a ++ b) (a ++ b').
Proof. induction a as [|x a IH]; intros b b' H; cbn [app]; [assumption|]. apply lex_tail. auto. Qed.

Lemma lex_lt_app_len : forall a a' b b',
  length a = length a' -> lex_lt a a' -> lex_lt (a ++ b) (a' ++ b').
Proof.
  intros a a' b b' Hlen H. revert Hlen.
  induction H as [y c|x y c d Hxy|x c d Hcd IH]; intro Hlen; cbn [app].
  - discriminate.
  - apply lex_head. assumption.
  - apply lex_tail. apply IH. cbn [length] in Hlen. lia.
Qed.

Lemma sorted_lex_NoDup : forall l, StronglySorted lex_lt l -> NoDup l.
Proof.
  induction l as [|a l IH]; intro H; [constructor|].
  apply StronglySorted_inv in H. destruct H as [Hs Hall].
  constructor; [|auto].
  intro Hin. rewrite Forall_forall in Hall. exact (lex_lt_irrefl a (Hall a Hin)).
Qed.

(* ------------------------------------------------------------------ *)
(* fixed-width decimal formatting                                      *)

Lemma pow10_pos : forall w : nat, (0 < 10 ^ N.of_nat w)%N.
Proof. intro w. apply N.neq_0_lt_0. apply N.pow_nonzero. lia. Qed.

Lemma pow10_succ : forall w : nat, (10 ^ N.of_nat (S w) = 10 * 10 ^ N.of_nat w)%N.
Proof. intro w. rewrite Nat2N.inj_succ. apply N.pow_succ_r'. Qed.

Lemma fixed_dec_length : forall w n, length (fixed_dec w n) = w.
Proof. induction w as [|w IH]; intro n; cbn [fixed_dec length]; [reflexivity|]. rewrite IH. reflexivity. Qed.

Lemma lead_digit_lt10 : forall (w : nat) n, (n < 10 ^ N.of_nat (S w))%N -> (n / 10 ^ N.of_nat w < 10)%N.
Proof.
  intros w n H. rewrite pow10_succ in H.
  apply N.div_lt_upper_bound; [pose proof (pow10_pos w); lia|]. lia.
Qed.

Lemma rest_lt_pow : forall (w : nat) n, (n mod 10 ^ N.of_nat w < 10 ^ N.of_nat w)%N.
Proof. intros w n. apply N.mod_lt. pose proof (pow10_pos w). lia. Qed.

(* the digits really are the number: reading them back gives n *)
Lemma fixed_dec_value_acc : forall w n acc,
  (n < 10 ^ N.of_nat w)%N ->
  N_of_dec_acc (fixed_dec w n) acc = Some (acc * 10 ^ N.of_nat w + n)%N.
Proof.
  induction w as [|w IH]; intros n acc H.
  - cbn [fixed_dec N_of_dec_acc]. change (10 ^ N.of_nat 0)%N with 1%N in *. f_equal. lia.
  - cbn [fixed_dec N_of_dec_acc].
    pose proof (lead_digit_lt10 w n H) as Hd.
    rewrite (is_digit_digit_char _ Hd).
    rewrite IH by apply rest_lt_pow.
    f_equal. rewrite pow10_succ.
    pose proof (pow10_pos w) as Hp.
    set (p := (10 ^ N.of_nat w)%N) in *.
    pose proof (N.div_mod' n p) as Hdm.
    unfold digit_char.
    set (q := (n / p)%N) in *. set (r := (n mod p)%N) in *.
    replace (48 + q - 48)%N with q by (clearbody q; lia).
    rewrite Hdm. ring.
Qed.

Lemma fixed_dec_value : forall w n, (n < 10 ^ N.of_nat w)%N -> dec_value (fixed_dec w n) = Some n.
Proof. intros w n H. unfold dec_value. rewrite fixed_dec_value_acc by assumption. f_equal. Qed.

Lemma fixed_dec_all_digits : forall w n, (n < 10 ^ N.of_nat w)%N -> all_digits (fixed_dec w n) = true.
Proof.
  induction w as [|w IH]; intros n H; cbn [fixed_dec all_digits]; [reflexivity|].
  rewrite (is_digit_digit_char _ (lead_digit_lt10 w n H)).
  rewrite IH by apply rest_lt_pow. reflexivity.
Qed.

(* THE general lemma: on numbers below 10^w, fixed-width decimal formatting is strictly monotone
   from < on numbers to byte-wise < on strings *)
Lemma fixed_dec_lt : forall w n m,
  (n < 10 ^ N.of_nat w)%N -> (m < 10 ^ N.of_nat w)%N -> (n < m)%N ->
  lex_lt (fixed_dec w n) (fixed_dec w m).
Proof.
  induction w as [|w IH]; intros n m Hn Hm Hnm.
  - change (10 ^ N.of_nat 0)%N with 1%N in *. lia.
  - cbn [fixed_dec].
    pose proof (pow10_pos w) as Hp.
    set (p := (10 ^ N.of_nat w)%N) in *.
    assert (Hle : (n / p <= m / p)%N) by (apply N.div_le_mono; lia).
    destruct (N.eq_dec (n / p) (m / p)) as [Heq|Hne].
    + rewrite Heq. apply lex_tail. apply IH.
      * apply N.mod_lt. lia.
      * apply N.mod_lt. lia.
      * rewrite (N.mod_eq n p), (N.mod_eq m p) by lia. rewrite Heq.
        pose proof (N.mul_div_le m p ltac:(lia)).
        pose proof (N.mul_div_le n p ltac:(lia)) as Hn2. rewrite Heq in Hn2. lia.
    + apply lex_head. unfold digit_char. lia.
Qed.

(* and back: the order of the strings is the order of the numbers *)
Lemma fixed_dec_lt_iff : forall w n m,
  (n < 10 ^ N.of_nat w)%N -> (m < 10 ^ N.of_nat w)%N ->
  (lex_lt (fixed_dec w n) (fixed_dec w m) <-> (n < m)%N).
Proof.
  intros w n m Hn Hm. split; [|apply fixed_dec_lt; assumption].
  intro H. destruct (N.lt_trichotomy n m) as [Hlt|[Heq|Hgt]]; [assumption| |].
  - subst m. exfalso. exact (lex_lt_irrefl _ H).
  - exfalso. exact (lex_lt_asym _ _ H (fixed_dec_lt w m n Hm Hn Hgt)).
Qed.

Lemma fixed_dec_inj : forall w n m,
  (n < 10 ^ N.of_nat w)%N -> (m < 10 ^ N.of_nat w)%N -> fixed_dec w n = fixed_dec w m -> n = m.
Proof.
  intros w n m Hn Hm H.
  pose proof (fixed_dec_value w n Hn) as H1. pose proof (fixed_dec_value w m Hm) as H2.
  rewrite H in H1. congruence.
Qed.

(* the least-significant-digit-first computation used by the model gives the same digits *)
Lemma fixed_dec_snoc : forall w m, (m < 10 ^ N.of_nat (S w))%N ->
  fixed_dec (S w) m = fixed_dec w (m / 10) ++ [digit_char (m mod 10)].
Proof.
  induction w as [|w IH]; intros m Hm.
  - cbn [fixed_dec app]. change (10 ^ N.of_nat 0)%N with 1%N. change (10 ^ N.of_nat 1)%N with 10%N in Hm.
    rewrite N.div_1_r. rewrite (N.mod_small m 10) by assumption. reflexivity.
  - assert (Hp := pow10_pos w). set (p := (10 ^ N.of_nat w)%N) in *.
    assert (Hps : (10 ^ N.of_nat (S w) = 10 * p)%N) by apply pow10_succ.
    assert (Hpss : (10 ^ N.of_nat (S (S w)) = 10 * (10 * p))%N) by (rewrite pow10_succ, Hps; reflexivity).
    change (fixed_dec (S (S w)) m) with
      (digit_char (m / 10 ^ N.of_nat (S w)) :: fixed_dec (S w) (m mod 10 ^ N.of_nat (S w))).
    rewrite IH by (apply N.mod_lt; rewrite Hps; lia).
    change (fixed_dec (S w) (m / 10)) with
      (digit_char (m / 10 / 10 ^ N.of_nat w) :: fixed_dec w ((m / 10) mod 10 ^ N.of_nat w)).
    fold p. rewrite Hps.
    (* m mod (10 * p) = m mod 10 + 10 * ((m / 10) mod p) *)
    pose proof (N.mod_mul_r m 10 p ltac:(lia) ltac:(lia)) as Hmm.
    assert (Hr : (m mod 10 < 10)%N) by (apply N.mod_lt; lia).
    assert (H1 : ((m mod (10 * p)) / 10 = (m / 10) mod p)%N).
    { rewrite Hmm. rewrite (N.mul_comm 10 ((m / 10) mod p)), N.div_add by lia. rewrite (N.div_small (m mod 10) 10) by assumption. apply N.add_0_l. }
    assert (H2 : ((m mod (10 * p)) mod 10 = m mod 10)%N).
    { rewrite Hmm. rewrite (N.mul_comm 10 ((m / 10) mod p)), N.mod_add by lia. apply N.mod_small. assumption. }
    assert (H3 : (m / (10 * p) = m / 10 / p)%N) by (rewrite N.div_div by lia; reflexivity).
    rewrite H1, H2, H3. reflexivity.
Qed.

Lemma dec_lsb_fixed : forall w n acc, (n < 10 ^ N.of_nat w)%N -> dec_lsb w n acc = fixed_dec w n ++ acc.
Proof.
  induction w as [|w IH]; intros n acc Hn; [reflexivity|].
  cbn [dec_lsb]. unfold N.div_eucl at 1.
  pose proof (N.div_eucl_spec n 10) as Hspec.
  change (match n with 0%N => (0%N, 0%N) | N.pos na => N.pos_div_eucl na 10 end) with (N.div_eucl n 10).
  destruct (N.div_eucl n 10) as [q r] eqn:Hqr.
  assert (Hq : q = (n / 10)%N) by (unfold N.div; rewrite Hqr; reflexivity).
  assert (Hrm : r = (n mod 10)%N) by (unfold N.modulo; rewrite Hqr; reflexivity).
  subst q r.
  rewrite IH.
  - rewrite fixed_dec_snoc by assumption. rewrite <- app_assoc. reflexivity.
  - rewrite pow10_succ in Hn. apply N.div_lt_upper_bound; lia.
Qed.

(* ------------------------------------------------------------------ *)
(* %0<w>d and the id format                                            *)

Lemma pad_dec_fixed : forall (w : nat) z,
  (0 <= z < 10 ^ Z.of_nat w)%Z -> pad_dec w z = fixed_dec w (Z.to_N z).
Proof.
  intros w z [H0 H1]. unfold pad_dec, pad_unsigned.
  destruct (Z.ltb_spec z 0) as [Hneg|_]; [lia|].
  assert (Hlt : (Z.to_N z < 10 ^ N.of_nat w)%N).
  { apply N2Z.inj_lt. rewrite Z2N.id by assumption. rewrite N2Z.inj_pow.
    rewrite nat_N_Z. assumption. }
  destruct (N.ltb_spec (Z.to_N z) (10 ^ N.of_nat w)) as [_|Hge]; [|lia].
  rewrite dec_lsb_fixed by assumption. apply app_nil_r.
Qed.

Lemma to_N_lt_pow : forall (w : nat) z, (0 <= z < 10 ^ Z.of_nat w)%Z -> (Z.to_N z < 10 ^ N.of_nat w)%N.
Proof.
  intros w z [H0 H1]. apply N2Z.inj_lt. rewrite Z2N.id by assumption. rewrite N2Z.inj_pow.
  rewrite nat_N_Z. assumption.
Qed.

Definition ts_ok (t : Z) : Prop := (0 <= t < 10 ^ 19)%Z.
Definition seq_ok (s : Z) : Prop := (0 <= s < 10 ^ 8)%Z.
Definition pair_ok (p : Z * Z) : Prop := ts_ok (fst p) /\ seq_ok (snd p).

Lemma format_id_fixed : forall suffix p, pair_ok p ->
  format_id suffix p =
  fixed_dec 19 (Z.to_N (fst p)) ++ dash :: fixed_dec 8 (Z.to_N (snd p)) ++ suffix.
Proof.
  intros suffix [t s] [Ht Hs]. unfold format_id, ts_ok, seq_ok in *. cbn [fst snd] in *.
  rewrite (pad_dec_fixed 19 t) by (change (Z.of_nat 19) with 19%Z; assumption).
  rewrite (pad_dec_fixed 8 s) by (change (Z.of_nat 8) with 8%Z; assumption).
  reflexivity.
Qed.

Lemma format_id_lt : forall suffix p q, pair_ok p -> pair_ok q -> pair_lt p q ->
  lex_lt (format_id suffix p) (format_id suffix q).
Proof.
  intros suffix p q Hp Hq Hlt.
  rewrite (format_id_fixed suffix p Hp), (format_id_fixed suffix q Hq).
  destruct p as [t1 s1], q as [t2 s2]. destruct Hp as [Ht1 Hs1], Hq as [Ht2 Hs2].
  unfold ts_ok, seq_ok, pair_lt in *. cbn [fst snd] in *.
  assert (Nt1 := to_N_lt_pow 19 t1 ltac:(change (Z.of_nat 19) with 19%Z; lia)).
  assert (Nt2 := to_N_lt_pow 19 t2 ltac:(change (Z.of_nat 19) with 19%Z; lia)).
  assert (Ns1 := to_N_lt_pow 8 s1 ltac:(change (Z.of_nat 8) with 8%Z; lia)).
  assert (Ns2 := to_N_lt_pow 8 s2 ltac:(change (Z.of_nat 8) with 8%Z; lia)).
  destruct Hlt as [Hlt|[Heq Hlt]].
  - apply lex_lt_app_len.
    + rewrite !fixed_dec_length. reflexivity.
    + apply fixed_dec_lt; try assumption. lia.
  - subst t2. apply lex_lt_app_l. apply lex_tail. apply lex_lt_app_len.
    + rewrite !fixed_dec_length. reflexivity.
    + apply fixed_dec_lt; try assumption. lia.
Qed.

Lemma format_id_lt_iff : forall suffix p q, pair_ok p -> pair_ok q ->
  (lex_lt (format_id suffix p) (format_id suffix q) <-> pair_lt p q).
Proof.
  intros suffix p q Hp Hq. split; [|apply format_id_lt; assumption].
  intro H. destruct p as [t1 s1], q as [t2 s2]. unfold pair_lt. cbn [fst snd].
  destruct (Z.lt_trichotomy t1 t2) as [?|[Heq|Hgt]]; [left; assumption| |].
  - subst t2. destruct (Z.lt_trichotomy s1 s2) as [?|[Heq|Hgt]]; [right; split; [reflexivity|assumption]| |].
    + subst s2. exfalso. exact (lex_lt_irrefl _ H).
    + exfalso. apply (lex_lt_asym _ _ H). apply format_id_lt; try assumption.
      right. cbn [fst snd]. split; [reflexivity|assumption].
  - exfalso. apply (lex_lt_asym _ _ H). apply format_id_lt; try assumption.
    left. cbn [fst snd]. assumption.
Qed.

(* shape: 19 digits, '-', 8 digits, suffix *)
Lemma firstn_app_exact : forall (A : Type) (a b : list A) n, length a = n -> firstn n (a ++ b) = a.
Proof. intros A a b n H. subst n. rewrite firstn_app, Nat.sub_diag, firstn_all. cbn [firstn]. apply app_nil_r. Qed.

Lemma skipn_app_exact : forall (A : Type) (a b : list A) n, length a = n -> skipn n (a ++ b) = b.
Proof. intros A a b n H. subst n. rewrite skipn_app, Nat.sub_diag, skipn_all. reflexivity. Qed.

Lemma format_id_shape : forall suffix p, pair_ok p -> id_shape_ok suffix (format_id suffix p) = true.
Proof.
  intros suffix p Hp. rewrite (format_id_fixed suffix p Hp).
  destruct p as [t s]. destruct Hp as [Ht Hs]. unfold ts_ok, seq_ok in *. cbn [fst snd] in *.
  assert (Nt := to_N_lt_pow 19 t ltac:(change (Z.of_nat 19) with 19%Z; lia)).
  assert (Ns := to_N_lt_pow 8 s ltac:(change (Z.of_nat 8) with 8%Z; lia)).
  unfold id_shape_ok.
  set (A := fixed_dec 19 (Z.to_N t)). set (B := fixed_dec 8 (Z.to_N s)).
  assert (HA : length A = 19%nat) by apply fixed_dec_length.
  assert (HB : length B = 8%nat) by apply fixed_dec_length.
  rewrite (firstn_app_exact _ A _ 19 HA).
  rewrite (skipn_app_exact _ A _ 19 HA).
  replace (skipn 20 (A ++ dash :: B ++ suffix)) with (B ++ suffix).
  2:{ change (A ++ dash :: B ++ suffix) with (A ++ [dash] ++ (B ++ suffix)). rewrite app_assoc.
      symmetry. apply skipn_app_exact. rewrite app_length. cbn [length]. lia. }
  replace (skipn 28 (A ++ dash :: B ++ suffix)) with suffix.
  2:{ change (A ++ dash :: B ++ suffix) with (A ++ [dash] ++ (B ++ suffix)). rewrite !app_assoc.
      symmetry. apply skipn_app_exact. rewrite !app_length. cbn [length]. lia. }
  replace (firstn 8 (B ++ suffix)) with B by (symmetry; apply firstn_app_exact; exact HB).
  unfold A at 1. rewrite (fixed_dec_all_digits 19 _ Nt).
  unfold B at 2. rewrite (fixed_dec_all_digits 8 _ Ns).
  rewrite HA, HB. cbn [firstn]. rewrite !bytes_eqb_refl. reflexivity.
Qed.

Lemma fixed_width_value_lemma : forall (w : nat) (n : N), (n < 10 ^ N.of_nat w)%N ->
  length (fixed_dec w n) = w /\ dec_value (fixed_dec w n) = Some n.
Proof. intros w n H. exact (conj (fixed_dec_length w n) (fixed_dec_value w n H)). Qed.

Lemma id_format_order_lemma : forall (suffix : bytes) (t1 s1 t2 s2 : Z),
  (0 <= t1 < 10 ^ 19)%Z -> (0 <= s1 < 10 ^ 8)%Z -> (0 <= t2 < 10 ^ 19)%Z -> (0 <= s2 < 10 ^ 8)%Z ->
  (lex_lt (format_id suffix (t1, s1)) (format_id suffix (t2, s2)) <-> (t1 < t2 \/ (t1 = t2 /\ s1 < s2))%Z) /\
  id_shape_ok suffix (format_id suffix (t1, s1)) = true.
Proof.
  intros suffix t1 s1 t2 s2 Ht1 Hs1 Ht2 Hs2.
  exact (conj (format_id_lt_iff suffix (t1, s1) (t2, s2) (conj Ht1 Hs1) (conj Ht2 Hs2))
              (format_id_shape suffix (t1, s1) (conj Ht1 Hs1))).
Qed.

(* ------------------------------------------------------------------ *)
(* the generator                                                       *)
Local Open Scope Z_scope.

Definition int32_range (z : Z) : Prop := (- 2 ^ 31 <= z < 2 ^ 31)%Z.

Ltac pow_consts :=
  change (2 ^ 31)%Z with 2147483648%Z in *; change (2 ^ 32)%Z with 4294967296%Z in *;
  change (10 ^ 8)%Z with 100000000%Z in *; change (10 ^ 19)%Z with 10000000000000000000%Z in *.

Lemma wrap32_id : forall z, int32_range z -> wrap32 z = z.
Proof. intros z H. unfold wrap32, int32_range in *. pow_consts. lia. Qed.

Lemma wrap32_range : forall z, int32_range (wrap32 z).
Proof. intro z. unfold wrap32, int32_range. pow_consts. lia. Qed.

Lemma wrap32_overflow : wrap32 (2 ^ 31 - 1 + 1) = (- 2 ^ 31)%Z.
Proof. reflexivity. Qed.

(* one Generate when the clock has not gone back *)
Lemma generate_step : forall now g g' p,
  generate now g = (g', p) -> (g_epoch g <= now)%Z -> int32_range (g_seq g) -> (0 <= snd p)%Z ->
  pair_lt (g_epoch g, g_seq g) p /\ (g_epoch g', g_seq g') = p /\ fst p = now /\ int32_range (g_seq g').
Proof.
  intros now g g' p H Hle Hr Hp. unfold generate in H.
  destruct (Z.gtb_spec now (g_epoch g)) as [Hgt|Hngt].
  - inversion H; subst; clear H. cbn [g_epoch g_seq fst snd]. unfold pair_lt. cbn [fst snd].
    unfold int32_range. pow_consts. repeat split; try lia.
  - inversion H; subst; clear H. cbn [g_epoch g_seq fst snd] in *.
    assert (now = g_epoch g) by lia. subst now.
    assert (Hlt : (g_seq g + 1 < 2 ^ 31)%Z).
    { unfold wrap32, int32_range in *. pow_consts. lia. }
    assert (Hs : wrap32 (g_seq g + 1) = (g_seq g + 1)%Z).
    { unfold wrap32, int32_range in *. pow_consts. lia. }
    rewrite Hs in *. unfold pair_lt. cbn [fst snd].
    unfold int32_range in *. pow_consts. repeat split; try lia.
Qed.

Definition seq_nonneg (p : Z * Z) : Prop := (0 <= snd p)%Z.

(* every pair generated under a clock that does not go back is larger than everything before *)
Lemma gen_pairs_sorted : forall nows g,
  nondecreasing (g_epoch g) nows -> int32_range (g_seq g) ->
  Forall seq_nonneg (gen_pairs g nows) ->
  StronglySorted pair_lt (gen_pairs g nows) /\
  Forall (pair_lt (g_epoch g, g_seq g)) (gen_pairs g nows).
Proof.
  induction nows as [|now rest IH]; intros g Hmono Hr Hnn; cbn [gen_pairs].
  - split; constructor.
  - cbn [gen_pairs] in Hnn. destruct (generate now g) as [g' p] eqn:Hg.
    cbn [nondecreasing] in Hmono. destruct Hmono as [Hle Hmono].
    inversion Hnn as [|? ? Hp Hrest]; subst.
    destruct (generate_step now g g' p Hg Hle Hr Hp) as [Hlt [Hst [Hfst Hr']]].
    assert (He : g_epoch g' = now) by (rewrite <- Hfst, <- Hst; reflexivity).
    destruct (IH g') as [Hs Hall]; [rewrite He; assumption|assumption|assumption|].
    rewrite Hst in Hall.
    split.
    + constructor; assumption.
    + constructor; [assumption|].
      eapply Forall_impl; [|exact Hall]. intros q Hq.
      unfold pair_lt in *. cbn [fst snd] in *. lia.
Qed.

Lemma gen_pairs_fst : forall nows g, map fst (gen_pairs g nows) = nows.
Proof.
  induction nows as [|now rest IH]; intro g; cbn [gen_pairs map]; [reflexivity|].
  destruct (generate now g) as [g' p] eqn:Hg. cbn [map]. rewrite IH. f_equal.
  unfold generate in Hg. destruct (now >? g_epoch g)%Z; inversion Hg; reflexivity.
Qed.

(* the sequence number never exceeds the number of ids generated so far (plus where it started) *)
Lemma gen_pairs_seq_bound : forall nows g,
  (0 <= g_seq g)%Z -> (g_seq g + Z.of_nat (length nows) < 2 ^ 31)%Z ->
  Forall (fun p => 0 <= snd p <= g_seq g + Z.of_nat (length nows))%Z (gen_pairs g nows).
Proof.
  induction nows as [|now rest IH]; intros g H0 Hb; cbn [gen_pairs]; [constructor|].
  destruct (generate now g) as [g' p] eqn:Hg.
  cbn [length] in *. rewrite Nat2Z.inj_succ in *. pow_consts. unfold generate in Hg.
  destruct (now >? g_epoch g)%Z; inversion Hg; subst; clear Hg; cbn [snd g_seq] in *.
  - constructor; [cbn [snd]; lia|].
    eapply Forall_impl; [|apply (IH {| g_epoch := now; g_seq := 0 |})]; cbn [g_seq]; pow_consts; try lia.
  - assert (Hs : wrap32 (g_seq g + 1) = (g_seq g + 1)%Z) by (unfold wrap32; pow_consts; lia).
    rewrite Hs. constructor; [cbn [snd]; lia|].
    eapply Forall_impl; [|apply (IH {| g_epoch := g_epoch g; g_seq := g_seq g + 1 |})]; cbn [g_seq]; pow_consts; try lia.
Qed.

Lemma StronglySorted_map : forall (A B : Type) (RA : A -> A -> Prop) (RB : B -> B -> Prop) (f : A -> B) (P : A -> Prop) l,
  (forall x y, P x -> P y -> RA x y -> RB (f x) (f y)) ->
  Forall P l -> StronglySorted RA l -> StronglySorted RB (map f l).
Proof.
  intros A B RA RB f P l Hf HP Hs. induction Hs as [|a l Hs IH Hall]; cbn [map]; [constructor|].
  inversion HP as [|? ? Pa Pl]; subst.
  constructor; [auto|].
  rewrite Forall_forall in *. intros y Hy. apply in_map_iff in Hy. destruct Hy as [x [Hx Hin]]. subst y.
  apply Hf; auto.
Qed.

(* ids_unique_ordered, generator level, from any state whose epoch is not ahead of the clock *)
Lemma gen_ids_ordered_from : forall suffix g nows,
  nondecreasing (g_epoch g) nows -> int32_range (g_seq g) ->
  Forall ts_ok nows ->
  Forall (fun p => seq_ok (snd p)) (gen_pairs g nows) ->
  ids_ordered (gen_ids suffix g nows).
Proof.
  intros suffix g nows Hmono Hr Hts Hseq. unfold ids_ordered, gen_ids.
  destruct (gen_pairs_sorted nows g Hmono Hr) as [Hs _].
  { eapply Forall_impl; [|exact Hseq]. intros p Hp. unfold seq_nonneg, seq_ok in *. lia. }
  apply (StronglySorted_map _ _ pair_lt lex_lt (format_id suffix) pair_ok); [| |exact Hs].
  - intros x y Hx Hy Hxy. apply format_id_lt; assumption.
  - rewrite Forall_forall in *. intros p Hp. split.
    + apply Hts. rewrite <- (gen_pairs_fst nows g). apply in_map. assumption.
    + apply Hseq. assumption.
Qed.

Lemma nondecreasing_lower : forall l lo, nondecreasing lo l -> Forall (fun t => lo <= t)%Z l.
Proof.
  induction l as [|x l IH]; intros lo H; [constructor|].
  cbn [nondecreasing] in H. destruct H as [Hle H].
  constructor; [assumption|].
  eapply Forall_impl; [|apply (IH x H)]. intros t Ht. cbn beta in *. lia.
Qed.

Lemma nondecreasing_weaken : forall l lo lo', (lo' <= lo)%Z -> nondecreasing lo l -> nondecreasing lo' l.
Proof. destruct l as [|x l]; intros lo lo' Hle H; [exact I|]. cbn [nondecreasing] in *. split; [lia|tauto]. Qed.

Lemma ts_ok_of_bounds : forall nows,
  nondecreasing 0 nows -> Forall (fun t => t < 10 ^ 19)%Z nows -> Forall ts_ok nows.
Proof.
  intros nows Hm Hb. pose proof (nondecreasing_lower nows 0%Z Hm) as Hl.
  rewrite Forall_forall in *. intros t Hin. unfold ts_ok. split; [apply Hl|apply Hb]; assumption.
Qed.

Lemma ids_unique_ordered_lemma : forall suffix nows,
  nondecreasing 0 nows ->
  Forall (fun t => t < 10 ^ 19)%Z nows ->
  Forall (fun p => 0 <= snd p < 10 ^ 8)%Z (gen_pairs idgen_init nows) ->
  ids_ordered (gen_ids suffix idgen_init nows) /\ NoDup (gen_ids suffix idgen_init nows).
Proof.
  intros suffix nows Hmono Hts Hseq.
  assert (Hord : ids_ordered (gen_ids suffix idgen_init nows)).
  { apply gen_ids_ordered_from.
    - exact Hmono.
    - unfold int32_range. cbn. lia.
    - apply ts_ok_of_bounds; assumption.
    - exact Hseq. }
  split; [assumption|apply sorted_lex_NoDup; assumption].
Qed.

(* the same with a hypothesis on the inputs only: fewer than 10^8 ids *)
Lemma ids_unique_ordered_count_lemma : forall suffix nows,
  nondecreasing 0 nows ->
  Forall (fun t => t < 10 ^ 19)%Z nows ->
  (Z.of_nat (length nows) < 10 ^ 8)%Z ->
  ids_ordered (gen_ids suffix idgen_init nows) /\ NoDup (gen_ids suffix idgen_init nows).
Proof.
  intros suffix nows Hmono Hts Hlen. apply ids_unique_ordered_lemma; try assumption.
  eapply Forall_impl; [|apply gen_pairs_seq_bound]; cbn [idgen_init g_seq]; pow_consts; try lia.
Qed.

(* the order of the ids IS the generation order: id i sorts before id j exactly when i < j *)
Lemma StronglySorted_nth : forall (A : Type) (Rel : A -> A -> Prop) (l : list A) (d : A),
  StronglySorted Rel l -> forall i j, (i < j < length l)%nat -> Rel (nth i l d) (nth j l d).
Proof.
  intros A Rel l d Hs. induction Hs as [|a l Hs IH Hall]; intros i j Hij; cbn [length] in *; [lia|].
  destruct j as [|j]; [lia|]. destruct i as [|i]; cbn [nth].
  - rewrite Forall_forall in Hall. apply Hall. apply nth_In. lia.
  - apply IH. lia.
Qed.

Lemma ids_order_is_generation_order_lemma : forall suffix nows i j,
  nondecreasing 0 nows ->
  Forall (fun t => t < 10 ^ 19)%Z nows ->
  (Z.of_nat (length nows) < 10 ^ 8)%Z ->
  (i < length nows)%nat -> (j < length nows)%nat ->
  (lex_lt (nth i (gen_ids suffix idgen_init nows) []) (nth j (gen_ids suffix idgen_init nows) []) <-> (i < j)%nat).
Proof.
  intros suffix nows i j Hm Ht Hl Hi Hj.
  destruct (ids_unique_ordered_count_lemma suffix nows Hm Ht Hl) as [Hord _].
  assert (Hlen : length (gen_ids suffix idgen_init nows) = length nows).
  { unfold gen_ids. rewrite map_length. rewrite <- (gen_pairs_fst nows idgen_init) at 2. rewrite map_length. reflexivity. }
  split.
  - intro H. destruct (Nat.lt_trichotomy i j) as [?|[Heq|Hgt]]; [assumption| |].
    + subst j. exfalso. exact (lex_lt_irrefl _ H).
    + exfalso. apply (lex_lt_asym _ _ H). apply StronglySorted_nth; [assumption|lia].
  - intro H. apply StronglySorted_nth; [assumption|lia].
Qed.

(* ------------------------------------------------------------------ *)
(* the assumption is needed: a clock that steps back repeats an id      *)

Definition backwards_readings : list Z := [100; 100; 101; 100]%Z.

Lemma clock_backwards_refuted_lemma :
  exists nows, ~ nondecreasing 0 nows /\ Forall (fun t => 0 <= t < 10 ^ 19)%Z nows /\ ~ NoDup (gen_ids suffix_ff idgen_init nows).
Proof.
  exists backwards_readings. split; [|split].
  - unfold backwards_readings. cbn [nondecreasing]. lia.
  - unfold backwards_readings. repeat constructor; lia.
  - intro H.
    assert (Hc : gen_ids suffix_ff idgen_init backwards_readings =
                 [ format_id suffix_ff (100, 0); format_id suffix_ff (100, 1);
                   format_id suffix_ff (101, 0); format_id suffix_ff (100, 1) ]%Z) by (vm_compute; reflexivity).
    rewrite Hc in H. inversion H as [|? ? _ H1]; subst. inversion H1 as [|? ? Hnotin _]; subst.
    apply Hnotin. right. left. reflexivity.
Qed.

(* the 8-digit bound on the sequence is needed for the ORDER (not for uniqueness): with a 9-digit sequence
   number the byte-wise order no longer follows the generation order *)
Lemma sequence_width_refuted_lemma :
  exists t s1 s2 : Z, (0 <= t < 10 ^ 19 /\ 0 <= s1 < s2 /\ s2 = 10 ^ 8)%Z /\
    ~ lex_lt (format_id suffix_ff (t, s1)) (format_id suffix_ff (t, s2)) /\
    lex_lt (format_id suffix_ff (t, s2)) (format_id suffix_ff (t, s1)).
Proof.
  exists 100%Z, 99999999%Z, 100000000%Z. split; [|split].
  - pow_consts. lia.
  - intro H. apply bytes_ltb_spec in H. vm_compute in H. discriminate.
  - apply bytes_ltb_spec. vm_compute. reflexivity.
Qed.
