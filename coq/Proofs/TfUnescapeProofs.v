(* C15: the chunked RunToBuffer loop of Model/TfUnescape.v computes the reference unescaper. *)
From SV Require Import Model.Common Model.TfUnescape Spec.TfUnescapeSpec.
From Coq Require Import Lia ZifyBool ZifyN ZifyNat.
Ltac Zify.zify_post_hook ::= Z.div_mod_to_equations.
Open Scope N_scope.

Lemma index_byte_some : forall s c n, index_byte s c = Some n ->
  (n < length s)%nat /\ Forall (fun b => b <> c) (firstn n s) /\ exists t, skipn n s = c :: t.
Proof.
  induction s as [|b t IH]; intros c n H; [discriminate|].
  cbn [index_byte] in H. destruct (b =? c) eqn:E.
  - inversion H; subst. cbn. split; [lia|]. split; [constructor|]. exists t. f_equal. lia.
  - destruct (index_byte t c) as [m|] eqn:Em; [|discriminate]. inversion H; subst.
    destruct (IH c m Em) as (Hl & Hf & u & Hu). cbn [length firstn skipn]. split; [lia|]. split.
    + constructor; [lia|assumption].
    + exists u. assumption.
Qed.

Lemma index_byte_none : forall s c, index_byte s c = None -> Forall (fun b => b <> c) s.
Proof.
  induction s as [|b t IH]; intros c H; [constructor|].
  cbn [index_byte] in H. destruct (b =? c) eqn:E; [discriminate|].
  destruct (index_byte t c) eqn:Em; [discriminate|]. constructor; [lia|apply IH; assumption].
Qed.

Lemma unesc_ref_no_esc : forall esc m a t, Forall (fun b => b <> esc) a ->
  unesc_ref esc m (a ++ t) = a ++ unesc_ref esc m t.
Proof.
  intros esc m a t H. induction H as [|b a Hb Ha IH]; [reflexivity|].
  cbn [app unesc_ref]. destruct (b =? esc) eqn:E; [lia|]. f_equal. exact IH.
Qed.

Lemma unesc_ref_no_esc_all : forall esc m a, Forall (fun b => b <> esc) a -> unesc_ref esc m a = a.
Proof.
  intros. rewrite <- (app_nil_r a) at 1. rewrite unesc_ref_no_esc by assumption. cbn. apply app_nil_r.
Qed.

Definition starts_with_esc (u : unescaper) (s : bytes) : Prop :=
  match s with [] => True | c :: _ => c = u_esc u end.

Lemma run_loop_spec : forall fuel u rest out,
  starts_with_esc u rest -> (length rest < fuel)%nat ->
  run_loop fuel u rest out = Some (out ++ unesc_ref (u_esc u) (u_map u) rest).
Proof.
  induction fuel as [|fuel IH]; intros u rest out Hs Hf; [lia|].
  cbn [run_loop]. destruct rest as [|e [|val rest']].
  - reflexivity.
  - cbn in Hs. subst e. cbn [unesc_ref]. rewrite N.eqb_refl. reflexivity.
  - cbn in Hs. subst e.
    set (n := match index_byte rest' (u_esc u) with Some n => n | None => length rest' end).
    assert (Hsplit : Forall (fun b => b <> u_esc u) (firstn n rest') /\ starts_with_esc u (skipn n rest')).
    { unfold n. destruct (index_byte rest' (u_esc u)) as [k|] eqn:E.
      - destruct (index_byte_some _ _ _ E) as (_ & Hf' & t & Ht). split; [assumption|]. rewrite Ht. reflexivity.
      - rewrite firstn_all, skipn_all. split; [apply index_byte_none; assumption|exact I]. }
    destruct Hsplit as [Hno Hst].
    rewrite IH; [|assumption|rewrite skipn_length; cbn [length] in Hf; lia].
    f_equal. cbn [unesc_ref]. rewrite N.eqb_refl.
    assert (Hr : unesc_ref (u_esc u) (u_map u) rest' =
                 firstn n rest' ++ unesc_ref (u_esc u) (u_map u) (skipn n rest')).
    { rewrite <- (firstn_skipn n rest') at 1. apply unesc_ref_no_esc. assumption. }
    rewrite Hr.
    destruct (u_map u val =? 0); rewrite <- !app_assoc; reflexivity.
Qed.

(* RunFromFirst on the position of the first escape byte computes the reference *)
Lemma run_from_first_spec : forall u src first,
  index_byte src (u_esc u) = Some first ->
  run_from_first u src first = Some (unesc_ref (u_esc u) (u_map u) src).
Proof.
  intros u src first H. destruct (index_byte_some _ _ _ H) as (Hl & Hno & t & Ht).
  unfold run_from_first. rewrite run_loop_spec.
  - f_equal. rewrite <- (firstn_skipn first src) at 3. symmetry. apply unesc_ref_no_esc. assumption.
  - rewrite Ht. reflexivity.
  - rewrite skipn_length. lia.
Qed.

(* Run never runs out of fuel and computes the reference *)
Lemma unescape_run_spec : forall u s, unescape_run u s = Some (unesc_ref (u_esc u) (u_map u) s).
Proof.
  intros u s. unfold unescape_run. destruct (index_byte s (u_esc u)) as [first|] eqn:E.
  - apply run_from_first_spec. assumption.
  - rewrite unesc_ref_no_esc_all by (apply index_byte_none; assumption). reflexivity.
Qed.

(* the output never exceeds the input: the destination buffer of len(src) is large enough *)
Lemma unesc_ref_length_aux : forall esc m n s, (length s <= n)%nat ->
  (length (unesc_ref esc m s) <= length s)%nat.
Proof.
  intros esc m. induction n as [|n IH]; intros s Hn.
  - destruct s; [cbn; lia|cbn in Hn; lia].
  - destruct s as [|c t]; [cbn; lia|]. cbn [unesc_ref].
    destruct (c =? esc).
    + destruct t as [|v t']; [cbn; lia|].
      assert (Hl : (length (unesc_ref esc m t') <= length t')%nat) by (apply IH; cbn in Hn; lia).
      destruct (m v =? 0); cbn [length] in *; lia.
    + assert (Hl : (length (unesc_ref esc m t) <= length t)%nat) by (apply IH; cbn in Hn; lia).
      cbn [length]. lia.
Qed.

Lemma unesc_ref_length : forall esc m s, (length (unesc_ref esc m s) <= length s)%nat.
Proof. intros. apply (unesc_ref_length_aux esc m (length s)). lia. Qed.

(* the two unescapers of the transforms *)
Lemma syslog_map : forall c,
  u_map syslog_unescaper c =
  if c =? 92 then 92 else if c =? 98 then 8 else if c =? 102 then 12 else if c =? 110 then 10
  else if c =? 114 then 13 else if c =? 116 then 9 else 0.
Proof. intros c. reflexivity. Qed.
