(* Every event of the hybrid-buffer LTS preserves the invariant (Proofs/BufferInv.v). *)
From SV Require Import Model.Common Model.FileWrite Model.Buffer Spec.BufferSpec Proofs.CommonFacts Proofs.FileWriteProofs Proofs.BufferInv.
From Coq Require Import Lia ZifyBool ZifyN ZifyNat Sorting.Sorted.
Ltac Zify.zify_post_hook ::= Z.div_mod_to_equations.

Ltac simp_state :=
  unfold inflight, tracked, entered, acc_ids, enq_ids, offered_ids in *;
  cbn [st_dir st_ever st_gen st_up st_dirok st_Q st_M st_max st_queue st_closed st_fpc st_win st_hold st_cons st_met st_gh
       set_dir set_ever set_gen set_up set_dirok set_Q set_M set_max set_queue set_closed set_fpc set_win set_hold set_cons set_met set_gh
       gh crash_with
       g_acc g_rec g_init g_proc g_offered g_out g_confirmed g_dropped g_retained g_initbytes g_maxfw
       gset_acc gset_rec gset_init gset_proc gset_offered gset_out gset_confirmed gset_dropped gset_retained gset_initbytes gset_maxfw
       g_accept g_drop g_retain g_confirm g_process g_offer g_outadd
       m_pbytes m_pchunks m_ioerr m_pending m_in_t m_in_p m_consumed m_leftover m_dropped m_q_t m_q_p
       add_pbytes add_pchunks add_ioerr add_pending add_in_t add_in_p add_consumed add_leftover add_dropped add_q_t add_q_p
       man_on_dropped man_on_input
       hand hand_all main_loop feeder_ids after_queue saving writing_pc] in *.

(* goals that are an unchanged field, or vacuous because the program counter is another one *)
Ltac field_trivial :=
  first [ assumption
        | solve [intros; discriminate]
        | solve [intros ? ? HH; inversion HH]
        | solve [intros [HH|HH]; inversion HH]
        | solve [intros HH; inversion HH]
        | solve [intros; assumption]
        | solve [split; first [assumption | intros; discriminate | intros HH; inversion HH | intros; assumption]] ].

Ltac cnt_cons_all :=
  repeat match goal with
         | |- context [cnt ?x (?y :: ?l)] => lazymatch l with nil => fail | _ => rewrite (cnt_cons x y l) end
         | H : context [cnt ?x (?y :: ?l)] |- _ => lazymatch l with nil => fail | _ => rewrite (cnt_cons x y l) in H end
         end.

Ltac cnt_norm :=
  unfold ids in *; rewrite ?map_app in *; cbn [map] in *; rewrite ?cnt_app in *; cnt_cons_all; rewrite ?cnt_nil in *.

(* i_count after an event that only moves chunks around *)
Ltac count_move Hc := let x := fresh "x" in intros x; specialize (Hc x); cnt_norm; lia.

Ltac in_norm := rewrite ?in_app_iff in *; cbn [In] in *.

(* wf_chunk of a chunk that was tracked before, when the event leaves its file and the history alone *)
Ltac wf_same Hch :=
  let c0 := fresh "c0" in let Hc0 := fresh "Hc0" in
  intros c0 Hc0; eapply wf_chunk_frame; [| | | | | apply Hch];
  [simp_state; try reflexivity | simp_state; try apply incl_refl | simp_state; try reflexivity
   | simp_state; try reflexivity | simp_state; try reflexivity | simp_state; in_norm; try tauto].

(* ---------- the chunk operator ---------- *)

Lemma unload_check_yes : forall dirok maxb m c, unload_check dirok maxb m c = UYes -> c_saved c = true.
Proof.
  intros dirok maxb m c H. unfold unload_check in H. destruct (c_saved c); [reflexivity|].
  destruct (c_data c); [|discriminate]. destruct (negb dirok); [discriminate|].
  destruct (_ >? _)%Z; discriminate.
Qed.

Lemma unload_check_no : forall dirok maxb m c, unload_check dirok maxb m c = UNo -> c_saved c = false.
Proof.
  intros dirok maxb m c H. unfold unload_check in H. destruct (c_saved c); [discriminate|reflexivity].
Qed.

Lemma unload_check_write : forall dirok maxb m c data,
  unload_check dirok maxb m c = UWrite data ->
  c_saved c = false /\ c_data c = Some data /\ dirok = true /\ (m_pbytes m + Z.of_nat (length data) <= maxb)%Z.
Proof.
  intros dirok maxb m c data H. unfold unload_check in H. destruct (c_saved c); [discriminate|].
  destruct (c_data c) as [d|]; [|discriminate]. destruct dirok; cbn [negb] in H; [|discriminate].
  destruct (_ >? _)%Z eqn:E; [discriminate|]. inversion H; subst. repeat split. lia.
Qed.

Lemma op_on_dropped_pbytes_unsaved : forall m c, c_saved c = false -> op_on_dropped m c = m.
Proof. intros m c H. unfold op_on_dropped. rewrite H. reflexivity. Qed.

Lemma unload_write_ret : forall ws d m c data d' m' c' ok,
  unload_write ws d m c data = URet d' m' c' ok ->
  frame d d' (c_id c) /\ (dir_sorted d -> dir_sorted d') /\
  (ok = true -> c' = unloaded c /\ dir_get d' (c_id c) = Some (EFile data) /\
                m' = add_pbytes (Z.of_nat (length data)) (add_pchunks 1 m)) /\
  (ok = false -> c' = c /\ dir_get d' (c_id c) = dir_get d (c_id c) /\ m' = add_ioerr 1 m).
Proof.
  intros ws d m c data d' m' c' ok H. unfold unload_write in H.
  destruct (write_file_at ws d (c_id c) data) as [d1 r] eqn:W.
  pose proof (write_frame _ _ _ _ _ _ W) as Hf. pose proof (write_sorted _ _ _ _ _ _ W) as Hs.
  destruct r; inversion H; subst; clear H; repeat split; try assumption; try discriminate.
  - apply write_ok in W. tauto.
  - eapply write_err. eassumption.
Qed.

Lemma unload_write_died : forall ws d m c data d',
  unload_write ws d m c data = UDied d' ->
  frame d d' (c_id c) /\ (dir_sorted d -> dir_sorted d') /\
  (dir_get d' (c_id c) = dir_get d (c_id c) \/ dir_get d' (c_id c) = Some (EFile data)).
Proof.
  intros ws d m c data d' H. unfold unload_write in H.
  destruct (write_file_at ws d (c_id c) data) as [d1 r] eqn:W.
  pose proof (write_frame _ _ _ _ _ _ W) as Hf. pose proof (write_sorted _ _ _ _ _ _ W) as Hs.
  destruct r; inversion H; subst; clear H. repeat split; try assumption.
  eapply write_died. eassumption.
Qed.

Lemma unload_cases : forall dirok maxb ws d m c,
  (unload_check dirok maxb m c = UYes /\ unload dirok maxb ws d m c = URet d m c true) \/
  (unload_check dirok maxb m c = UNo /\ unload dirok maxb ws d m c = URet d m c false) \/
  (exists data, unload_check dirok maxb m c = UWrite data /\
                unload dirok maxb ws d m c = unload_write ws d m c data).
Proof.
  intros. unfold unload. destruct (unload_check dirok maxb m c) as [| |data].
  - left. split; reflexivity.
  - right. left. split; reflexivity.
  - right. right. exists data. split; reflexivity.
Qed.

Lemma NoDup_app_single : forall {A} (l : list A) x, NoDup l -> ~ In x l -> NoDup (l ++ [x]).
Proof.
  intros A l x Hnd Hnin. induction l as [|a l IH]; cbn [app].
  - constructor; [intros []|constructor].
  - inversion Hnd as [|? ? Ha Hl]; subst. constructor.
    + intros Hin. apply in_app_or in Hin. destruct Hin as [Hin|[Hin|[]]]; [contradiction|].
      subst. apply Hnin. left. reflexivity.
    + apply IH; [exact Hl|]. intros Hin. apply Hnin. right. exact Hin.
Qed.

Section Proofs.
Variable matchf : name -> bool.
Variable dirsize : Z.
Hypothesis match_tmp : forall n, matchf n = true -> matchf (tmp_name n) = false.
Hypothesis match_nonempty : matchf [] = false.

Notation PInv := (PInv matchf).
Notation Inv := (Inv matchf dirsize).
Notation Good := (Good matchf dirsize).

Lemma match_neq_tmp : forall x y, matchf x = true -> matchf y = true -> x <> tmp_name y.
Proof. intros x y Hx Hy E. subst. rewrite (match_tmp _ Hy) in Hx. discriminate. Qed.

(* ---------- the persistent part ---------- *)

Lemma pinv_same : forall s s', st_dir s' = st_dir s -> st_ever s' = st_ever s -> PInv s -> PInv s'.
Proof. intros s s' Hd He [H1 H2 H3 H4]. constructor; rewrite ?Hd, ?He; assumption. Qed.

(* a directory change that leaves alone every name of the chunk namespace except x, and x holds its data or what it held *)
Lemma pinv_write : forall s s' x data,
  PInv s -> st_ever s' = st_ever s -> In (x, data) (st_ever s) ->
  dir_sorted (st_dir s') ->
  (forall y, matchf y = true -> y <> x -> dir_get (st_dir s') y = dir_get (st_dir s) y) ->
  (dir_get (st_dir s') x = dir_get (st_dir s) x \/ dir_get (st_dir s') x = Some (EFile data)) ->
  PInv s'.
Proof.
  intros s s' x data [H1 H2 H3 H4] He Hin Hs Hfr Hx. constructor; rewrite ?He; try assumption.
  intros y d Hy. destruct (name_eq_dec y x) as [E|E].
  - subst y. assert (d = data).
    { clear - H3 Hy Hin. induction (st_ever s) as [|[k v] l IH]; [contradiction|].
      cbn [map fst] in H3. inversion H3 as [|? ? Hn Hnd]; subst.
      destruct Hy as [Hy|Hy]; destruct Hin as [Hin|Hin].
      - congruence.
      - inversion Hy; subst. exfalso. apply Hn. change x with (fst (x, data)). apply in_map. exact Hin.
      - inversion Hin; subst. exfalso. apply Hn. change x with (fst (x, d)). apply in_map. exact Hy.
      - apply IH; assumption. }
    subst d. destruct Hx as [Hx|Hx]; [rewrite Hx; apply H2; exact Hy|right; exact Hx].
  - rewrite Hfr; [apply H2; exact Hy| |exact E]. apply H4. change y with (fst (y, d)). apply in_map. exact Hy.
Qed.


(* ---------- feeder: receive from the queue ---------- *)
Lemma inv_feed_take : forall s s', Inv s -> do_feed_take s = Some s' -> Inv s'.
Proof.
  intros s s' Hinv H. unfold do_feed_take in H.
  destruct (st_fpc s) eqn:Ef; try discriminate. destruct (st_queue s) as [|c q] eqn:Eq; [discriminate|].
  inversion H; subst s'; clear H.
  destruct Hinv. constructor; simp_state; rewrite ?Ef, ?Eq in *; simp_state;
    try (destruct (c_data c); simp_state); try field_trivial.
  all: try (count_move i_count).
  all: try (wf_same i_chunk).
  all: try (cbn [length] in *; lia).
Qed.

(* ---------- feeder: send to the window ---------- *)
Lemma inv_feed_push : forall s s', Inv s -> do_feed_push s = Some s' -> Inv s'.
Proof.
  intros s s' Hinv H. unfold do_feed_push in H.
  destruct (st_fpc s) as [| |c c'| | | | | |] eqn:Ef; try discriminate.
  destruct (Nat.ltb (length (st_win s)) (st_M s)) eqn:Elt; [|discriminate].
  inversion H; subst s'; clear H. apply Nat.ltb_lt in Elt.
  destruct Hinv. constructor; simp_state; rewrite ?Ef in *; simp_state; try field_trivial.
  all: try (count_move i_count).
  all: try (wf_same i_chunk).
  - (* fifo *)
    destruct i_fifo as (rest & Hr & Hm). specialize (Hm eq_refl). subst rest.
    exists (ids (st_queue s)). split; [|intros _; reflexivity].
    rewrite Hr. rewrite map_app. cbn [map fst]. rewrite <- app_assoc. reflexivity.
  - (* offered ids *)
    destruct (i_push _ _ eq_refl) as [Hid _].
    rewrite ids_app, filter_app, map_app. cbn [filter snd map fst ids]. rewrite i_offered_ids, Hid. reflexivity.
  - (* offered chunks are the original ones *)
    intros c0 Hc0. apply in_app_or in Hc0. destruct Hc0 as [Hc0|[Hc0|[]]]; [apply i_offered_orig; exact Hc0|].
    subst c0. destruct (i_push _ _ eq_refl) as [_ Hz].
    assert (Hwf : wf_chunk s c') by (apply i_chunk; in_norm; tauto).
    unfold wf_chunk in Hwf. unfold zero_length in Hz.
    destruct (c_data c') as [d|]; [|discriminate]. exists d. split; [reflexivity|].
    destruct (c_saved c').
    + tauto.
    + destruct Hwf as ((b & Hb) & _). left. exists d, b. split; [exact Hb|reflexivity].
  - rewrite i_win. rewrite app_assoc. reflexivity.
  - intros c0 Hc0. apply in_or_app. left. apply i_hold. exact Hc0.
  - rewrite app_length. cbn [length]. lia.
Qed.


(* a tracked chunk's ID is one of the chunks in flight, hence entered and accepted by the matcher *)
Lemma tracked_entered : forall s c, Inv s -> In c (tracked s) -> In (c_id c) (entered (st_gh s)).
Proof.
  intros s c Hinv Hc. apply cnt_in. rewrite <- (i_count _ _ _ Hinv).
  assert (In (c_id c) (ids (inflight s))).
  { unfold tracked, inflight in *. rewrite !ids_app. in_norm.
    destruct Hc as [Hc|[Hc|[Hc|Hc]]]; try (apply ids_in in Hc; tauto).
    right. left. destruct (st_fpc s) as [|c1|c1 c2|[l|]|[l|] c1| | |c1|] eqn:Ef; cbn [hand hand_all ids map In] in *; try tauto.
    all: try (destruct Hc as [Hc|Hc]; [subst; tauto|try contradiction]).
    - destruct (i_push _ _ _ Hinv _ _ Ef) as [Hid _].
      destruct Hc as [Hc|[Hc|[]]]; subst; [left; exact Hid|tauto].
    - destruct Hc as [Hc|[]]. subst. tauto. }
  apply cnt_in in H. lia.
Qed.

Lemma tracked_nonempty_id : forall s c, Inv s -> In c (tracked s) -> c_id c <> [].
Proof.
  intros s c Hinv Hc E. apply (tracked_entered _ _ Hinv) in Hc. apply (i_match _ _ _ Hinv) in Hc.
  rewrite E in Hc. rewrite match_nonempty in Hc. discriminate.
Qed.

(* ---------- feeder: leaves the main loop ---------- *)
Lemma inv_feed_stop : forall s s', Inv s -> do_feed_stop s = Some s' -> Inv s'.
Proof.
  intros s s' Hinv H. unfold do_feed_stop in H.
  destruct (st_fpc s) as [| |c c'| | | | | |] eqn:Ef; try discriminate.
  - destruct (st_queue s) eqn:Eq; [|discriminate]. destruct (st_closed s) eqn:Ec; [|discriminate].
    inversion H; subst s'; clear H.
    destruct Hinv. constructor; simp_state; rewrite ?Ef, ?Eq in *; simp_state; try field_trivial.
    all: try (count_move i_count).
    all: try (wf_same i_chunk).
    destruct i_fifo as (rest & Hr & _). exists rest. split; [exact Hr|intros; discriminate].
  - destruct (st_closed s) eqn:Ec; [|discriminate].
    assert (Hne : c_id c <> []).
    { apply (tracked_nonempty_id s c Hinv). unfold tracked. rewrite Ef. cbn [hand_all]. in_norm. tauto. }
    destruct (c_id c) as [|b0 idr] eqn:Eid; [congruence|].
    inversion H; subst s'; clear H.
    destruct Hinv. destruct (i_push _ _ Ef) as [Hid _].
    constructor; simp_state; rewrite ?Ef in *; simp_state; try field_trivial.
    all: try (wf_same i_chunk).
    + intros x. specialize (i_count x). cnt_norm. rewrite Hid, Eid in i_count. rewrite Eid. lia.
    + destruct i_fifo as (rest & Hr & _). exists rest. split; [exact Hr|intros; discriminate].
Qed.

Lemma inv_save_end : forall s s', Inv s -> do_save_end s = Some s' -> Inv s'.
Proof.
  intros s s' Hinv H. unfold do_save_end in H.
  destruct (st_fpc s) as [| | |[l|]| | | | |] eqn:Ef; try discriminate.
  - (* saveQueued returns *)
    destruct (st_queue s) eqn:Eq; [|discriminate].
    inversion H; subst s'; clear H.
    destruct Hinv. constructor; simp_state; rewrite ?Ef, ?Eq in *; simp_state; try field_trivial.
    all: try (count_move i_count).
    all: try (wf_same i_chunk).
    all: try (split; [intros; reflexivity|intros HH; inversion HH]).
  - (* saveOutput returns *)
    destruct (st_win s) eqn:Ew; [|discriminate].
    inversion H; subst s'; clear H.
    destruct Hinv. constructor; simp_state; rewrite ?Ef, ?Ew in *; simp_state; try field_trivial.
    all: try (count_move i_count).
    all: try (wf_same i_chunk).
    all: try (destruct i_empty as [Hq _]; split; [intros; apply Hq; reflexivity|intros; reflexivity]).
Qed.

Lemma inv_feed_stopped : forall s s', Inv s -> do_feed_stopped s = Some s' -> Inv s'.
Proof.
  intros s s' Hinv H. unfold do_feed_stopped in H.
  destruct (st_fpc s) eqn:Ef; try discriminate. destruct (st_cons s) eqn:Ec; [|discriminate].
  inversion H; subst s'; clear H.
  destruct Hinv. constructor; simp_state; rewrite ?Ef in *; simp_state; try field_trivial.
  all: try (count_move i_count).
  all: try (wf_same i_chunk).
  all: try (destruct i_empty as [Hq _]; split; [intros; apply Hq; reflexivity|intros HH; inversion HH]).
Qed.

(* events that touch neither chunks nor files *)
Lemma inv_set_cons : forall s n, Inv s -> Inv (set_cons n s).
Proof.
  intros s n Hinv. destruct Hinv. constructor; simp_state; try field_trivial.
  all: try (wf_same i_chunk).
Qed.

Lemma inv_set_closed : forall s, Inv s -> Inv (set_closed true s).
Proof.
  intros s Hinv. destruct Hinv. constructor; simp_state; try field_trivial.
  all: try (wf_same i_chunk).
  all: try (intros; reflexivity).
Qed.

(* ---------- consumer: receive from the window ---------- *)
Lemma inv_cons_take : forall s s', Inv s -> do_cons_take s = Some s' -> Inv s'.
Proof.
  intros s s' Hinv H. unfold do_cons_take in H.
  destruct (st_win s) as [|c w] eqn:Ew; [discriminate|].
  destruct (Nat.ltb 0 (st_cons s)); [|discriminate].
  inversion H; subst s'; clear H.
  destruct Hinv. constructor; simp_state; rewrite ?Ew in *; simp_state; try field_trivial.
  all: try (count_move i_count).
  all: try (wf_same i_chunk).
  - rewrite i_win, map_app. cbn [map fst]. rewrite <- app_assoc. reflexivity.
  - intros c0 Hc0. apply in_app_or in Hc0. destruct Hc0 as [Hc0|[Hc0|[]]]; [apply i_hold; exact Hc0|].
    subst c0. rewrite i_win. apply in_or_app. right. left. reflexivity.
  - cbn [length] in *. lia.
  - destruct i_empty as [Hq Hw]. split; [exact Hq|]. intros Hp. apply Hw in Hp. discriminate.
Qed.


(* ---------- who may own a name ---------- *)
Lemma ids_of_tracked_lists : forall p q w h c,
  (forall c1 c2, p = FPush c1 c2 -> c_id c2 = c_id c1) ->
  In c (q ++ hand_all p ++ w ++ h) -> In (c_id c) (ids (q ++ hand p ++ w ++ h)).
Proof.
  intros p q w h c Hp Hc. rewrite !ids_app. in_norm.
  destruct Hc as [Hc|[Hc|[Hc|Hc]]]; try (apply ids_in in Hc; tauto).
  right. left. destruct p as [|c1|c1 c2|[l|]|[l|] c1| | |c1|] eqn:Ef; cbn [hand hand_all ids map In] in *; try tauto.
  all: try (destruct Hc as [Hc|Hc]; [subst; tauto|try contradiction]).
  - specialize (Hp _ _ eq_refl). destruct Hc as [Hc|[Hc|[]]]; subst; [left; exact Hp|tauto].
  - destruct Hc as [Hc|[]]. subst. tauto.
Qed.

Lemma ids_inflight_of_tracked : forall s c,
  (forall c1 c2, st_fpc s = FPush c1 c2 -> c_id c2 = c_id c1) ->
  In c (tracked s) -> In (c_id c) (ids (inflight s)).
Proof. intros s c Hp Hc. apply ids_of_tracked_lists; assumption. Qed.

Lemma class_entered : forall s y, Inv s ->
  In y (g_retained (st_gh s)) \/ In y (g_confirmed (st_gh s)) \/ In y (g_dropped (st_gh s)) ->
  In y (entered (st_gh s)).
Proof.
  intros s y Hinv H. apply cnt_in. rewrite <- (i_count _ _ _ Hinv).
  destruct H as [H|[H|H]]; apply cnt_in in H; lia.
Qed.

Lemma class_match : forall s y, Inv s ->
  In y (g_retained (st_gh s)) \/ In y (g_confirmed (st_gh s)) \/ In y (g_dropped (st_gh s)) ->
  matchf y = true.
Proof. intros s y Hinv H. apply (i_match _ _ _ Hinv). apply class_entered; assumption. Qed.

Lemma tracked_match : forall s c, Inv s -> In c (tracked s) -> matchf (c_id c) = true.
Proof. intros s c Hinv H. apply (i_match _ _ _ Hinv). apply tracked_entered; assumption. Qed.

(* a chunk of the window or of the consumer is loaded, and if it is saved its file holds exactly its bytes *)
Lemma offered_loaded : forall s c, Inv s -> In c (g_offered (st_gh s)) -> exists d, c_data c = Some d.
Proof. intros s c Hinv H. destruct (i_offered_orig _ _ _ Hinv c H) as (d & Hd & _). exists d. exact Hd. Qed.

(* ---------- consumer: OnChunkConsumed ---------- *)
Lemma inv_consumed : forall s s' i, PInv s -> Inv s -> do_consumed i s = Some s' -> PInv s' /\ Inv s'.
Proof.
  intros s s' i Hp Hinv H. unfold do_consumed in H.
  destruct (nth_error (st_hold s) i) as [c|] eqn:En; [|discriminate].
  destruct (Nat.ltb 0 (st_cons s)); [|discriminate].
  destruct (op_remove (st_dirok s) (st_dir s) (st_met s) c) as [d m] eqn:Er.
  inversion H; subst s'; clear H.
  destruct (nth_error_split_remove _ _ _ En) as (l1 & l2 & Hl & Hrm).
  assert (Hct : In c (tracked s)) by (unfold tracked; rewrite Hl; in_norm; tauto).
  assert (Hwf : wf_chunk s c) by (apply (i_chunk _ _ _ Hinv); exact Hct).
  assert (Hoff : In c (g_offered (st_gh s))) by (apply (i_hold _ _ _ Hinv); rewrite Hl; in_norm; tauto).
  destruct (offered_loaded _ _ Hinv Hoff) as (dat & Hdat).
  assert (Hm : matchf (c_id c) = true) by (apply tracked_match with (s := s); assumption).
  assert (Hent : In (c_id c) (entered (st_gh s))) by (apply tracked_entered; assumption).
  (* the ID of c occurs nowhere else *)
  pose proof (i_count _ _ _ Hinv (c_id c)) as Hcnt.
  pose proof (proj1 (nodup_cnt _) (i_nodup _ _ _ Hinv) (c_id c)) as Hle.
  unfold inflight in Hcnt. rewrite Hl in Hcnt. cnt_norm. rewrite cnt_single_same in Hcnt.
  (* what op_remove did *)
  assert (Hrem : (d = st_dir s \/ d = dir_del (st_dir s) (c_id c)) /\ dir_get d (c_id c) = None /\
                 m_pbytes m = (m_pbytes (st_met s) - esize dirsize (dir_get (st_dir s) (c_id c)))%Z /\
                 (0 <= esize dirsize (dir_get (st_dir s) (c_id c)))%Z /\
                 m_dropped m = m_dropped (st_met s) /\ m_consumed m = m_consumed (st_met s)).
  { unfold op_remove in Er. unfold wf_chunk in Hwf. rewrite Hdat in Hwf.
    destruct (c_saved c) eqn:Es; cbn [negb] in Er.
    - destruct Hwf as (Hd & _ & Hok). rewrite Hok in Er. cbn [negb] in Er.
      unfold unlink_file_at in Er. rewrite Hd in Er. inversion Er; subst d m; clear Er.
      split; [right; reflexivity|]. split; [apply dir_get_del_same|].
      rewrite Hd. cbn [esize]. split; [|split; [lia|split; reflexivity]].
      simp_state. unfold dlen. rewrite Hdat. lia.
    - destruct Hwf as (_ & Hd). inversion Er; subst d m; clear Er.
      split; [left; reflexivity|]. split; [exact Hd|].
      rewrite Hd. cbn [esize]. split; [lia|split; [lia|split; reflexivity]]. }
  destruct Hrem as (Hd & Hnone & Hpb & Hsz & Hdr & Hco).
  assert (Hfr : forall y, y <> c_id c -> dir_get d y = dir_get (st_dir s) y).
  { intros y Hy. destruct Hd as [Hd|Hd]; subst d; [reflexivity|apply dir_get_del_other; exact Hy]. }
  assert (Hsorted : dir_sorted d).
  { destruct Hd as [Hd|Hd]; subst d; [apply (p_sorted _ _ Hp)|apply dir_sorted_del; apply (p_sorted _ _ Hp)]. }
  split.
  { (* persistent part *)
    destruct Hp as [P1 P2 P3 P4]. constructor; simp_state; try assumption.
    intros x dx Hx. destruct (name_eq_dec x (c_id c)) as [E|E]; [subst x; left; exact Hnone|].
    rewrite Hfr by exact E. apply P2. exact Hx. }
  assert (Hother : forall c0, In c0 (st_queue s ++ hand_all (st_fpc s) ++ st_win s ++ l1 ++ l2) -> c_id c0 <> c_id c).
  { intros c0 Hc0 E. apply ids_of_tracked_lists in Hc0; [|intros c1 c2 Ef; apply (i_push _ _ _ Hinv _ _ Ef)].
    rewrite E in Hc0. apply cnt_in in Hc0. cnt_norm. lia. }
  destruct Hinv. constructor; simp_state; rewrite ?Hrm in *; try field_trivial.
  - intros x. specialize (i_count x). rewrite Hl in i_count. cnt_norm. lia.
  - intros c0 Hc0. eapply wf_chunk_frame with (s := s); simp_state;
      [apply Hfr; apply Hother; exact Hc0|apply incl_refl|reflexivity|reflexivity|reflexivity|].
    apply i_chunk. rewrite Hl. in_norm. tauto.
  - intros x Hx. rewrite Hfr; [apply i_ret; exact Hx|]. intros E. subst x. apply cnt_in in Hx. lia.
  - intros x Hx. apply in_app_or in Hx. destruct Hx as [Hx|[Hx|[]]]; [|subst x; exact Hnone].
    destruct (name_eq_dec x (c_id c)) as [E|E]; [subst x; exact Hnone|]. rewrite Hfr by exact E. apply i_conf. exact Hx.
  - rewrite (owned_sum_change dirsize (st_dir s) d _ (c_id c) i_nodup Hent).
    + rewrite Hnone. cbn [esize]. lia.
    + intros y _ Hy. apply Hfr. exact Hy.
  - lia.
  - intros l c0 Ef. destruct (i_savew l c0 Ef) as (H1 & H2). split; [lia|exact H2].
  - lia.
  - rewrite app_length. cbn [length]. lia.
  - intros c0 Hc0. apply i_hold. rewrite Hl. in_norm. tauto.
Qed.


(* ---------- a directory change at (the temporary name of) x: what it leaves alone ---------- *)
Lemma frame_matching : forall d d' x,
  frame d d' x -> matchf x = true ->
  forall y, matchf y = true -> y <> x -> dir_get d' y = dir_get d y.
Proof. intros d d' x Hf Hx y Hy Hne. apply Hf; [exact Hne|]. apply match_neq_tmp; assumption. Qed.

Lemma dir_update_frame : forall s d' x,
  Inv s ->
  (forall y, matchf y = true -> y <> x -> dir_get d' y = dir_get (st_dir s) y) ->
  (forall c0, In c0 (tracked s) -> c_id c0 <> x -> wf_chunk (set_dir d' s) c0) /\
  (forall y, In y (g_retained (st_gh s)) -> y <> x -> exists e, dir_get d' y = Some e /\ is_orig (st_gh s) y e) /\
  (forall y, In y (g_confirmed (st_gh s)) -> y <> x -> dir_get d' y = None) /\
  (In x (entered (st_gh s)) ->
     owned_sum dirsize d' (entered (st_gh s)) =
     (owned_sum dirsize (st_dir s) (entered (st_gh s)) - esize dirsize (dir_get (st_dir s) x) + esize dirsize (dir_get d' x))%Z) /\
  (~ In x (entered (st_gh s)) ->
     owned_sum dirsize d' (entered (st_gh s)) = owned_sum dirsize (st_dir s) (entered (st_gh s))).
Proof.
  intros s d' x Hinv Hfr. repeat split.
  - intros c0 Hc0 Hne. eapply wf_chunk_frame with (s := s); simp_state;
      [|apply incl_refl|reflexivity|reflexivity|reflexivity|apply (i_chunk _ _ _ Hinv); exact Hc0].
    apply Hfr; [|exact Hne]. apply tracked_match with (s := s); assumption.
  - intros y Hy Hne. rewrite Hfr; [apply (i_ret _ _ _ Hinv); exact Hy| |exact Hne].
    apply class_match with (s := s); tauto.
  - intros y Hy Hne. rewrite Hfr; [apply (i_conf _ _ _ Hinv); exact Hy| |exact Hne].
    apply class_match with (s := s); tauto.
  - intros Hin. apply owned_sum_change; [apply (i_nodup _ _ _ Hinv)|exact Hin|].
    intros y Hy Hne. apply Hfr; [apply (i_match _ _ _ Hinv); exact Hy|exact Hne].
  - intros Hnin. apply owned_sum_ext. intros y Hy. apply Hfr; [apply (i_match _ _ _ Hinv); exact Hy|].
    intros E. subst y. contradiction.
Qed.


(* ---------- the accounting half of the invariant, and the generic step "a chunk in flight is settled":
   it leaves the set of chunks in flight and becomes retained (its file holds its original content) or dropped ---------- *)
Record InvA (s : state) : Prop := {
  a_nodup : NoDup (entered (st_gh s));
  a_count : forall x, (cnt x (ids (inflight s)) + cnt x (g_confirmed (st_gh s)) + cnt x (g_dropped (st_gh s))
                       + cnt x (g_retained (st_gh s)) = cnt x (entered (st_gh s)))%nat;
  a_match : forall x, In x (entered (st_gh s)) -> matchf x = true;
  a_chunk : forall c, In c (tracked s) -> wf_chunk s c;
  a_ret : forall x, In x (g_retained (st_gh s)) ->
            exists e, dir_get (st_dir s) x = Some e /\ is_orig (st_gh s) x e;
  a_conf : forall x, In x (g_confirmed (st_gh s)) -> dir_get (st_dir s) x = None;
  a_space : m_pbytes (st_met s) = owned_sum dirsize (st_dir s) (entered (st_gh s));
  a_dropped : m_dropped (st_met s) = Z.of_nat (length (g_dropped (st_gh s)));
  a_acc_ever : forall x d b, In (x, d, b) (g_acc (st_gh s)) -> In (x, d) (st_ever s);
  a_rec_ever : forall x d e, In (x, d) (st_ever s) -> In x (g_rec (st_gh s)) ->
                 dir_get (g_init (st_gh s)) x = Some e -> e = EFile d
}.

Lemma settle : forall s s' c (retain : bool),
  PInv s -> Inv s -> In c (tracked s) ->
  (forall x, cnt x (ids (inflight s)) = (cnt x [c_id c] + cnt x (ids (inflight s')))%nat) ->
  (forall c0, In c0 (tracked s') -> In c0 (tracked s)) ->
  (forall c1 c2, st_fpc s' = FPush c1 c2 -> c_id c2 = c_id c1) ->
  g_acc (st_gh s') = g_acc (st_gh s) -> g_rec (st_gh s') = g_rec (st_gh s) ->
  g_init (st_gh s') = g_init (st_gh s) -> g_confirmed (st_gh s') = g_confirmed (st_gh s) ->
  g_retained (st_gh s') = (if retain then g_retained (st_gh s) ++ [c_id c] else g_retained (st_gh s)) ->
  g_dropped (st_gh s') = (if retain then g_dropped (st_gh s) else g_dropped (st_gh s) ++ [c_id c]) ->
  st_ever s' = st_ever s -> st_dirok s' = st_dirok s ->
  (forall y, matchf y = true -> y <> c_id c -> dir_get (st_dir s') y = dir_get (st_dir s) y) ->
  dir_sorted (st_dir s') ->
  (retain = true -> exists e, dir_get (st_dir s') (c_id c) = Some e /\ is_orig (st_gh s) (c_id c) e) ->
  m_pbytes (st_met s') = (m_pbytes (st_met s) - esize dirsize (dir_get (st_dir s) (c_id c))
                                              + esize dirsize (dir_get (st_dir s') (c_id c)))%Z ->
  m_dropped (st_met s') = (m_dropped (st_met s) + (if retain then 0 else 1))%Z ->
  (dir_get (st_dir s') (c_id c) = dir_get (st_dir s) (c_id c) \/
   (exists data, In (c_id c, data) (st_ever s) /\ dir_get (st_dir s') (c_id c) = Some (EFile data)) \/
   dir_get (st_dir s') (c_id c) = None) ->
  PInv s' /\ InvA s'.
Proof.
  intros s s' c retain Hp Hinv Hc Hcnt Htr Hpush Eacc Erec Einit Econf Eret Edrop Eever Edirok Hfr Hsorted Hret Hpb Hdr Hev.
  assert (Hm : matchf (c_id c) = true) by (apply tracked_match with (s := s); assumption).
  assert (Hent : In (c_id c) (entered (st_gh s))) by (apply tracked_entered; assumption).
  assert (Eent : entered (st_gh s') = entered (st_gh s)) by (unfold entered, acc_ids; rewrite Eacc, Erec; reflexivity).
  pose proof (i_count _ _ _ Hinv (c_id c)) as Hc1. rewrite Hcnt in Hc1. rewrite cnt_single_same in Hc1.
  pose proof (proj1 (nodup_cnt _) (i_nodup _ _ _ Hinv) (c_id c)) as Hle.
  destruct (dir_update_frame s (st_dir s') (c_id c) Hinv Hfr) as (F1 & F2 & F3 & F4 & _).
  split.
  - (* persistent *)
    destruct Hp as [P1 P2 P3 P4]. constructor; rewrite ?Eever; try assumption.
    intros x dx Hx. destruct (name_eq_dec x (c_id c)) as [E|E].
    + subst x. destruct Hev as [Hev|[(data & Hin & Hev)|Hev]].
      * rewrite Hev. apply P2. exact Hx.
      * assert (dx = data).
        { clear - P3 Hx Hin. induction (st_ever s) as [|[k v] l IH]; [contradiction|].
          cbn [map fst] in P3. inversion P3 as [|? ? Hn Hnd]; subst.
          destruct Hx as [Hx|Hx]; destruct Hin as [Hin|Hin].
          - congruence.
          - inversion Hx; subst. exfalso. apply Hn. change (c_id c) with (fst (c_id c, data)). apply in_map. exact Hin.
          - inversion Hin; subst. exfalso. apply Hn. change (c_id c) with (fst (c_id c, dx)). apply in_map. exact Hx.
          - apply IH; assumption. }
        subst dx. right. exact Hev.
      * left. exact Hev.
    + rewrite Hfr; [apply P2; exact Hx| |exact E]. apply P4. change x with (fst (x, dx)). apply in_map. exact Hx.
  - constructor; rewrite ?Eent, ?Eacc, ?Erec, ?Einit, ?Econf, ?Eever.
    + apply (i_nodup _ _ _ Hinv).
    + intros x. pose proof (i_count _ _ _ Hinv x) as Hx. rewrite Hcnt in Hx. rewrite Eret, Edrop.
      destruct retain; rewrite ?cnt_app; lia.
    + apply (i_match _ _ _ Hinv).
    + intros c0 Hc0. assert (Hne : c_id c0 <> c_id c).
      { intros E. apply ids_inflight_of_tracked in Hc0; [|exact Hpush]. rewrite E in Hc0. apply cnt_in in Hc0. lia. }
      eapply wf_chunk_frame with (s := set_dir (st_dir s') s); simp_state;
        [reflexivity|rewrite Eacc; apply incl_refl|exact Erec|exact Einit|exact Edirok|].
      apply F1; [apply Htr; exact Hc0|exact Hne].
    + intros x Hx. rewrite Eret in Hx.
      assert (Hmono : forall e, is_orig (st_gh s) x e -> is_orig (st_gh s') x e).
      { intros e. apply is_orig_mono; [rewrite Eacc; apply incl_refl|exact Erec|exact Einit]. }
      destruct (name_eq_dec x (c_id c)) as [E|E].
      * subst x. destruct retain.
        -- destruct (Hret eq_refl) as (e & He1 & He2). exists e. split; [exact He1|apply Hmono; exact He2].
        -- apply cnt_in in Hx. lia.
      * assert (Hx' : In x (g_retained (st_gh s))).
        { destruct retain; [|exact Hx]. apply in_app_or in Hx. destruct Hx as [Hx|[Hx|[]]]; [exact Hx|congruence]. }
        destruct (F2 x Hx' E) as (e & He1 & He2). exists e. split; [exact He1|apply Hmono; exact He2].
    + intros x Hx. apply F3; [exact Hx|]. intros E. subst x. apply cnt_in in Hx. lia.
    + rewrite Hpb, (i_space _ _ _ Hinv), (F4 Hent). lia.
    + rewrite Hdr, (i_dropped _ _ _ Hinv), Edrop. destruct retain; rewrite ?app_length; cbn [length]; lia.
    + apply (i_acc_ever _ _ _ Hinv).
    + apply (i_rec_ever _ _ _ Hinv).
Qed.


Ltac use_A HA :=
  first [ exact (a_nodup _ HA) | exact (a_count _ HA) | exact (a_match _ HA) | exact (a_chunk _ HA)
        | exact (a_ret _ HA) | exact (a_conf _ HA) | exact (a_space _ HA) | exact (a_dropped _ HA)
        | exact (a_acc_ever _ HA) | exact (a_rec_ever _ HA) ].

(* the unsaved, loaded chunk: facts from wf_chunk *)
Lemma wf_unsaved : forall s c data,
  wf_chunk s c -> c_saved c = false -> c_data c = Some data ->
  (exists b, In (c_id c, data, b) (g_acc (st_gh s))) /\ dir_get (st_dir s) (c_id c) = None.
Proof. intros s c data Hwf Hs Hd. unfold wf_chunk in Hwf. rewrite Hs, Hd in Hwf. exact Hwf. Qed.

Lemma wf_saved_orig : forall s c,
  wf_chunk s c -> c_saved c = true ->
  exists e, dir_get (st_dir s) (c_id c) = Some e /\ is_orig (st_gh s) (c_id c) e.
Proof.
  intros s c Hwf Hs. unfold wf_chunk in Hwf. rewrite Hs in Hwf. destruct (c_data c) as [d|].
  - exists (EFile d). tauto.
  - tauto.
Qed.

(* ---------- consumer: OnChunkLeftover ---------- *)
Lemma good_leftover : forall s s' i ws,
  PInv s -> Inv s -> do_leftover i ws s = Some s' -> PInv s' /\ (st_up s' = true -> Inv s').
Proof.
  intros s s' i ws Hp Hinv H. unfold do_leftover in H.
  destruct (nth_error (st_hold s) i) as [c|] eqn:En; [|discriminate].
  destruct (Nat.ltb 0 (st_cons s)); [|discriminate].
  destruct (nth_error_split_remove _ _ _ En) as (l1 & l2 & Hl & Hrm).
  assert (Hct : In c (tracked s)) by (unfold tracked; rewrite Hl; in_norm; tauto).
  assert (Hwf : wf_chunk s c) by (apply (i_chunk _ _ _ Hinv); exact Hct).
  assert (Hm : matchf (c_id c) = true) by (apply tracked_match with (s := s); assumption).
  destruct (unload_cases (st_dirok s) (st_max s) ws (st_dir s) (st_met s) c) as [[Hck Hu]|[[Hck Hu]|(data & Hck & Hu)]];
    rewrite Hu in H; clear Hu.
  - (* already saved: the file is there *)
    inversion H; subst s'; clear H. apply unload_check_yes in Hck.
    match goal with |- PInv ?S /\ _ =>
      destruct (settle s S c true Hp Hinv Hct) as [Hp' HA]; simp_state; rewrite ?Hrm in *; try reflexivity
    end.
    all: try solve [intros x; rewrite ?Hl; cnt_norm; lia].
    all: try solve [intros c0; rewrite ?Hl; in_norm; tauto].
    all: try solve [intros c1 c2 Ef; apply (i_push _ _ _ Hinv _ _ Ef)].
    all: try solve [apply (p_sorted _ _ Hp)].
    all: try lia.
    all: try solve [left; reflexivity].
    { intros _. apply wf_saved_orig; assumption. }
    split; [exact Hp'|intros _]. destruct Hinv. constructor; try (use_A HA); simp_state; rewrite ?Hrm; try field_trivial.
    intros c0 Hc0. apply i_hold. rewrite Hl. in_norm. tauto.
  - (* cannot be saved (no directory, space limit): dropped *)
    inversion H; subst s'; clear H. apply unload_check_no in Hck.
    match goal with |- PInv ?S /\ _ =>
      destruct (settle s S c false Hp Hinv Hct) as [Hp' HA]; simp_state; rewrite ?Hrm in *;
        rewrite ?(op_on_dropped_pbytes_unsaved _ _ Hck) in *; try reflexivity
    end.
    all: try solve [intros x; rewrite ?Hl; cnt_norm; lia].
    all: try solve [intros c0; rewrite ?Hl; in_norm; tauto].
    all: try solve [intros c1 c2 Ef; apply (i_push _ _ _ Hinv _ _ Ef)].
    all: try solve [apply (p_sorted _ _ Hp)].
    all: try lia.
    all: try solve [left; reflexivity].
    all: try solve [intros; discriminate].
    split; [exact Hp'|intros _]. destruct Hinv. constructor; try (use_A HA); simp_state; rewrite ?Hrm;
      rewrite ?(op_on_dropped_pbytes_unsaved _ _ Hck) in *; try field_trivial.
    intros c0 Hc0. apply i_hold. rewrite Hl. in_norm. tauto.
  - (* the write *)
    destruct (unload_check_write _ _ _ _ _ Hck) as (Hs & Hd & Hok & Hquota).
    destruct (wf_unsaved _ _ _ Hwf Hs Hd) as ((b & Hacc) & Hnone).
    assert (Hev : In (c_id c, data) (st_ever s)) by (eapply (i_acc_ever _ _ _ Hinv); eassumption).
    destruct (unload_write ws (st_dir s) (st_met s) c data) as [d m c' ok|d] eqn:Ew.
    + destruct (unload_write_ret _ _ _ _ _ _ _ _ _ Ew) as (Hf & Hsrt & Hyes & Hno).
      pose proof (frame_matching _ _ _ Hf Hm) as Hfm.
      destruct ok; inversion H; subst s'; clear H.
      * destruct (Hyes eq_refl) as (_ & Hdir & Hmet). subst m.
        match goal with |- PInv ?S /\ _ =>
          destruct (settle s S c true Hp Hinv Hct) as [Hp' HA]; simp_state; rewrite ?Hrm in *; try reflexivity
        end.
        all: try solve [intros x; rewrite ?Hl; cnt_norm; lia].
        all: try solve [intros c0; rewrite ?Hl; in_norm; tauto].
        all: try solve [intros c1 c2 Ef; apply (i_push _ _ _ Hinv _ _ Ef)].
        all: try solve [apply Hsrt; apply (p_sorted _ _ Hp)].
        all: try exact Hfm.
        { intros _. exists (EFile data). split; [exact Hdir|]. left. exists data, b. split; [exact Hacc|reflexivity]. }
        { rewrite Hdir, Hnone. cbn [esize]. lia. }
        { lia. }
        { right. left. exists data. split; assumption. }
        split; [exact Hp'|intros _]. destruct Hinv. constructor; try (use_A HA); simp_state; rewrite ?Hrm; try field_trivial.
        -- destruct i_bound. split; lia.
        -- intros l c0 Ef. destruct (i_savew l c0 Ef) as (H1 & H2). split; [lia|exact H2].
        -- intros c0 Hc0. apply i_hold. rewrite Hl. in_norm. tauto.
      * destruct (Hno eq_refl) as (_ & Hdir & Hmet). subst m.
        match goal with |- PInv ?S /\ _ =>
          destruct (settle s S c false Hp Hinv Hct) as [Hp' HA]; simp_state; rewrite ?Hrm in *;
            rewrite ?(op_on_dropped_pbytes_unsaved _ _ Hs) in *; simp_state; try reflexivity
        end.
        all: try solve [intros x; rewrite ?Hl; cnt_norm; lia].
        all: try solve [intros c0; rewrite ?Hl; in_norm; tauto].
        all: try solve [intros c1 c2 Ef; apply (i_push _ _ _ Hinv _ _ Ef)].
        all: try solve [apply Hsrt; apply (p_sorted _ _ Hp)].
        all: try exact Hfm.
        all: try solve [intros; discriminate].
        all: try solve [rewrite Hdir; lia].
        all: try solve [left; exact Hdir].
        split; [exact Hp'|intros _]. destruct Hinv. constructor; try (use_A HA); simp_state; rewrite ?Hrm;
          rewrite ?(op_on_dropped_pbytes_unsaved _ _ Hs) in *; simp_state; try field_trivial.
        intros c0 Hc0. apply i_hold. rewrite Hl. in_norm. tauto.
    + (* killed during the write *)
      inversion H; subst s'; clear H.
      destruct (unload_write_died _ _ _ _ _ _ Ew) as (Hf & Hsrt & Hcases).
      split; [|simp_state; intros; discriminate].
      eapply pinv_write with (s := s) (x := c_id c) (data := data); simp_state;
        [exact Hp|reflexivity|exact Hev|apply Hsrt; apply (p_sorted _ _ Hp)|apply (frame_matching _ _ _ Hf Hm)|exact Hcases].
Qed.


(* ---------- saveQueued / saveOutput: the write of a chunk whose space check has passed ---------- *)

(* what is known about the program counter the feeder returns to after a chunk *)
Definition back_pc (p back : fpc) (c : chunk) : Prop :=
  hand p = c :: hand back /\ hand_all p = c :: hand_all back /\
  main_loop p = false /\ main_loop back = false /\ saving back = None /\
  (forall c1 c2, back <> FPush c1 c2) /\ after_queue back = after_queue p /\ back <> FStopped.

Lemma saving_back : forall p c back, saving p = Some (c, back) -> back_pc p back c.
Proof.
  intros p c back H. unfold back_pc. destruct p as [| | |l|[l|] c0| | |c0|]; cbn [saving] in H; try discriminate;
    inversion H; subst; cbn [hand hand_all main_loop saving after_queue];
    repeat split; try reflexivity; try (intros; discriminate); try (intros ? ?; discriminate).
Qed.

Lemma good_save_write : forall s s' ws,
  PInv s -> Inv s -> do_save_write ws s = Some s' -> PInv s' /\ (st_up s' = true -> Inv s').
Proof.
  intros s s' ws Hp Hinv H. unfold do_save_write in H.
  destruct (saving (st_fpc s)) as [[c back]|] eqn:Esv; [|discriminate].
  destruct (i_savew _ _ _ Hinv _ _ Esv) as (Hle_max & Hle_fw & Hs & (data & Hd)).
  destruct (saving_back _ _ _ Esv) as (Hhand & Hhall & Hml & Hmlb & Hsb & Hnp & Haq & Hnst).
  rewrite Hd in H.
  assert (Hct : In c (tracked s)) by (unfold tracked; rewrite Hhall; in_norm; tauto).
  assert (Hwf : wf_chunk s c) by (apply (i_chunk _ _ _ Hinv); exact Hct).
  assert (Hm : matchf (c_id c) = true) by (apply tracked_match with (s := s); assumption).
  destruct (wf_unsaved _ _ _ Hwf Hs Hd) as ((b & Hacc) & Hnone).
  assert (Hev : In (c_id c, data) (st_ever s)) by (eapply (i_acc_ever _ _ _ Hinv); eassumption).
  assert (Hdl : dlen c = Z.of_nat (length data)) by (unfold dlen; rewrite Hd; reflexivity).
  assert (Hclosed : st_closed s = true) by (apply (i_closed _ _ _ Hinv); exact Hml).
  destruct (i_empty _ _ _ Hinv) as [Hq0 _].
  destruct (i_fifo _ _ _ Hinv) as (rest & Hrest & _).
  destruct (unload_write ws (st_dir s) (st_met s) c data) as [d m c' ok|d] eqn:Ew.
  - destruct (unload_write_ret _ _ _ _ _ _ _ _ _ Ew) as (Hf & Hsrt & Hyes & Hno).
    pose proof (frame_matching _ _ _ Hf Hm) as Hfm.
    destruct ok; inversion H; subst s'; clear H.
    + destruct (Hyes eq_refl) as (_ & Hdir & Hmet). subst m.
      match goal with |- PInv ?S /\ _ =>
        destruct (settle s S c true Hp Hinv Hct) as [Hp' HA]; simp_state; rewrite ?Hhand, ?Hhall in *; simp_state; try reflexivity
      end.
      all: try solve [intros x; cnt_norm; lia].
      all: try solve [intros c0; in_norm; tauto].
      all: try solve [intros c1 c2 E; exfalso; eapply Hnp; exact E].
      all: try solve [apply Hsrt; apply (p_sorted _ _ Hp)].
      all: try exact Hfm.
      { intros _. exists (EFile data). split; [exact Hdir|]. left. exists data, b. split; [exact Hacc|reflexivity]. }
      { rewrite Hdir, Hnone. cbn [esize]. lia. }
      { lia. }
      { right. left. exists data. split; assumption. }
      split; [exact Hp'|intros _]. destruct Hinv. constructor; try (use_A HA); simp_state; rewrite ?Hsb, ?Hmlb in *; simp_state; try field_trivial.
      * destruct i_bound. split; lia.
      * intros c1 c2 E. exfalso. eapply Hnp. exact E.
      * exists rest. split; [exact Hrest|intros; discriminate].
      * split; [rewrite Haq; exact Hq0|intros E; contradiction].
    + destruct (Hno eq_refl) as (_ & Hdir & Hmet). subst m.
      match goal with |- PInv ?S /\ _ =>
        destruct (settle s S c false Hp Hinv Hct) as [Hp' HA]; simp_state; rewrite ?Hhand, ?Hhall in *;
          rewrite ?(op_on_dropped_pbytes_unsaved _ _ Hs) in *; simp_state; try reflexivity
      end.
      all: try solve [intros x; cnt_norm; lia].
      all: try solve [intros c0; in_norm; tauto].
      all: try solve [intros c1 c2 E; exfalso; eapply Hnp; exact E].
      all: try solve [intros; discriminate].
      all: try solve [apply Hsrt; apply (p_sorted _ _ Hp)].
      all: try exact Hfm.
      all: try solve [rewrite Hdir; lia].
      all: try solve [left; exact Hdir].
      split; [exact Hp'|intros _]. destruct Hinv. constructor; try (use_A HA); simp_state; rewrite ?Hsb, ?Hmlb in *;
        rewrite ?(op_on_dropped_pbytes_unsaved _ _ Hs) in *; simp_state; try field_trivial.
      * intros c1 c2 E. exfalso. eapply Hnp. exact E.
      * exists rest. split; [exact Hrest|intros; discriminate].
      * split; [rewrite Haq; exact Hq0|intros E; contradiction].
  - inversion H; subst s'; clear H.
    destruct (unload_write_died _ _ _ _ _ _ Ew) as (Hf & Hsrt & Hcases).
    split; [|simp_state; intros; discriminate].
    eapply pinv_write with (s := s) (x := c_id c) (data := data); simp_state;
      [exact Hp|reflexivity|exact Hev|apply Hsrt; apply (p_sorted _ _ Hp)|apply (frame_matching _ _ _ Hf Hm)|exact Hcases].
Qed.

(* ---------- saveQueued / saveOutput: the next chunk, up to the write ---------- *)
Definition save_pc (back : fpc) : Prop := (exists l, back = FSave l) \/ back = FSaveOut.

Lemma save_pc_facts : forall back c, save_pc back ->
  main_loop back = false /\ saving back = None /\ (forall c1 c2, back <> FPush c1 c2) /\ back <> FStopped /\
  hand (writing_pc back c) = c :: hand back /\ hand_all (writing_pc back c) = c :: hand_all back /\
  main_loop (writing_pc back c) = false /\ saving (writing_pc back c) = Some (c, back) /\
  after_queue (writing_pc back c) = after_queue back /\ writing_pc back c <> FStopped /\
  (forall c1 c2, writing_pc back c <> FPush c1 c2).
Proof.
  intros back c [[l E]|E]; subst back; [destruct l|]; cbn [main_loop saving writing_pc hand hand_all after_queue];
    repeat split; try reflexivity; try (intros; discriminate); try (intros ? ?; discriminate).
Qed.

Lemma good_save_check : forall s s',
  PInv s -> Inv s -> do_save_check s = Some s' -> PInv s' /\ Inv s'.
Proof.
  intros s s' Hp Hinv H. unfold do_save_check in H.
  destruct (save_next s) as [[[c back] s1]|] eqn:En; [|discriminate].
  unfold save_next in En.
  (* where the chunk comes from: three cases, the same bookkeeping *)
  assert (Hs1 : st_dir s1 = st_dir s /\ st_ever s1 = st_ever s /\ st_dirok s1 = st_dirok s /\ st_max s1 = st_max s /\
                st_met s1 = st_met s /\ st_hold s1 = st_hold s /\ st_closed s1 = st_closed s /\
                st_Q s1 = st_Q s /\ st_M s1 = st_M s /\ st_cons s1 = st_cons s /\ st_up s1 = st_up s /\
                g_acc (st_gh s1) = g_acc (st_gh s) /\ g_rec (st_gh s1) = g_rec (st_gh s) /\
                g_init (st_gh s1) = g_init (st_gh s) /\ g_proc (st_gh s1) = g_proc (st_gh s) /\
                g_offered (st_gh s1) = g_offered (st_gh s) /\ g_confirmed (st_gh s1) = g_confirmed (st_gh s) /\
                g_dropped (st_gh s1) = g_dropped (st_gh s) /\ g_retained (st_gh s1) = g_retained (st_gh s) /\
                g_initbytes (st_gh s1) = g_initbytes (st_gh s) /\ g_maxfw (st_gh s1) = g_maxfw (st_gh s) /\
                In c (tracked s) /\
                (forall x, cnt x (ids (inflight s)) =
                           (cnt x [c_id c] + cnt x (ids (st_queue s1 ++ hand back ++ st_win s1 ++ st_hold s1)))%nat) /\
                (forall c0, In c0 (st_queue s1 ++ hand_all back ++ st_win s1 ++ st_hold s1) -> In c0 (tracked s)) /\
                g_offered (st_gh s1) = map fst (g_out (st_gh s1)) ++ st_win s1 /\
                (length (st_win s1) <= st_M s)%nat /\ (length (st_queue s1) <= st_Q s)%nat /\
                save_pc back /\ main_loop (st_fpc s) = false /\
                (after_queue back = true -> st_queue s1 = [])).
  { pose proof (i_win _ _ _ Hinv) as Hw. pose proof (i_winbound _ _ _ Hinv) as Hwb. pose proof (i_qbound _ _ _ Hinv) as Hqb.
    destruct (i_empty _ _ _ Hinv) as [Hq0 _].
    unfold tracked, inflight.
    destruct (st_fpc s) as [| | |l0| | | | |] eqn:Ef; try discriminate.
    - destruct (st_queue s) as [|cq q] eqn:Eq.
      + destruct l0 as [cl|]; [|discriminate].
        inversion En; subst c back s1; clear En. simp_state. rewrite ?Eq.
        repeat split; try reflexivity; try assumption; try (in_norm; tauto); try (intros; discriminate).
        * intros x. cnt_norm. lia.
        * intros c0. in_norm. tauto.
        * left. exists None. reflexivity.
      + inversion En; subst c back s1; clear En. simp_state.
        repeat split; try reflexivity; try assumption; try (in_norm; tauto); try (intros; discriminate).
        * intros x. destruct l0; simp_state; cnt_norm; lia.
        * intros c0. destruct l0; simp_state; in_norm; tauto.
        * cbn [length] in Hqb. lia.
        * left. exists l0. reflexivity.
    - destruct (st_win s) as [|cw w] eqn:Ew; [discriminate|].
      inversion En; subst c back s1; clear En. simp_state.
      repeat split; try reflexivity; try assumption; try (in_norm; tauto).
      all: try solve [intros x; cnt_norm; lia].
      all: try solve [intros c0; in_norm; tauto].
      all: try solve [rewrite Hw, map_app; cbn [map fst]; rewrite <- app_assoc; reflexivity].
      all: try solve [cbn [length] in Hwb; lia].
      all: try solve [right; reflexivity].
      all: try solve [intros _; apply Hq0; reflexivity]. }
  clear En.
  destruct Hs1 as (E1 & E2 & E3 & E4 & E5 & E6 & E7 & E8 & E9 & E10 & E11 & G1 & G2 & G3 & G4 & G5 & G6 & G7 & G8 & G9 & G10 &
                   Hct & Hcnt & Htr & Hwin & Hwb & Hqb & Hsp & Hml & Hq1).
  destruct (save_pc_facts back c Hsp) as (Hmlb & Hsb & Hnp & Hnst & Whand & Whall & Wml & Wsv & Waq & Wnst & Wnp).
  assert (Hwf : wf_chunk s c) by (apply (i_chunk _ _ _ Hinv); exact Hct).
  assert (Hm : matchf (c_id c) = true) by (apply tracked_match with (s := s); assumption).
  assert (Hclosed : st_closed s = true) by (apply (i_closed _ _ _ Hinv); exact Hml).
  destruct (i_fifo _ _ _ Hinv) as (rest & Hrest & _).
  rewrite E3, E4, E5 in H.
  destruct (unload_check (st_dirok s) (st_max s) (st_met s) c) as [| |data] eqn:Hck; inversion H; subst s'; clear H.
  - (* already on disk *)
    apply unload_check_yes in Hck.
    match goal with |- PInv ?S /\ _ =>
      destruct (settle s S c true Hp Hinv Hct) as [Hp' HA]; simp_state;
        rewrite ?E1, ?E2, ?E3, ?E4, ?E5, ?E6, ?G1, ?G2, ?G3, ?G4, ?G5, ?G6, ?G7, ?G8 in *; try reflexivity
    end.
    all: try solve [intros c1 c2 E; exfalso; eapply Hnp; exact E].
    all: try solve [apply (p_sorted _ _ Hp)].
    all: try lia.
    all: try solve [left; reflexivity].
    { exact Hcnt. }
    { exact Htr. }
    { intros _. apply wf_saved_orig; assumption. }
    split; [exact Hp'|]. destruct Hinv. constructor; try (use_A HA); unfold is_orig in *; simp_state;
      rewrite ?Hsb, ?Hmlb, ?E1, ?E2, ?E3, ?E4, ?E5, ?E6, ?E7, ?E8, ?E9, ?E10, ?G1, ?G2, ?G3, ?G4, ?G5, ?G6, ?G7, ?G8, ?G9, ?G10 in *;
      simp_state; try field_trivial.
    + intros c1 c2 E. exfalso. eapply Hnp. exact E.
    + exists rest. split; [exact Hrest|intros; discriminate].
    + split; [exact Hq1|intros E; contradiction].
  - (* cannot be saved: dropped *)
    apply unload_check_no in Hck.
    match goal with |- PInv ?S /\ _ =>
      destruct (settle s S c false Hp Hinv Hct) as [Hp' HA]; simp_state;
        rewrite ?E1, ?E2, ?E3, ?E4, ?E5, ?E6, ?G1, ?G2, ?G3, ?G4, ?G5, ?G6, ?G7, ?G8 in *;
        rewrite ?(op_on_dropped_pbytes_unsaved _ _ Hck) in *; try reflexivity
    end.
    all: try solve [intros c1 c2 E; exfalso; eapply Hnp; exact E].
    all: try solve [intros; discriminate].
    all: try solve [apply (p_sorted _ _ Hp)].
    all: try lia.
    all: try solve [left; reflexivity].
    { exact Hcnt. }
    { exact Htr. }
    split; [exact Hp'|]. destruct Hinv. constructor; try (use_A HA); unfold is_orig in *; simp_state;
      rewrite ?Hsb, ?Hmlb, ?E1, ?E2, ?E3, ?E4, ?E5, ?E6, ?E7, ?E8, ?E9, ?E10, ?G1, ?G2, ?G3, ?G4, ?G5, ?G6, ?G7, ?G8, ?G9, ?G10 in *;
      rewrite ?(op_on_dropped_pbytes_unsaved _ _ Hck) in *;
      simp_state; try field_trivial.
    + intros c1 c2 E. exfalso. eapply Hnp. exact E.
    + exists rest. split; [exact Hrest|intros; discriminate].
    + split; [exact Hq1|intros E; contradiction].
  - (* the space check passed: the write comes next; the chunk stays with the feeder *)
    destruct (unload_check_write _ _ _ _ _ Hck) as (Hs & Hd & Hok & Hquota).
    split.
    { apply pinv_same with (s := s); simp_state; [exact E1|exact E2|exact Hp]. }
    destruct Hinv. constructor; unfold is_orig in *; simp_state;
      rewrite ?Whand, ?Whall, ?Wml, ?Wsv, ?Waq, ?E1, ?E2, ?E3, ?E4, ?E5, ?E6, ?E7, ?E8, ?E9, ?E10, ?G1, ?G2, ?G3, ?G4, ?G5, ?G6, ?G7, ?G8, ?G9, ?G10 in *;
      simp_state; try field_trivial.
    + intros x. specialize (i_count x). rewrite (Hcnt x) in i_count. cnt_norm. lia.
    + intros c0 Hc0.
      assert (Hin : In c0 (st_queue s ++ hand_all (st_fpc s) ++ st_win s ++ st_hold s)).
      { assert (Hor : c0 = c \/ In c0 (st_queue s1 ++ hand_all back ++ st_win s1 ++ st_hold s)).
        { rewrite ?in_app_iff in *; cbn [In] in *; intuition. }
        destruct Hor as [Hor|Hor]; [subst c0; exact Hct|apply Htr; exact Hor]. }
      eapply wf_chunk_frame with (s := s); simp_state;
        [rewrite E1; reflexivity|rewrite G1; apply incl_refl|exact G2|exact G3|exact E3|apply i_chunk; exact Hin].
    + destruct i_bound. split; lia.
    + intros c0 back0 Ec. inversion Ec; subst c0 back0. assert (Hdl : dlen c = Z.of_nat (length data)) by (unfold dlen; rewrite Hd; reflexivity).
      repeat split; try lia; try assumption. exists data. exact Hd.
    + intros c1 c2 E. exfalso. eapply Wnp. exact E.
    + exists rest. split; [exact Hrest|intros; discriminate].
    + split; [exact Hq1|intros E; contradiction].
Qed.


(* ---------- feeder: load, or drop what cannot be loaded / is empty ---------- *)
Lemma good_feed_load : forall s s' rerr,
  PInv s -> Inv s -> do_feed_load rerr s = Some s' -> PInv s' /\ Inv s'.
Proof.
  intros s s' rerr Hp Hinv H. unfold do_feed_load in H.
  destruct (st_fpc s) as [|c| | | | | | |] eqn:Ef; try discriminate.
  assert (Hct : In c (tracked s)) by (unfold tracked; rewrite Ef; cbn [hand_all hand]; in_norm; tauto).
  assert (Hwf : wf_chunk s c) by (apply (i_chunk _ _ _ Hinv); exact Hct).
  assert (Hm : matchf (c_id c) = true) by (apply tracked_match with (s := s); assumption).
  (* what LoadChunk does *)
  assert (Hload : forall m c' ok, op_load (st_dirok s) rerr (st_dir s) (st_met s) c = (m, c', ok) ->
            m_pbytes m = m_pbytes (st_met s) /\ m_dropped m = m_dropped (st_met s) /\ m_consumed m = m_consumed (st_met s) /\
            (ok = false -> c' = c /\ c_data c = None) /\
            (ok = true -> c_id c' = c_id c /\ wf_chunk s c' /\ c_saved c' = c_saved c /\ c_data c' <> None)).
  { intros m c' ok Hl. unfold op_load in Hl. unfold wf_chunk in Hwf.
    destruct (c_data c) as [dat|] eqn:Ed.
    - inversion Hl; subst. repeat split; try discriminate; [|congruence]. unfold wf_chunk. rewrite Ed. exact Hwf.
    - destruct (c_saved c) eqn:Es; [|contradiction]. cbn [negb] in Hl.
      destruct Hwf as ((e & He1 & He2) & Hok). rewrite Hok in Hl. cbn [negb] in Hl.
      unfold read_file_at in Hl. destruct rerr.
      + inversion Hl; subst. repeat split; try discriminate.
      + rewrite He1 in Hl. destruct e as [content|].
        * inversion Hl; subst. repeat split; try discriminate. unfold wf_chunk. cbn [c_data c_saved c_id].
          all: cbn [c_id]; assumption.
        * inversion Hl; subst. repeat split; try discriminate. }
  destruct (op_load (st_dirok s) rerr (st_dir s) (st_met s) c) as [[m c'] ok] eqn:El.
  destruct (Hload _ _ _ eq_refl) as (Hpb & Hdr & Hco & Hfail & Hsucc). clear Hload.
  destruct ok.
  - destruct (Hsucc eq_refl) as (Hid & Hwf' & Hsv & Hsome). clear Hfail Hsucc.
    destruct (zero_length c') eqn:Ez.
    + (* zero-length chunk: removed and counted as dropped *)
      destruct (op_remove (st_dirok s) (st_dir s) m c') as [d m1] eqn:Er.
      inversion H; subst s'; clear H.
      assert (Hrem : (d = st_dir s \/ d = dir_del (st_dir s) (c_id c)) /\
                     (dir_get d (c_id c) = dir_get (st_dir s) (c_id c) \/ dir_get d (c_id c) = None) /\
                     esize dirsize (dir_get (st_dir s) (c_id c)) = esize dirsize (dir_get d (c_id c)) /\
                     m_pbytes m1 = m_pbytes m /\ m_dropped m1 = m_dropped m /\ m_consumed m1 = m_consumed m).
      { unfold op_remove in Er. unfold wf_chunk in Hwf'. unfold zero_length in Ez.
        destruct (c_data c') as [[|b0 r0]|] eqn:Ed'; try discriminate.
        - destruct (c_saved c') eqn:Es'; cbn [negb] in Er.
          + destruct Hwf' as (Hd & _ & Hok). rewrite Hok in Er. cbn [negb] in Er.
            unfold unlink_file_at in Er. rewrite Hid in Er. rewrite Hid in Hd. rewrite Hd in Er. inversion Er; subst d m1; clear Er.
            split; [right; reflexivity|]. split; [right; apply dir_get_del_same|].
            rewrite Hd, dir_get_del_same. cbn [esize length]. simp_state. unfold dlen. rewrite Ed'. cbn [length].
            repeat split; lia.
          + inversion Er; subst d m1; clear Er. repeat split; try reflexivity; left; reflexivity.
        -           congruence. }
      destruct Hrem as (Hd & Hdc & Hsz & Hpb1 & Hdr1 & Hco1).
      assert (Hfr : forall y, y <> c_id c -> dir_get d y = dir_get (st_dir s) y).
      { intros y Hy. destruct Hd as [Hd|Hd]; subst d; [reflexivity|apply dir_get_del_other; exact Hy]. }
      assert (Hsorted : dir_sorted d).
      { destruct Hd as [Hd|Hd]; subst d; [apply (p_sorted _ _ Hp)|apply dir_sorted_del; apply (p_sorted _ _ Hp)]. }
      match goal with |- PInv ?S /\ _ =>
        destruct (settle s S c false Hp Hinv Hct) as [Hp' HA]; simp_state; rewrite ?Ef in *; simp_state; try reflexivity
      end.
      all: try solve [intros x; cnt_norm; lia].
      all: try solve [intros c0; in_norm; tauto].
      all: try solve [intros; discriminate].
      all: try exact Hsorted.
      all: try solve [intros y _ Hy; apply Hfr; exact Hy].
      all: try lia.
      { destruct Hdc as [Hdc|Hdc]; [left; exact Hdc|right; right; exact Hdc]. }
      split; [exact Hp'|]. destruct Hinv. constructor; try (use_A HA); simp_state; rewrite ?Ef in *; simp_state; try field_trivial.
      * destruct i_bound. split; lia.
      * lia.
      * destruct i_fifo as (rest & Hr & Hm'). specialize (Hm' eq_refl). subst rest.
        exists (ids (st_queue s)). split; [|intros _; reflexivity].
        rewrite Hr, map_app. cbn [map fst]. rewrite <- app_assoc. reflexivity.
      * rewrite filter_app. cbn [filter snd]. rewrite app_nil_r. exact i_offered_ids.
    + (* loaded and not empty: goes to the select *)
      inversion H; subst s'; clear H.
      split; [apply pinv_same with (s := s); simp_state; [reflexivity|reflexivity|exact Hp]|].
      destruct Hinv. constructor; simp_state; rewrite ?Ef in *; simp_state; rewrite ?Hpb, ?Hdr, ?Hco; try field_trivial.
      * intros x. specialize (i_count x). cnt_norm. rewrite Hid. lia.
      * intros c0 Hc0. eapply wf_chunk_frame with (s := s); simp_state;
          [reflexivity|apply incl_refl|reflexivity|reflexivity|reflexivity|].
        in_norm. destruct Hc0 as [Hc0|[[Hc0|[Hc0|[]]]|Hc0]]; try (subst c0; assumption); apply i_chunk; in_norm; tauto.
      * intros c1 c2 Ec. inversion Ec; subst c1 c2. split; assumption.
  - (* cannot be loaded: dropped *)
    destruct (Hfail eq_refl) as (Hc' & Hnone). subst c'. clear Hfail Hsucc.
    inversion H; subst s'; clear H.
    assert (Hsaved : c_saved c = true).
    { unfold wf_chunk in Hwf. rewrite Hnone in Hwf. destruct (c_saved c); [reflexivity|contradiction]. }
    assert (Hdl : dlen c = 0%Z) by (unfold dlen; rewrite Hnone; reflexivity).
    match goal with |- PInv ?S /\ _ =>
      destruct (settle s S c false Hp Hinv Hct) as [Hp' HA]; simp_state; rewrite ?Ef in *; simp_state; try reflexivity
    end.
    all: try solve [intros x; cnt_norm; lia].
    all: try solve [intros c0; in_norm; tauto].
    all: try solve [intros; discriminate].
    all: try solve [apply (p_sorted _ _ Hp)].
    all: try solve [unfold op_on_dropped; rewrite Hsaved; simp_state; lia].
    all: try solve [left; reflexivity].
    split; [exact Hp'|]. destruct Hinv. constructor; try (use_A HA); simp_state; rewrite ?Ef in *; simp_state;
      unfold op_on_dropped; rewrite ?Hsaved; simp_state; try field_trivial.
    + destruct i_bound. split; lia.
    + lia.
    + destruct i_fifo as (rest & Hr & Hm'). specialize (Hm' eq_refl). subst rest.
      exists (ids (st_queue s)). split; [|intros _; reflexivity].
      rewrite Hr, map_app. cbn [map fst]. rewrite <- app_assoc. reflexivity.
    + rewrite filter_app. cbn [filter snd]. rewrite app_nil_r. exact i_offered_ids.
Qed.


(* ---------- Accept ---------- *)
Lemma mem_name_false : forall x l, mem_name x l = false -> ~ In x l.
Proof.
  intros x l H Hin. unfold mem_name in H.
  assert (existsb (name_eqb x) l = true).
  { apply existsb_exists. exists x. split; [exact Hin|apply name_eqb_refl]. }
  congruence.
Qed.

Lemma fresh_facts : forall s id, Inv s -> fresh matchf id s = true ->
  matchf id = true /\ ~ In id (map fst (st_ever s)) /\ ~ In id (g_rec (st_gh s)) /\
  dir_get (st_dir s) id = None /\ ~ In id (entered (st_gh s)).
Proof.
  intros s id Hinv H. unfold fresh in H.
  apply andb_prop in H. destruct H as [H H4]. apply andb_prop in H. destruct H as [H H3].
  apply andb_prop in H. destruct H as [H1 H2].
  apply Bool.negb_true_iff in H2, H3. apply mem_name_false in H2, H3.
  destruct (dir_get (st_dir s) id) eqn:Ed; [discriminate|].
  repeat split; try assumption.
  intros Hin. unfold entered in Hin. apply in_app_or in Hin. destruct Hin as [Hin|Hin]; [contradiction|].
  unfold acc_ids in Hin. apply in_map_iff in Hin. destruct Hin as ([[x d] b] & Hx & Hin). cbn in Hx. subst x.
  apply H2. apply (i_acc_ever _ _ _ Hinv) in Hin. change id with (fst (id, d)). apply in_map. exact Hin.
Qed.

(* the common end of every path through Accept that does not kill the process *)
Lemma accept_general : forall s s2 id data c (enq : bool),
  PInv s -> Inv s -> main_loop (st_fpc s) = true -> fresh matchf id s = true ->
  st_ever s2 = st_ever s ++ [(id, data)] ->
  st_queue s2 = (if enq then st_queue s ++ [c] else st_queue s) ->
  st_fpc s2 = st_fpc s -> st_win s2 = st_win s -> st_hold s2 = st_hold s -> st_dirok s2 = st_dirok s ->
  st_max s2 = st_max s -> st_Q s2 = st_Q s -> st_M s2 = st_M s -> st_closed s2 = st_closed s ->
  g_acc (st_gh s2) = g_acc (st_gh s) ++ [(id, data, enq)] ->
  g_rec (st_gh s2) = g_rec (st_gh s) -> g_init (st_gh s2) = g_init (st_gh s) ->
  g_proc (st_gh s2) = g_proc (st_gh s) -> g_offered (st_gh s2) = g_offered (st_gh s) ->
  g_out (st_gh s2) = g_out (st_gh s) -> g_confirmed (st_gh s2) = g_confirmed (st_gh s) ->
  g_dropped (st_gh s2) = (if enq then g_dropped (st_gh s) else g_dropped (st_gh s) ++ [id]) ->
  g_retained (st_gh s2) = g_retained (st_gh s) ->
  g_initbytes (st_gh s2) = g_initbytes (st_gh s) -> g_maxfw (st_gh s2) = g_maxfw (st_gh s) ->
  (forall y, matchf y = true -> y <> id -> dir_get (st_dir s2) y = dir_get (st_dir s) y) ->
  dir_sorted (st_dir s2) ->
  (dir_get (st_dir s2) id = None \/ dir_get (st_dir s2) id = Some (EFile data)) ->
  (enq = true -> c_id c = id /\
     ((c_data c = Some data /\ c_saved c = false /\ dir_get (st_dir s2) id = None) \/
      (c_data c = None /\ c_saved c = true /\ dir_get (st_dir s2) id = Some (EFile data) /\ st_dirok s = true)) /\
     (length (st_queue s) < st_Q s)%nat) ->
  m_pbytes (st_met s2) = (m_pbytes (st_met s) + esize dirsize (dir_get (st_dir s2) id))%Z ->
  (m_pbytes (st_met s2) <= Z.max (g_initbytes (st_gh s)) (st_max s) + g_maxfw (st_gh s))%Z ->
  m_dropped (st_met s2) = (m_dropped (st_met s) + (if enq then 0 else 1))%Z ->
  m_consumed (st_met s2) = m_consumed (st_met s) ->
  PInv s2 /\ Inv s2.
Proof.
  intros s s2 id data c enq Hp Hinv Hml Hfresh Eever Equeue Efpc Ewin Ehold Edirok Emax EQ EM Eclosed
         Gacc Grec Ginit Gproc Goff Gout Gconf Gdrop Gret Gib Gfw Hfr Hsorted Hidcases Henq Hpb Hbound Hdr Hco.
  destruct (fresh_facts _ _ Hinv Hfresh) as (Hm & Hnever & Hnrec & Hnone & Hnent).
  assert (Eent : entered (st_gh s2) = entered (st_gh s) ++ [id]).
  { unfold entered, acc_ids. rewrite Gacc, Grec, map_app. cbn [map fst]. rewrite app_assoc. reflexivity. }
  assert (Hincl : incl (g_acc (st_gh s)) (g_acc (st_gh s2))) by (rewrite Gacc; apply incl_appl; apply incl_refl).
  assert (Hmono : forall x e, is_orig (st_gh s) x e -> is_orig (st_gh s2) x e).
  { intros x e. apply is_orig_mono; assumption. }
  destruct (dir_update_frame s (st_dir s2) id Hinv Hfr) as (F1 & F2 & F3 & _ & F5).
  assert (Hold : forall c0, In c0 (tracked s) -> wf_chunk s2 c0).
  { intros c0 Hc0. eapply wf_chunk_frame with (s := set_dir (st_dir s2) s); simp_state;
      [reflexivity|exact Hincl|exact Grec|exact Ginit|exact Edirok|].
    apply F1; [exact Hc0|]. intros E. apply Hnent. rewrite <- E. apply tracked_entered; assumption. }
  split.
  - destruct Hp as [P1 P2 P3 P4]. constructor; rewrite ?Eever.
    + exact Hsorted.
    + intros x d Hx. apply in_app_or in Hx. destruct Hx as [Hx|[Hx|[]]].
      * rewrite Hfr; [apply P2; exact Hx| |].
        -- apply P4. change x with (fst (x, d)). apply in_map. exact Hx.
        -- intros E. subst x. apply Hnever. change id with (fst (id, d)). apply in_map. exact Hx.
      * inversion Hx; subst x d. exact Hidcases.
    + rewrite map_app. cbn [map fst]. apply NoDup_app_single; assumption.
    + intros x Hx. rewrite map_app in Hx. apply in_app_or in Hx. destruct Hx as [Hx|[Hx|[]]]; [apply P4; exact Hx|subst x; exact Hm].
  - constructor; rewrite ?Eent, ?Efpc, ?Ewin, ?Ehold, ?Edirok, ?Emax, ?EQ, ?EM, ?Eclosed, ?Grec, ?Ginit, ?Gproc, ?Goff, ?Gout, ?Gconf, ?Gret, ?Gib, ?Gfw.
    + apply NoDup_app_single; [apply (i_nodup _ _ _ Hinv)|exact Hnent].
    + intros x. pose proof (i_count _ _ _ Hinv x) as Hx. unfold inflight in *. rewrite Equeue, Efpc, Ewin, Ehold, Gdrop.
      destruct enq.
      * destruct (Henq eq_refl) as (Hid & _). cnt_norm. rewrite Hid. lia.
      * cnt_norm. lia.
    + intros x Hx. apply in_app_or in Hx. destruct Hx as [Hx|[Hx|[]]]; [apply (i_match _ _ _ Hinv); exact Hx|subst x; exact Hm].
    + intros c0 Hc0. unfold tracked in Hc0. rewrite Equeue, Efpc, Ewin, Ehold in Hc0.
      assert (Hor : In c0 (tracked s) \/ (enq = true /\ c0 = c)).
      { unfold tracked. destruct enq; in_norm; intuition. }
      destruct Hor as [Hor|[He Hc]]; [apply Hold; exact Hor|]. subst c0.
      destruct (Henq He) as (Hid & Hcases & _). unfold wf_chunk. rewrite Hid.
      destruct Hcases as [(Hd & Hs & Hdir)|(Hd & Hs & Hdir & Hok)]; rewrite Hd, Hs.
      * split; [|exact Hdir]. exists enq. rewrite Gacc. apply in_or_app. right. left. reflexivity.
      * split; [|rewrite Edirok; exact Hok]. exists (EFile data). split; [exact Hdir|].
        left. exists data, enq. split; [|reflexivity]. rewrite Gacc. apply in_or_app. right. left. reflexivity.
    + intros x Hx. assert (Hne : x <> id).
      { intros E. subst x. apply Hnent. apply class_entered; [exact Hinv|tauto]. }
      destruct (F2 x Hx Hne) as (e & He1 & He2). exists e. split; [exact He1|apply Hmono; exact He2].
    + intros x Hx. apply F3; [exact Hx|]. intros E. subst x. apply Hnent. apply class_entered; [exact Hinv|tauto].
    + rewrite Hpb, owned_sum_app, (F5 Hnent), (i_space _ _ _ Hinv). cbn [owned_sum]. lia.
    + split; [exact Hbound|apply (i_bound _ _ _ Hinv)].
    + intros c0 back0 Esv. destruct (st_fpc s); cbn [main_loop saving] in Hml, Esv; discriminate.
    + apply (i_push _ _ _ Hinv).
    + rewrite Hdr, Gdrop, (i_dropped _ _ _ Hinv). destruct enq; rewrite ?app_length; cbn [length]; lia.
    + rewrite Hco. apply (i_consumed _ _ _ Hinv).
    + destruct (i_fifo _ _ _ Hinv) as (rest & Hr & Hm'). specialize (Hm' Hml). subst rest.
      unfold enq_ids. rewrite Gacc, filter_app, map_app. cbn [filter snd].
      destruct enq.
      * destruct (Henq eq_refl) as (Hid & _).
        exists (feeder_ids (st_fpc s) ++ ids (st_queue s2)). split; [|intros _; reflexivity].
        rewrite Equeue, ids_app. cbn [ids map fst]. rewrite Hid.
        rewrite app_assoc. unfold enq_ids in Hr. rewrite Hr. rewrite <- !app_assoc. reflexivity.
      * exists (feeder_ids (st_fpc s) ++ ids (st_queue s2)). split; [|intros _; reflexivity].
        rewrite Equeue. cbn [map]. rewrite app_nil_r. exact Hr.
    + unfold offered_ids. rewrite Gproc. apply (i_offered_ids _ _ _ Hinv).
    + intros c0 Hc0. destruct (i_offered_orig _ _ _ Hinv c0 Hc0) as (d & Hd1 & Hd2). exists d. split; [exact Hd1|apply Hmono; exact Hd2].
    + apply (i_win _ _ _ Hinv).
    + apply (i_hold _ _ _ Hinv).
    + apply (i_winbound _ _ _ Hinv).
    + rewrite Equeue. destruct enq; [|apply (i_qbound _ _ _ Hinv)].
      destruct (Henq eq_refl) as (_ & _ & Hlt). rewrite app_length. cbn [length]. lia.
    + apply (i_closed _ _ _ Hinv).
    + split; [intros Haq; destruct (st_fpc s); cbn [main_loop after_queue] in Hml, Haq; discriminate|].
      intros E. rewrite E in Hml. discriminate.
    + apply (i_recsorted _ _ _ Hinv).
    + intros x d b Hx. rewrite Gacc in Hx. rewrite Eever. apply in_app_or in Hx. destruct Hx as [Hx|[Hx|[]]].
      * apply in_or_app. left. eapply (i_acc_ever _ _ _ Hinv). exact Hx.
      * inversion Hx; subst. apply in_or_app. right. left. reflexivity.
    + intros x d e Hx Hr Hg. rewrite Eever in Hx. apply in_app_or in Hx. destruct Hx as [Hx|[Hx|[]]].
      * eapply (i_rec_ever _ _ _ Hinv); eassumption.
      * inversion Hx; subst. contradiction.
    + apply (i_rec_def _ _ _ Hinv).
Qed.


Lemma not_closed_main_loop : forall s, Inv s -> st_closed s = false -> main_loop (st_fpc s) = true.
Proof.
  intros s Hinv Hc. destruct (main_loop (st_fpc s)) eqn:E; [reflexivity|].
  apply (i_closed _ _ _ Hinv) in E. congruence.
Qed.

Lemma good_accept : forall s s' id data ws,
  PInv s -> Inv s -> do_accept matchf id data ws s = Some s' -> PInv s' /\ (st_up s' = true -> Inv s').
Proof.
  intros s s' id data ws Hp Hinv H. unfold do_accept in H.
  destruct (st_up s && negb (st_closed s) && fresh matchf id s) eqn:Eg; [|discriminate].
  apply andb_prop in Eg. destruct Eg as [Eg Hfresh]. apply andb_prop in Eg. destruct Eg as [Hup Hncl].
  apply Bool.negb_true_iff in Hncl.
  pose proof (not_closed_main_loop _ Hinv Hncl) as Hml.
  destruct (fresh_facts _ _ Hinv Hfresh) as (Hm & Hnever & Hnrec & Hnone & Hnent).
  pose proof (i_bound _ _ _ Hinv) as [Hb1 Hb2].
  cbv zeta in H. simp_state.
  destruct (Nat.leb (st_M s / 2) (length (st_win s))) eqn:Espill.
  - (* unload chunk for queuing *)
    set (c0 := {| c_id := id; c_data := Some data; c_saved := false |}) in *.
    destruct (unload_cases (st_dirok s) (st_max s) ws (st_dir s) (add_in_p 1 (add_pending 1 (st_met s))) c0)
      as [[Hck Hu]|[[Hck Hu]|(dat & Hck & Hu)]]; rewrite Hu in H; clear Hu.
    + apply unload_check_yes in Hck. discriminate.
    + (* cannot be saved *)
      inversion H; subst s'; clear H.
      match goal with |- PInv ?S /\ _ => destruct (accept_general s S id data c0 false Hp Hinv Hml Hfresh) as [Hp' Hi'];
        subst c0; simp_state; unfold op_on_dropped, dlen, unloaded; cbn [c_saved c_data c_id]; simp_state; rewrite ?Hnone; cbn [esize]; try reflexivity; try lia end.
      all: try solve [intros; discriminate].
      all: try solve [apply (p_sorted _ _ Hp)].
      all: try solve [left; reflexivity].
      split; [exact Hp'|intros _; exact Hi'].
    + destruct (unload_check_write _ _ _ _ _ Hck) as (_ & Hd & Hok & Hquota). cbn [c0 c_data] in Hd. inversion Hd; subst dat. clear Hd.
      simp_state.
      destruct (unload_write ws (st_dir s) (add_in_p 1 (add_pending 1 (st_met s))) c0 data) as [d m c' ok|d] eqn:Ew.
      * destruct (unload_write_ret _ _ _ _ _ _ _ _ _ Ew) as (Hf & Hsrt & Hyes & Hno). cbn [c0 c_id] in Hf.
        pose proof (frame_matching _ _ _ Hf Hm) as Hfm.
        destruct ok.
        -- destruct (Hyes eq_refl) as (Hc' & Hdir & Hmet). subst m c'. cbn [c0 c_id] in Hdir.
           unfold enqueue in H. simp_state.
           destruct (Nat.ltb (length (st_queue s)) (st_Q s)) eqn:Eroom; inversion H; subst s'; clear H.
           ++ apply Nat.ltb_lt in Eroom.
              match goal with |- PInv ?S /\ _ => destruct (accept_general s S id data (unloaded c0) true Hp Hinv Hml Hfresh) as [Hp' Hi'];
                subst c0; simp_state; unfold op_on_dropped, dlen, unloaded; cbn [c_saved c_data c_id]; simp_state; rewrite ?Hdir; cbn [esize]; try reflexivity; try lia end.
              all: try solve [apply Hsrt; apply (p_sorted _ _ Hp)].
              all: try exact Hfm.
              all: try solve [right; reflexivity].
              { intros _. split; [reflexivity|]. split; [|exact Eroom]. right. repeat split; assumption. }
              split; [exact Hp'|intros _; exact Hi'].
           ++ match goal with |- PInv ?S /\ _ => destruct (accept_general s S id data (unloaded c0) false Hp Hinv Hml Hfresh) as [Hp' Hi'];
                subst c0; simp_state; unfold op_on_dropped, dlen, unloaded; cbn [c_saved c_data c_id]; simp_state; rewrite ?Hdir; cbn [esize]; try reflexivity; try lia end.
              all: try solve [intros; discriminate].
              all: try solve [apply Hsrt; apply (p_sorted _ _ Hp)].
              all: try exact Hfm.
              all: try solve [right; reflexivity].
              all: try solve [unfold op_on_dropped, dlen; simp_state; cbn [unloaded c_saved c_data]; simp_state; lia].
              split; [exact Hp'|intros _; exact Hi'].
        -- destruct (Hno eq_refl) as (Hc' & Hdir & Hmet). subst m c'. cbn [c0 c_id] in Hdir.
           inversion H; subst s'; clear H.
           match goal with |- PInv ?S /\ _ => destruct (accept_general s S id data c0 false Hp Hinv Hml Hfresh) as [Hp' Hi'];
             subst c0; simp_state; unfold op_on_dropped, dlen, unloaded; cbn [c_saved c_data c_id]; simp_state; rewrite ?Hdir, ?Hnone; cbn [esize]; try reflexivity; try lia end.
           all: try solve [intros; discriminate].
           all: try solve [apply Hsrt; apply (p_sorted _ _ Hp)].
           all: try exact Hfm.
           all: try solve [left; reflexivity].
           split; [exact Hp'|intros _; exact Hi'].
      * (* killed during the write *)
        inversion H; subst s'; clear H.
        destruct (unload_write_died _ _ _ _ _ _ Ew) as (Hf & Hsrt & Hcases). cbn [c0 c_id] in *.
        pose proof (frame_matching _ _ _ Hf Hm) as Hfm.
        split; [|simp_state; intros; discriminate].
        destruct Hp as [P1 P2 P3 P4]. constructor; simp_state.
        -- apply Hsrt. exact P1.
        -- intros x dx Hx. apply in_app_or in Hx. destruct Hx as [Hx|[Hx|[]]].
           ++ rewrite Hfm; [apply P2; exact Hx| |].
              ** apply P4. change x with (fst (x, dx)). apply in_map. exact Hx.
              ** intros E. subst x. apply Hnever. change id with (fst (id, dx)). apply in_map. exact Hx.
           ++ inversion Hx; subst x dx. rewrite Hnone in Hcases. exact Hcases.
        -- rewrite map_app. cbn [map fst]. apply NoDup_app_single; assumption.
        -- intros x Hx. rewrite map_app in Hx. apply in_app_or in Hx. destruct Hx as [Hx|[Hx|[]]]; [apply P4; exact Hx|subst x; exact Hm].
  - (* pass chunk to queue *)
    set (c0 := {| c_id := id; c_data := Some data; c_saved := false |}) in *.
    unfold enqueue in H. simp_state.
    destruct (Nat.ltb (length (st_queue s)) (st_Q s)) eqn:Eroom; inversion H; subst s'; clear H.
    + apply Nat.ltb_lt in Eroom.
      match goal with |- PInv ?S /\ _ => destruct (accept_general s S id data c0 true Hp Hinv Hml Hfresh) as [Hp' Hi'];
        subst c0; simp_state; unfold op_on_dropped, dlen, unloaded; cbn [c_saved c_data c_id]; simp_state; rewrite ?Hnone; cbn [esize]; try reflexivity; try lia end.
      all: try solve [apply (p_sorted _ _ Hp)].
      all: try solve [left; reflexivity].
      { intros _. split; [reflexivity|]. split; [|exact Eroom]. left. repeat split; reflexivity. }
      split; [exact Hp'|intros _; exact Hi'].
    + match goal with |- PInv ?S /\ _ => destruct (accept_general s S id data c0 false Hp Hinv Hml Hfresh) as [Hp' Hi'];
        subst c0; simp_state; unfold op_on_dropped, dlen, unloaded; cbn [c_saved c_data c_id]; simp_state; rewrite ?Hnone; cbn [esize]; try reflexivity; try lia end.
      all: try solve [intros; discriminate].
      all: try solve [apply (p_sorted _ _ Hp)].
      all: try solve [left; reflexivity].
      split; [exact Hp'|intros _; exact Hi'].
Qed.


(* ---------- start-up ---------- *)
Lemma recover_fold : forall d l m,
  (forall c, In c l -> exists e, dir_get d (c_id c) = Some e) ->
  m_pbytes (fold_left (recover_one dirsize d) l m) = (m_pbytes m + owned_sum dirsize d (ids l))%Z /\
  m_dropped (fold_left (recover_one dirsize d) l m) = m_dropped m /\
  m_consumed (fold_left (recover_one dirsize d) l m) = m_consumed m.
Proof.
  induction l as [|c l IH]; intros m Hex; cbn [fold_left ids map owned_sum].
  - repeat split; lia.
  - destruct (Hex c (or_introl eq_refl)) as (e & He).
    destruct (IH (recover_one dirsize d m c) (fun c0 H0 => Hex c0 (or_intror H0))) as (I1 & I2 & I3).
    fold (ids l). rewrite I1, I2, I3. unfold recover_one, stat_size. rewrite He.
    destruct e; simp_state; cbn [esize]; repeat split; lia.
Qed.

Lemma scan_props : forall dirok d c, In c (scan matchf dirok d) ->
  dirok = true /\ c_data c = None /\ c_saved c = true /\ matchf (c_id c) = true /\ In (c_id c) (dir_names d).
Proof.
  intros dirok d c H. unfold scan in H. destruct dirok; [|contradiction].
  apply in_map_iff in H. destruct H as (n & Hc & Hn). subst c. cbn [c_id c_data c_saved].
  apply filter_In in Hn. destruct Hn as [Hn Hf]. apply andb_prop in Hf. destruct Hf as [_ Hf].
  repeat split; assumption.
Qed.

Lemma scan_ids_sorted : forall dirok d, dir_sorted d -> StronglySorted name_lt (ids (scan matchf dirok d)).
Proof.
  intros dirok d Hs. unfold scan. destruct dirok; [|constructor].
  unfold ids. rewrite map_map. cbn [c_id]. rewrite map_id. apply sorted_filter. exact Hs.
Qed.

Lemma ids_firstn : forall n l, ids (firstn n l) = firstn n (ids l).
Proof. intros. unfold ids. symmetry. apply firstn_map. Qed.

Lemma good_restart : forall s Q M maxb dirok, PInv s -> PInv (restart matchf dirsize Q M maxb dirok s) /\ Inv (restart matchf dirsize Q M maxb dirok s).
Proof.
  intros s Q M maxb dirok Hp. split.
  { apply pinv_same with (s := s); [reflexivity|reflexivity|exact Hp]. }
  set (rec := firstn Q (scan matchf dirok (st_dir s))).
  assert (Hrec : forall c, In c rec -> dirok = true /\ c_data c = None /\ c_saved c = true /\ matchf (c_id c) = true /\ In (c_id c) (dir_names (st_dir s))).
  { intros c Hc. apply (scan_props dirok (st_dir s)). eapply in_firstn_in. exact Hc. }
  assert (Hsorted : StronglySorted name_lt (ids rec)).
  { unfold rec. rewrite ids_firstn. apply sorted_firstn. apply scan_ids_sorted. apply (p_sorted _ _ Hp). }
  assert (Hex : forall c, In c rec -> exists e, dir_get (st_dir s) (c_id c) = Some e).
  { intros c Hc. apply dir_in_get. apply Hrec. exact Hc. }
  destruct (recover_fold (st_dir s) rec (if dirok then mets0 else add_ioerr 1 mets0) Hex) as (R1 & R2 & R3).
  unfold restart. fold rec. constructor; unfold ghost0; simp_state; rewrite ?app_nil_r; try field_trivial.
  all: try reflexivity.
  all: try solve [intros ? []].
  all: try solve [intros ? ? ? []].
  all: try solve [cbn [length]; lia].
  all: try exact Hsorted.
  - apply sorted_nodup. exact Hsorted.
  - intros x. cnt_norm. fold (ids rec). lia.
  - intros x Hx. apply in_map_iff in Hx. destruct Hx as (c & Hc & Hin). subst x. apply Hrec. exact Hin.
  - intros c Hc0. assert (Hc : In c rec) by (in_norm; tauto). clear Hc0.
    destruct (Hrec c Hc) as (Hok & Hd & Hs & Hm & Hin). destruct (Hex c Hc) as (e & He).
    unfold wf_chunk. rewrite Hd, Hs. simp_state. split; [|exact Hok].
    exists e. split; [exact He|]. right. simp_state. split; [apply ids_in; exact Hc|exact He].
  - rewrite R1. unfold ids. destruct dirok; unfold mets0; simp_state; lia.
  - rewrite R2. destruct dirok; unfold mets0; simp_state; reflexivity.
  - rewrite R3. destruct dirok; unfold mets0; simp_state; reflexivity.
  - exists (ids rec). split; [reflexivity|intros _; reflexivity].
  - unfold rec. apply firstn_le_length.
  - intros x d e Hx Hr He. destruct (p_ever_files _ _ Hp x d Hx) as [Hn|Hn]; rewrite Hn in He; [discriminate|].
    inversion He. reflexivity.
Qed.

(* ---------- somebody else touches a file ---------- *)
Lemma good_tamper : forall s s' n e, Good s -> do_tamper matchf n e s = Some s' -> Good s'.
Proof.
  intros s s' n e [Hp Hi] H. unfold do_tamper in H.
  assert (Hget : forall y, y <> n -> dir_get (apply_tamper n e (st_dir s)) y = dir_get (st_dir s) y).
  { intros y Hy. unfold apply_tamper. destruct e; [apply dir_get_set_other|apply dir_get_del_other]; exact Hy. }
  assert (Hsrt : dir_sorted (apply_tamper n e (st_dir s))).
  { unfold apply_tamper. destruct e; [apply dir_sorted_set|apply dir_sorted_del]; apply (p_sorted _ _ Hp). }
  destruct (matchf n) eqn:Hm.
  - destruct (down s && negb (mem_name n (map fst (st_ever s)))) eqn:Eg; [|discriminate].
    inversion H; subst s'; clear H. apply andb_prop in Eg. destruct Eg as [_ Hn].
    apply Bool.negb_true_iff in Hn. apply mem_name_false in Hn.
    split; [|simp_state; intros; discriminate].
    destruct Hp as [P1 P2 P3 P4]. constructor; simp_state; try assumption.
    intros x d Hx. rewrite Hget; [apply P2; exact Hx|]. intros E. subst x. apply Hn. change n with (fst (n, d)). apply in_map. exact Hx.
  - inversion H; subst s'; clear H.
    assert (Hfr : forall y, matchf y = true -> y <> n -> dir_get (apply_tamper n e (st_dir s)) y = dir_get (st_dir s) y).
    { intros y _ Hy. apply Hget. exact Hy. }
    split.
    + destruct Hp as [P1 P2 P3 P4]. constructor; simp_state; try assumption.
      intros x d Hx. rewrite Hget; [apply P2; exact Hx|]. intros E. subst x.
      assert (matchf n = true) by (apply P4; change n with (fst (n, d)); apply in_map; exact Hx). congruence.
    + simp_state. intros Hup. specialize (Hi Hup).
      destruct (dir_update_frame s _ n Hi Hfr) as (F1 & F2 & F3 & _ & F5).
      assert (Hnent : ~ In n (entered (st_gh s))).
      { intros Hin. apply (i_match _ _ _ Hi) in Hin. congruence. }
      destruct Hi. constructor; simp_state; try field_trivial.
      * intros c Hc. apply F1; [exact Hc|]. intros E.
        assert (matchf (c_id c) = true).
        { apply i_match. apply cnt_in. rewrite <- i_count.
          assert (In (c_id c) (ids (st_queue s ++ hand (st_fpc s) ++ st_win s ++ st_hold s))).
          { apply ids_of_tracked_lists; [|exact Hc]. intros c1 c2 Ef. apply (i_push _ _ Ef). }
          apply cnt_in in H. lia. }
        congruence.
      * intros x Hx. apply F2; [exact Hx|]. intros E. subst x. apply Hnent. apply cnt_in. rewrite <- i_count. apply cnt_in in Hx. lia.
      * intros x Hx. apply F3; [exact Hx|]. intros E. subst x. apply Hnent. apply cnt_in. rewrite <- i_count. apply cnt_in in Hx. lia.
      * rewrite (F5 Hnent). exact i_space.
Qed.

(* ---------- every event preserves the invariant ---------- *)
(* an event that changes neither the directory nor the list of all chunks ever accepted *)
Ltac pinv_unchanged H Hp f :=
  eapply pinv_same; [| |exact Hp]; unfold f in H;
  repeat match type of H with
         | context [match ?x with _ => _ end] => destruct x
         end; try discriminate; inversion H; reflexivity.

Theorem good_step : forall s e s', Good s -> step matchf dirsize s e = Some s' -> Good s'.
Proof.
  intros s e s' Hg H. unfold step in H.
  destruct e.
  all: try (destruct (st_up s) eqn:Hup; [|discriminate]; destruct Hg as [Hp Hi]; specialize (Hi Hup)).
  - (* Accept *) destruct (good_accept _ _ _ _ _ Hp Hi H) as [A B]. split; assumption.
  - (* FeedTake *) split; [pinv_unchanged H Hp do_feed_take|intros _; eapply inv_feed_take; eassumption].
  - (* FeedLoad *) destruct (good_feed_load _ _ _ Hp Hi H) as [A B]. split; [exact A|intros _; exact B].
  - (* FeedPush *) split; [pinv_unchanged H Hp do_feed_push|intros _; eapply inv_feed_push; eassumption].
  - (* FeedStop *) split; [pinv_unchanged H Hp do_feed_stop|intros _; eapply inv_feed_stop; eassumption].
  - (* SaveCheck *) destruct (good_save_check _ _ Hp Hi H) as [A B]. split; [exact A|intros _; exact B].
  - (* SaveWrite *) destruct (good_save_write _ _ _ Hp Hi H) as [A B]. split; assumption.
  - (* SaveEnd *) split; [pinv_unchanged H Hp do_save_end|intros _; eapply inv_save_end; eassumption].
  - (* FeedStopped *) split; [pinv_unchanged H Hp do_feed_stopped|intros _; eapply inv_feed_stopped; eassumption].
  - (* Register *) destruct (is_stopped (st_fpc s)); [discriminate|]. inversion H; subst s'.
    split; [apply pinv_same with (s := s); try exact Hp; reflexivity|intros _; apply inv_set_cons; exact Hi].
  - (* ConsTake *) split; [pinv_unchanged H Hp do_cons_take|intros _; eapply inv_cons_take; eassumption].
  - (* Consumed *) destruct (inv_consumed _ _ _ Hp Hi H) as [A B]. split; [exact A|intros _; exact B].
  - (* Leftover *) destruct (good_leftover _ _ _ _ Hp Hi H) as [A B]. split; assumption.
  - (* ConsFinish *) destruct (st_cons s); [discriminate|]. inversion H; subst s'.
    split; [apply pinv_same with (s := s); try exact Hp; reflexivity|intros _; apply inv_set_cons; exact Hi].
  - (* Destroy *) destruct (st_closed s); [discriminate|]. inversion H; subst s'.
    split; [apply pinv_same with (s := s); try exact Hp; reflexivity|intros _; apply inv_set_closed; exact Hi].
  - (* Restart *) destruct (down s && Nat.ltb 0 Q && Nat.ltb 0 M); [|discriminate]. inversion H; subst s'.
    destruct Hg as [Hp _]. destruct (good_restart s Q M maxb dirok Hp) as [A B]. split; [exact A|intros _; exact B].
  - (* Crash *) inversion H; subst s'. split; [apply pinv_same with (s := s); try exact Hp; reflexivity|simp_state; intros; discriminate].
  - (* Tamper *) eapply good_tamper; eassumption.
Qed.

Lemma good_init : forall d, dir_sorted d -> Good (init d).
Proof.
  intros d Hs. split; [|cbn; intros; discriminate].
  constructor; cbn; [exact Hs|intros x dd []|constructor|intros x []].
Qed.

Theorem good_run : forall evs s s', Good s -> run matchf dirsize s evs = Some s' -> Good s'.
Proof.
  induction evs as [|e evs IH]; intros s s' Hg H; cbn [run] in H.
  - inversion H; subst. exact Hg.
  - destruct (step matchf dirsize s e) as [s1|] eqn:Es; [|discriminate].
    eapply IH; [eapply good_step; eassumption|exact H].
Qed.

End Proofs.

