(* Conservation and at-least-once for all runs of Model/System.v. *)
From Coq Require Import List Arith Bool Lia PeanoNat NArith.
From SV Require Import Model.Common Model.System Proofs.SystemLists Proofs.SystemProofs.
Import ListNotations.
Open Scope nat_scope.

(* ---------- conservation and at-least-once, for all runs ---------- *)

Record cons_inv (s : state) : Prop := mkCons {
  cI1 : forall t, In t (ingested s) -> In t (anywhere s);
  cI2 : forall t, In t (anywhere s) -> In t (ingested s);
  cI3 : forall t, In t (filtered s) -> t_keep t = false
}.

Lemma cons_init : cons_inv init.
Proof. constructor; cbn; intros; contradiction. Qed.

Lemma cons_step : forall s e s', aux s -> cons_inv s -> step s e = Some s' -> cons_inv s'.
Proof.
  intros s e s' Ha [I1 I2 I3] H. constructor.
  - intros t Ht. destruct (step_ingested _ _ _ H) as [E|[t0 [ -> E]]]; rewrite E in Ht.
    + eapply step_anywhere; eauto.
    + destruct Ht as [<-|Ht]; [|eapply step_anywhere; eauto].
      (* the record just read sits in the connection buffer *)
      cbn [step] in H. destruct (mem_nat (t_conn t0) (open_conns s) && stamp_fresh t0 (ingested s)); [|discriminate].
      inversion H; subst. unfold anywhere, live, transit, set_in. cbn. rewrite !in_app_iff. cbn. tauto.
  - intros t Ht. destruct (step_origin _ _ _ H t Ht) as [Ho|Ho]; [|subst e].
    + destruct (step_ingested _ _ _ H) as [E|[t0 [_ E]]]; rewrite E; [auto|right; auto].
    + cbn [step] in H. destruct (mem_nat (t_conn t) (open_conns s) && stamp_fresh t (ingested s)); [|discriminate].
      inversion H; subst. cbn. left. reflexivity.
  - eapply step_filtered; eauto.
Qed.

Lemma run_invariants : forall es s s', aux s -> cons_inv s -> steps s es = Some s' -> aux s' /\ cons_inv s'.
Proof.
  induction es as [|e es IH]; intros s s' Ha Hc H; cbn in H.
  - inversion H; subst; tauto.
  - destruct (step s e) as [s1|] eqn:E; [|discriminate].
    eapply IH; [eapply aux_step; eauto|eapply cons_step; eauto|assumption].
Qed.

Lemma run_lost : forall es s s', steps s es = Some s' -> no_timeout es = true -> lost s' = lost s.
Proof.
  induction es as [|e es IH]; intros s s' H N; cbn in H.
  - inversion H; reflexivity.
  - destruct (step s e) as [s1|] eqn:E; [|discriminate]. cbn in N. apply andb_true_iff in N. destruct N as [N1 N2].
    apply negb_true_iff in N1. rewrite (IH _ _ H N2). eapply step_lost; eauto.
Qed.

(* conservation: every record read is somewhere, nothing is anywhere that was not read (tokens carry
   connection, sequence, pipeline, filter verdict and body: contents unaltered), records that pass the
   filters are never in the "filtered" location *)
Lemma conservation_lemma : forall es s, steps init es = Some s ->
  (forall t, In t (ingested s) -> In t (anywhere s)) /\
  (forall t, In t (anywhere s) -> In t (ingested s)) /\
  (forall t, In t (ingested s) -> t_keep t = true -> In t (live s)).
Proof.
  intros es s H. destruct (run_invariants es init s aux_init cons_init H) as [Ha [I1 I2 I3]].
  repeat split; auto.
  intros t Ht Hk. specialize (I1 t Ht). unfold anywhere in I1. apply in_app_iff in I1.
  destruct I1 as [I1|I1]; [assumption|]. rewrite (I3 t I1) in Hk. discriminate.
Qed.

Definition quiescent (s : state) : Prop := forall t, ~ In t (transit s).

Lemma at_least_once_quiescent_lemma : forall es s, steps init es = Some s -> no_timeout es = true -> quiescent s ->
  forall t, In t (ingested s) -> t_keep t = true ->
  In t (toks_of_chunks (acked s)) \/ In t (toks_of_chunks (files s)) \/ In t (toks_of_chunks (dropped s)).
Proof.
  intros es s H N Q t Ht Hk. destruct (conservation_lemma es s H) as [_ [_ I]].
  specialize (I t Ht Hk). unfold live in I. rewrite (run_lost _ _ _ H N) in I. cbn in I. rewrite app_nil_r in I.
  apply in_app_iff in I. destruct I as [I|I]; [destruct (Q t I)|].
  unfold safe in I. rewrite !in_app_iff in I. exact I.
Qed.

Lemma stopped_quiescent : forall es s, steps init es = Some s -> phase s = Stopped -> quiescent s.
Proof.
  intros es s H Hp. destruct (run_invariants es init s aux_init cons_init H) as [Ha _]. exact (proj1 (aJ _ Ha Hp)).
Qed.

Lemma at_least_once_lemma : forall es s, steps init es = Some s -> no_timeout es = true -> phase s = Stopped ->
  forall t, In t (ingested s) -> t_keep t = true ->
  In t (toks_of_chunks (acked s)) \/ In t (toks_of_chunks (files s)) \/ In t (toks_of_chunks (dropped s)).
Proof.
  intros es s H N Hp. apply (at_least_once_quiescent_lemma es s H N). eapply stopped_quiescent; eauto.
Qed.

(* without the "no channel timeout" hypothesis the conclusion weakens to: ... or lost by that branch *)
Lemma at_least_once_or_timeout_lemma : forall es s, steps init es = Some s -> phase s = Stopped ->
  forall t, In t (ingested s) -> t_keep t = true -> In t (safe s) \/ In t (lost s).
Proof.
  intros es s H Hp t Ht Hk. destruct (conservation_lemma es s H) as [_ [_ I]]. specialize (I t Ht Hk).
  unfold live in I. rewrite !in_app_iff in I. destruct I as [I|I]; [|tauto].
  destruct (stopped_quiescent es s H Hp t I).
Qed.
