From SV Require Import Model.Common Model.Utf8 Model.Parser Model.Composite Spec.Utf8Spec Spec.SyslogSpec
  Proofs.CommonFacts Proofs.Utf8Proofs Proofs.ParserProofs.
From Coq Require Import Lia ZifyBool ZifyN ZifyNat.
Ltac Zify.zify_post_hook ::= Z.div_mod_to_equations.
Open Scope N_scope.
(* Proofs about Model/Composite.v (sysloginput's composite parser: parser + extraction transforms +
   CountRecordPassToDrop + Release) against the accounting relations of Spec/SyslogSpec.v. *)

(* ---------- LogAllocator.Release ---------- *)

Lemma release_spec : forall r refs,
  (1 <= refs)%Z ->
  exists c', release (new_cell refs r) = Ok c' /\ c_refs c' = (refs - 1)%Z /\
             (refs = 1%Z -> c_rec c' = cleared r) /\ ((1 < refs)%Z -> c_rec c' = r).
Proof.
  intros r refs H. unfold release, new_cell. cbn [c_refs c_rec].
  destruct (refs - 1 <? 0)%Z eqn:E1; [lia|]. destruct (0 <? refs - 1)%Z eqn:E2.
  - eexists. split; [reflexivity|]. cbn [c_refs c_rec]. split; [reflexivity|]. split; intros; [lia|reflexivity].
  - eexists. split; [reflexivity|]. cbn [c_refs c_rec]. split; [lia|]. split; intros; [reflexivity|lia].
Qed.

Lemma release_panics_without_reference : forall r refs,
  (refs <= 0)%Z -> release (new_cell refs r) = Panic site_refcount.
Proof.
  intros r refs H. unfold release, new_cell. cbn [c_refs]. destruct (refs - 1 <? 0)%Z eqn:E1; [reflexivity|lia].
Qed.

(* ---------- CountRecordPassToDrop right after CountRecordPass ---------- *)

Lemma pass_to_drop_after_pass : forall cnt c1 len,
  counted_passed cnt c1 len -> counted_dropped_any cnt (count_pass_to_drop c1 len) len.
Proof.
  intros cnt c1 len [A [B [C D]]]. unfold counted_dropped_any, count_pass_to_drop. cbn. repeat split; lia.
Qed.

Lemma pass_to_drop_overflow : forall c len,
  overflow_n (count_pass_to_drop c len) = overflow_n c /\ overflow_bytes (count_pass_to_drop c len) = overflow_bytes c.
Proof. intros. split; reflexivity. Qed.

(* ---------- the extraction transforms do not write RawLength ---------- *)

Lemma set_field_raw_length : forall r i v, raw_length (set_field r i v) = raw_length r.
Proof. reflexivity. Qed.

Lemma del_fields_raw_length : forall keys r,
  raw_length (fold_left (fun r0 k => set_field r0 k []) keys r) = raw_length r.
Proof.
  induction keys as [|k keys IH]; intros r; [reflexivity|]. cbn [fold_left]. rewrite IH. reflexivity.
Qed.

Lemma run_xform_raw_length : forall x r lab,
  raw_length (snd (fst (run_xform x r lab))) = raw_length r.
Proof.
  intros [conds pct label m d|keys] r lab; unfold run_xform.
  - destruct (negb (xmatch conds r)); [reflexivity|]. destruct (pct =? 100)%Z; [reflexivity|].
    destruct ((0 <? m) && (Z.quot (100 * d) m <? pct))%Z; reflexivity.
  - cbn [fst snd]. apply del_fields_raw_length.
Qed.

Lemma run_transforms_raw_length : forall xs r lab,
  raw_length (snd (fst (run_transforms xs r lab))) = raw_length r.
Proof.
  induction xs as [|x xs IH]; intros r lab; [reflexivity|]. cbn [run_transforms].
  pose proof (run_xform_raw_length x r lab) as H.
  destruct (run_xform x r lab) as [[[d x'] r'] lab']. cbn [fst snd] in H. destruct d; [exact H|].
  pose proof (IH r' lab') as H2. destruct (run_transforms xs r' lab') as [[[d2 xs'] r''] lab'']. cbn [fst snd] in *. lia.
Qed.

Definition keeps_raw_length {X : Type} (extract : X -> record -> bool * record * X) : Prop :=
  forall x r, raw_length (snd (fst (extract x r))) = raw_length r.

Lemma extract_transforms_keeps_raw_length : keeps_raw_length extract_transforms.
Proof.
  intros [xs lab] r. unfold extract_transforms. cbn [fst snd].
  pose proof (run_transforms_raw_length xs r lab) as H.
  destruct (run_transforms xs r lab) as [[[d xs'] r'] lab']. exact H.
Qed.

(* the number of transforms and their kinds do not change (only the running totals of drop transforms do) *)
Lemma run_transforms_length : forall xs r lab,
  length (snd (fst (fst (run_transforms xs r lab)))) = length xs.
Proof.
  induction xs as [|x xs IH]; intros r lab; [reflexivity|]. cbn [run_transforms].
  destruct (run_xform x r lab) as [[[d x'] r'] lab']. destruct d; [reflexivity|].
  pose proof (IH r' lab') as H. destruct (run_transforms xs r' lab') as [[[d2 xs'] r''] lab'']. cbn [fst snd length] in *. lia.
Qed.

(* ---------- compositeParser.Parse ---------- *)

Definition overflow_ok (c c' : counters) (len : nat) : Prop := same_overflow c c' \/ one_overflow c c' len.

(* the statement of the property for one message through the composite parser *)
Lemma composite_accounting_lemma : forall (X : Type) (extract : X -> record -> bool * record * X) refs0 cfg cnt x input,
  cfg_ok cfg -> (1 <= refs0)%Z -> keeps_raw_length extract ->
  exists res cnt' x',
    composite_parse false refs0 extract cfg cnt x input = (Ok res, cnt', x') /\
    match res with
    | Some r => counted_passed cnt cnt' (length input) /\ raw_length r = length input
    | None => counted_dropped_any cnt cnt' (length input)
    end /\
    overflow_ok cnt cnt' (length input).
Proof.
  intros X extract refs0 cfg cnt x input Hc Hrefs Hx. unfold composite_parse.
  destruct (accounting_lemma cfg cnt input Hc) as [res [c1 [Hp Hres]]]. rewrite Hp.
  destruct res as [r|].
  - destruct Hres as [Hpass [Hraw Hov]].
    pose proof (Hx x r) as Hr. destruct (extract x r) as [[d r'] x']. cbn [fst snd] in Hr.
    destruct d.
    + destruct (release_spec r' refs0 Hrefs) as [c' [Hrel _]]. rewrite Hrel.
      exists None. eexists. exists x'. split; [reflexivity|]. unfold new_cell. cbn [c_rec]. rewrite Hr, Hraw. split.
      * apply pass_to_drop_after_pass. exact Hpass.
      * unfold overflow_ok, same_overflow, one_overflow in *. cbn [count_pass_to_drop overflow_n overflow_bytes]. exact Hov.
    + exists (Some r'), c1, x'. split; [reflexivity|]. split; [split; [exact Hpass|lia]|exact Hov].
  - exists None, c1, x. split; [reflexivity|]. split.
    + destruct Hres as [A [B [C [D _]]]]. repeat split; assumption.
    + left. destruct Hres as [_ [_ [_ [_ E]]]]. exact E.
Qed.

(* what the composite parser returns: nil when the parser refuses the message or the extraction drops its
   record, else the parser's record after the extraction *)
Lemma composite_result_lemma : forall (X : Type) (extract : X -> record -> bool * record * X) refs0 cfg cnt x input,
  cfg_ok cfg -> (1 <= refs0)%Z ->
  fst (fst (composite_parse false refs0 extract cfg cnt x input)) =
    match fst (parse cfg cnt input) with
    | Ok (Some r) => if fst (fst (extract x r)) then Ok None else Ok (Some (snd (fst (extract x r))))
    | o => o
    end.
Proof.
  intros X extract refs0 cfg cnt x input Hc Hrefs. unfold composite_parse.
  destruct (parse cfg cnt input) as [[[r|]|e|s] c1]; cbn [fst]; try reflexivity.
  destruct (extract x r) as [[d r'] x']. cbn [fst snd]. destruct d; [|reflexivity].
  destruct (release_spec r' refs0 Hrefs) as [c' [Hrel _]]. rewrite Hrel. reflexivity.
Qed.

Lemma composite_no_panic_lemma : forall (X : Type) (extract : X -> record -> bool * record * X) refs0 cfg cnt x input,
  cfg_ok cfg -> (1 <= refs0)%Z ->
  is_panic (fst (fst (composite_parse false refs0 extract cfg cnt x input))) = false.
Proof.
  intros X extract refs0 cfg cnt x input Hc Hrefs. rewrite composite_result_lemma by assumption.
  destruct (accounting_lemma cfg cnt input Hc) as [res [c1 [Hp _]]]. rewrite Hp. cbn [fst].
  destruct res as [r|]; [|reflexivity]. destruct (fst (fst (extract x r))); reflexivity.
Qed.

(* extractions that never drop and keep the record: the composite parser is the parser *)
Lemma composite_passthrough_lemma : forall (X : Type) (extract : X -> record -> bool * record * X) rf refs0 cfg cnt x input,
  (forall x r, extract x r = (false, r, x)) ->
  composite_parse rf refs0 extract cfg cnt x input = (parse cfg cnt input, x).
Proof.
  intros X extract rf refs0 cfg cnt x input H. unfold composite_parse.
  destruct (parse cfg cnt input) as [[[r|]|e|s] c]; try reflexivity. rewrite H. reflexivity.
Qed.

(* the instance for the modelled transforms (drop / delFields in any number and order, any running totals) *)
Lemma composite_transforms_accounting_lemma : forall refs0 cfg cnt xs lab input,
  cfg_ok cfg -> (1 <= refs0)%Z ->
  exists res cnt' x',
    composite_parse false refs0 extract_transforms cfg cnt (xs, lab) input = (Ok res, cnt', x') /\
    match res with
    | Some r => counted_passed cnt cnt' (length input) /\ raw_length r = length input
    | None => counted_dropped_any cnt cnt' (length input)
    end /\
    overflow_ok cnt cnt' (length input).
Proof.
  intros refs0 cfg cnt xs lab input Hc Hrefs.
  apply composite_accounting_lemma; [exact Hc|exact Hrefs|exact extract_transforms_keeps_raw_length].
Qed.

(* ---------- sequences through one composite parser ---------- *)

Definition stream_outs {X : Type} (rs : list (outcome (option record) * counters * X)) : list (outcome (option record)) :=
  map (fun r => fst (fst r)) rs.

Definition stream_final {X : Type} (rs : list (outcome (option record) * counters * X)) (cnt : counters) : counters :=
  last (map (fun r => snd (fst r)) rs) cnt.

Lemma stream_final_cons : forall (X : Type) (r : outcome (option record) * counters * X) rs cnt,
  stream_final (r :: rs) cnt = stream_final rs (snd (fst r)).
Proof.
  intros X r rs cnt. unfold stream_final. cbn [map].
  destruct (map (fun r0 : outcome (option record) * counters * X => snd (fst r0)) rs) as [|c l] eqn:E; [reflexivity|].
  change (last (c :: l) cnt = last (c :: l) (snd (fst r))). apply last_nonempty_default.
Qed.

Lemma composite_stream_lemma : forall (X : Type) (extract : X -> record -> bool * record * X) refs0 cfg msgs cnt x,
  cfg_ok cfg -> (1 <= refs0)%Z -> keeps_raw_length extract ->
  let rs := composite_stream false refs0 extract cfg cnt x msgs in
  let outs := stream_outs rs in
  let fin := stream_final rs cnt in
  length rs = length msgs /\
  Forall (fun o => is_panic o = false) outs /\
  passed_n fin = passed_n cnt + delivered_n msgs outs /\
  passed_bytes fin = passed_bytes cnt + delivered_bytes msgs outs /\
  dropped_n fin = dropped_n cnt + refused_n msgs outs /\
  dropped_bytes fin = dropped_bytes cnt + refused_bytes msgs outs /\
  delivered_n msgs outs + refused_n msgs outs = N.of_nat (length msgs) /\
  delivered_bytes msgs outs + refused_bytes msgs outs = sum_lengths msgs.
Proof.
  intros X extract refs0 cfg msgs cnt x Hc Hrefs Hx. revert cnt x.
  induction msgs as [|m ms IH]; intros cnt x.
  - cbn. repeat split; try lia. constructor.
  - cbn [composite_stream].
    destruct (composite_accounting_lemma X extract refs0 cfg cnt x m Hc Hrefs Hx) as [res [c1 [x1 [E [Hres _]]]]].
    rewrite E. cbn [fst snd].
    specialize (IH c1 x1). cbn zeta in IH.
    set (rs := composite_stream false refs0 extract cfg c1 x1 ms) in *.
    destruct IH as [I0 [I1 [I2 [I3 [I4 [I5 [I6 I7]]]]]]].
    cbn zeta. rewrite stream_final_cons. cbn [fst snd].
    unfold stream_outs in *. cbn [map fst snd length].
    split; [lia|]. split; [constructor; [reflexivity|exact I1]|].
    cbn [sum_lengths fold_right]. fold (sum_lengths ms).
    destruct res as [r|].
    + destruct Hres as [[A [B [C D]]] _].
      cbn [delivered_n delivered_bytes refused_n refused_bytes]. repeat split; lia.
    + destruct Hres as [A [B [C D]]].
      cbn [delivered_n delivered_bytes refused_n refused_bytes]. repeat split; lia.
Qed.

(* ---------- the variant with the two statements of the drop path swapped ---------- *)

(* for every message whose record an extraction drops, on an allocator with one output: the record count
   moves from passed to dropped, but the bytes stay in passed and never reach dropped *)
Lemma release_first_lemma : forall (X : Type) (extract : X -> record -> bool * record * X) cfg cnt x input r c1,
  cfg_ok cfg -> keeps_raw_length extract ->
  parse cfg cnt input = (Ok (Some r), c1) -> fst (fst (extract x r)) = true ->
  exists cnt' x',
    composite_parse true 1 extract cfg cnt x input = (Ok None, cnt', x') /\
    passed_n cnt' = passed_n cnt /\ dropped_n cnt' = dropped_n cnt + 1 /\
    passed_bytes cnt' = passed_bytes cnt + N.of_nat (length input) /\
    dropped_bytes cnt' = dropped_bytes cnt.
Proof.
  intros X extract cfg cnt x input r c1 Hc Hx Hp Hd. unfold composite_parse. rewrite Hp.
  destruct (accounting_lemma cfg cnt input Hc) as [res [c1' [Hp' Hres]]]. rewrite Hp in Hp'. injection Hp' as <- <-.
  destruct Hres as [[A [B [C D]]] _].
  destruct (extract x r) as [[d r'] x']. cbn [fst snd] in Hd. subst d.
  unfold release, new_cell. cbn [c_refs c_rec]. change (1 - 1 <? 0)%Z with false. change (0 <? 1 - 1)%Z with false.
  cbn iota. exists (count_pass_to_drop c1 (raw_length (cleared r'))), x'. split; [reflexivity|].
  unfold count_pass_to_drop, cleared. cbn. repeat split; lia.
Qed.

(* with two or more outputs the first Release does not recycle the record: the swap is invisible *)
Lemma release_first_masked_lemma : forall (X : Type) (extract : X -> record -> bool * record * X) refs0 cfg cnt x input,
  (2 <= refs0)%Z ->
  composite_parse true refs0 extract cfg cnt x input = composite_parse false refs0 extract cfg cnt x input.
Proof.
  intros X extract refs0 cfg cnt x input H. unfold composite_parse.
  destruct (parse cfg cnt input) as [[[r|]|e|s] c1]; try reflexivity.
  destruct (extract x r) as [[d r'] x']. destruct d; [|reflexivity].
  unfold release, new_cell. cbn [c_refs c_rec].
  destruct (refs0 - 1 <? 0)%Z eqn:E1; [lia|]. destruct (0 <? refs0 - 1)%Z eqn:E2; [reflexivity|lia].
Qed.

(* concrete witness: the line of the package's unit test, an extraction "drop: match app = my-app1, 100 %" *)
Definition example_drop : list xform := [XDrop [(4%nat, [109;121;45;97;112;112;49])] 100 [76;49] 0 0].
Definition example_line : bytes := render 163 example_header example_msg.

Lemma example_composite_lemma :
  cfg_ok example_cfg /\
  composite_parse false 1 extract_transforms example_cfg counters_zero (example_drop, []) example_line =
    (Ok None, {| passed_n := 0; passed_bytes := 0; dropped_n := 1; dropped_bytes := 74; overflow_n := 0; overflow_bytes := 0 |},
     (example_drop, [([76;49], (1, 74))])).
Proof. split; [reflexivity|vm_compute; reflexivity]. Qed.

Lemma release_first_refuted_lemma :
  exists cfg cnt xs input cnt' x',
    cfg_ok cfg /\
    composite_parse true 1 extract_transforms cfg cnt (xs, []) input = (Ok None, cnt', x') /\
    ~ counted_dropped_any cnt cnt' (length input) /\
    total_bytes cnt' = total_bytes cnt + N.of_nat (length input) /\
    passed_n cnt' = 0 /\ passed_bytes cnt' = N.of_nat (length input).
Proof.
  exists example_cfg, counters_zero, example_drop, example_line.
  eexists. eexists. split; [reflexivity|]. split; [vm_compute; reflexivity|].
  split; [|split; [reflexivity|split; reflexivity]].
  unfold counted_dropped_any. intros [_ [A _]]. vm_compute in A. discriminate A.
Qed.

(* ---------- the drop transform's percentage: running totals ---------- *)

(* a drop transform below 100 % never drops the first record it matches, and its totals stay ordered *)
Definition totals_ok (x : xform) : Prop :=
  match x with XDrop _ _ _ m d => (0 <= d <= m)%Z | XDel _ => True end.

Lemma run_xform_totals : forall x r lab, totals_ok x -> totals_ok (snd (fst (fst (run_xform x r lab)))).
Proof.
  intros [conds pct label m d|keys] r lab H; unfold run_xform; [|exact I].
  destruct (negb (xmatch conds r)); [exact H|]. destruct (pct =? 100)%Z; [exact H|].
  destruct ((0 <? m) && (Z.quot (100 * d) m <? pct))%Z; cbn in *; lia.
Qed.
