(* C02 (widening) — the ACK a Fluentd sends, {"ack": id}, is read back as exactly that id by the model of the wrapper. *)
From SV Require Import Model.Common Model.AckParse Proofs.CommonFacts.
From Coq Require Import Lia ZifyBool ZifyN ZifyNat.
Ltac Zify.zify_post_hook ::= Z.div_mod_to_equations.

Lemma read_n_app : forall (a b : bytes), read_n (N.of_nat (length a)) (a ++ b) = Some (a, b).
Proof.
  intros a b. unfold read_n. rewrite app_length.
  destruct (N.leb_spec (N.of_nat (length a)) (N.of_nat (length a + length b))); [|lia].
  rewrite Nat2N.id. rewrite firstn_app, Nat.sub_diag, firstn_all. simpl. rewrite app_nil_r.
  rewrite skipn_app, Nat.sub_diag, skipn_all. reflexivity.
Qed.

Lemma dec_string_header : forall (s rest : bytes),
  (N.of_nat (length s) < 4294967296)%N ->
  dec_string (str_header (N.of_nat (length s)) ++ s ++ rest) = Some (s, rest).
Proof.
  intros s rest Hlen. set (n := N.of_nat (length s)) in *.
  assert (Hempty : n = 0%N -> s = []) by (intro H; destruct s; [reflexivity|subst n; simpl in H; lia]).
  unfold str_header.
  destruct (N.ltb_spec n 32).
  - unfold dec_string. cbn [app rd_code]. unfold bytes_len.
    replace (160 + n =? 192)%N with false by lia.
    replace ((160 <=? 160 + n) && (160 + n <=? 191))%N with true by lia.
    replace (160 + n - 160)%N with n by lia.
    destruct (N.eqb_spec n 0); [rewrite (Hempty e); reflexivity|]. apply read_n_app.
  - destruct (N.ltb_spec n 256).
    + unfold dec_string. cbn [app rd_code]. unfold bytes_len. cbn. 
      try match goal with |- (if (?e =? 0)%N then _ else _) = _ => replace e with n by lia end.
      destruct (N.eqb_spec n 0); [lia|]. apply read_n_app.
    + destruct (N.ltb_spec n 65536).
      * unfold dec_string. cbn [app rd_code]. unfold bytes_len. cbn.
        match goal with |- (if (?e =? 0)%N then _ else _) = _ => replace e with n by lia end.
        destruct (N.eqb_spec n 0); [lia|]. apply read_n_app.
      * unfold dec_string. cbn [app rd_code]. unfold bytes_len. cbn.
        match goal with |- (if (?e =? 0)%N then _ else _) = _ => replace e with n by lia end.
        destruct (N.eqb_spec n 0); [lia|]. apply read_n_app.
Qed.

Lemma dec_key_ack : forall X : bytes, dec_string (163 :: 97 :: 99 :: 107 :: X) = Some ([97; 99; 107]%N, X).
Proof.
  intros X. unfold dec_string. cbn [rd_code].
  replace (bytes_len 163 (97 :: 99 :: 107 :: X)) with (LLen 3 (97 :: 99 :: 107 :: X)) by reflexivity.
  replace (3 =? 0)%N with false by reflexivity.
  unfold read_n. cbn [length].
  destruct (N.leb_spec 3 (N.of_nat (S (S (S (length X)))))); [reflexivity|lia].
Qed.

Lemma struct_map_one : forall fuel k (v r X : bytes),
  dec_string X = Some (v, r) -> struct_map fuel (S k) 1 [] (163 :: 97 :: 99 :: 107 :: X) = PAck v r.
Proof.
  intros fuel k v r X H. cbn [struct_map].
  replace (1 =? 0)%N with false by reflexivity.
  rewrite dec_key_ack. replace (bytes_eqb [97; 99; 107] key_ack) with true by reflexivity.
  rewrite H. replace (1 - 1)%N with 0%N by reflexivity.
  destruct k; reflexivity.
Qed.

Lemma ack_roundtrip_lemma : forall (id rest : bytes),
  (N.of_nat (length id) < 4294967296)%N -> parse_ack (encode_ack id ++ rest) = PAck id rest.
Proof.
  intros id rest Hlen.
  assert (E : encode_ack id ++ rest =
              129 :: 163 :: 97 :: 99 :: 107 :: (str_header (N.of_nat (length id)) ++ id ++ rest)).
  { unfold encode_ack, key_ack. simpl. rewrite <- app_assoc. reflexivity. }
  rewrite E. unfold parse_ack. cbn [rd_code].
  replace (map_len 129 (163 :: 97 :: 99 :: 107 :: str_header (N.of_nat (length id)) ++ id ++ rest))
    with (LLen 1 (163 :: 97 :: 99 :: 107 :: str_header (N.of_nat (length id)) ++ id ++ rest)) by reflexivity.
  apply struct_map_one. apply dec_string_header. exact Hlen.
Qed.

(* tests (on literals): responses without an "ack" field are read as the empty id *)
Example ack_empty_map : parse_ack [128] = PAck [] [].
Proof. reflexivity. Qed.
Example ack_nil : parse_ack [192] = PAck [] [].
Proof. reflexivity. Qed.
Example ack_other_key : parse_ack [129; 161; 120; 161; 121] = PAck [] [].
Proof. reflexivity. Qed.
Example ack_not_msgpack : parse_ack [193] = PErr.
Proof. reflexivity. Qed.
