(* C17 - the TCP listener (current code, lf = true) respects the assumption of reloadable.go: in every run of
   the listener LTS, every NewSink call uses a client number that is below MaxClientNumber and not held by
   any other open or opening sink.  Hence every theorem about guarded runs holds for the listener. *)
From SV Require Import Model.Common Model.Reload Spec.ReloadSpec Proofs.ReloadLists Proofs.ReloadInv Proofs.ReloadProofs.
From Coq Require Import Arith Lia.
Local Open Scope nat_scope.

(* ---------- what a step of reloadable.go does to the list of goroutines and to the size of the table ---------- *)
Definition frozen (c : cthread) : Prop := ct_pc c = PIdle /\ ct_h c <> HOpen.

Lemma hand_thr : forall st t s rs, st_thr (hand st t s rs) = st_thr st /\ st_table (hand st t s rs) = st_table st.
Proof. intros. unfold hand. destruct (nth_error (st_sinks st) s); split; reflexivity. Qed.

Lemma flush_thr : forall st s cl, st_thr (flush st s cl) = st_thr st /\ st_table (flush st s cl) = st_table st.
Proof. intros. unfold flush. destruct (nth_error (st_sinks st) s); split; reflexivity. Qed.

Definition thr_shape (st : state) (e : event) (st' : state) : Prop :=
  match e with
  | ENewBegin t n =>
    exists c0, get_thr st t = Some c0 /\ ct_h c0 = HNone /\ ct_pc c0 = PIdle /\
               st_thr st' = upd (st_thr st) t (mkThr n HNone (PNewIn (st_cur st)))
  | ERlBegin | ERlInit _ | ERlLock | ERlStep => st_thr st' = st_thr st
  | _ => exists t0 c0 c0', get_thr st t0 = Some c0 /\ st_thr st' = upd (st_thr st) t0 c0' /\
                           ct_num c0' = ct_num c0 /\ ~ frozen c0
  end.

Ltac not_frozen := intros [F1 F2]; simpl in *; try discriminate; try (apply F2; reflexivity).

Lemma step_thr_shape : forall lk st e st',
  step lk st e = Some st' -> thr_shape st e st' /\ length (st_table st') = length (st_table st).
Proof.
  intros lk st e st' H. destruct e; unfold thr_shape; unfold step in H.
  - (* ENewBegin *)
    destruct (get_thr st t) as [[n0 [] []]|] eqn:Ht; try discriminate.
    destruct lk; [destruct (st_writer st); try discriminate|]; inversion H; subst st'; (split; [|reflexivity]);
      exists (mkThr n0 HNone PIdle); auto.
  - (* ENewMade *)
    destruct (get_thr st t) as [[n0 [] []]|] eqn:Ht; try discriminate. destruct lk; try discriminate.
    unfold new_sink in H. inversion H; subst st'. split; [|reflexivity].
    eexists t, _, _. split; [exact Ht|]. split; [reflexivity|]. split; [reflexivity|not_frozen].
  - (* ENewEnd *)
    destruct (get_thr st t) as [[n0 [] []]|] eqn:Ht; try discriminate.
    + destruct lk; try discriminate. unfold new_sink, store in H.
      cbn [st_table set_readers set_sinks st_readers] in H.
      destruct (n0 <? length (st_table st)); inversion H; subst st'; (split; [|cbn; rewrite ?upd_length; reflexivity]);
        eexists t, _, _; (split; [exact Ht|]); (split; [reflexivity|]); (split; [reflexivity|not_frozen]).
    + destruct lk; try discriminate. destruct (st_writer st); try discriminate. unfold store in H.
      destruct (n0 <? length (st_table st)); inversion H; subst st'; (split; [|cbn; rewrite ?upd_length; reflexivity]);
        eexists t, _, _; (split; [exact Ht|]); (split; [reflexivity|]); (split; [reflexivity|not_frozen]).
  - (* EAccBegin *)
    destruct (get_thr st t) as [[n0 [] []]|] eqn:Ht; try discriminate. destruct (st_writer st); try discriminate.
    destruct (slot st n0); inversion H; subst st'; (split; [|reflexivity]);
      eexists t, _, _; (split; [exact Ht|]); (split; [reflexivity|]); (split; [reflexivity|not_frozen]).
  - (* EAccEnd *)
    destruct (get_thr st t) as [[n0 [] []]|] eqn:Ht; try discriminate. inversion H; subst st'.
    destruct (hand_thr st t s rs) as [E1 E2]. split; [|cbn; exact (f_equal (@length _) E2)].
    eexists t, _, _. split; [exact Ht|]. split; [cbn; rewrite E1; reflexivity|]. split; [reflexivity|not_frozen].
  - (* ETickBegin *)
    destruct (get_thr st t) as [[n0 [] []]|] eqn:Ht; try discriminate. destruct (st_writer st); try discriminate.
    destruct (slot st n0); inversion H; subst st'; (split; [|reflexivity]);
      eexists t, _, _; (split; [exact Ht|]); (split; [reflexivity|]); (split; [reflexivity|not_frozen]).
  - (* ETickEnd *)
    destruct (get_thr st t) as [[n0 [] []]|] eqn:Ht; try discriminate. inversion H; subst st'.
    destruct (flush_thr st s false) as [E1 E2]. split; [|cbn; exact (f_equal (@length _) E2)].
    eexists t, _, _. split; [exact Ht|]. split; [cbn; rewrite E1; reflexivity|]. split; [reflexivity|not_frozen].
  - (* ECloseBegin *)
    destruct (get_thr st t) as [[n0 [] []]|] eqn:Ht; try discriminate. destruct (st_writer st); try discriminate.
    destruct (slot st n0); inversion H; subst st'; (split; [|reflexivity]);
      eexists t, _, _; (split; [exact Ht|]); (split; [reflexivity|]); (split; [reflexivity|not_frozen]).
  - (* ECloseEnd *)
    destruct (get_thr st t) as [[n0 [] []]|] eqn:Ht; try discriminate. inversion H; subst st'.
    destruct (flush_thr st s true) as [E1 E2]. split; [|cbn; rewrite upd_length; exact (f_equal (@length _) E2)].
    eexists t, _, _. split; [exact Ht|]. split; [cbn; rewrite E1; reflexivity|]. split; [reflexivity|not_frozen].
  - (* ERlBegin *) destruct (st_rl st); try discriminate. inversion H; subst. split; reflexivity.
  - (* ERlInit *) destruct (st_rl st); try discriminate. destruct ok; inversion H; subst; split; reflexivity.
  - (* ERlLock *) destruct (st_rl st); try discriminate. destruct (st_writer st); try discriminate.
    destruct (st_readers st); try discriminate. inversion H; subst. split; reflexivity.
  - (* ERlStep *) destruct (st_rl st); try discriminate.
    + inversion H; subst st'. destruct (slot st j).
      * destruct (flush_thr st n true) as [E1 E2]. split; cbn; [exact E1|exact (f_equal (@length _) E2)].
      * split; reflexivity.
    + inversion H; subst. split; reflexivity.
    + inversion H; subst st'. unfold after_new, finish_reload. destruct (next_slot _ 0); split; reflexivity.
    + unfold new_sink in H. inversion H; subst st'. unfold after_new, finish_reload.
      match goal with |- context [next_slot ?a ?b] => destruct (next_slot a b) end; split; cbn; rewrite ?upd_length; reflexivity.
Qed.

(* ---------- the invariant of the listener ---------- *)
Record LINV (ls : lstate) : Prop := mkLINV {
  li_fdlen : length (l_fd ls) = length (st_table (l_st ls));
  li_thlen : length (l_th ls) = length (st_thr (l_st ls));
  li_fresh : forall t c, get_thr (l_st ls) t = Some c -> lt_started (lthr ls t) = false ->
             ct_h c = HNone /\ ct_pc c = PIdle;
  li_owner : forall t c, get_thr (l_st ls) t = Some c -> lt_started (lthr ls t) = true -> lt_fd (lthr ls t) = true ->
             nth_error (l_fd ls) (ct_num c) = Some true;
  li_done : forall t c, get_thr (l_st ls) t = Some c -> lt_started (lthr ls t) = true -> lt_fd (lthr ls t) = false ->
            (ct_h c = HClosed /\ ct_pc c = PIdle) \/ l_stop ls = true;
  li_uniq : forall t t' c c', t <> t' -> get_thr (l_st ls) t = Some c -> get_thr (l_st ls) t' = Some c' ->
            lt_started (lthr ls t) = true -> lt_fd (lthr ls t) = true ->
            lt_started (lthr ls t') = true -> lt_fd (lthr ls t') = true -> ct_num c <> ct_num c'
}.

Lemma lthr_upd : forall ls t x t', t < length (l_th ls) ->
  nth t' (upd (l_th ls) t x) (mkLT false false false) = if t =? t' then x else lthr ls t'.
Proof.
  intros ls t x t' Hl. unfold lthr. destruct (Nat.eqb_spec t t') as [<-|Hne].
  - apply nth_error_nth. apply nth_error_upd_eq. exact Hl.
  - destruct (nth_error (l_th ls) t') as [y|] eqn:E.
    + rewrite (nth_error_nth _ _ _ E). apply nth_error_nth. rewrite nth_error_upd_neq; auto.
    + rewrite !nth_overflow; auto.
      * apply nth_error_None in E. exact E.
      * rewrite upd_length. apply nth_error_None in E. exact E.
Qed.

Lemma linv_init : forall nthr maxn, LINV (linit nthr maxn).
Proof.
  intros. constructor; cbn [l_fd l_th l_st l_stop linit].
  - unfold init. cbn. rewrite !repeat_length. reflexivity.
  - unfold init. cbn. rewrite !repeat_length. reflexivity.
  - intros t c H _. unfold get_thr, init in H. cbn in H. apply nth_error_repeat in H. subst. auto.
  - intros t c H Hs. unfold lthr in Hs. cbn in Hs.
    destruct (nth_error (repeat (mkLT false false false) nthr) t) eqn:E.
    + rewrite (nth_error_nth _ _ _ E) in Hs. apply nth_error_repeat in E. subst. discriminate.
    + rewrite nth_overflow in Hs by (apply nth_error_None; exact E). discriminate.
  - intros t c H Hs. unfold lthr in Hs. cbn in Hs.
    destruct (nth_error (repeat (mkLT false false false) nthr) t) eqn:E.
    + rewrite (nth_error_nth _ _ _ E) in Hs. apply nth_error_repeat in E. subst. discriminate.
    + rewrite nth_overflow in Hs by (apply nth_error_None; exact E). discriminate.
  - intros t t' c c' _ H _ Hs. unfold lthr in Hs. cbn in Hs.
    destruct (nth_error (repeat (mkLT false false false) nthr) t) eqn:E.
    + rewrite (nth_error_nth _ _ _ E) in Hs. apply nth_error_repeat in E. subst. discriminate.
    + rewrite nth_overflow in Hs by (apply nth_error_None; exact E). discriminate.
Qed.

(* no goroutine claims a number whose descriptor is free (and no stop is in progress) *)
Lemma free_fd_num_free : forall ls n,
  LINV ls -> l_stop ls = false -> nth_error (l_fd ls) n = Some false -> num_free (l_st ls) n = true.
Proof.
  intros ls n L Hstop Hfd. unfold num_free. apply forallb_forall. intros c Hin.
  apply In_nth_error in Hin. destruct Hin as [t Ht]. apply Bool.negb_true_iff.
  unfold claims. destruct (Nat.eqb_spec (ct_num c) n) as [En|]; [|reflexivity]. simpl.
  destruct (lt_started (lthr ls t)) eqn:Es.
  - destruct (lt_fd (lthr ls t)) eqn:Ef.
    + pose proof (li_owner _ L _ _ Ht Es Ef) as Ho. rewrite En in Ho. congruence.
    + destruct (li_done _ L _ _ Ht Es Ef) as [[Hh Hp]|Hs]; [|congruence]. rewrite Hh, Hp. reflexivity.
  - destruct (li_fresh _ L _ _ Ht Es) as [Hh Hp]. rewrite Hh, Hp. reflexivity.
Qed.

Lemma get_thr_upd : forall st st' t c0 c',
  get_thr st t = Some c0 -> st_thr st' = upd (st_thr st) t c' ->
  forall t', get_thr st' t' = if t =? t' then Some c' else get_thr st t'.
Proof.
  intros st st' t c0 c' H0 E t'. unfold get_thr in *. rewrite E, nth_error_upd.
  apply nth_error_some_lt in H0. apply Nat.ltb_lt in H0. rewrite H0, andb_true_r. reflexivity.
Qed.

Lemma lstep_api_guard : forall e, (forall t n, e <> ENewBegin t n) -> forall st, guard st e = true.
Proof. intros e H st. destruct e; try reflexivity. exfalso. eapply H; reflexivity. Qed.

(* one step of the listener: the invariant is kept and the contained step of reloadable.go is guarded *)
Lemma lstep_linv : forall lk ls e ls',
  LINV ls -> lstep true lk ls e = Some ls' ->
  LINV ls' /\ (forall a, In a (api_event e) -> guard (l_st ls) a = true /\ step lk (l_st ls) a = Some (l_st ls')) /\
  (api_event e = [] -> l_st ls' = l_st ls).
Proof.
  intros lk ls e ls' L H. destruct e; unfold lstep in H.
  - (* LConnOpen *)
    destruct (nth_error (l_fd ls) n) as [[|]|] eqn:Hfd; try discriminate.
    destruct (nth_error (l_th ls) t) as [[[|] lf0 fd0]|] eqn:Hth; try discriminate.
    destruct (l_stop ls) eqn:Hstop; cbn [andb] in H; try discriminate.
    destruct (step lk (l_st ls) (ENewBegin t n)) as [st'|] eqn:S; try discriminate.
    injection H as Hls'; subst ls'.
    destruct (step_thr_shape _ _ _ _ S) as [Sh Tl]. simpl in Sh. destruct Sh as (c0 & Hc0 & Hh0 & Hp0 & Ethr).
    assert (Hnl : n < length (l_fd ls)) by (eapply nth_error_some_lt; eauto).
    assert (Htl : t < length (l_th ls)) by (eapply nth_error_some_lt; eauto).
    assert (G : guard (l_st ls) (ENewBegin t n) = true).
    { simpl. rewrite <- (li_fdlen _ L). apply Nat.ltb_lt in Hnl. rewrite Hnl. simpl.
      apply free_fd_num_free; auto. }
    assert (Hget : forall t', get_thr st' t' = if t =? t' then Some (mkThr n HNone (PNewIn (st_cur (l_st ls)))) else get_thr (l_st ls) t')
      by (eapply get_thr_upd; eauto).
    assert (Hlt : forall t', lthr (mkL st' (upd (l_fd ls) n true) (upd (l_th ls) t (mkLT true false true)) false) t' =
                             if t =? t' then mkLT true false true else lthr ls t').
    { intros t'. unfold lthr at 1. cbn [l_th]. apply lthr_upd. exact Htl. }
    split; [|split].
    + constructor; cbn [l_fd l_th l_st l_stop].
      * rewrite upd_length, Tl. apply L.
      * rewrite upd_length, Ethr, upd_length. apply L.
      * intros t' c. rewrite Hget, Hlt. destruct (Nat.eqb_spec t t'); [discriminate|]. apply (li_fresh _ L).
      * intros t' c. rewrite Hget, Hlt. destruct (Nat.eqb_spec t t') as [<-|Hne]; intros Hc Hs Hf.
        -- inversion Hc; subst c. simpl. apply nth_error_upd_eq. exact Hnl.
        -- pose proof (li_owner _ L _ _ Hc Hs Hf) as Ho. rewrite nth_error_upd.
           destruct ((n =? ct_num c) && (n <? length (l_fd ls))); auto.
      * intros t' c. rewrite Hget, Hlt. destruct (Nat.eqb_spec t t') as [<-|Hne]; intros Hc Hs Hf; [discriminate|].
        rewrite <- Hstop. apply (li_done _ L _ _ Hc Hs Hf).
      * intros t1 t2 c1 c2 Hne. rewrite !Hget, !Hlt.
        destruct (Nat.eqb_spec t t1) as [<-|Hn1]; destruct (Nat.eqb_spec t t2) as [<-|Hn2]; try contradiction; intros H1 H2 S1 F1 S2 F2.
        -- inversion H1; subst c1. simpl. intro E. pose proof (li_owner _ L _ _ H2 S2 F2) as Ho. rewrite <- E in Ho. congruence.
        -- inversion H2; subst c2. simpl. intro E. pose proof (li_owner _ L _ _ H1 S1 F1) as Ho. rewrite E in Ho. congruence.
        -- eapply (li_uniq _ L t1 t2); eauto.
    + intros a [<-|[]]. split; auto.
    + simpl. discriminate.
  - (* LStop *)
    destruct (l_stop ls) eqn:Hstop; try discriminate. injection H as Hls'; subst ls'. split; [|split].
    + constructor; cbn [l_fd l_th l_st l_stop]; try apply L.
      * intros t c Hc Hs Hf. right. reflexivity.
    + intros a [].
    + reflexivity.
  - (* LAbort *)
    destruct (nth_error (l_th ls) t) as [[[|] [|] fd0]|] eqn:Hth; try discriminate.
    destruct (get_thr (l_st ls) t) as [[n0 [] pc0]|] eqn:Hc; try discriminate.
    injection H as Hls'; subst ls'.
    assert (Htl : t < length (l_th ls)) by (eapply nth_error_some_lt; eauto).
    assert (Hold : lthr ls t = mkLT true false fd0) by (unfold lthr; apply nth_error_nth; exact Hth).
    assert (Hlt : forall t', lt_started (lthr (mkL (l_st ls) (l_fd ls) (upd (l_th ls) t (mkLT true true fd0)) (l_stop ls)) t') = lt_started (lthr ls t') /\
                             lt_fd (lthr (mkL (l_st ls) (l_fd ls) (upd (l_th ls) t (mkLT true true fd0)) (l_stop ls)) t') = lt_fd (lthr ls t')).
    { intros t'. unfold lthr at 1 3. cbn [l_th]. rewrite lthr_upd by exact Htl.
      destruct (Nat.eqb_spec t t') as [<-|]; [rewrite Hold|]; auto. }
    split; [|split].
    + constructor; cbn [l_fd l_st l_stop]; try apply L.
      * cbn [l_th]. rewrite upd_length. apply L.
      * intros t' c. destruct (Hlt t') as [-> _]. apply (li_fresh _ L).
      * intros t' c. destruct (Hlt t') as [-> ->]. apply (li_owner _ L).
      * intros t' c. destruct (Hlt t') as [-> ->]. apply (li_done _ L).
      * intros t1 t2 c1 c2. destruct (Hlt t1) as [-> ->]. destruct (Hlt t2) as [-> ->]. apply (li_uniq _ L).
    + intros a [].
    + reflexivity.
  - (* LFdClosed *)
    destruct (nth_error (l_th ls) t) as [[[|] lf0 [|]]|] eqn:Hth; try discriminate.
    destruct (get_thr (l_st ls) t) as [c|] eqn:Hc; try discriminate.
    match type of H with (if ?b then _ else _) = _ => destruct b eqn:En; try discriminate end.
    injection H as Hls'; subst ls'.
    assert (Htl : t < length (l_th ls)) by (eapply nth_error_some_lt; eauto).
    assert (Hold : lthr ls t = mkLT true lf0 true) by (unfold lthr; apply nth_error_nth; exact Hth).
    assert (Hlt : forall t', lthr (mkL (l_st ls) (upd (l_fd ls) (ct_num c) false) (upd (l_th ls) t (mkLT true lf0 false)) (l_stop ls)) t' =
                             if t =? t' then mkLT true lf0 false else lthr ls t').
    { intros t'. unfold lthr at 1. cbn [l_th]. apply lthr_upd. exact Htl. }
    split; [|split].
    + constructor; cbn [l_fd l_st l_stop].
      * rewrite upd_length. apply L.
      * cbn [l_th]. rewrite upd_length. apply L.
      * intros t' c'. rewrite Hlt. destruct (Nat.eqb_spec t t'); [discriminate|]. apply (li_fresh _ L).
      * intros t' c'. rewrite Hlt. destruct (Nat.eqb_spec t t') as [<-|Hne]; intros Hc' Hs Hf; [discriminate|].
        pose proof (li_owner _ L _ _ Hc' Hs Hf) as Ho. rewrite nth_error_upd_neq; auto.
        apply (li_uniq _ L t t' c c'); auto; rewrite Hold; reflexivity.
      * intros t' c'. rewrite Hlt. destruct (Nat.eqb_spec t t') as [<-|Hne]; intros Hc' Hs Hf.
        -- rewrite Hc in Hc'. inversion Hc'; subst c'. apply orb_true_iff in En. destruct En as [En|En].
           ++ left. destruct (ct_h c); try discriminate. destruct (ct_pc c); try discriminate. auto.
           ++ right. apply andb_true_iff in En. apply En.
        -- apply (li_done _ L _ _ Hc' Hs Hf).
      * intros t1 t2 c1 c2 Hne. rewrite !Hlt.
        destruct (Nat.eqb_spec t t1) as [<-|Hn1]; destruct (Nat.eqb_spec t t2) as [<-|Hn2]; try contradiction;
          intros H1 H2 S1 F1 S2 F2; try discriminate.
        eapply (li_uniq _ L t1 t2); eauto.
    + intros a [].
    + reflexivity.
  - (* LApi *)
    match type of H with (if ?b then _ else _) = _ => destruct b eqn:Al; try discriminate end.
    destruct (step lk (l_st ls) e) as [st'|] eqn:S; try discriminate. injection H as Hls'; subst ls'.
    assert (Hne : forall t n, e <> ENewBegin t n) by (intros t n ->; discriminate).
    destruct (step_thr_shape _ _ _ _ S) as [Sh Tl].
    assert (Hlt : forall t', lthr (mkL st' (l_fd ls) (l_th ls) (l_stop ls)) t' = lthr ls t') by reflexivity.
    assert (Hframe : forall t' c', get_thr st' t' = Some c' ->
              exists c, get_thr (l_st ls) t' = Some c /\ ct_num c' = ct_num c /\ (c' = c \/ ~ frozen c)).
    { intros t' c' Hc'. unfold thr_shape in Sh.
      destruct e; try (exfalso; eapply Hne; reflexivity);
        try (unfold get_thr in *; rewrite Sh in Hc'; exists c'; auto);
        destruct Sh as (t0 & c0 & c0' & Ht0 & Ethr & En & Hnf);
        rewrite (get_thr_upd _ _ _ _ _ Ht0 Ethr) in Hc';
        (destruct (Nat.eqb_spec t0 t') as [<-|Hn]; [inversion Hc'; subst c'; exists c0; auto|exists c'; auto]). }
    split; [|split].
    + constructor; cbn [l_fd l_th l_st l_stop].
      * rewrite Tl. apply L.
      * assert (length (st_thr st') = length (st_thr (l_st ls))).
        { unfold thr_shape in Sh. destruct e; try (exfalso; eapply Hne; reflexivity); try (rewrite Sh; reflexivity);
            destruct Sh as (t0 & c0 & c0' & _ & Ethr & _); rewrite Ethr, upd_length; reflexivity. }
        rewrite H. apply L.
      * intros t' c' Hc' Hs. rewrite Hlt in Hs. destruct (Hframe _ _ Hc') as (c & Hc & En & [->|Hnf]).
        -- apply (li_fresh _ L _ _ Hc Hs).
        -- exfalso. apply Hnf. destruct (li_fresh _ L _ _ Hc Hs) as [Hh Hp]. split; auto. rewrite Hh. discriminate.
      * intros t' c' Hc' Hs Hf. rewrite Hlt in Hs, Hf. destruct (Hframe _ _ Hc') as (c & Hc & En & _).
        rewrite En. apply (li_owner _ L _ _ Hc Hs Hf).
      * intros t' c' Hc' Hs Hf. rewrite Hlt in Hs, Hf. destruct (Hframe _ _ Hc') as (c & Hc & En & [->|Hnf]).
        -- apply (li_done _ L _ _ Hc Hs Hf).
        -- destruct (li_done _ L _ _ Hc Hs Hf) as [[Hh Hp]|Hst]; auto.
           exfalso. apply Hnf. split; auto. rewrite Hh. discriminate.
      * intros t1 t2 c1 c2 Hn H1 H2 S1 F1 S2 F2. rewrite Hlt in S1, F1, S2, F2.
        destruct (Hframe _ _ H1) as (d1 & Hd1 & E1 & _). destruct (Hframe _ _ H2) as (d2 & Hd2 & E2 & _).
        rewrite E1, E2. eapply (li_uniq _ L t1 t2); eauto.
    + intros a [<-|[]]. split; auto. apply lstep_api_guard. exact Hne.
    + simpl. discriminate.
Qed.

(* every run of the listener contains a guarded run of reloadable.go *)
Theorem listener_guarded_lemma : forall levs ls ls',
  LINV ls -> lrun true true ls levs = Some ls' ->
  grun true (l_st ls) (api_events levs) = Some (l_st ls') /\ LINV ls'.
Proof.
  induction levs as [|e levs IH]; intros ls ls' L H; simpl in H.
  - inversion H; subst. simpl. auto.
  - destruct (lstep true true ls e) as [ls1|] eqn:S; try discriminate.
    destruct (lstep_linv _ _ _ _ L S) as (L1 & Hapi & Hnone).
    destruct (IH _ _ L1 H) as [G L']. split; auto.
    unfold api_events. simpl. fold (api_events levs).
    destruct (api_event e) as [|a [|b l]] eqn:Ea.
    + simpl. rewrite <- (Hnone eq_refl). exact G.
    + simpl. destruct (Hapi a (or_introl eq_refl)) as [Hg Hs]. rewrite Hg, Hs. exact G.
    + exfalso. destruct e; simpl in Ea; discriminate.
Qed.

Lemma listener_safe_lemma : forall nthr maxn levs ls,
  lrun true true (linit nthr maxn) levs = Some ls ->
  grun true (init nthr maxn) (api_events levs) = Some (l_st ls).
Proof.
  intros nthr maxn levs ls H. destruct (listener_guarded_lemma levs _ _ (linv_init nthr maxn) H) as [G _]. exact G.
Qed.

Lemma listener_no_dead_pipeline_lemma : forall (nthr maxn : nat) (levs : list levent) (ls : lstate),
  lrun true true (linit nthr maxn) levs = Some ls -> log_ok (st_log (l_st ls)).
Proof.
  intros nthr maxn levs ls H.
  exact (no_dead_pipeline_lemma nthr maxn (api_events levs) (l_st ls) (listener_safe_lemma nthr maxn levs ls H)).
Qed.

Lemma listener_no_loss_lemma : forall (nthr maxn : nat) (levs : list levent) (ls : lstate) (r : rec),
  lrun true true (linit nthr maxn) levs = Some ls ->
  cnt r (delivered_recs (st_log (l_st ls))) + cnt r (buffered (l_st ls)) + cnt r (inflight (l_st ls)) =
  cnt r (acc_of_events (api_events levs)).
Proof.
  intros nthr maxn levs ls r H.
  exact (no_loss_count_lemma nthr maxn (api_events levs) (l_st ls) r (listener_safe_lemma nthr maxn levs ls H)).
Qed.
